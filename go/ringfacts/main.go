// Command ringfacts extracts, from the Go source of core/logging (non-test files, syntax only), the facts the
// concurrent theorem of C20 needs about the in-memory log ring — independently of how the code is shaped:
//
//   - every read or write of the shared ring cursor / ring slots, directly or through helpers of the package under any
//     name, with the mode in which the shared mutex is held at that point (flow analysis of the held lock through
//     explicit Lock/Unlock, `defer X.Unlock()`, `defer func(){ X.Unlock() }()`, branches and loops; a helper is analysed
//     with the lock state of each of its call sites; exported functions and methods start with nothing held);
//   - every value stored into a ring slot: is it an object allocated by this call (possibly before the lock)?
//   - every in-place modification of an object that was read out of a ring slot;
//   - every composite literal of the core type: where does its mutex come from?
//
// Roles are found by declared types, not by names: a "core" is a struct with a field of type *ring.Ring or
// **ring.Ring; its mutex is the field of type (*)sync.(RW)Mutex; a "wrapper" is a struct with a field of core type.
//
//	ringfacts -repo <dir> -out <Lean file>
//
// Anything the analysis cannot follow is listed in `unknowns` (the Lean side requires it to be empty).
package main

import (
	"flag"
	"fmt"
	"go/ast"
	"go/parser"
	"go/token"
	"os"
	"path/filepath"
	"sort"
	"strings"
)

type kind int

const (
	kOther kind = iota
	kFresh
	kFreshMutex
	kCore
	kWrapper
	kMutex
	kEntry
	kRing
	kCell
	kReleaser // a function value that releases the shared mutex when called (`mu.Unlock`, a releaser helper's result)
)

type coreType struct{ ring, cell, mutex map[string]bool }

var (
	fset      = token.NewFileSet()
	cores     = map[string]*coreType{}
	wrappers  = map[string]map[string]bool{} // wrapper struct -> fields of core type
	methods   = map[string]*ast.FuncDecl{}   // "T.m"
	funcs     = map[string]*ast.FuncDecl{}
	globals   = map[string]kind{}
	called    = map[string]bool{}
	releasers = map[string]bool{} // functions whose result is a releaser (`return mu.Unlock`)
	uses      []string
	stores    []string
	mutations []string
	literals  []string
	unknowns  []string
	entries   []string
)

func typeStr(e ast.Expr) string {
	switch t := e.(type) {
	case *ast.StarExpr:
		return "*" + typeStr(t.X)
	case *ast.SelectorExpr:
		return typeStr(t.X) + "." + t.Sel.Name
	case *ast.Ident:
		return t.Name
	case *ast.ParenExpr:
		return typeStr(t.X)
	}
	return "?"
}

func kindOfType(ts string) kind {
	base := strings.TrimLeft(ts, "*")
	switch {
	case ts == "*ring.Ring":
		return kRing
	case ts == "**ring.Ring":
		return kCell
	case base == "sync.RWMutex" || base == "sync.Mutex":
		return kMutex
	case cores[base] != nil:
		return kCore
	case wrappers[base] != nil:
		return kWrapper
	}
	return kOther
}

func recvType(fd *ast.FuncDecl) string {
	if fd.Recv == nil || len(fd.Recv.List) == 0 {
		return ""
	}
	return strings.TrimLeft(typeStr(fd.Recv.List[0].Type), "*")
}

type ctx struct {
	fname  string
	entry  string
	env    map[string]kind
	held   int // 0 none, 1 read, 2 write
	defers int // lock mode released by a deferred unlock at function end (0 = none registered)
	record bool
	depth  int
}

var heldName = []string{".none", ".read", ".write"}

func (c *ctx) use(what string, write bool, pos token.Pos) {
	if c.record {
		uses = append(uses, fmt.Sprintf("{ entry := %q, func := %q, what := %q, write := %v, held := %s, line := %d }",
			c.entry, c.fname, what, write, heldName[c.held], fset.Position(pos).Line))
	}
}

func (c *ctx) unknown(msg string, pos token.Pos) {
	if c.record {
		unknowns = append(unknowns, fmt.Sprintf("%s:%d %s (via %s)", c.fname, fset.Position(pos).Line, msg, c.entry))
	}
}

func (c *ctx) bind(name string, k kind) {
	if name == "_" {
		return
	}
	if old, ok := c.env[name]; !ok || k > old {
		c.env[name] = k // a name keeps the most sensitive kind it is ever given (flat, conservative)
	}
}

func coreOf(k kind) *coreType {
	if k != kCore {
		return nil
	}
	for _, c := range cores {
		return c
	}
	return nil
}

func (c *ctx) kind(e ast.Expr) kind {
	switch x := e.(type) {
	case *ast.Ident:
		if k, ok := c.env[x.Name]; ok {
			return k
		}
		return globals[x.Name]
	case *ast.ParenExpr:
		return c.kind(x.X)
	case *ast.SelectorExpr:
		kx := c.kind(x.X)
		if ct := coreOf(kx); ct != nil {
			switch {
			case ct.ring[x.Sel.Name]:
				return kRing
			case ct.cell[x.Sel.Name]:
				return kCell
			case ct.mutex[x.Sel.Name]:
				return kMutex
			}
		}
		if kx == kWrapper {
			for _, fs := range wrappers {
				if fs[x.Sel.Name] {
					return kCore
				}
			}
		}
		if kx == kRing && x.Sel.Name == "Value" {
			return kEntry
		}
		if kx == kMutex && (x.Sel.Name == "Unlock" || x.Sel.Name == "RUnlock") {
			return kReleaser
		}
		return kOther
	case *ast.FuncLit:
		if len(x.Body.List) == 1 {
			if es, ok := x.Body.List[0].(*ast.ExprStmt); ok {
				if op, ok := c.mutexOp(es.X); ok && (op == "Unlock" || op == "RUnlock") {
					return kReleaser
				}
				if call, ok := es.X.(*ast.CallExpr); ok && c.kind(call.Fun) == kReleaser {
					return kReleaser
				}
			}
		}
		return kOther
	case *ast.StarExpr:
		switch c.kind(x.X) {
		case kCell:
			return kRing
		case kCore:
			return kCore
		}
		return kOther
	case *ast.UnaryExpr:
		if x.Op == token.AND {
			if c.kind(x.X) == kRing {
				return kCell
			}
			if cl, ok := x.X.(*ast.CompositeLit); ok {
				switch kindOfType(typeStr(cl.Type)) {
				case kCore:
					return kCore
				case kMutex:
					return kFreshMutex
				}
				return kFresh
			}
		}
		return kOther
	case *ast.CompositeLit:
		if k := kindOfType(typeStr(x.Type)); k == kCore || k == kWrapper {
			return k
		}
		return kOther
	case *ast.TypeAssertExpr:
		if c.kind(x.X) == kEntry {
			return kEntry
		}
		return kOther
	case *ast.CallExpr:
		if id, ok := x.Fun.(*ast.Ident); ok {
			if id.Name == "new" && len(x.Args) == 1 {
				if kindOfType(typeStr(x.Args[0])) == kMutex {
					return kFreshMutex
				}
				return kFresh
			}
			if fd := funcs[id.Name]; fd != nil {
				return resultKind(fd)
			}
		}
		if s, ok := x.Fun.(*ast.SelectorExpr); ok {
			if typeStr(x.Fun) == "ring.New" {
				return kRing
			}
			kr := c.kind(s.X)
			if kr == kRing {
				switch s.Sel.Name {
				case "Next", "Prev", "Move", "Link", "Unlink":
					return kRing
				}
			}
			if fd := methodOn(kr, s.Sel.Name); fd != nil {
				return resultKind(fd)
			}
		}
	}
	return kOther
}

func resultKind(fd *ast.FuncDecl) kind {
	name := fd.Name.Name
	if r := recvType(fd); r != "" {
		name = r + "." + name
	}
	if releasers[name] {
		return kReleaser
	}
	if fd.Type.Results == nil || len(fd.Type.Results.List) == 0 {
		return kOther
	}
	return kindOfType(typeStr(fd.Type.Results.List[0].Type))
}

func methodOn(k kind, name string) *ast.FuncDecl {
	var names []string
	switch k {
	case kCore:
		for t := range cores {
			names = append(names, t)
		}
	case kWrapper:
		for t := range wrappers {
			names = append(names, t)
		}
	}
	for _, t := range names {
		if fd := methods[t+"."+name]; fd != nil {
			return fd
		}
	}
	return nil
}

// mutexOp: X.Lock() / RLock / Unlock / RUnlock on a mutex-kind expression
func (c *ctx) mutexOp(e ast.Expr) (string, bool) {
	call, ok := e.(*ast.CallExpr)
	if !ok {
		return "", false
	}
	s, ok := call.Fun.(*ast.SelectorExpr)
	if !ok || c.kind(s.X) != kMutex {
		return "", false
	}
	switch s.Sel.Name {
	case "Lock", "RLock", "Unlock", "RUnlock":
		return s.Sel.Name, true
	}
	return "", false
}

func (c *ctx) applyMutex(op string, pos token.Pos) {
	switch op {
	case "Lock":
		if c.held != 0 {
			c.unknown("Lock while the mutex is already held", pos)
		}
		c.held = 2
	case "RLock":
		if c.held == 0 {
			c.held = 1
		}
	case "Unlock", "RUnlock":
		c.held = 0
	}
}

// call: a call into the package, analysed with the caller's lock state
func (c *ctx) call(fd *ast.FuncDecl, args []ast.Expr, pos token.Pos) {
	name := fd.Name.Name
	if r := recvType(fd); r != "" {
		name = r + "." + name
	}
	called[name] = true
	if c.depth > 10 {
		c.unknown("call depth exceeded at "+name, pos)
		return
	}
	var ak []kind
	for _, a := range args {
		ak = append(ak, c.kind(a))
	}
	// the callee's effect on the mutex is the caller's: a helper that only locks (and returns the releaser) IS that
	// lock operation; a leak shows up as an entry point returning with the mutex held
	c.held = analyzeFunc(fd, c.held, ak, c.entry, c.depth+1, c.record)
}

// callValue: a function or method of the package passed as a value (e.g. to Ring.Do) runs with the caller's lock state
func (c *ctx) callValue(e ast.Expr, pk kind) bool {
	var fd *ast.FuncDecl
	switch v := e.(type) {
	case *ast.Ident:
		fd = funcs[v.Name]
	case *ast.SelectorExpr:
		if fd = methodOn(c.kind(v.X), v.Sel.Name); fd == nil {
			// a method value on some other type of the package: found by its name when that is unambiguous
			n := 0
			for key, m := range methods {
				if strings.HasSuffix(key, "."+v.Sel.Name) {
					fd, n = m, n+1
				}
			}
			if n != 1 {
				fd = nil
			}
		}
		if fd != nil {
			c.expr(v.X)
		}
	}
	if fd == nil {
		return false
	}
	name := fd.Name.Name
	if r := recvType(fd); r != "" {
		name = r + "." + name
	}
	called[name] = true
	if c.depth > 10 {
		c.unknown("call depth exceeded at "+name, e.Pos())
		return true
	}
	var ak []kind
	for _, p := range fd.Type.Params.List {
		for range p.Names {
			ak = append(ak, pk)
		}
	}
	saved := c.held
	analyzeFunc(fd, c.held, ak, c.entry, c.depth+1, c.record)
	c.held = saved
	return true
}

func (c *ctx) funcLit(fl *ast.FuncLit, paramKind kind, held int) {
	saved, savedDef := c.held, c.defers
	c.held, c.defers = held, 0
	for _, p := range fl.Type.Params.List {
		for _, n := range p.Names {
			c.bind(n.Name, paramKind)
		}
	}
	c.block(fl.Body.List)
	c.held, c.defers = saved, savedDef
}

func (c *ctx) expr(e ast.Expr) {
	switch x := e.(type) {
	case nil:
	case *ast.ParenExpr:
		c.expr(x.X)
	case *ast.SelectorExpr:
		c.expr(x.X)
		kx := c.kind(x.X)
		if ct := coreOf(kx); ct != nil {
			if ct.ring[x.Sel.Name] {
				c.use("cursor", false, x.Pos())
			}
			if ct.cell[x.Sel.Name] {
				c.use("cell", false, x.Pos())
			}
		}
		if kx == kRing && x.Sel.Name == "Value" {
			c.use("slot", false, x.Pos())
		}
	case *ast.StarExpr:
		c.expr(x.X)
		if c.kind(x.X) == kCell {
			c.use("cursor", false, x.Pos())
		}
	case *ast.UnaryExpr:
		if x.Op == token.AND {
			if s, ok := x.X.(*ast.SelectorExpr); ok && c.kind(x.X) == kRing && c.kind(s.X) == kCore {
				c.expr(s.X) // taking the address of the cursor field reads nothing
				return
			}
		}
		c.expr(x.X)
	case *ast.BinaryExpr:
		c.expr(x.X)
		c.expr(x.Y)
	case *ast.IndexExpr:
		c.expr(x.X)
		c.expr(x.Index)
	case *ast.SliceExpr:
		c.expr(x.X)
		c.expr(x.Low)
		c.expr(x.High)
		c.expr(x.Max)
	case *ast.TypeAssertExpr:
		c.expr(x.X)
	case *ast.KeyValueExpr:
		c.expr(x.Value)
	case *ast.CompositeLit:
		for _, el := range x.Elts {
			c.expr(el)
		}
		if kindOfType(typeStr(x.Type)) == kCore {
			c.coreLiteral(x)
		}
	case *ast.FuncLit:
		if c.kind(x) == kReleaser {
			return
		}
		// a function value that is not called on the spot may run at any time
		c.funcLit(x, kOther, 0)
	case *ast.CallExpr:
		c.callExpr(x)
	}
}

func (c *ctx) callExpr(x *ast.CallExpr) {
	if op, ok := c.mutexOp(x); ok {
		c.applyMutex(op, x.Pos())
		return
	}
	if c.kind(x.Fun) == kReleaser {
		c.expr(x.Fun) // `unlock()`, `mc.locked()()`: evaluate the function expression (it may take the lock), then release
		c.applyMutex("Unlock", x.Pos())
		return
	}
	args := func(pk kind) {
		for _, a := range x.Args {
			if fl, ok := a.(*ast.FuncLit); ok {
				c.funcLit(fl, pk, c.held) // a callback runs during the call
			} else if _, isCall := a.(*ast.CallExpr); !isCall && c.kind(a) != kReleaser && c.callValue(a, pk) {
				// a function / method value of the package: analysed as a callee running now
			} else {
				c.expr(a)
			}
		}
	}
	switch f := x.Fun.(type) {
	case *ast.FuncLit:
		args(kOther)
		c.funcLit(f, kOther, c.held)
		return
	case *ast.Ident:
		args(kOther)
		if fd := funcs[f.Name]; fd != nil {
			c.call(fd, x.Args, x.Pos())
		}
		return
	case *ast.SelectorExpr:
		c.expr(f.X)
		kr := c.kind(f.X)
		if kr == kRing {
			switch f.Sel.Name {
			case "Do":
				c.use("walk", false, x.Pos())
				args(kEntry)
				return
			case "Link", "Unlink":
				c.use("slot", true, x.Pos())
			}
			args(kOther)
			return
		}
		args(kOther)
		if fd := methodOn(kr, f.Sel.Name); fd != nil {
			c.call(fd, x.Args, x.Pos())
		}
		return
	}
	c.expr(x.Fun)
	args(kOther)
}

func (c *ctx) coreLiteral(x *ast.CompositeLit) {
	if !c.record {
		return
	}
	ct := cores[strings.TrimLeft(typeStr(x.Type), "*")]
	src := "missing"
	for _, el := range x.Elts {
		kv, ok := el.(*ast.KeyValueExpr)
		if !ok {
			src = "positional"
			break
		}
		if id, ok := kv.Key.(*ast.Ident); ok && ct.mutex[id.Name] {
			switch c.kind(kv.Value) {
			case kMutex:
				src = "shared"
			case kFreshMutex:
				src = "fresh"
			default:
				src = "other"
			}
		}
	}
	inMethod := false
	for _, e := range c.env {
		if e == kCore || e == kWrapper {
			inMethod = true
		}
	}
	literals = append(literals, fmt.Sprintf("{ func := %q, mutexFrom := %q, fromExistingCore := %v, line := %d }", c.fname, src, inMethod, fset.Position(x.Pos()).Line))
}

func (c *ctx) assign(lhs ast.Expr, rhs ast.Expr) {
	switch l := lhs.(type) {
	case *ast.Ident:
		if rhs != nil {
			c.bind(l.Name, c.kind(rhs))
		}
		return
	case *ast.SelectorExpr:
		c.expr(l.X)
		kx := c.kind(l.X)
		if ct := coreOf(kx); ct != nil {
			if ct.ring[l.Sel.Name] {
				c.use("cursor", true, l.Pos())
			}
			if ct.cell[l.Sel.Name] {
				c.use("cell", true, l.Pos())
			}
			return
		}
		if kx == kRing && l.Sel.Name == "Value" {
			c.use("slot", true, l.Pos())
			if c.record {
				fresh := rhs != nil && c.kind(rhs) == kFresh
				stores = append(stores, fmt.Sprintf("{ entry := %q, func := %q, fresh := %v, line := %d }", c.entry, c.fname, fresh, fset.Position(l.Pos()).Line))
			}
			return
		}
		if kx == kEntry && c.record {
			mutations = append(mutations, fmt.Sprintf("{ entry := %q, func := %q, line := %d }", c.entry, c.fname, fset.Position(l.Pos()).Line))
		}
	case *ast.StarExpr:
		c.expr(l.X)
		switch c.kind(l.X) {
		case kCell:
			c.use("cursor", true, l.Pos())
		case kEntry:
			if c.record {
				mutations = append(mutations, fmt.Sprintf("{ entry := %q, func := %q, line := %d }", c.entry, c.fname, fset.Position(l.Pos()).Line))
			}
		}
	case *ast.IndexExpr:
		c.expr(l.X)
		c.expr(l.Index)
		if c.kind(l.X) == kEntry && c.record {
			mutations = append(mutations, fmt.Sprintf("{ entry := %q, func := %q, line := %d }", c.entry, c.fname, fset.Position(l.Pos()).Line))
		}
	default:
		c.expr(lhs)
	}
}

func terminates(list []ast.Stmt) bool {
	if len(list) == 0 {
		return false
	}
	switch s := list[len(list)-1].(type) {
	case *ast.ReturnStmt:
		return true
	case *ast.ExprStmt:
		if call, ok := s.X.(*ast.CallExpr); ok {
			if id, ok := call.Fun.(*ast.Ident); ok && id.Name == "panic" {
				return true
			}
		}
	}
	return false
}

func minInt(a, b int) int {
	if a < b {
		return a
	}
	return b
}

// branches: run alternatives from the same lock state; afterwards the weakest state of those that fall through
func (c *ctx) branches(alts [][]ast.Stmt, mayskip bool) {
	start := c.held
	res := -1
	if mayskip {
		res = start
	}
	for _, a := range alts {
		c.held = start
		c.block(a)
		if !terminates(a) {
			if res < 0 {
				res = c.held
			} else {
				if res != c.held {
					c.unknown("branches leave the mutex in different modes", a[0].Pos())
				}
				res = minInt(res, c.held)
			}
		}
	}
	if res < 0 {
		res = start
	}
	c.held = res
}

func (c *ctx) block(list []ast.Stmt) {
	for _, s := range list {
		c.stmt(s)
	}
}

func (c *ctx) stmt(s ast.Stmt) {
	switch x := s.(type) {
	case nil:
	case *ast.ExprStmt:
		c.expr(x.X)
	case *ast.DeferStmt:
		// `defer X.Unlock()` and `defer func(){ X.Unlock() }()`: the lock stays held to the end of the function
		if op, ok := c.mutexOp(x.Call); ok && (op == "Unlock" || op == "RUnlock") {
			c.defers = c.held
			return
		}
		if fl, ok := x.Call.Fun.(*ast.FuncLit); ok && len(fl.Body.List) == 1 {
			if es, ok := fl.Body.List[0].(*ast.ExprStmt); ok {
				if op, ok := c.mutexOp(es.X); ok && (op == "Unlock" || op == "RUnlock") {
					c.defers = c.held
					return
				}
			}
		}
		if c.kind(x.Call.Fun) == kReleaser {
			c.expr(x.Call.Fun) // `defer mc.locked()()` takes the lock now and releases it at the end; `defer unlock()`
			c.defers = c.held
			return
		}
		c.expr(x.Call) // any other deferred call: analysed in the lock state of the defer statement
	case *ast.GoStmt:
		saved := c.held
		c.held = 0
		c.expr(x.Call)
		c.held = saved
	case *ast.AssignStmt:
		for _, r := range x.Rhs {
			c.expr(r)
		}
		for i, l := range x.Lhs {
			var r ast.Expr
			if len(x.Rhs) == len(x.Lhs) {
				r = x.Rhs[i]
			} else if i == 0 && len(x.Rhs) == 1 {
				r = x.Rhs[0] // v, ok := e.(T) / v, ok := m[k]: the first name gets the value
			}
			c.assign(l, r)
		}
	case *ast.DeclStmt:
		if gd, ok := x.Decl.(*ast.GenDecl); ok {
			for _, sp := range gd.Specs {
				if vs, ok := sp.(*ast.ValueSpec); ok {
					for i, n := range vs.Names {
						if i < len(vs.Values) {
							c.expr(vs.Values[i])
							c.bind(n.Name, c.kind(vs.Values[i]))
						} else if vs.Type != nil {
							c.bind(n.Name, kindOfType(typeStr(vs.Type)))
						}
					}
				}
			}
		}
	case *ast.IncDecStmt:
		c.expr(x.X)
	case *ast.ReturnStmt:
		for _, r := range x.Results {
			c.expr(r)
		}
	case *ast.BlockStmt:
		c.block(x.List)
	case *ast.IfStmt:
		c.stmt(x.Init)
		c.expr(x.Cond)
		alts := [][]ast.Stmt{x.Body.List}
		mayskip := true
		if x.Else != nil {
			alts = append(alts, []ast.Stmt{x.Else})
			mayskip = false
		}
		c.branches(alts, mayskip)
	case *ast.ForStmt:
		c.stmt(x.Init)
		c.expr(x.Cond)
		c.branches([][]ast.Stmt{append(append([]ast.Stmt(nil), x.Body.List...), x.Post)}, true)
	case *ast.RangeStmt:
		c.expr(x.X)
		c.branches([][]ast.Stmt{x.Body.List}, true)
	case *ast.SwitchStmt:
		c.stmt(x.Init)
		c.expr(x.Tag)
		c.clauses(x.Body)
	case *ast.TypeSwitchStmt:
		c.stmt(x.Init)
		c.stmt(x.Assign)
		c.clauses(x.Body)
	case *ast.SelectStmt:
		c.clauses(x.Body)
	case *ast.LabeledStmt:
		c.stmt(x.Stmt)
	case *ast.SendStmt:
		c.expr(x.Chan)
		c.expr(x.Value)
	}
}

func (c *ctx) clauses(b *ast.BlockStmt) {
	var alts [][]ast.Stmt
	hasDefault := false
	for _, cl := range b.List {
		switch cc := cl.(type) {
		case *ast.CaseClause:
			for _, e := range cc.List {
				c.expr(e)
			}
			if cc.List == nil {
				hasDefault = true
			}
			alts = append(alts, cc.Body)
		case *ast.CommClause:
			c.stmt(cc.Comm)
			if cc.Comm == nil {
				hasDefault = true
			}
			alts = append(alts, cc.Body)
		}
	}
	c.branches(alts, !hasDefault)
}

// analyzeFunc returns the lock mode the function returns with, given the mode it is called with
func analyzeFunc(fd *ast.FuncDecl, held int, argKinds []kind, entry string, depth int, record bool) int {
	if fd.Body == nil {
		return held
	}
	name := fd.Name.Name
	if r := recvType(fd); r != "" {
		name = r + "." + name
	}
	var end int
	// two passes: the first only learns what the local names can hold, the second records
	env := map[string]kind{}
	for pass := 0; pass < 2; pass++ {
		c := &ctx{fname: name, entry: entry, env: env, held: held, record: record && pass == 1, depth: depth}
		if fd.Recv != nil && len(fd.Recv.List) > 0 && len(fd.Recv.List[0].Names) > 0 {
			c.bind(fd.Recv.List[0].Names[0].Name, kindOfType(typeStr(fd.Recv.List[0].Type)))
		}
		i := 0
		for _, p := range fd.Type.Params.List {
			for _, n := range p.Names {
				k := kindOfType(typeStr(p.Type))
				if i < len(argKinds) && argKinds[i] > k {
					k = argKinds[i]
				}
				c.bind(n.Name, k)
				i++
			}
		}
		c.block(fd.Body.List)
		end = c.held
		if c.defers != 0 {
			end = 0
		}
	}
	return end
}

func leanList(name, typ string, items []string) string {
	if len(items) == 0 {
		return fmt.Sprintf("def %s : List %s := []\n", name, typ)
	}
	return fmt.Sprintf("def %s : List %s := [\n  %s ]\n", name, typ, strings.Join(items, ",\n  "))
}

func dedup(xs []string) []string {
	seen := map[string]bool{}
	var out []string
	for _, x := range xs {
		if !seen[x] {
			seen[x] = true
			out = append(out, x)
		}
	}
	return out
}

func main() {
	repo := flag.String("repo", "/repo", "working tree of 0chain/common")
	out := flag.String("out", "", "Lean file to write")
	flag.Parse()
	dir := filepath.Join(*repo, "core", "logging")
	pkgs, err := parser.ParseDir(fset, dir, func(fi os.FileInfo) bool { return !strings.HasSuffix(fi.Name(), "_test.go") }, 0)
	if err != nil {
		fmt.Fprintln(os.Stderr, "ringfacts:", err)
		os.Exit(1)
	}
	var files []*ast.File
	for _, p := range pkgs {
		var names []string
		for n := range p.Files {
			names = append(names, n)
		}
		sort.Strings(names)
		for _, n := range names {
			files = append(files, p.Files[n])
		}
	}
	// 1. roles by declared types
	structs := map[string]*ast.StructType{}
	for _, f := range files {
		for _, d := range f.Decls {
			if gd, ok := d.(*ast.GenDecl); ok {
				for _, sp := range gd.Specs {
					if ts, ok := sp.(*ast.TypeSpec); ok {
						if st, ok := ts.Type.(*ast.StructType); ok {
							structs[ts.Name.Name] = st
						}
					}
				}
			}
		}
	}
	for name, st := range structs {
		ct := &coreType{map[string]bool{}, map[string]bool{}, map[string]bool{}}
		for _, fl := range st.Fields.List {
			ts := typeStr(fl.Type)
			for _, n := range fl.Names {
				switch {
				case ts == "*ring.Ring":
					ct.ring[n.Name] = true
				case ts == "**ring.Ring":
					ct.cell[n.Name] = true
				case strings.TrimLeft(ts, "*") == "sync.RWMutex" || strings.TrimLeft(ts, "*") == "sync.Mutex":
					ct.mutex[n.Name] = true
				}
			}
		}
		if len(ct.ring)+len(ct.cell) > 0 {
			cores[name] = ct
		}
	}
	for name, st := range structs {
		for _, fl := range st.Fields.List {
			if cores[strings.TrimLeft(typeStr(fl.Type), "*")] != nil && cores[name] == nil {
				if wrappers[name] == nil {
					wrappers[name] = map[string]bool{}
				}
				for _, n := range fl.Names {
					wrappers[name][n.Name] = true
				}
			}
		}
	}
	for _, f := range files {
		for _, d := range f.Decls {
			switch x := d.(type) {
			case *ast.FuncDecl:
				if r := recvType(x); r != "" {
					methods[r+"."+x.Name.Name] = x
				} else {
					funcs[x.Name.Name] = x
				}
			case *ast.GenDecl:
				if x.Tok == token.VAR {
					for _, sp := range x.Specs {
						if vs, ok := sp.(*ast.ValueSpec); ok && vs.Type != nil {
							for _, n := range vs.Names {
								globals[n.Name] = kindOfType(typeStr(vs.Type))
							}
						}
					}
				}
			}
		}
	}
	// functions that return a releaser: some `return X.Unlock` / `return X.RUnlock` / `return func() { X.Unlock() }`
	for _, f := range files {
		for _, d := range f.Decls {
			fd, ok := d.(*ast.FuncDecl)
			if !ok || fd.Body == nil {
				continue
			}
			name := fd.Name.Name
			if r := recvType(fd); r != "" {
				name = r + "." + name
			}
			ast.Inspect(fd.Body, func(n ast.Node) bool {
				if _, ok := n.(*ast.FuncLit); ok {
					return false
				}
				if rs, ok := n.(*ast.ReturnStmt); ok && len(rs.Results) == 1 {
					switch v := rs.Results[0].(type) {
					case *ast.SelectorExpr:
						if v.Sel.Name == "Unlock" || v.Sel.Name == "RUnlock" {
							releasers[name] = true
						}
					case *ast.FuncLit:
						if len(v.Body.List) == 1 {
							if es, ok := v.Body.List[0].(*ast.ExprStmt); ok {
								if call, ok := es.X.(*ast.CallExpr); ok {
									if sel, ok := call.Fun.(*ast.SelectorExpr); ok && (sel.Sel.Name == "Unlock" || sel.Sel.Name == "RUnlock") {
										releasers[name] = true
									}
								}
							}
						}
					}
				}
				return true
			})
		}
	}
	// 2. which functions are called inside the package (silent pass), then the entry points: exported ones and
	// those never called from inside the package
	all := map[string]*ast.FuncDecl{}
	for n, fd := range methods {
		all[n] = fd
	}
	for n, fd := range funcs {
		all[n] = fd
	}
	var names []string
	for n := range all {
		names = append(names, n)
	}
	sort.Strings(names)
	for _, n := range names {
		analyzeFunc(all[n], 0, nil, n, 0, false)
	}
	for _, n := range names {
		fd := all[n]
		if fd.Name.IsExported() || !called[n] {
			entries = append(entries, fmt.Sprintf("%q", n))
			if end := analyzeFunc(fd, 0, nil, n, 0, true); end != 0 {
				unknowns = append(unknowns, n+" returns with the mutex still held")
			}
		}
	}
	nmutex, ncores := 0, 0
	for _, ct := range cores {
		ncores++
		nmutex += len(ct.mutex)
	}
	if ncores != 1 {
		unknowns = append(unknowns, fmt.Sprintf("expected exactly one struct with a *ring.Ring / **ring.Ring field, found %d", ncores))
	}
	var b strings.Builder
	b.WriteString("-- GENERATED by go/ringfacts from core/logging of the working tree. Do not edit: bin/check regenerates this file\n")
	b.WriteString("-- before every Lean build of C20. Schema and rules: go/ringfacts/main.go, notes/C20.md.\n")
	b.WriteString("namespace Verif.Gen.RingFacts\n\n")
	b.WriteString("/-- mode in which the shared mutex is held -/\ninductive Held | none | read | write\n  deriving DecidableEq, Repr\n\n")
	b.WriteString("/-- one access to shared ring state (`what`: cursor = the ring position, cell = the pointer to the shared cursor\ncell, slot = a slot's value, walk = `Ring.Do` over all slots), reached from the entry point `entry` -/\n")
	b.WriteString("structure Use where\n  entry : String\n  func : String\n  what : String\n  write : Bool\n  held : Held\n  line : Nat\n  deriving DecidableEq, Repr\n\n")
	b.WriteString("/-- a value stored into a ring slot; `fresh` = an object allocated during this call -/\nstructure Store where\n  entry : String\n  func : String\n  fresh : Bool\n  line : Nat\n  deriving DecidableEq, Repr\n\n")
	b.WriteString("/-- an in-place modification of an object read out of a ring slot -/\nstructure Mutation where\n  entry : String\n  func : String\n  line : Nat\n  deriving DecidableEq, Repr\n\n")
	b.WriteString("/-- a composite literal of the core type; `mutexFrom`: shared (an existing core's mutex) | fresh | missing | other -/\nstructure CoreLit where\n  func : String\n  mutexFrom : String\n  fromExistingCore : Bool\n  line : Nat\n  deriving DecidableEq, Repr\n\n")
	b.WriteString(leanList("uses", "Use", dedup(uses)) + "\n")
	b.WriteString(leanList("stores", "Store", dedup(stores)) + "\n")
	b.WriteString(leanList("mutations", "Mutation", dedup(mutations)) + "\n")
	b.WriteString(leanList("coreLiterals", "CoreLit", dedup(literals)) + "\n")
	b.WriteString(leanList("entryPoints", "String", entries) + "\n")
	var uq []string
	for _, u := range dedup(unknowns) {
		uq = append(uq, fmt.Sprintf("%q", u))
	}
	b.WriteString(leanList("unknowns", "String", uq) + "\n")
	b.WriteString(fmt.Sprintf("def mutexFields : Nat := %d\n\nend Verif.Gen.RingFacts\n", nmutex))
	if *out == "" {
		fmt.Print(b.String())
		return
	}
	if err := os.WriteFile(*out, []byte(b.String()), 0o644); err != nil {
		fmt.Fprintln(os.Stderr, "ringfacts:", err)
		os.Exit(1)
	}
	fmt.Println("ringfacts: wrote", *out)
}
