module ringfacts

go 1.21
