package main

// Suite c11 — committed trie is recoverable; GC keeps live nodes (op language and oracles: wmptrun.go).
//
// After every commit batch and every GC pass the runner reopens (last committed root, weight) on the same storage and
// compares weight, the owner of every block, every value and the verification of every proof with the oracle content;
// at the end of the case every prefix of the storage-operation stream (batches atomic) is replayed onto an empty store
// and the last durably committed root of that prefix must resolve completely (crash enumeration).
//
// The generator stresses the GC bookkeeping: delete + re-add of identical content inside one commit window and across
// windows, same-value rewrites, hash reads (root / owner / owners / proof) on a dirty trie before its commit, several
// GC passes in a row and in any position, reloads. One case in four draws values from a small shared pool, so that
// two live keys carry byte-equal values (matcher condition of the open finding C11-F2).

import (
	"math/rand"
	"time"
)

func genC11(r *rand.Rand, tier string, idx int) []string {
	nkeys := 2 + r.Intn(7)
	g := newWgen(r, nkeys, idx%4 == 3)
	maxOps := 24
	if tier == "thorough" {
		maxOps = 60
	}
	n := 5 + r.Intn(maxOps)
	gcDirty := idx%5 == 4 // GC passes while changes are uncommitted only in these cases
	for k := 0; k < n; k++ {
		switch x := r.Intn(100); {
		case x < 50:
			g.mutate()
		case x < 68:
			if idx%6 == 5 && r.Intn(2) == 0 {
				// Commit only RETURNS its batch; the caller writes it — with GC passes (and reads) in between
				g.emit("commitb %d", r.Intn(8)-1)
				for k := r.Intn(4); k > 0; k-- {
					// (no node-resolving reads here: what the Commit collapsed to references exists only in the unwritten batch —
					// the caller writes the batch before using the trie again; notes/C11.md)
					g.emit([]string{"gc", "gc", "root"}[r.Intn(3)])
				}
				g.emit("wbatch")
				g.commitd = map[string][]byte{}
				for k, v := range g.live {
					g.commitd[k] = v
				}
				g.dirty = false
			} else {
				g.commit()
			}
			for r.Intn(2) == 0 {
				g.emit("gc")
			}
		case x < 78:
			if !g.dirty || gcDirty {
				g.emit("gc")
			}
		case x < 84:
			if g.dirty {
				g.commit()
			}
			g.reload()
		case x < 90:
			g.emit("root") // possibly on a dirty trie, before its commit
		case x < 94:
			if t := g.total(); t > 0 {
				g.emit("owner %d", 1+r.Intn(t))
			}
		case x < 97:
			g.emit("owners")
		default:
			if t := g.total(); t > 0 {
				g.emit("proof %d 0", 1+r.Intn(t))
			}
		}
	}
	g.commit()
	g.emit("gc")
	g.emit("gc")
	g.emit("gc")
	g.emit("owners")
	return g.ops
}

func init() {
	register(&Suite{
		Name:        "c11",
		Rule:        "histories of 5..28 (thorough ..64) ops over 2..8 keys: update / same-value rewrite / delete / delete+re-add of identical content, hash reads on a dirty trie, commit at collapse levels -1..6, one or more GC passes in any position (one case in five also while changes are uncommitted), reload; every fourth case uses a shared value pool (equal values under different keys); reopen check after every batch and GC pass, crash enumeration over all prefixes of the storage-operation stream; non-trivial = at least 2 mutations and one commit",
		Gen:         genC11,
		Run:         runWmpt,
		CaseTimeout: 3 * time.Minute, // a stalled machine must not look like a hang; a real hang still fails the case
		DefaultN: func(tier string) int {
			if tier == "thorough" {
				return 80000
			}
			return 2000
		},
	})
}
