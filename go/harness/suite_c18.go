package main

// Suite c18 — currency arithmetic is exact or fails loudly (core/currency/currency.go).
//
// Op language (one call per line; coins are decimal uint64, int64 arguments are signed decimals, floats are the
// 16-hex-digit bit pattern of math.Float64bits):
//
//	mul <a> <b>   add <a> <b>   sub <a> <b>   min <a> <b>       MultCoin AddCoin MinusCoin Min
//	addi <c> <i>  subi <c> <i>  dist <c> <i>                    AddInt64 MinusInt64 DistributeCoin
//	i2c <i>       c2i <c>                                       Int64ToCoin Coin.Int64
//	f2c <x>       mulf <c> <x>  c2f <c>                         Float64ToCoin MultFloat64 Coin.Float64
//	parse <x> <coeff> <exp>                                     ParseZCN(x); coeff·10^exp is decimal.NewFromFloat(x)
//	                                                            (0 0 for NaN/±Inf), computed by the generator
//	tozcn <c>                                                   Coin.ToZCN
//	rt <c> <coeff> <exp>                                        ParseZCN(ToZCN(c)); coeff/exp as for parse
//	menc <c> <prefixhex|->                                      Coin.MarshalMsg(prefix) (currency_gen.go); output "ok <hex> <Msgsize>"
//	mdec <hex|->                                                (*Coin).UnmarshalMsg; "ok <c> <rest|->" | "err short" |
//	                                                            "err belowzero <v>" | "err badtype <t>" | "err invalidprefix <b>"
//	fmul <x> <y>  flt <x> <y>  fle <x> <y>  feq <x> <y>  u2f <c>  f2u <x>
//	                                                            the compiled float operations themselves (they pin the
//	                                                            Lean float model; no currency code involved)
//
// Outputs: "ok <value(s)>" | "err <message with _ for blanks>[ nonzero]" | "panic". Float results are printed as bit
// patterns ("nan" for any NaN), int64 results signed.
//
// Oracle (independent of the code under test, math/big only): the exact result when it is representable in the
// result type, otherwise an error is REQUIRED; never a wrapped or saturated amount; never a panic. Error KINDS are
// not the oracle's business — they are compared with the model generated from the source (correspondence).

import (
	"fmt"
	"math"
	"math/big"
	"math/rand"
	"strconv"
	"strings"

	"github.com/0chain/common/core/currency"
	"github.com/shopspring/decimal"
	"github.com/tinylib/msgp/msgp"
)

var (
	bigTwo64  = new(big.Int).Lsh(big.NewInt(1), 64)
	bigMaxI64 = big.NewInt(math.MaxInt64)
	bigTen10  = new(big.Int).Exp(big.NewInt(10), big.NewInt(10), nil)
)

func errOut(err error, vals ...uint64) string {
	s := "err " + strings.ReplaceAll(err.Error(), " ", "_")
	for _, v := range vals {
		if v != 0 {
			return s + " nonzero" // a value returned together with an error must be the zero value
		}
	}
	return s
}

func fbits(f float64) string {
	if f != f {
		return "nan"
	}
	return fmt.Sprintf("%016x", math.Float64bits(f))
}

func parseF(s string) float64 {
	b, err := strconv.ParseUint(s, 16, 64)
	if err != nil || len(s) != 16 {
		panic("bad float bits in op line: " + s)
	}
	return math.Float64frombits(b)
}

func parseU(s string) uint64 {
	v, err := strconv.ParseUint(s, 10, 64)
	if err != nil {
		panic("bad uint64 in op line: " + s)
	}
	return v
}

func parseI(s string) int64 {
	v, err := strconv.ParseInt(s, 10, 64)
	if err != nil {
		panic("bad int64 in op line: " + s)
	}
	return v
}

func bu(v uint64) *big.Int { return new(big.Int).SetUint64(v) }

// exactFloat: the exact value of a finite float64
func exactFloat(f float64) *big.Float { return new(big.Float).SetPrec(2200).SetFloat64(f) }

// nearest float64 of an exact big.Float (round to nearest even, gradual underflow, overflow to Inf)
func nearest64(x *big.Float) float64 { f, _ := x.Float64(); return f }

// floorCoin: want for converting the float p to a coin: (value, true) or (_, false) when an error is required
func floorCoin(p float64) (*big.Int, bool) {
	if p != p || math.IsInf(p, 0) {
		return nil, false
	}
	if p < 0 { // -0 is not < 0: it converts to 0
		return nil, false
	}
	i, _ := exactFloat(p).Int(nil) // truncation toward zero
	if i.Cmp(bigTwo64) >= 0 {
		return nil, false
	}
	return i, true
}

// shortest round-trip decimal of a finite float by strconv (independent of shopspring): coeff·10^exp, coeff without
// trailing zeros (0·10^0 for zero)
func shortestDec(f float64) (*big.Int, int) {
	s := strconv.FormatFloat(f, 'e', -1, 64) // d.ddddde±xx
	mant, exps, _ := strings.Cut(s, "e")
	e, _ := strconv.Atoi(exps)
	neg := strings.HasPrefix(mant, "-")
	mant = strings.TrimPrefix(mant, "-")
	ip, fp, _ := strings.Cut(mant, ".")
	digits := ip + fp
	e -= len(fp)
	for len(digits) > 1 && strings.HasSuffix(digits, "0") {
		digits = digits[:len(digits)-1]
		e++
	}
	c, _ := new(big.Int).SetString(digits, 10)
	if c.Sign() == 0 {
		return c, 0
	}
	if neg {
		c.Neg(c)
	}
	return c, e
}

// wantParse: ParseZCN's required outcome for the decimal coeff·10^exp
func wantParse(c *big.Int, exp int) (*big.Int, bool) {
	if c.Sign() < 0 {
		return nil, false
	}
	e := exp + 10
	v := new(big.Int).Set(c)
	if e >= 0 {
		v.Mul(v, new(big.Int).Exp(big.NewInt(10), big.NewInt(int64(e)), nil))
	} else {
		q, r := new(big.Int).QuoRem(v, new(big.Int).Exp(big.NewInt(10), big.NewInt(int64(-e)), nil), new(big.Int))
		if r.Sign() != 0 {
			return nil, false
		}
		v = q
	}
	if v.Cmp(bigMaxI64) > 0 {
		return nil, false
	}
	return v, true
}

func sigDigits(c uint64) int {
	if c == 0 {
		return 0
	}
	s := strings.TrimRight(strconv.FormatUint(c, 10), "0")
	return len(s)
}

func decTokens(f float64) string {
	if f != f || math.IsInf(f, 0) {
		return "0 0"
	}
	d := decimal.NewFromFloat(f)
	return d.Coefficient().String() + " " + strconv.Itoa(int(d.Exponent()))
}

// nearestRat: the binary64 nearest (ties to even) to the positive rational n/d, by integer arithmetic only
// (math/big.Int; no big.Float / big.Rat rounding involved). Normal range only (all uses here are ≥ 10^-10).
func nearestRat(n, d *big.Int) float64 {
	if n.Sign() == 0 {
		return 0
	}
	// e with 2^52 ≤ n/d·2^-e < 2^53
	e := n.BitLen() - d.BitLen() - 53
	scaled := func(e int) (*big.Int, *big.Int) {
		if e >= 0 {
			return new(big.Int).Set(n), new(big.Int).Lsh(d, uint(e))
		}
		return new(big.Int).Lsh(n, uint(-e)), new(big.Int).Set(d)
	}
	two52, two53 := new(big.Int).Lsh(big.NewInt(1), 52), new(big.Int).Lsh(big.NewInt(1), 53)
	var q, r, dd *big.Int
	for {
		var nn *big.Int
		nn, dd = scaled(e)
		q, r = new(big.Int).QuoRem(nn, dd, new(big.Int))
		if q.Cmp(two52) < 0 {
			e--
		} else if q.Cmp(two53) >= 0 {
			e++
		} else {
			break
		}
	}
	switch new(big.Int).Lsh(r, 1).Cmp(dd) {
	case 1:
		q.Add(q, big.NewInt(1))
	case 0:
		if q.Bit(0) == 1 {
			q.Add(q, big.NewInt(1))
		}
	}
	return math.Ldexp(float64(q.Uint64()), e) // q ≤ 2^53 is exact in float64; Ldexp by a power of two is exact here
}

func tozcnWant(c uint64) float64 { return nearestRat(bu(c), bigTen10) }

// coinFloatWant: float64(c) as IEEE prescribes (nearest, ties to even)
func coinFloatWant(c uint64) float64 { return nearestRat(bu(c), big.NewInt(1)) }

//go:noinline
func rawF2U(f float64) uint64 { return uint64(f) }

//go:noinline
func rawMul(a, b float64) float64 { return a * b }

func runC18(ops []string) CaseResult {
	res := CaseResult{}
	tags := map[string]bool{}
	fail := func(i int, f string, a ...interface{}) {
		res.Fails = append(res.Fails, fmt.Sprintf("op %d (%s): ", i, ops[i])+fmt.Sprintf(f, a...))
	}
	for i, op := range ops {
		f := strings.Fields(op)
		var out string
		// expectExact: oracle for "exact value or an error is required"
		expectExact := func(want *big.Int, representable bool, signed bool) {
			switch {
			case out == "panic":
				fail(i, "panicked")
			case strings.HasSuffix(out, " nonzero"):
				fail(i, "returned a non-zero value together with an error: %s", out)
			case representable:
				if out != "ok "+want.String() {
					fail(i, "returned %q, the exact result %s is representable", out, want)
				}
			default:
				if !strings.HasPrefix(out, "err ") {
					why := "is not representable"
					if want == nil {
						why = "does not exist"
					}
					fail(i, "returned %q, but the exact result %v %s: an error is required", out, want, why)
				}
			}
			_ = signed
		}
		switch f[0] {
		case "mul", "add", "sub", "min":
			a, b := parseU(f[1]), parseU(f[2])
			out = guard(func() string {
				var v currency.Coin
				var err error
				switch f[0] {
				case "mul":
					v, err = currency.MultCoin(currency.Coin(a), currency.Coin(b))
				case "add":
					v, err = currency.AddCoin(currency.Coin(a), currency.Coin(b))
				case "sub":
					v, err = currency.MinusCoin(currency.Coin(a), currency.Coin(b))
				default:
					v = currency.Min(currency.Coin(a), currency.Coin(b))
				}
				if err != nil {
					return errOut(err, uint64(v))
				}
				return "ok " + strconv.FormatUint(uint64(v), 10)
			})
			var w *big.Int
			switch f[0] {
			case "mul":
				w = new(big.Int).Mul(bu(a), bu(b))
			case "add":
				w = new(big.Int).Add(bu(a), bu(b))
			case "sub":
				w = new(big.Int).Sub(bu(a), bu(b))
			default:
				w = bu(a)
				if bu(b).Cmp(w) < 0 {
					w = bu(b)
				}
			}
			expectExact(w, w.Sign() >= 0 && w.Cmp(bigTwo64) < 0, false)
		case "addi", "subi":
			c, a := parseU(f[1]), parseI(f[2])
			out = guard(func() string {
				var v currency.Coin
				var err error
				if f[0] == "addi" {
					v, err = currency.AddInt64(currency.Coin(c), a)
				} else {
					v, err = currency.MinusInt64(currency.Coin(c), a)
				}
				if err != nil {
					return errOut(err, uint64(v))
				}
				return "ok " + strconv.FormatUint(uint64(v), 10)
			})
			// the int64 argument is first converted to a Coin: a negative argument has no Coin value
			if a < 0 {
				expectExact(nil, false, false)
			} else {
				w := new(big.Int).Add(bu(c), big.NewInt(a))
				if f[0] == "subi" {
					w = new(big.Int).Sub(bu(c), big.NewInt(a))
				}
				expectExact(w, w.Sign() >= 0 && w.Cmp(bigTwo64) < 0, false)
			}
		case "dist":
			c, a := parseU(f[1]), parseI(f[2])
			out = guard(func() string {
				q, r, err := currency.DistributeCoin(currency.Coin(c), a)
				if err != nil {
					return errOut(err, uint64(q), uint64(r))
				}
				return "ok " + strconv.FormatUint(uint64(q), 10) + " " + strconv.FormatUint(uint64(r), 10)
			})
			switch {
			case out == "panic":
				fail(i, "panicked")
			case strings.HasSuffix(out, " nonzero"):
				fail(i, "returned a non-zero value together with an error: %s", out)
			case a <= 0:
				if !strings.HasPrefix(out, "err ") {
					fail(i, "returned %q for a non-positive number of parts: an error is required", out)
				}
			default:
				q, r := new(big.Int).QuoRem(bu(c), big.NewInt(a), new(big.Int))
				if out != "ok "+q.String()+" "+r.String() {
					fail(i, "returned %q, exact quotient and remainder are %s %s", out, q, r)
				}
			}
		case "i2c":
			a := parseI(f[1])
			out = guard(func() string {
				v, err := currency.Int64ToCoin(a)
				if err != nil {
					return errOut(err, uint64(v))
				}
				return "ok " + strconv.FormatUint(uint64(v), 10)
			})
			expectExact(big.NewInt(a), a >= 0, false)
		case "c2i":
			c := parseU(f[1])
			out = guard(func() string {
				v, err := currency.Coin(c).Int64()
				if err != nil {
					return errOut(err, uint64(v))
				}
				return "ok " + strconv.FormatInt(v, 10)
			})
			expectExact(bu(c), c <= math.MaxInt64, true)
		case "f2c":
			x := parseF(f[1])
			out = guard(func() string {
				v, err := currency.Float64ToCoin(x)
				if err != nil {
					return errOut(err, uint64(v))
				}
				return "ok " + strconv.FormatUint(uint64(v), 10)
			})
			w, okw := floorCoin(x)
			expectExact(w, okw, false)
		case "mulf":
			c, a := parseU(f[1]), parseF(f[2])
			out = guard(func() string {
				v, err := currency.MultFloat64(currency.Coin(c), a)
				if err != nil {
					return errOut(err, uint64(v))
				}
				return "ok " + strconv.FormatUint(uint64(v), 10)
			})
			// IEEE: float64(c) is the nearest double of c, the product is the nearest double of the exact product
			var w *big.Int
			okw := false
			switch {
			case a != a, a < 0, math.IsInf(a, 0):
			default:
				fc := coinFloatWant(c)
				p := nearest64(new(big.Float).SetPrec(2200).Mul(exactFloat(fc), exactFloat(a)))
				w, okw = floorCoin(p)
			}
			expectExact(w, okw, false)
		case "c2f":
			c := parseU(f[1])
			out = guard(func() string {
				v, err := currency.Coin(c).Float64()
				if err != nil {
					return "err " + strings.ReplaceAll(err.Error(), " ", "_")
				}
				return "ok " + fbits(v)
			})
			if want := "ok " + fbits(coinFloatWant(c)); out != want {
				fail(i, "returned %q, the nearest float64 of the amount is %s", out, want)
			}
		case "parse":
			x := parseF(f[1])
			out = guard(func() string {
				v, err := currency.ParseZCN(x)
				if err != nil {
					return errOut(err, uint64(v))
				}
				return "ok " + strconv.FormatUint(uint64(v), 10)
			})
			if x != x || math.IsInf(x, 0) {
				expectExact(nil, false, false)
			} else {
				sc, se := shortestDec(x)
				if got := decTokens(x); got != sc.String()+" "+strconv.Itoa(se) || got != f[2]+" "+f[3] {
					fail(i, "library assumption broken: decimal.NewFromFloat = %s, strconv shortest = %s %d, op line %s %s", got, sc, se, f[2], f[3])
				}
				w, okw := wantParse(sc, se)
				expectExact(w, okw, false)
			}
		case "tozcn":
			c := parseU(f[1])
			out = guard(func() string {
				v, err := currency.Coin(c).ToZCN()
				if err != nil {
					return "err " + strings.ReplaceAll(err.Error(), " ", "_")
				}
				return "ok " + fbits(v)
			})
			switch {
			case out == "panic":
				fail(i, "panicked")
			case c > math.MaxInt64:
				if !strings.HasPrefix(out, "err ") {
					fail(i, "returned %q for an amount above MaxInt64: an error is required", out)
				}
			default:
				if want := "ok " + fbits(tozcnWant(c)); out != want {
					fail(i, "returned %q, the nearest float64 of amount/10^10 is %s", out, want)
				}
			}
		case "rt":
			c := parseU(f[1])
			out = guard(func() string {
				z, err := currency.Coin(c).ToZCN()
				if err != nil {
					return "err " + strings.ReplaceAll(err.Error(), " ", "_")
				}
				if got := decTokens(z); got != f[2]+" "+f[3] {
					// ToZCN did not return the float the generator expected (op tozcn reports that); the round
					// trip below is still the real one, through the float the code actually produced
					tags["rt:other-float"] = true
				}
				v, err := currency.ParseZCN(z)
				if err != nil {
					return errOut(err, uint64(v))
				}
				return "ok " + strconv.FormatUint(uint64(v), 10)
			})
			switch {
			case out == "panic":
				fail(i, "panicked")
			case c > math.MaxInt64:
				if !strings.HasPrefix(out, "err ") {
					fail(i, "returned %q for an amount above MaxInt64: an error is required", out)
				}
			case sigDigits(c) <= 15:
				if out != "ok "+strconv.FormatUint(c, 10) {
					fail(i, "format-then-parse of %s ZCN (amount %d, %d significant digits) returned %q instead of the amount", new(big.Rat).SetFrac(bu(c), bigTen10).FloatString(10), c, sigDigits(c), out)
				}
				tags["rt:le15"] = true
			default:
				// more than 15 significant digits: the round trip may legitimately lose the amount, but must not
				// return a different amount silently? It can (two amounts share one float); only panics are wrong.
				if out == "ok "+strconv.FormatUint(c, 10) {
					tags["rt:gt15-same"] = true
				} else {
					tags["rt:gt15-lost"] = true
				}
			}
		case "menc":
			c, pre := parseU(f[1]), unhx(f[2])
			var size int
			out = guard(func() string {
				size = currency.Coin(c).Msgsize()
				o, err := currency.Coin(c).MarshalMsg(append([]byte(nil), pre...))
				if err != nil {
					return "err " + strings.ReplaceAll(err.Error(), " ", "_")
				}
				return "ok " + hxd(o) + " " + strconv.Itoa(size)
			})
			want := append(append([]byte(nil), pre...), refEncodeUint(c)...)
			switch {
			case out == "panic":
				fail(i, "panicked")
			case out != "ok "+hxd(want)+" "+strconv.Itoa(size):
				fail(i, "encoded %q, MessagePack for %d after the prefix is %s", out, c, hxd(want))
			case len(want)-len(pre) > size:
				fail(i, "Msgsize %d is smaller than the %d encoded bytes", size, len(want)-len(pre))
			default:
				// decode what was written, with trailing bytes
				var z currency.Coin = 12345
				rest, err := z.UnmarshalMsg(append(refEncodeUint(c), 0xc1, 0x7f))
				if err != nil || uint64(z) != c || hxd(rest) != "c17f" {
					fail(i, "decode(encode(%d) ++ c17f) = (%d, %s, %v)", c, uint64(z), hxd(rest), err)
				}
			}
		case "mdec":
			b := unhx(f[1])
			const sentinel = 0xdeadbeefcafe
			out = guard(func() string {
				z := currency.Coin(sentinel)
				in := append([]byte(nil), b...)
				rest, err := z.UnmarshalMsg(in)
				if err != nil {
					s := ""
					switch e := msgp.Cause(err).(type) {
					case msgp.UintBelowZero:
						s = "err belowzero " + strconv.FormatInt(e.Value, 10)
					case msgp.TypeError:
						s = "err badtype " + e.Encoded.String()
					case msgp.InvalidPrefixError:
						s = "err invalidprefix " + strconv.Itoa(int(byte(e)))
					default:
						if msgp.Cause(err) == msgp.ErrShortBytes {
							s = "err short"
						} else {
							s = "err other " + strings.ReplaceAll(err.Error(), " ", "_")
						}
					}
					if uint64(z) != sentinel {
						s += " receiver-changed"
					}
					if rest != nil {
						s += " rest-returned"
					}
					return s
				}
				return "ok " + strconv.FormatUint(uint64(z), 10) + " " + hxd(rest)
			})
			wv, wn, wok := refDecodeUint(b)
			switch {
			case out == "panic":
				fail(i, "panicked on malformed input")
			case strings.Contains(out, "receiver-changed") || strings.Contains(out, "rest-returned") || strings.HasPrefix(out, "err other"):
				fail(i, "failed decode has side effects or an unexpected error: %s", out)
			case wok:
				if out != "ok "+strconv.FormatUint(wv, 10)+" "+hxd(b[wn:]) {
					fail(i, "decoded %q, MessagePack says value %d with %d bytes consumed", out, wv, wn)
				}
			default:
				if !strings.HasPrefix(out, "err ") {
					fail(i, "decoded %q from bytes that are not a non-negative MessagePack integer", out)
				}
			}
		case "fmul":
			x, y := parseF(f[1]), parseF(f[2])
			out = "ok " + fbits(rawMul(x, y))
			if x == x && y == y && !math.IsInf(x, 0) && !math.IsInf(y, 0) {
				if want := "ok " + fbits(nearest64(new(big.Float).SetPrec(2200).Mul(exactFloat(x), exactFloat(y)))); out != want {
					fail(i, "hardware product %s differs from the correctly rounded exact product %s", out, want)
				}
			}
		case "flt":
			out = "ok " + strconv.FormatBool(parseF(f[1]) < parseF(f[2]))
		case "fle":
			out = "ok " + strconv.FormatBool(parseF(f[1]) <= parseF(f[2]))
		case "feq":
			out = "ok " + strconv.FormatBool(parseF(f[1]) == parseF(f[2]))
		case "u2f":
			out = "ok " + fbits(float64(parseU(f[1])))
		case "f2u":
			out = "ok " + strconv.FormatUint(rawF2U(parseF(f[1])), 10)
		default:
			panic("unknown op " + op)
		}
		res.Outs = append(res.Outs, out)
		tags[f[0]+":"+strings.SplitN(out, " ", 2)[0]] = true
		if strings.HasPrefix(out, "err") || f[0] == "rt" || f[0] == "parse" {
			res.Nontrivial = true
		} else if len(f) > 2 && len(f[1]) > 9 && len(f[2]) > 9 {
			res.Nontrivial = true
		}
	}
	for t := range tags {
		res.Tags = append(res.Tags, t)
	}
	return res
}

func hxd(b []byte) string {
	if len(b) == 0 {
		return "-"
	}
	return hx(b)
}

// refEncodeUint: MessagePack encoding of an unsigned integer in the smallest unsigned format (spec, independent of msgp)
func refEncodeUint(u uint64) []byte {
	be := func(n int) []byte {
		o := make([]byte, n)
		for i := 0; i < n; i++ {
			o[n-1-i] = byte(u >> (8 * uint(i)))
		}
		return o
	}
	switch {
	case u < 128:
		return []byte{byte(u)}
	case u < 1<<8:
		return append([]byte{0xcc}, be(1)...)
	case u < 1<<16:
		return append([]byte{0xcd}, be(2)...)
	case u < 1<<32:
		return append([]byte{0xce}, be(4)...)
	}
	return append([]byte{0xcf}, be(8)...)
}

// refDecodeUint: (value, bytes consumed, ok) for a MessagePack integer of any int/uint format with a non-negative value
func refDecodeUint(b []byte) (uint64, int, bool) {
	if len(b) == 0 {
		return 0, 0, false
	}
	width := map[byte]int{0xcc: 1, 0xcd: 2, 0xce: 4, 0xcf: 8, 0xd0: 1, 0xd1: 2, 0xd2: 4, 0xd3: 8}
	if b[0] < 0x80 {
		return uint64(b[0]), 1, true
	}
	w, isInt := width[b[0]]
	if !isInt || len(b) < 1+w {
		return 0, 0, false
	}
	var v uint64
	for _, x := range b[1 : 1+w] {
		v = v<<8 | uint64(x)
	}
	if b[0] >= 0xd0 && v>>(8*uint(w)-1) == 1 { // signed format, sign bit set
		return 0, 0, false
	}
	return v, 1 + w, true
}

// genMsgp: encodings of boundary amounts, then malformed streams derived from valid encodings (truncation, type-byte
// change, sign-bit set, splice, random bytes)
func genMsgp(r *rand.Rand) []string {
	var ops []string
	for k := 0; k < 60; k++ {
		c := randCoin(r)
		if r.Intn(3) == 0 {
			c = uint64(1)<<uint(7+r.Intn(4)*8+r.Intn(3)) + uint64(r.Intn(3)) - 1 // around 2^7, 2^8, 2^15, 2^16, 2^31, 2^32 …
		}
		pre := make([]byte, r.Intn(4))
		r.Read(pre)
		ops = append(ops, fmt.Sprintf("menc %d %s", c, hxd(pre)))
		enc := refEncodeUint(c)
		if r.Intn(2) == 0 { // the same value in another int/uint format
			w := []int{1, 2, 4, 8}[r.Intn(4)]
			lead := []byte{0xcc, 0xcd, 0xce, 0xcf, 0xd0, 0xd1, 0xd2, 0xd3}[r.Intn(2)*4+map[int]int{1: 0, 2: 1, 4: 2, 8: 3}[w]]
			enc = []byte{lead}
			for i := w - 1; i >= 0; i-- {
				enc = append(enc, byte(c>>(8*uint(i))))
			}
		}
		m := append([]byte(nil), enc...)
		switch r.Intn(7) {
		case 0:
			m = m[:r.Intn(len(m)+1)]
		case 1:
			m[0] = byte(r.Intn(256))
		case 2:
			if len(m) > 1 {
				m[1] |= 0x80
			}
		case 3:
			tail := make([]byte, r.Intn(5))
			r.Read(tail)
			m = append(m, tail...)
		case 4:
			m = make([]byte, r.Intn(12))
			r.Read(m)
		case 5:
			m[0] = []byte{0xca, 0xcb, 0xc0, 0xc1, 0xc2, 0xa3, 0x91, 0x81, 0xe0, 0xff, 0xd4, 0xc4}[r.Intn(12)]
		}
		ops = append(ops, "mdec "+hxd(m))
	}
	return ops
}

// ---- operand tables (DESIGN §6 C18) ---------------------------------------------------------------------

func coinTable() []uint64 {
	seen := map[uint64]bool{}
	var t []uint64
	add := func(v uint64) {
		if !seen[v] {
			seen[v] = true
			t = append(t, v)
		}
	}
	for _, v := range []uint64{0, 1, 2, 3, 10} {
		add(v)
	}
	for k := uint(1); k <= 63; k++ {
		add(1<<k - 1)
		add(1 << k)
		add(1<<k + 1)
	}
	add(math.MaxUint64)     // 2^64-1
	add(math.MaxUint64 - 1) // max-1
	add(4294967295)         // ⌊√2^64⌋-1
	add(4294967296)
	add(4294967297)
	add(3 << 40) // pairs whose product is ≡ 0 mod 2^64 without being powers of two
	add(5 << 24)
	add(7 << 61)
	add(6148914691236517205)  // max/3
	add(6148914691236517206)  // max/3+1
	add(10000000000)          // 1 ZCN
	add(9223372036854775807)  // MaxInt64
	add(9223372036854775808)  // MaxInt64+1
	add(92233720368547758)    // MaxInt64/100
	add(18446744073709549568) // largest float64 below 2^64
	for _, v := range []uint64{9223372030000000000, 9223372040000000000, 18446744070000000000, 9223372036000000000, 9007199254740992000} { // whole ZCN amounts around MaxInt64 / MaxUint64 / 2^53
		add(v - 1)
		add(v)
		add(v + 1)
	}
	return t
}

func int64Table() []int64 {
	seen := map[int64]bool{}
	var t []int64
	add := func(v int64) {
		if !seen[v] {
			seen[v] = true
			t = append(t, v)
		}
	}
	for _, v := range []int64{0, 1, 2, 3, 10, -1, -2, -3, math.MaxInt64, math.MaxInt64 - 1, math.MinInt64, math.MinInt64 + 1} {
		add(v)
	}
	for k := uint(1); k <= 62; k++ {
		for _, v := range []int64{1<<k - 1, 1 << k, 1<<k + 1} {
			add(v)
			add(-v)
		}
	}
	return t
}

func floatTable() []float64 {
	two63 := math.Ldexp(1, 63)
	two64 := math.Ldexp(1, 64)
	two53 := math.Ldexp(1, 53)
	pos := []float64{0, math.SmallestNonzeroFloat64, 3 * math.SmallestNonzeroFloat64, math.Float64frombits(0x000fffffffffffff), math.Float64frombits(0x0010000000000000),
		1e-11, 1e-10, 0.1, 0.5, 0.9999999999999999, 1, 1.0000000000000002, 1.5, 2, 2.5, 3, 10, 1e10, 4294967296, 4294967296.5,
		two53 - 1, two53, two53 + 2, math.Nextafter(two63, 0), two63, math.Nextafter(two63, math.Inf(1)),
		math.Nextafter(two64, 0), two64, math.Nextafter(two64, math.Inf(1)), 1e19, 1.8446744073709552e19, 1e30, 1e300, math.MaxFloat64, math.Inf(1),
		9.223372036854775807e8, 922337203.6854775, 922337203.6854776, 1e-300, 0.3, 1.0 / 3}
	// ZCN boundary classes derived from the constants: whole and fractional amounts around MaxInt64/1e10 and
	// MaxUint64/1e10 and around 2^53, each with its two neighbours (±1 ulp)
	for _, v := range []float64{922337203, 922337203.6854775807, 922337204, 922337203.5, 1844674407, 1844674407.3709551615, 1844674408,
		9223372036, 18446744073, two53 - 1, two53, two53 + 2, 900719925.4740992, 9007199254.740992} {
		pos = append(pos, math.Nextafter(v, 0), v, math.Nextafter(v, math.Inf(1)))
	}
	var t []float64
	for _, p := range pos {
		t = append(t, p, -p)
	}
	t = append(t, math.NaN(), math.Float64frombits(0x7ff0000000000001), math.Float64frombits(0xfff8000000000000))
	return t
}

func randCoin(r *rand.Rand) uint64 {
	switch r.Intn(6) {
	case 0:
		return r.Uint64()
	case 1:
		return r.Uint64() >> uint(r.Intn(64))
	case 2:
		t := coinTable()
		return t[r.Intn(len(t))]
	case 3: // near a power of two
		return (uint64(1) << uint(r.Intn(64))) + uint64(r.Intn(5)) - 2
	case 4: // amounts with few significant digits
		v := uint64(r.Intn(100000))
		for k := r.Intn(16); k > 0; k-- {
			v *= 10
		}
		return v
	default:
		return math.MaxUint64 - uint64(r.Intn(1000))
	}
}

func randInt64(r *rand.Rand) int64 {
	switch r.Intn(5) {
	case 0:
		return int64(r.Uint64())
	case 1:
		return int64(r.Uint64() >> uint(1+r.Intn(63)))
	case 2:
		return -int64(r.Uint64() >> uint(1+r.Intn(63)))
	case 3:
		t := int64Table()
		return t[r.Intn(len(t))]
	default:
		return int64(r.Intn(100))
	}
}

func randFloat(r *rand.Rand) float64 {
	switch r.Intn(8) {
	case 0:
		return math.Float64frombits(r.Uint64()) // any pattern, incl. NaNs, infinities, subnormals
	case 1:
		t := floatTable()
		return t[r.Intn(len(t))]
	case 2: // random mantissa, exponent around the uint64 range boundary
		return math.Ldexp(1+r.Float64(), 50+r.Intn(16))
	case 3:
		return r.Float64() * 10
	case 4:
		return float64(r.Intn(1000)) / 100
	case 5: // short decimals
		f, _ := strconv.ParseFloat(fmt.Sprintf("%d.%0*d", r.Intn(1000000), 1+r.Intn(12), r.Intn(1000000)), 64)
		return f
	case 6:
		return math.Ldexp(1+r.Float64(), r.Intn(2100)-1075)
	default:
		return -r.Float64() * math.Ldexp(1, r.Intn(70))
	}
}

func fhex(f float64) string { return fmt.Sprintf("%016x", math.Float64bits(f)) }

func parseOp(f float64) string { return "parse " + fhex(f) + " " + decTokens(f) }

func rtOp(c uint64) string {
	if c > math.MaxInt64 {
		return fmt.Sprintf("rt %d 0 0", c)
	}
	z, _ := decimal.New(int64(c), -10).Float64() // what ToZCN computes; verified against big.Float by op tozcn
	return fmt.Sprintf("rt %d %s", c, decTokens(z))
}

// multipliers used with the rounding-boundary amounts
func boundaryMultipliers(r *rand.Rand) []float64 {
	return []float64{1, 3, 0.1, 1.5, randFloat(r)}
}

// genRoundingBoundary: amounts c ≥ 2^53 whose low bits sit at the rounding boundaries of the 53-bit significand:
// c = m·2^(e-52) + r, 2^52 ≤ m < 2^53 (both parities), r ∈ {half-1, half, half+1, 1, 2^(e-52)-1}, half = 2^(e-53).
// A conversion that drops a sticky bit or rounds twice is one ulp off exactly on such operands.
func genRoundingBoundary(r *rand.Rand, idx int) []string {
	var ops []string
	e := uint(53 + (idx/10)%11)
	sh := e - 52
	half := uint64(1) << (sh - 1)
	for k := 0; k < 8; k++ {
		m := uint64(1)<<52 | (r.Uint64() & (1<<52 - 1))
		if k%2 == 0 {
			m &^= 1
		} else {
			m |= 1
		}
		for _, lo := range []uint64{half - 1, half, half + 1, 1, 1<<sh - 1} {
			c := m<<sh + lo
			cs := strconv.FormatUint(c, 10)
			ops = append(ops, "c2f "+cs, "u2f "+cs)
			for _, a := range boundaryMultipliers(r) {
				ops = append(ops, "mulf "+cs+" "+fhex(a))
			}
		}
	}
	return ops
}

// genHighCoins: uniformly random amounts ≥ 2^63 (the range where a conversion through int64 needs a special path)
func genHighCoins(r *rand.Rand) []string {
	var ops []string
	for k := 0; k < 100; k++ {
		cs := strconv.FormatUint(r.Uint64()|1<<63, 10)
		ops = append(ops, "c2f "+cs, "mulf "+cs+" "+fhex(1), "mulf "+cs+" "+fhex(randFloat(r)))
	}
	return ops
}

// genZcn15: amounts with EXACTLY 15 significant digits in [2^53, 2^63): ToZCN must be the correctly rounded quotient
// and the round trip must be the identity. A double rounding in ToZCN shows on ≈2.4e-4 of these.
func genZcn15(r *rand.Rand) []string {
	var ops []string
	for len(ops) < 500 {
		c := uint64(1+r.Intn(9))*100000000000000 + uint64(r.Int63n(10000000000000))*10 + uint64(1+r.Intn(9)) // 15 digits, last ≠ 0
		for j := 1 + r.Intn(4); j > 0; j-- {
			c *= 10
		}
		if c < 1<<53 || c >= 1<<63 {
			continue
		}
		ops = append(ops, "tozcn "+strconv.FormatUint(c, 10), rtOp(c))
	}
	return ops
}

func genC18(r *rand.Rand, tier string, idx int) []string {
	switch idx % 10 {
	case 0, 1, 2, 3:
		return genZcn15(r)
	case 4:
		return genRoundingBoundary(r, idx)
	case 5:
		return genHighCoins(r)
	case 6:
		return genMsgp(r)
	}
	var ops []string
	u := func(v uint64) string { return strconv.FormatUint(v, 10) }
	for k := 0; k < 40; k++ {
		a, b := randCoin(r), randCoin(r)
		switch r.Intn(16) {
		case 0:
			if r.Intn(2) == 0 && a > 1 { // straddle the overflow boundary of a·b
				b = math.MaxUint64/a + uint64(r.Intn(3)) - 1
			}
			ops = append(ops, "mul "+u(a)+" "+u(b))
		case 1:
			if r.Intn(2) == 0 {
				b = math.MaxUint64 - a + uint64(r.Intn(3)) - 1
			}
			ops = append(ops, "add "+u(a)+" "+u(b))
		case 2:
			if r.Intn(2) == 0 {
				b = a + uint64(r.Intn(3)) - 1
			}
			ops = append(ops, "sub "+u(a)+" "+u(b), "min "+u(a)+" "+u(b))
		case 3:
			ops = append(ops, fmt.Sprintf("addi %d %d", a, randInt64(r)))
		case 4:
			ops = append(ops, fmt.Sprintf("subi %d %d", a, randInt64(r)))
		case 5:
			ops = append(ops, fmt.Sprintf("dist %d %d", a, randInt64(r)))
		case 6:
			ops = append(ops, fmt.Sprintf("i2c %d", randInt64(r)), "c2i "+u(a))
		case 7:
			ops = append(ops, "f2c "+fhex(randFloat(r)))
		case 8, 9:
			f := randFloat(r)
			if r.Intn(3) == 0 && a > 0 { // product near 2^64
				f = math.Ldexp(1, 64) / float64(a) * (1 + float64(r.Intn(5)-2)*1e-16)
			}
			ops = append(ops, "mulf "+u(a)+" "+fhex(f))
		case 10:
			ops = append(ops, "c2f "+u(a), "u2f "+u(a))
		case 11:
			ops = append(ops, parseOp(randFloat(r)))
		case 12: // ZCN amounts of 15, 16, 17 significant digits and random ones
			var c uint64
			switch r.Intn(4) {
			case 0:
				c = a >> 1
			default:
				nd := 15 + r.Intn(3)
				c = uint64(1 + r.Intn(9))
				for j := 1; j < nd; j++ {
					c = c*10 + uint64(r.Intn(10))
				}
				for j := r.Intn(19 - nd + 1); j > 0; j-- {
					c *= 10
				}
			}
			ops = append(ops, "tozcn "+u(c), rtOp(c))
		case 13:
			x, y := randFloat(r), randFloat(r)
			ops = append(ops, "fmul "+fhex(x)+" "+fhex(y), "flt "+fhex(x)+" "+fhex(y), "fle "+fhex(x)+" "+fhex(y), "feq "+fhex(x)+" "+fhex(y))
		case 14:
			ops = append(ops, "f2u "+fhex(randFloat(r)))
		default:
			// the float of a parsed amount back into ParseZCN: k/10^j style inputs
			f, _ := strconv.ParseFloat(fmt.Sprintf("%de-%d", r.Int63n(1e12), r.Intn(14)), 64)
			ops = append(ops, parseOp(f))
		}
	}
	return ops
}

// exhC18: the boundary tables as full cross products (both tiers), ZCN amounts with few significant digits
func exhC18(tier string, emit func(ops []string)) {
	ct, it, ft := coinTable(), int64Table(), floatTable()
	u := func(v uint64) string { return strconv.FormatUint(v, 10) }
	for _, a := range ct {
		var ops []string
		for _, b := range ct {
			ops = append(ops, "mul "+u(a)+" "+u(b), "add "+u(a)+" "+u(b), "sub "+u(a)+" "+u(b), "min "+u(a)+" "+u(b))
		}
		emit(ops)
		ops = nil
		for _, i := range it {
			ops = append(ops, fmt.Sprintf("addi %d %d", a, i), fmt.Sprintf("subi %d %d", a, i), fmt.Sprintf("dist %d %d", a, i))
		}
		ops = append(ops, "c2i "+u(a), "c2f "+u(a), "u2f "+u(a), "tozcn "+u(a), rtOp(a))
		for _, f := range ft {
			ops = append(ops, "mulf "+u(a)+" "+fhex(f))
		}
		emit(ops)
	}
	var ops []string
	for _, i := range it {
		ops = append(ops, fmt.Sprintf("i2c %d", i))
	}
	emit(ops)
	for _, x := range ft {
		ops = []string{"f2c " + fhex(x), "f2u " + fhex(x), parseOp(x)}
		for _, y := range ft {
			ops = append(ops, "fmul "+fhex(x)+" "+fhex(y), "flt "+fhex(x)+" "+fhex(y), "fle "+fhex(x)+" "+fhex(y), "feq "+fhex(x)+" "+fhex(y))
		}
		emit(ops)
	}
	// msgp codec: every amount of the table encoded (with and without prefix); every lead byte followed by 0..10
	// payload bytes of three patterns (zeros, 0x7f…, 0x80… = sign bit set)
	ops = nil
	for _, a := range ct {
		ops = append(ops, "menc "+u(a)+" -", "menc "+u(a)+" c1ff00", "mdec "+hxd(refEncodeUint(a)), "mdec "+hxd(append(refEncodeUint(a), 0x01, 0xc1)))
	}
	emit(ops)
	ops = []string{"mdec -"}
	for lead := 0; lead < 256; lead++ {
		for n := 0; n <= 10; n++ {
			for _, pat := range []byte{0x00, 0x7f, 0x80} {
				b := []byte{byte(lead)}
				for j := 0; j < n; j++ {
					b = append(b, pat+byte(j))
				}
				ops = append(ops, "mdec "+hxd(b))
			}
		}
		if len(ops) > 600 {
			emit(ops)
			ops = nil
		}
	}
	emit(ops)
	// ZCN amounts s·10^k, s with at most 3 (quick) / 4 (thorough) significant digits, every exponent that fits
	maxS := uint64(999)
	if tier == "thorough" {
		maxS = 9999
	}
	for k := 0; k <= 19; k++ {
		p := new(big.Int).Exp(big.NewInt(10), big.NewInt(int64(k)), nil)
		ops = nil
		for s := uint64(1); s <= maxS; s++ {
			v := new(big.Int).Mul(bu(s), p)
			if !v.IsUint64() {
				break
			}
			c := v.Uint64()
			ops = append(ops, "tozcn "+u(c), rtOp(c))
			if c <= math.MaxInt64 {
				z, _ := decimal.New(int64(c), -10).Float64()
				ops = append(ops, parseOp(z))
			}
			if len(ops) >= 600 {
				emit(ops)
				ops = nil
			}
		}
		if len(ops) > 0 {
			emit(ops)
		}
	}
}

func init() {
	register(&Suite{
		Name: "c18",
		Rule: "boundary tables of DESIGN §6 C18 as full cross products (coins {0,1,2,2^k-1,2^k,2^k+1,√max±1,max,max-1,zero-product pairs} × same, × signed counterparts, × float table {±0,subnormals,2^53±,2^63±ulp,2^64±ulp,1e19,1e30,max,±Inf,NaNs}), ZCN amounts with ≤3/4 significant digits × every exponent, plus generated cases: 40% random amounts with exactly 15 significant digits in [2^53,2^63) (tozcn + round trip, 250 amounts each), 10% amounts at the rounding boundaries of the 53-bit significand (c = m·2^(e-52)+r, e=53..63, r∈{half-1,half,half+1,1,2^(e-52)-1}; c2f and mulf by 1, 3, 0.1, 1.5, random), 10% uniform amounts ≥ 2^63, 40% mixed random operands (uniform, random bit length, straddling the overflow boundary, 15/16/17-digit amounts); a case is non-trivial when it contains an error outcome, a ZCN parse/round trip or two operands above 10^9",
		Gen:  genC18,
		Run:  runC18,
		Exhaustive: func(tier string, emit func(ops []string)) {
			exhC18(tier, emit)
		},
		DefaultN: func(tier string) int {
			if tier == "thorough" {
				return 30000
			}
			return 600
		},
	})
}
