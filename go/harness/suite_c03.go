package main

// Suite c03: child tries are isolated transactions; merge publishes; discard leaves no trace.
// Runner, op language and oracles: mptstore.go; generator: mptstore_gen.go.

import "time"

func init() {
	register(&Suite{
		Name:        "c03",
		Rule:        "multi-round block histories: block trie over the persistent store, 1-4 transactions per round as child tries (sequential, nested grandchildren, concurrent siblings opened at the same root, parent moving on under an open child), merged / discarded / merged stale, also through a change set taken earlier with GetChanges and merged after the transaction wrote on (snap / mergesnap), then saved; tiny alphabets with forced prefix relations and 64-nibble keys with shared prefixes; frame check of every other open trie after every operation; non-trivial = at least one content-changing merge and one discard or rejected stale merge",
		Gen:         genStoreCase(profC03),
		CaseTimeout: 120 * time.Second, // generous: a loaded machine must not turn into an oracle failure
		Run:         func(ops []string) CaseResult { return runStoreCase("C03", ops) },
		DefaultN: func(tier string) int {
			if tier == "thorough" {
				return 100000
			}
			return 1500
		},
	})
}
