package main

// Suite c13 — rolling back a commit restores the checkpoint exactly (op language and oracles: wmptrun.go).
//
// build; commit; [gc]; saveroot <copy level> (or cproot: the copy without SaveRoot, for RollbackTrie); changes — or the
// deletion of every key, so that the commit has nothing to write — (new keys, changed values, unchanged re-writes, delete and
// re-add of identical content, deletes); commit <lvl> (also: followed by a second, clean commit; or Commit called twice
// before the first batch is committed); [one gc]; rollback | rollbacktrie; then the checkpoint root,
// weight, every owner/value/proof on a reopened trie, and the absence of every storage key that only the rolled-back
// commit wrote are checked by the runner. Afterwards the history continues (reads, further changes, commit, GC).

import (
	"math/rand"
	"time"
)

func genC13(r *rand.Rand, tier string, idx int) []string {
	nkeys := 1 + r.Intn(7)
	g := newWgen(r, nkeys, false)
	// checkpoint state
	nb := r.Intn(nkeys + 3)
	if idx%9 == 0 {
		nb = 0 // empty checkpoint
	}
	for k := 0; k < nb; k++ {
		g.mutate()
		if r.Intn(6) == 0 {
			g.commit()
			if r.Intn(2) == 0 {
				g.emit("gc")
			}
		}
	}
	g.commit()
	if r.Intn(3) == 0 {
		g.emit("gc")
	}
	if r.Intn(5) == 0 {
		g.reload()
	}
	rounds := 1 + r.Intn(2)
	for rd := 0; rd < rounds; rd++ {
		cpLive := map[string][]byte{}
		for k, v := range g.live {
			cpLive[k] = v
		}
		useTrie := r.Intn(2) == 0
		if useTrie && r.Intn(3) == 0 {
			g.emit("cproot %d", r.Intn(8)-3) // RollbackTrie needs only the copy: no SaveRoot (the "created" list is not reset)
		} else {
			g.emit("saveroot %d", r.Intn(8)-3)
		}
		if r.Intn(5) == 0 {
			// empty the trie: the root becomes the (clean) empty node and the commit below has nothing to write
			for _, i := range g.liveKeys() {
				if r.Intn(2) == 0 {
					g.emit("updel %x", g.pool[i])
				} else {
					g.emit("del %x", g.pool[i])
				}
				delete(g.live, g.pool[i])
				g.dirty = true
			}
		} else {
			nc := 1 + r.Intn(5)
			for k := 0; k < nc; k++ {
				g.mutate()
			}
		}
		switch lvl := r.Intn(8) - 1; r.Intn(4) {
		case 0:
			g.emit("commit2 %d", lvl) // Commit twice before the first batch is committed (the second has nothing to write)
		case 1:
			g.emit("commit %d", lvl)
			g.emit("commit %d", r.Intn(8)-1) // a periodic flush with nothing to write: the rollback below still undoes the real commit
		default:
			g.emit("commit %d", lvl)
		}
		if r.Intn(3) == 0 {
			g.emit("gc")
		}
		if !useTrie {
			g.emit("rollback")
		} else {
			g.emit("rollbacktrie")
		}
		g.live, g.commitd, g.dirty = cpLive, map[string][]byte{}, false
		for k, v := range cpLive {
			g.commitd[k] = v
		}
		g.emit("owners")
		if r.Intn(2) == 0 {
			// the rolled-back trie must be usable: an update of a new key, the root, a path export and its import, the delete
			probe := make([]byte, 32)
			r.Read(probe)
			pv := []byte{byte(r.Intn(256)), 0xfe, byte(rd)}
			g.emit("upd %x %x %d", probe, pv, wvalWeight(pv))
			g.emit("root")
			g.emit("getpath %x", probe)
			g.emit("import")
			g.emit("del %x", probe)
			g.emit("root")
			g.dirty = true
		}
		// life goes on
		for k := r.Intn(4); k > 0; k-- {
			g.mutate()
		}
		if r.Intn(2) == 0 {
			g.commit()
			for r.Intn(2) == 0 {
				g.emit("gc")
			}
			g.emit("owners")
		} else if g.dirty {
			g.commit()
		}
	}
	return g.ops
}

func init() {
	register(&Suite{
		Name:        "c13",
		Rule:        "checkpoint states of 0..9 keys (committed, optionally GC'd / reloaded); SaveRoot + checkpoint copy at levels -1..4 or as a (hash, weight) reference; 1..5 changes (new keys, changed values, unchanged re-writes, delete+re-add of identical content, deletes); commit at collapse levels -1..6; optional single GC pass; Rollback or RollbackTrie; afterwards reads, further changes, commits and GC passes, up to two rounds; non-trivial = at least 2 mutations and one commit",
		Gen:         genC13,
		Run:         runWmpt,
		CaseTimeout: 3 * time.Minute, // a stalled machine must not look like a hang; a real hang still fails the case
		DefaultN: func(tier string) int {
			if tier == "thorough" {
				return 80000
			}
			return 2000
		},
	})
}
