package main

// Suite c14: every node the state trie writes to a node store is stored under the hash of its own content and
// round-trips through Encode / CreateNode; a trie re-read from the stored bytes re-computes to its root.
//
// Op language (trie part as in suite c01):
//
//	new <mem|level|pndb> <version>   always first
//	ver <n>                          set the trie version
//	ins <path> <hexvalue> | del <path>   the caller's path and value buffers are scribbled over afterwards
//	get <path>                       GetNodeValueRaw through the trie and through a CloneMPT (fresh cache); every
//	                                 returned slice is scribbled over afterwards
//	insfill <path> <len> <fill>      Insert of a len-byte value v[i] = (fill + 31 i) mod 256 (sizes around
//	                                 MPTMaxAllowableNodeSize): must be stored when len <= Max, rejected (toolarge) above;
//	                                 byte strings above 4 kB are printed as "#<len>:<SHA3>" on both sides
//	insstr <path> <hex s>            Insert of a typed value (a msgp string: MarshalMsg = msgp.AppendString)
//	val <path>                       typed reads and the value node: GetNodeValue into a SecureSerializableValue and into a
//	                                 msgp string (UnmarshalMsg = msgp.ReadStringBytes, may fail), and the ValueNode that
//	                                 Iterate hands out for the path: its Encode (type code 1), hash, CreateNode round trip,
//	                                 Clone, CopyFrom -> "ok <hex> str=<hex|err> vn=<hex Encode> h=<hex hash>" | notpresent
//	layer                            (level only) save the pending changes to the side PNodeDB, then continue on a new
//	                                 LevelNodeDB stacked on the current store (nodes now live on several levels)
//	touch <v>                        what a pruning sweep does: every stored node is read (GetNode), its VERSION set to v
//	                                 (SetVersion; the origin stays) and written back (PutNode) under its key; only `store`
//	                                 ops may follow (the model keeps one version for all nodes)
//	store                            inspect the trie's own store(s)
//	save                             SaveChanges to the side PNodeDB, inspect it
//
// Outputs: ins/del -> "ok <root|->" | notpresent | ...
//
//	store/save -> "ok <root|-> <key>=<stored bytes>,..."  the nodes reachable from the root, sorted by key
//	              (PNodeDB: the raw bytes of the fake RocksDB; memory / level: Encode() of the stored node)
//
// Before every inspection every path of the history is read back (and the result scribbled over) through fresh tries
// over the inspected store, twice, and compared with the Go map.
//
// Oracle at store/save, over EVERY entry of EVERY store (reachable or not), obtained through the exported
// NodeDB.Iterate and, for PNodeDB, additionally from the raw snapshot of the fake RocksDB:
//   - key == node.GetHashBytes() and key == SHA3(LE64(origin) ++ body) computed by the independent parser;
//   - CreateNode(Encode(n)) has the same Encode and the same hash; raw PNodeDB bytes == Encode of the iterated node;
//   - no node referenced from the root is absent; re-computing every key bottom-up from the decoded bytes
//     reproduces the root, and the content read from the decoded bytes equals the Go map of the history.

import (
	"bytes"
	"context"
	"fmt"
	"math/rand"
	"strconv"
	"strings"

	"github.com/0chain/common/core/util"
	"github.com/linxGnu/grocksdb"
	"github.com/tinylib/msgp/msgp"
)

// msgpString is a typed trie value: a msgp string.
type msgpString struct{ S string }

func (m *msgpString) MarshalMsg(b []byte) ([]byte, error) { return msgp.AppendString(b, m.S), nil }

func (m *msgpString) UnmarshalMsg(b []byte) ([]byte, error) {
	s, o, err := msgp.ReadStringBytes(b)
	if err != nil {
		return b, err
	}
	m.S = s
	return o, nil
}

type c14State struct {
	mpt     *util.MerklePatriciaTrie
	db      util.NodeDB
	kind    string
	dir     string
	savedb  *util.PNodeDB
	savedir string
	content map[string][]byte
	used    map[string]bool
	version int64
}

func sameContent(a, b map[string][]byte) bool {
	if len(a) != len(b) {
		return false
	}
	for k, v := range a {
		w, ok := b[k]
		if !ok || !bytes.Equal(v, w) {
			return false
		}
	}
	return true
}

// lookupScribble reads path through mpt, then scribbles over the returned slice: a value handed out by a read belongs to
// the caller, modifying it must not reach any stored node.
func lookupScribble(mpt *util.MerklePatriciaTrie, path string) string {
	return guard(func() string {
		v, err := mpt.GetNodeValueRaw([]byte(path))
		if err != nil {
			return errKind(err)
		}
		out := "ok " + hxBig(v)
		for j := range v {
			v[j] ^= 0xff
		}
		return out
	})
}

// readBack reads every path the history used through FRESH tries (fresh transaction cache: CloneMPT for the trie's own
// store, a new trie otherwise) over db, twice, compares with the Go map and scribbles over every returned slice.
func (st *c14State) readBack(tag string, db util.NodeDB, fail func(string, ...interface{})) {
	root := st.mpt.GetRoot()
	for pass := 0; pass < 2; pass++ {
		var m2 *util.MerklePatriciaTrie
		if db == st.db && pass == 0 {
			m2 = util.CloneMPT(st.mpt)
		} else {
			m2 = newMPT(db, st.version, root)
		}
		for p := range st.used {
			want := "notpresent"
			if v, ok := st.content[p]; ok {
				want = "ok " + hxBig(v)
			}
			if got := lookupScribble(m2, p); got != want {
				fail("%s: lookup(%s) through a fresh trie over the store (pass %d) = %q, want %q", tag, ptok(p), pass, got, want)
			}
		}
	}
}

// inspectStore applies the C14 oracle to one store and returns the output line.
func (st *c14State) inspect(tag string, db util.NodeDB, dir string, fail func(string, ...interface{}), tags map[string]bool) string {
	st.readBack(tag, db, fail)
	all := checkNodeDB(tag, db, fail)
	if dir != "" {
		snap := grocksdb.FakeSnapshot(dir, "default")
		if len(snap) != len(all) {
			fail("%s: raw store holds %d entries, Iterate yields %d", tag, len(snap), len(all))
		}
		for k, raw := range snap {
			checkEntry(tag+"(raw)", []byte(k), raw, nil, fail)
			if enc, ok := all[k]; ok && !bytes.Equal(enc, raw) {
				fail("%s: entry %s: raw bytes %s differ from Encode() of the iterated node %s", tag, hx([]byte(k)), hx(raw), hx(enc))
			}
		}
		all = rawStore(snap)
	}
	root := st.mpt.GetRoot()
	order, absent, err := walkReach(all, root)
	if err != nil {
		fail("%s: %v", tag, err)
		return "err"
	}
	if len(absent) > 0 {
		fail("%s: nodes referenced from root %s are not stored: %s", tag, rootStr(root), fmtKeys(absent))
	}
	h, content, err := recompute(all, root)
	if err != nil {
		fail("%s: reload failed: %v", tag, err)
	} else {
		if !bytes.Equal(h, root) {
			fail("%s: re-computing the trie bottom-up from the stored bytes gives root %s, saved under %s", tag, rootStr(h), rootStr(root))
		}
		if !sameContent(content, st.content) {
			fail("%s: content decoded from the store %s differs from the history's content %s", tag, fmtPairs(sortedPairs(content)), fmtPairs(sortedPairs(st.content)))
		}
	}
	keys := make([]string, len(order))
	for i, e := range order {
		keys[i] = e.key
		tags["node:"+string(e.n.kind)] = true
		if e.n.kind == 'F' && e.n.val != nil {
			tags["node:F+value"] = true
		}
	}
	if len(all) > len(order) {
		tags["unreachable-entries"] = true
	}
	return "ok " + rootStr(root) + " " + fmtEntries(all, keys)
}

// runC14 runs the case scribbling over every buffer handed to or received from the trie (paths, values, read results).
func runC14(ops []string) CaseResult { return runC14x(ops, true) }

func runC14x(ops []string, scribblePaths bool) CaseResult {
	var st *c14State
	res := CaseResult{}
	tags := map[string]bool{}
	mutations, inspected := 0, 0
	for i, op := range ops {
		fail := func(f string, a ...interface{}) {
			if len(res.Fails) < 20 {
				res.Fails = append(res.Fails, fmt.Sprintf("op %d (%s): ", i, op)+fmt.Sprintf(f, a...))
			}
		}
		f := strings.Fields(op)
		var out string
		if st == nil && f[0] != "new" {
			res.Outs = append(res.Outs, "bad-op")
			res.Fails = append(res.Fails, "harness: op before new: "+op)
			continue
		}
		switch f[0] {
		case "new":
			v, _ := strconv.ParseInt(f[2], 10, 64)
			st = &c14State{kind: f[1], content: map[string][]byte{}, used: map[string]bool{}, version: v}
			switch f[1] {
			case "pndb":
				st.dir = freshDir("c14")
				db, err := util.NewPNodeDB(st.dir, "")
				if err != nil {
					panic(err)
				}
				st.db = db
			default:
				st.db = openStore(f[1])
			}
			st.savedir = freshDir("c14save")
			sdb, err := util.NewPNodeDB(st.savedir, "")
			if err != nil {
				panic(err)
			}
			st.savedb = sdb
			st.mpt = newMPT(st.db, v, nil)
			tags["store:"+f[1]] = true
			out = "ok"
		case "ver":
			v, _ := strconv.ParseInt(f[1], 10, 64)
			if v != st.version {
				tags["multi-version"] = true
			}
			st.version = v
			st.mpt.SetVersion(util.Sequence(v))
			out = "ok"
		case "ins", "del":
			path := pathOf(f[1])
			st.used[path] = true
			var val []byte
			if f[0] == "ins" {
				val = unhx(f[2])
			}
			pathBuf, valBuf := []byte(path), append([]byte(nil), val...)
			out = guard(func() string {
				var k util.Key
				var err error
				if f[0] == "del" {
					k, err = st.mpt.Delete(pathBuf)
				} else {
					k, err = st.mpt.Insert(pathBuf, mkVal(valBuf))
				}
				if err != nil {
					return errKind(err)
				}
				return "ok " + rootStr(k)
			})
			// the buffers handed in stay the caller's: scribble over them, no stored node may change
			for j := range pathBuf {
				if scribblePaths {
					pathBuf[j] = 'f'
				}
			}
			for j := range valBuf {
				valBuf[j] ^= 0xff
			}
			if strings.HasPrefix(out, "ok") {
				if f[0] == "ins" {
					st.content[path] = val
				} else {
					delete(st.content, path)
				}
				mutations++
			} else if out == "panic" {
				fail("operation panicked")
			}
		case "get":
			path := pathOf(f[1])
			st.used[path] = true
			want := "notpresent"
			if v, ok := st.content[path]; ok {
				want = "ok " + hxBig(v)
			}
			out = lookupScribble(st.mpt, path)
			if out != want {
				fail("lookup = %q, want %q", out, want)
			}
			if got := lookupScribble(util.CloneMPT(st.mpt), path); got != want {
				fail("lookup through a clone of the trie (fresh cache) = %q, want %q", got, want)
			}
			if got := lookupScribble(st.mpt, path); got != want {
				fail("second lookup = %q, want %q", got, want)
			}
		case "insfill":
			path := pathOf(f[1])
			st.used[path] = true
			n, _ := strconv.Atoi(f[2])
			fill, _ := strconv.Atoi(f[3])
			val := make([]byte, n)
			for j := range val {
				val[j] = byte((fill + 31*j) % 256)
			}
			valBuf := append([]byte(nil), val...)
			out = guard(func() string {
				k, err := st.mpt.Insert([]byte(path), mkVal(valBuf))
				if err != nil {
					return errKind(err)
				}
				return "ok " + rootStr(k)
			})
			for j := range valBuf {
				valBuf[j] ^= 0xff
			}
			switch {
			case n > util.MPTMaxAllowableNodeSize:
				if out != "toolarge" {
					fail("a value of %d bytes (limit %d) was not rejected: %s", n, util.MPTMaxAllowableNodeSize, out)
				}
				tags["value:above-max"] = true
			case strings.HasPrefix(out, "ok"):
				st.content[path] = val
				mutations++
				tags[fmt.Sprintf("value:max%+d", n-util.MPTMaxAllowableNodeSize)] = n >= util.MPTMaxAllowableNodeSize-64
				if n < util.MPTMaxAllowableNodeSize-64 {
					delete(tags, fmt.Sprintf("value:max%+d", n-util.MPTMaxAllowableNodeSize))
					tags["value:mid-size"] = true
				}
			default:
				fail("a value of %d bytes (limit %d) was not stored: %s", n, util.MPTMaxAllowableNodeSize, out)
			}
		case "insstr":
			path := pathOf(f[1])
			st.used[path] = true
			sv := &msgpString{S: string(unhx(f[2]))}
			want, _ := sv.MarshalMsg(nil)
			out = guard(func() string {
				k, err := st.mpt.Insert([]byte(path), sv)
				if err != nil {
					return errKind(err)
				}
				return "ok " + rootStr(k)
			})
			sv.S = "scribbled"
			if strings.HasPrefix(out, "ok") {
				st.content[path] = want
				mutations++
			} else {
				fail("insert of a typed value failed: %s", out)
			}
		case "val":
			path := pathOf(f[1])
			st.used[path] = true
			out = guard(func() string {
				var raw util.SecureSerializableValue
				if err := st.mpt.GetNodeValue([]byte(path), &raw); err != nil {
					return errKind(err)
				}
				res := "ok " + hxBig(raw.Buffer)
				var ms msgpString
				if err := st.mpt.GetNodeValue([]byte(path), &ms); err != nil {
					res += " str=err"
				} else if ms.S == "" {
					res += " str=-"
				} else {
					res += " str=" + hx([]byte(ms.S))
				}
				// the value node Iterate hands out for this path
				var vn *util.ValueNode
				_ = st.mpt.Iterate(context.Background(), func(_ context.Context, p util.Path, _ util.Key, n util.Node) error {
					if v, ok := n.(*util.ValueNode); ok && string(p) == path {
						vn = v
					}
					return nil
				}, util.NodeTypeValueNode)
				if vn == nil {
					return res + " vn=none"
				}
				enc := vn.Encode()
				res += " vn=" + hxBig(enc) + " h=" + hx(vn.GetHashBytes())
				n2, err := util.CreateNode(bytes.NewReader(enc))
				if err != nil {
					fail("CreateNode of the value node's encoding: %v", err)
				} else if v2, ok := n2.(*util.ValueNode); !ok || !bytes.Equal(v2.Encode(), enc) || !bytes.Equal(v2.GetHashBytes(), vn.GetHashBytes()) {
					fail("the value node does not round-trip through Encode / CreateNode")
				}
				if c, ok := vn.Clone().(*util.ValueNode); !ok || !bytes.Equal(c.Encode(), enc) {
					fail("Clone of the value node differs")
				}
				cp := util.NewValueNode()
				if !cp.CopyFrom(vn) || !bytes.Equal(cp.Encode(), enc) {
					fail("CopyFrom of the value node differs")
				}
				if !bytes.Equal(vn.GetValueBytes(), raw.Buffer) || !bytes.Equal(vn.GetHashBytes(), sha3sum(raw.Buffer)) {
					fail("value node bytes / hash do not match the typed read")
				}
				return res
			})
			want := "notpresent"
			if v, ok := st.content[path]; ok {
				want = "ok " + hxBig(v)
			}
			if !strings.HasPrefix(out, want) {
				fail("typed read = %q, want prefix %q", out, want)
			}
			if strings.Contains(out, " str=") && !strings.Contains(out, " str=err") {
				tags["typed-read:string-ok"] = true
			} else if strings.Contains(out, " str=err") {
				tags["typed-read:unmarshal-error"] = true
			}
		case "layer":
			if st.kind != "level" {
				out = "ok"
				break
			}
			out = guard(func() string {
				if err := st.mpt.SaveChanges(context.Background(), st.savedb, false); err != nil {
					return errKind(err)
				}
				st.db = util.NewLevelNodeDB(util.NewMemoryNodeDB(), st.db, false)
				st.mpt = newMPT(st.db, st.version, st.mpt.GetRoot())
				return "ok"
			})
			tags["layered"] = true
		case "touch":
			v, _ := strconv.ParseInt(f[1], 10, 64)
			out = guard(func() string {
				var keys []util.Key
				_ = st.db.Iterate(context.Background(), func(_ context.Context, key util.Key, _ util.Node) error {
					keys = append(keys, append(util.Key(nil), key...))
					return nil
				})
				for _, k := range keys {
					n, err := st.db.GetNode(k)
					if err != nil {
						return errKind(err)
					}
					n.SetVersion(util.Sequence(v))
					if err := st.db.PutNode(k, n); err != nil {
						return errKind(err)
					}
				}
				return "ok"
			})
			tags["version!=origin"] = true
		case "store":
			out = guard(func() string { return st.inspect("store", st.db, st.dir, fail, tags) })
			inspected++
		case "save":
			out = guard(func() string {
				if err := st.mpt.SaveChanges(context.Background(), st.savedb, false); err != nil {
					return errKind(err)
				}
				return st.inspect("saved", st.savedb, st.savedir, fail, tags)
			})
			inspected++
		default:
			panic("unknown op " + op)
		}
		if out == "panic" && f[0] != "ins" && f[0] != "del" {
			fail("operation panicked")
		}
		res.Outs = append(res.Outs, out)
	}
	if st != nil {
		grocksdb.FakeReset(st.savedir)
		if st.dir != "" {
			grocksdb.FakeReset(st.dir)
		}
	}
	for t := range tags {
		res.Tags = append(res.Tags, t)
	}
	res.Nontrivial = mutations >= 2 && inspected > 0 && st != nil && len(st.content) > 0
	return res
}

// values with separator bytes, NUL, msgpack-looking and random binary, lengths that make a leaf read like an
// extension / a branch (many separators), and a few hundred bytes
func genValue14(r *rand.Rand) string {
	switch r.Intn(14) {
	case 0:
		return hx([]byte(":"))
	case 1:
		return hx([]byte("::::::::::::::::"))
	case 2:
		return hx([]byte("a:b::c"))
	case 3:
		return "00"
	case 4:
		return "c0" // msgpack nil
	case 5:
		return "81a14e80" // msgpack map
	case 6:
		b := make([]byte, 32)
		r.Read(b)
		return hx(b)
	case 7:
		b := make([]byte, 1+r.Intn(300))
		r.Read(b)
		return hx(b)
	case 8:
		b := bytes.Repeat([]byte{':', 0}, 1+r.Intn(20))
		return hx(b)
	case 9:
		return hx([]byte("0123456789abcdef:0123456789abcdef:"))
	case 10, 11:
		b := make([]byte, 1+r.Intn(40))
		r.Read(b)
		return hx(b)
	default:
		return hx([]byte{byte('A' + r.Intn(26)), byte(r.Intn(256))})
	}
}

func ptokHex(b []byte) string {
	if len(b) == 0 {
		return "-"
	}
	return hx(b)
}

// genC14Big: values around MPTMaxAllowableNodeSize (value length Max+1 rejected; Max, Max-1 stored; leaf ENCODING of
// exactly Max-1, Max, Max+1 bytes = value of Max-17-2-len(prefix+path)+{-1,0,1}) and a 2 MiB value.
func genC14Big(r *rand.Rand, kind string, which int) []string {
	max := util.MPTMaxAllowableNodeSize
	ops := []string{fmt.Sprintf("new %s %d", kind, 1+r.Intn(4)), "ins aa11 4142", "ins aa22 43"}
	switch which {
	case 0:
		ops = append(ops, fmt.Sprintf("insfill ab12 %d %d", max+1, r.Intn(256)), fmt.Sprintf("insfill ab12 %d %d", max, r.Intn(256)), "store")
	case 1:
		ops = append(ops, fmt.Sprintf("insfill ab12 %d %d", max-1, r.Intn(256)), "val ab12", "save")
	case 2:
		// leaf at position "a", path "b12": encoding = 17 + 1 + 1 + 3 + 1 + len
		ops = append(ops, fmt.Sprintf("insfill ab12 %d %d", max-23+r.Intn(3)-1, r.Intn(256)), "get ab12", "store")
	default:
		ops = append(ops, fmt.Sprintf("insfill ab12 %d %d", 2*1024*1024+r.Intn(3), r.Intn(256)), "get ab12", "val ab12", "ins ab13 44", "del aa22", "store", "save")
	}
	return ops
}

func genC14(r *rand.Rand, tier string, idx int) []string {
	stores := []string{"mem", "level", "pndb"}
	kind := stores[idx%3]
	if idx%1500 == 700 {
		return genC14Big(r, kind, (idx/1500)%4)
	}
	if idx%2000 == 250 {
		return genC14Big(r, kind, 3)
	}
	ver := int64(r.Intn(5))
	if r.Intn(10) == 0 {
		ver = int64(r.Int63()) // large origins exercise all eight bytes
	}
	ops := []string{fmt.Sprintf("new %s %d", kind, ver)}
	alpha := pathAlphabets[r.Intn(len(pathAlphabets))]
	maxOps := 16
	if tier == "thorough" {
		maxOps = 40
	}
	n := 2 + r.Intn(maxOps-1)
	var pool []string
	if idx%40 == 39 {
		// a deep comb: 33..64 node levels below the root
		for _, k := range genComb(r, 33+r.Intn(31)) {
			ops = append(ops, "ins "+k+" "+genValue14(r))
			pool = append(pool, k)
		}
		n = 4
	}
	for k := 0; k < n; k++ {
		x := r.Intn(100)
		p0 := genPath(r, alpha, pool)
		p := ptok(p0)
		switch {
		case x < 55:
			ops = append(ops, "ins "+p+" "+genValue14(r))
			pool = append(pool, p0)
		case x < 75:
			ops = append(ops, "del "+p)
		case x < 82:
			ver += int64(r.Intn(3))
			ops = append(ops, fmt.Sprintf("ver %d", ver))
		case x < 87 && kind == "level":
			ops = append(ops, "layer")
		case x < 90:
			ops = append(ops, "get "+p)
		case x < 93:
			if r.Intn(2) == 0 {
				b := make([]byte, []int{0, 1, 5, 31, 32, 40, 300}[r.Intn(7)])
				r.Read(b)
				ops = append(ops, "insstr "+p+" "+ptokHex(b))
				pool = append(pool, p0)
			} else {
				ops = append(ops, "val "+p)
			}
		case x < 95:
			ops = append(ops, "store")
		case x < 97:
			ops = append(ops, "save")
		default:
			ops = append(ops, "ins "+p+" "+genValue14(r))
			pool = append(pool, p0)
		}
	}
	for k := 0; k < 2 && len(pool) > 0; k++ {
		ops = append(ops, "val "+ptok(pool[r.Intn(len(pool))]))
	}
	ops = append(ops, "store", "save")
	if r.Intn(2) == 0 {
		tv := ver + 1 + int64(r.Intn(1000))
		if r.Intn(4) == 0 {
			tv = int64(r.Int63())
		}
		ops = append(ops, fmt.Sprintf("touch %d", tv), "store")
	}
	return ops
}

func init() {
	register(&Suite{
		Name: "c14",
		Rule: "random trie histories (paths as in c01; values with ':' runs, NUL, msgpack-looking, 32-byte and up to 300 random bytes; a few cases per run with values of MPTMaxAllowableNodeSize+1 (rejected), Max, Max-1, a leaf encoding of Max-1 / Max / Max+1 bytes and 2 MiB; changing and 63-bit versions) on memory, layered (stacked LevelNodeDB) and persistent stores; every entry of every store is checked (key = hash, CreateNode(Encode) round trip, raw bytes) and the trie is re-derived bottom-up from the stored bytes; non-trivial = at least 2 successful mutations, non-empty final content, store inspected",
		Gen:  genC14,
		Run:  runC14,
		DefaultN: func(tier string) int {
			if tier == "thorough" {
				return 60000
			}
			return 2000
		},
	})
}
