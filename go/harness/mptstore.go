package main

// Shared runner of the store-layer suites c03 (child tries are isolated transactions), c04 (saved state is
// complete and survives crashes) and c05 (dead-node records and pruning never remove live state).
//
// One case = one multi-round, multi-trie history over ONE persistent store (the real PNodeDB over the fake
// RocksDB), shaped like the production use of the pieces:
//
//	round <version> [kind]     drop every open trie; open the block trie (id 0); kind level (default) =
//	                           NewMerklePatriciaTrie(NewLevelNodeDB(NewMemoryNodeDB(), pndb, false), version, lastSavedRoot)
//	                           kind mem: directly over a fresh MemoryNodeDB (empty root); kind pndb: directly over the
//	                           PNodeDB at the base root (its writes and deletes hit the persistent store at once: all
//	                           earlier saved rounds count as abandoned). The base root is the latest saved round with a
//	                           version below <version>; saved rounds at versions >= <version> become superseded (a
//	                           re-execution of a round at the same version = a competing block; the chain continues
//	                           from the later one)
//	ver <id> <n>               SetVersion of a trie (block trie: a trie carried over a version bump before its save)
//	syncinto <id> <w> <pairs>  like syncfrom, on trie <id>
//	syncfrom <w> <k=hex,...>   build a donor trie at version w in a MemoryNodeDB and MergeDB it into the block trie
//	                           (state sync: the donor's nodes keep their own origins; the block trie takes its root)
//	child <id> <parent>        open a transaction trie over NewLevelNodeDB(NewMemoryNodeDB(), parent.GetNodeDB(), false)
//	                           at the parent's current root and version (grandchildren allowed)
//	ins <id> <path> <hexval>   Insert                         -> "ok <root> ev=<event stream>" | errkind
//	del <id> <path>            Delete                         -> "ok <root> ev=<event stream>" | notpresent | ...
//	get <id> <path>            GetNodeValueRaw                -> "ok <hex>" | notpresent | ...
//	merge <id> [raw] [keep]    parent.MergeMPTChanges(child), or with `raw` parent.MergeChanges(child.GetChanges())
//	                           -> "ok <parent root>" | stale | err   (ok closes the child unless `keep`)
//	discard <id>               drop the trie and its descendants -> ok
//	observe <id>               -> "ok root=<r> iter=<pairs> changes=<new[<old],...> deletes=<k,...> cur=<k,...> gone=<k,...>"
//	save                       block.SaveChanges(ctx, pndb, false); pndb.RecordDeadNodes(block.GetDeletes(), version)
//	                           -> "ok <root> n=<#keys in the persistent store>"
//	crash-save <k>             the same with a write budget of k atomic writes, then restart: re-open the store,
//	                           re-execute the round's ops, save again    -> "ok <root> n=<#keys>"
//	reopen <i>                 fresh trie on the persistent store ALONE at the i-th saved root -> "ok <pairs>" | missing
//	prune <version>            pndb.PruneBelowVersion          -> "ok n=<#keys>"
//	crash-prune <version> <k>  prune with a write budget of k, restart, prune again -> "ok n=<#keys>"
//	light                      (first op of large histories) no per-operation re-reads after ins/del -> ok
//	save-timeout a|b           SaveChanges leaves through its context while the batch is stalled in the store (b: and is
//	                           retried before the release); a nil result must mean a complete store  -> ok
//	save-fail [n]              n (default 60) times: the store fails the batch write, SaveChanges must return an error -> ok
//	pstore                     -> "ok keys=<k,...> vd=<sha3 of all key||value> dead=<version:k,k;...>"
//
// The event stream of an ins/del is the sequence of ChangeCollector calls the trie made, recorded by a decorator
// around the exported ChangeCollector field: "p:<oldkey|->:<newkey>" for AddChange, "d:<key>" for DeleteChange.
//
// Oracles (plain Go maps per trie; none of them uses the code under test to predict anything):
//
//	C03  child view = parent content at open + own ops; FRAME: after every op on one trie every other open trie is
//	     re-read (root, full iteration, pending change/delete hash sets incl. the recomputed hash of every pending
//	     node, level-store key sets) and must be exactly what it was; merge => parent content = child view and
//	     root = child root; stale merge => error and the parent exactly unchanged.
//	C04  after every save every retained root is re-opened on the persistent store alone: no missing node,
//	     iteration = recorded content; crash enumeration: for EVERY write index of the save's write stream,
//	     crash on a clone of the store, re-open, every earlier root intact, re-execute + re-save => same root, same
//	     store; the event discipline (hypothesis of theorem C04_complete_partial) is checked on the recorded log.
//	C05  recorded dead set of round r ∩ nodes reachable from root r' = ∅ for every retained r' >= r (store walk);
//	     prune v removes only keys recorded dead in rounds < v and only records < v; all roots at versions >= v
//	     stay fully readable, also for every crash prefix of the prune's write stream and after re-running it.

import (
	"bytes"
	"context"
	"fmt"
	"math"
	"os"
	"sort"
	"strconv"
	"strings"
	"sync"
	"time"

	"github.com/0chain/common/core/util"
	"github.com/linxGnu/grocksdb"
)

// ---- recording decorator around the change collector ------------------------------------------------------

type ccEvent struct {
	del      bool
	old, new string // hex keys; old == "" for AddChange(nil, n)
}

type recCC struct {
	util.ChangeCollectorI
	log *[]ccEvent
}

func (c *recCC) AddChange(o, n util.Node) {
	e := ccEvent{new: n.GetHash()}
	if o != nil {
		e.old = o.GetHash()
	}
	*c.log = append(*c.log, e)
	c.ChangeCollectorI.AddChange(o, n)
}

func (c *recCC) DeleteChange(o util.Node) {
	*c.log = append(*c.log, ccEvent{del: true, old: o.GetHash()})
	c.ChangeCollectorI.DeleteChange(o)
}

func fmtEvents(es []ccEvent) string {
	var sb strings.Builder
	for i, e := range es {
		if i > 0 {
			sb.WriteByte(',')
		}
		if e.del {
			sb.WriteString("d:" + e.old)
		} else if e.old == "" {
			sb.WriteString("p:-:" + e.new)
		} else {
			sb.WriteString("p:" + e.old + ":" + e.new)
		}
	}
	return sb.String()
}

// ---- state ------------------------------------------------------------------------------------------------

type trieH struct {
	id, parent  int
	mpt         *util.MerklePatriciaTrie
	db          util.NodeDB
	ldb         *util.LevelNodeDB // nil unless the trie is over a LevelNodeDB
	kind        string            // level | mem | pndb
	content     map[string][]byte // oracle: what this trie must contain
	openContent map[string][]byte // parent's content when this trie was opened
	parentMuts  int               // parent's mutation counter when this trie was opened
	muts        int               // successful mutations (own ops and merges) since open
	log         []ccEvent
	startKeys   map[string]bool // keys reachable from the root this trie was opened at (block trie only)
	snap        string          // last full observation (frame)
	staleReads  bool            // an ancestor moved on and this trie's reads started to fail (see frame)
	stale       bool            // an ancestor executed a successful write / merge / MergeDB after this trie was opened: reads and writes through it are outside C03 (only its merge must be rejected) and are answered with a fixed token, not executed
	// op `snap`: the tuple GetChanges() returned at that moment, with the oracle's view of the trie at that moment
	hasSnap     bool
	snapRoot    util.Key
	snapChanges []*util.NodeChange
	snapDeletes []util.Node
	snapStart   util.Key
	snapContent map[string][]byte
	snapMuts    int
}

type savedRound struct {
	version    int64
	root       util.Key
	content    map[string][]byte
	dead       map[string]bool // as stored in the dead-node record of this version
	superseded bool            // re-executed at the same version later, or abandoned: no longer retained
}

type storeRun struct {
	prop        string // "C03" | "C04" | "C05" | "" (all)
	dir         string
	pndb        *util.PNodeDB
	tries       map[int]*trieH
	version     int64
	saved       []savedRound
	pruned      int64 // highest version of a dead-node record that a prune was entitled to drop (records < v); roots saved at versions below it are no longer retained. Stronger than the property's "version >= v": a root at version r only depends on records of versions > r staying unpruned
	roundOps    []string
	noSaveCrash bool // op `light 2`
	outside     bool // op `outside-quantifier`
	observed    int
	light       bool // op `light`: no per-operation frame/view re-reads after ins/del (large histories)
	sub         bool // replaying a round on a cloned store: no output checks, no nested enumeration
	fails       []string
	tags        map[string]bool
	opIdx       int
	opText      string
	ntMerges    int
	ntSaves     int
	ntDead      int
	ntPrune     int
	bigDead     int
}

func cloneMap(m map[string][]byte) map[string][]byte {
	c := make(map[string][]byte, len(m))
	for k, v := range m {
		c[k] = v
	}
	return c
}

func mapsEqual(a, b map[string][]byte) bool {
	if len(a) != len(b) {
		return false
	}
	for k, v := range a {
		w, ok := b[k]
		if !ok || !bytes.Equal(v, w) {
			return false
		}
	}
	return true
}

// fail records an oracle failure. Failures tagged with another property than the suite's are left to that property's
// suite (c03/c04/c05 run the same histories); "*" = an operation of the implementation failed where it must succeed
// (insert, delete of a present path, merge, MergeDB, save, prune): kept in every suite, also in c05big which has no model.
func (s *storeRun) fail(prop, f string, a ...interface{}) {
	if s.outside {
		// op `outside-quantifier`: a documented history outside the property's assumptions; what the oracles see is an
		// observation, and the case must keep showing it
		s.observed++
		s.tags["observation:outside-quantifier:"+prop] = true
		return
	}
	if s.prop != "" && prop != s.prop && prop != "*" {
		return
	}
	if len(s.fails) < 12 {
		s.fails = append(s.fails, fmt.Sprintf("[%s] op %d (%s): ", prop, s.opIdx, s.opText)+fmt.Sprintf(f, a...))
	}
}

func openPNDB(dir string) *util.PNodeDB {
	db, err := util.NewPNodeDB(dir, "")
	if err != nil {
		panic(err)
	}
	return db
}

func sortedKeys(m map[string]bool) []string {
	ks := make([]string, 0, len(m))
	for k := range m {
		ks = append(ks, k)
	}
	sort.Strings(ks)
	return ks
}

// base returns the index of the saved round a block trie opened now continues from (-1: none)
func (s *storeRun) base() int {
	for i := len(s.saved) - 1; i >= 0; i-- {
		if !s.saved[i].superseded {
			return i
		}
	}
	return -1
}

func (s *storeRun) lastRoot() util.Key {
	if b := s.base(); b >= 0 {
		return s.saved[b].root
	}
	return nil
}

// ---- observations -----------------------------------------------------------------------------------------

func memKeys(db util.NodeDB) (keys []string, bad []string) {
	_ = db.Iterate(context.Background(), func(ctx context.Context, key util.Key, node util.Node) error {
		keys = append(keys, hx(key))
		if !bytes.Equal(key, node.GetHashBytes()) {
			bad = append(bad, hx(key))
		}
		return nil
	})
	sort.Strings(keys)
	sort.Strings(bad)
	return
}

// probe returns a throw-away trie over t's own node store at t's current root. All oracle reads go through a
// probe so that they do not warm t's node cache (a warmed cache hands out decoded copies and thereby hides
// aliasing between the node objects held by the stores and the change collectors).
func probe(t *trieH) *util.MerklePatriciaTrie {
	return newMPT(t.db, int64(t.mpt.GetVersion()), t.mpt.GetRoot())
}

// observe returns the canonical full observation of a trie (also the `observe` output line).
func (s *storeRun) observe(t *trieH) string {
	return guard(func() string {
		root, changes, deletes, _ := t.mpt.GetChanges()
		ps, err := iterPairs(probe(t))
		it := fmtPairs(ps)
		if err != nil {
			it = "!" + errKind(err)
		}
		var ch []string
		for _, c := range changes {
			e := c.New.GetHash()
			if c.Old != nil {
				e += "<" + c.Old.GetHash()
			}
			ch = append(ch, e)
		}
		sort.Strings(ch)
		var dl []string
		for _, d := range deletes {
			dl = append(dl, d.GetHash())
		}
		sort.Strings(dl)
		var cur, bad, gone []string
		switch t.kind {
		case "level":
			cur, bad = memKeys(t.ldb.GetCurrent())
			for k := range t.ldb.DeletedNodes {
				gone = append(gone, hx([]byte(k)))
			}
		case "mem":
			cur, bad = memKeys(t.db)
		}
		sort.Strings(gone)
		o := "ok root=" + rootStr(root) + " iter=" + it + " changes=" + strings.Join(ch, ",") + " deletes=" + strings.Join(dl, ",") +
			" cur=" + strings.Join(cur, ",") + " gone=" + strings.Join(gone, ",")
		if len(bad) > 0 {
			o += " BADKEYS=" + strings.Join(bad, ",")
		}
		return o
	})
}

// checkView compares a trie with its oracle map (lookups of every key of the map + full iteration).
func (s *storeRun) checkView(t *trieH, what string) {
	got := guard(func() string {
		ps, err := iterPairs(probe(t))
		if err != nil {
			return errKind(err)
		}
		return "ok " + fmtPairs(ps)
	})
	if want := "ok " + fmtPairs(sortedPairs(t.content)); got != want {
		s.fail("C03", "%s: trie %d iterates %q, want %q", what, t.id, got, want)
	}
}

func (s *storeRun) descendants(id int) []int {
	var out []int
	var rec func(p int)
	rec = func(p int) {
		for _, t := range s.tries {
			if t.parent == p && t.id != p {
				out = append(out, t.id)
				rec(t.id)
			}
		}
	}
	rec(id)
	sort.Ints(out)
	return out
}

// ancestorMoved: some ancestor of t was mutated after t (or the ancestor in between) was opened: t is stale, it reads
// through the ancestor's store and its reads may fail (see frame); it must never read different content
func (s *storeRun) ancestorMoved(t *trieH) bool {
	for cur := t; cur.id != cur.parent; {
		p, ok := s.tries[cur.parent]
		if !ok {
			return true
		}
		if p.muts != cur.parentMuts {
			return true
		}
		cur = p
	}
	return false
}

// wrote: trie t executed a successful write (own operation, accepted merge of `except` into it, MergeDB): every open
// descendant of t is stale from now on - except the child whose accepted merge this is (the parent moved exactly to that
// child's state; the child's own descendants are stale). The model driver applies the same rule.
func (s *storeRun) wrote(t *trieH, except int) {
	t.muts++
	for _, d := range s.descendants(t.id) {
		if d != except {
			s.tries[d].stale = true
		}
	}
}

func staleReadError(out string) bool {
	return out == "nodenotfound" || out == "iterchild" || out == "missingnodes"
}

func (s *storeRun) isDescendant(id, anc int) bool {
	for id != anc {
		t, ok := s.tries[id]
		if !ok || t.parent == id {
			return false
		}
		id = t.parent
	}
	return true
}

// frame: every open trie except `except` must be observed exactly as it was. `staleOf` >= 0 names a trie that
// was just mutated: its descendants opened earlier read through its store, their reads may now fail (they are
// stale and can only be discarded or rejected), but they may never observe different content.
func (s *storeRun) frame(except map[int]bool, mutated int) {
	if len(s.tries) == 1 {
		for _, t := range s.tries {
			t.snap = "" // refreshed when a second trie is opened
		}
		return
	}
	ids := make([]int, 0, len(s.tries))
	for id := range s.tries {
		ids = append(ids, id)
	}
	sort.Ints(ids)
	for _, id := range ids {
		t := s.tries[id]
		now := s.observe(t)
		if except[id] || t.snap == "" {
			t.snap = now
			continue
		}
		if now != t.snap {
			if (t.staleReads || t.stale) && sameButIter(now, t.snap) {
				continue
			}
			if mutated >= 0 && id != mutated && s.isDescendant(id, mutated) && sameButIter(now, t.snap) {
				// OBSERVATION (not counted as a violation): a trie whose ancestor moved on reads through the
				// ancestor's store, from which the ancestor removes its own superseded pending nodes; the stale
				// trie's reads may fail from now on (it can only be discarded or be rejected by merge), but it
				// never reads different content and its own root and pending changes stay as they were
				s.tags["stale-descendant-read-broken"] = true
				t.staleReads = true
				continue
			}
			s.fail("C03", "frame: trie %d changed although the operation was on another trie:\n   was %s\n   now %s", id, clip(t.snap), clip(now))
		}
	}
}

// sameButIter: the two observations differ only in the iteration part and the new one is a read error
func sameButIter(now, was string) bool {
	cut := func(o string) (string, string) {
		i := strings.Index(o, " iter=")
		j := strings.Index(o, " changes=")
		if i < 0 || j < 0 {
			return o, ""
		}
		return o[:i] + o[j:], o[i+6 : j]
	}
	a, ia := cut(now)
	b, ib := cut(was)
	return a == b && (strings.HasPrefix(ia, "!") || ia == ib)
}

func clip(s string) string {
	if len(s) > 700 {
		return s[:700] + "..."
	}
	return s
}

// ---- persistent-store walks ------------------------------------------------------------------------------

// walkRoot opens a fresh trie on the persistent store alone and returns its content, the set of node keys
// reachable from root, and whether a node is missing.
func walkRoot(dir string, version int64, root util.Key) (ps []pair, keys map[string]bool, missing bool, err error) {
	keys = map[string]bool{}
	if len(root) == 0 {
		return nil, keys, false, nil
	}
	db := openPNDB(dir)
	mpt := newMPT(db, version, root)
	func() {
		defer func() {
			if r := recover(); r != nil {
				err = fmt.Errorf("panic: %v", r)
			}
		}()
		var m bool
		m, err = mpt.HasMissingNodes(context.Background())
		if m {
			missing = true
		}
		if err != nil || missing {
			return
		}
		err = mpt.Iterate(context.Background(), func(ctx context.Context, path util.Path, key util.Key, node util.Node) error {
			if node == nil {
				missing = true
				return nil
			}
			if vn, ok := node.(*util.ValueNode); ok {
				ps = append(ps, pair{string(append([]byte(nil), path...)), append([]byte(nil), vn.GetValueBytes()...)})
				return nil
			}
			keys[hx(key)] = true
			if !bytes.Equal(key, node.GetHashBytes()) {
				err = fmt.Errorf("node stored under %s hashes to %s", hx(key), node.GetHash())
			}
			return nil
		}, util.NodeTypesAll)
	}()
	return
}

// checkRetained: every retained saved root is complete on the store in `dir` and holds exactly its content;
// the dead sets recorded for rounds <= r' are disjoint from the nodes reachable from root r'.
func (s *storeRun) checkRetained(dir string, upto int, prop, what string) {
	for i := 0; i < upto && i < len(s.saved); i++ {
		sr := s.saved[i]
		if sr.version < s.pruned || sr.superseded {
			continue
		}
		ps, keys, missing, err := walkRoot(dir, sr.version, sr.root)
		if missing || err != nil {
			s.fail(prop, "%s: saved root #%d (version %d, %s) is not readable from the persistent store alone: missing=%v err=%v", what, i, sr.version, rootStr(sr.root), missing, err)
			continue
		}
		if got, want := fmtPairs(ps), fmtPairs(sortedPairs(sr.content)); got != want {
			s.fail(prop, "%s: saved root #%d (version %d) reads %q, want %q", what, i, sr.version, got, want)
		}
		for j := 0; j <= i; j++ {
			if s.saved[j].superseded {
				continue
			}
			for k := range s.saved[j].dead {
				if keys[k] {
					s.fail("C05", "%s: node %s recorded dead in round #%d (version %d) is reachable from the root of round #%d (version %d)", what, k, j, s.saved[j].version, i, sr.version)
				}
			}
		}
	}
}

// decodeDead reads a dead-node record (msgp: {"Nodes": {hexkey: bool}}) without using the code under test.
func decodeDead(b []byte) (map[string]bool, error) {
	out := map[string]bool{}
	hdr := []byte{0x81, 0xa5, 'N', 'o', 'd', 'e', 's'}
	if !bytes.HasPrefix(b, hdr) {
		return nil, fmt.Errorf("bad dead-node record header")
	}
	b = b[len(hdr):]
	var n int
	switch {
	case len(b) >= 1 && b[0]&0xf0 == 0x80:
		n, b = int(b[0]&0x0f), b[1:]
	case len(b) >= 3 && b[0] == 0xde:
		n, b = int(b[1])<<8|int(b[2]), b[3:]
	case len(b) >= 5 && b[0] == 0xdf:
		n, b = int(b[1])<<24|int(b[2])<<16|int(b[3])<<8|int(b[4]), b[5:]
	default:
		return nil, fmt.Errorf("bad map header")
	}
	for i := 0; i < n; i++ {
		var l int
		switch {
		case len(b) >= 1 && b[0]&0xe0 == 0xa0:
			l, b = int(b[0]&0x1f), b[1:]
		case len(b) >= 2 && b[0] == 0xd9:
			l, b = int(b[1]), b[2:]
		case len(b) >= 3 && b[0] == 0xda:
			l, b = int(b[1])<<8|int(b[2]), b[3:]
		default:
			return nil, fmt.Errorf("bad string header")
		}
		if len(b) < l+1 {
			return nil, fmt.Errorf("truncated record")
		}
		out[string(b[:l])] = true
		b = b[l+1:]
	}
	return out, nil
}

// deadRecs: the dead-node records of the store; a record the code under test wrote that does not decode is a failure
// (the dead ∩ live checks would otherwise pass vacuously on a sentinel set)
func (s *storeRun) deadRecs(dir string) map[int64]map[string]bool {
	recs := deadRecords(dir)
	for ver, m := range recs {
		if m["undecodable"] {
			s.fail("C05", "the dead-node record of version %d written by RecordDeadNodes does not decode as msgp {Nodes: {hexkey: bool}}", ver)
		}
	}
	return recs
}

func deadRecords(dir string) map[int64]map[string]bool {
	out := map[int64]map[string]bool{}
	for k, v := range grocksdb.FakeSnapshot(dir, "dead_nodes") {
		var ver int64
		for _, c := range []byte(k) {
			ver = ver<<8 | int64(c)
		}
		m, err := decodeDead(v)
		if err != nil {
			m = map[string]bool{"undecodable": true}
		}
		out[ver] = m
	}
	return out
}

func snapEqual(a, b map[string][]byte) bool { return mapsEqual(a, b) }

func pstoreLine(dir string) string {
	def := grocksdb.FakeSnapshot(dir, "default")
	keys := make([]string, 0, len(def))
	for k := range def {
		keys = append(keys, k)
	}
	sort.Strings(keys)
	var cat []byte
	hk := make([]string, len(keys))
	for i, k := range keys {
		hk[i] = hx([]byte(k))
		cat = append(cat, k...)
		cat = append(cat, def[k]...)
	}
	recs := deadRecords(dir)
	vers := make([]int64, 0, len(recs))
	for v := range recs {
		vers = append(vers, v)
	}
	sort.Slice(vers, func(i, j int) bool { return vers[i] < vers[j] })
	var ds []string
	for _, v := range vers {
		ds = append(ds, strconv.FormatInt(v, 10)+":"+strings.Join(sortedKeys(recs[v]), ","))
	}
	return "ok keys=" + strings.Join(hk, ",") + " vd=" + hx(sha3sum(cat)) + " dead=" + strings.Join(ds, ";")
}

// adversarialOrder reports whether some key is both the New of one change and the Old of another (the state
// behind the fixed defect corpus/C03/fixed_merge_order.ops) and, if so, sorts the changes so that the creation of such a key comes before
// its replacement: rank 0 = changes whose New is another change's Old, then the rest; by New hash within a rank.
func adversarialOrder(changes []*util.NodeChange) bool {
	olds := map[string]bool{}
	for _, c := range changes {
		if c.Old != nil {
			olds[c.Old.GetHash()] = true
		}
	}
	overlap := false
	for _, c := range changes {
		if olds[c.New.GetHash()] {
			overlap = true
		}
	}
	if !overlap {
		return false
	}
	rank := func(c *util.NodeChange) int {
		if olds[c.New.GetHash()] {
			return 0
		}
		return 1
	}
	sort.SliceStable(changes, func(i, j int) bool {
		ri, rj := rank(changes[i]), rank(changes[j])
		if ri != rj {
			return ri < rj
		}
		return changes[i].New.GetHash() < changes[j].New.GetHash()
	})
	return true
}

// leanConst reads a numeric constant from lean/Verif/Gen/Constants.lean (regenerated from the Go source by bin/check
// before every run; the harness runs with the framework root as working directory; VERIF_CONSTANTS overrides the path).
// A changed constant re-parameterises the boundary cases.
var leanConsts map[string]int
var leanConstsOnce sync.Once

func leanConst(name string, def int) int {
	leanConstsOnce.Do(func() {
		leanConsts = map[string]int{}
		path := os.Getenv("VERIF_CONSTANTS")
		if path == "" {
			path = "lean/Verif/Gen/Constants.lean"
		}
		b, err := os.ReadFile(path)
		if err != nil {
			return
		}
		for _, ln := range strings.Split(string(b), "\n") {
			var n string
			var v int
			if _, err := fmt.Sscanf(ln, "def %s : Nat := %d", &n, &v); err == nil {
				leanConsts[n] = v
			}
		}
	})
	if v, ok := leanConsts[name]; ok && v > 0 {
		return v
	}
	return def
}

// writeSizes: the number of entries of every durable write of a logged stretch, e.g. "1000+1001+2" ("-": no write)
func writeSizes(recs []grocksdb.WriteRecord) string {
	if len(recs) == 0 {
		return "-"
	}
	var parts []string
	for _, r := range recs {
		parts = append(parts, strconv.Itoa(len(r.Ops)))
	}
	return strings.Join(parts, "+")
}

// bulkNext: one step of the bulk generator (64-bit LCG, shared with suite c17 and the model drivers)
func bulkNext(x uint64) (uint64, string, []byte) {
	x = x*6364136223846793005 + 1442695040888963407
	return x, fmt.Sprintf("%08x", uint32(x>>32)), []byte{byte(0x41 + (x>>8)%26), byte(x)}
}

// ---- operations -------------------------------------------------------------------------------------------

func (s *storeRun) openBlock(version int64, kind string) *trieH {
	t := &trieH{id: 0, parent: 0, kind: kind, content: map[string][]byte{}}
	root := s.lastRoot()
	switch kind {
	case "mem":
		t.db = util.NewMemoryNodeDB()
		root = nil
	case "pndb":
		t.db = s.pndb
	default:
		t.kind = "level"
		t.ldb = util.NewLevelNodeDB(util.NewMemoryNodeDB(), s.pndb, false)
		t.db = t.ldb
	}
	if b := s.base(); b >= 0 && kind != "mem" {
		t.content = cloneMap(s.saved[b].content)
	}
	t.openContent = cloneMap(t.content)
	t.mpt = newMPT(t.db, version, root)
	t.mpt.ChangeCollector = &recCC{ChangeCollectorI: t.mpt.ChangeCollector, log: &t.log}
	return t
}

func (s *storeRun) openChild(id int, p *trieH) *trieH {
	ldb := util.NewLevelNodeDB(util.NewMemoryNodeDB(), p.mpt.GetNodeDB(), false)
	t := &trieH{id: id, parent: p.id, ldb: ldb, db: ldb, kind: "level", content: cloneMap(p.content), openContent: cloneMap(p.content), parentMuts: p.muts}
	t.mpt = newMPT(ldb, int64(p.mpt.GetVersion()), p.mpt.GetRoot())
	t.mpt.ChangeCollector = &recCC{ChangeCollectorI: t.mpt.ChangeCollector, log: &t.log}
	return t
}

func (s *storeRun) closeTrie(id int) {
	for _, d := range s.descendants(id) {
		delete(s.tries, d)
	}
	delete(s.tries, id)
}

// doSave runs SaveChanges + RecordDeadNodes of the block trie against db; returns the first error.
func doSave(t *trieH, db *util.PNodeDB, version int64) error {
	if err := t.mpt.SaveChanges(context.Background(), db, false); err != nil {
		return err
	}
	return db.RecordDeadNodes(t.mpt.GetDeletes(), version)
}

// checkDiscipline checks, on the recorded collector call log of the block trie, the hypotheses of theorem
// C04_complete_partial / dead_not_live: with L0 = keys reachable from the start root,
//
//	AddChange(old,new): old ∈ L, key(old) ≠ key(new);  L := L \ {old} ∪ {new}
//	DeleteChange(old):  no condition (mergeChanges replays the child's Deletes, which repeat the Old of its changes
//	                    and may name nodes that only ever lived in the child);  L := L \ {old}
//
// and the keys reachable from the final root are all in the final L.
func (s *storeRun) checkDiscipline(t *trieH) {
	L := map[string]bool{}
	for k := range t.startKeys {
		L[k] = true
	}
	for i, e := range t.log {
		if e.old != "" && !L[e.old] && !e.del {
			s.fail("C04", "event discipline: event %d of the block trie removes node %s which is not live", i, e.old)
			return
		}
		if !e.del && e.old == e.new {
			s.fail("C04", "event discipline: event %d of the block trie replaces node %s by itself", i, e.old)
			return
		}
		if e.old != "" {
			delete(L, e.old)
		}
		if !e.del {
			L[e.new] = true // may already be live: a child re-created a node of its parent identically
		}
	}
	// final tree ⊆ L: walk the block trie through its own stores
	missing := ""
	_ = probe(t).Iterate(context.Background(), func(ctx context.Context, path util.Path, key util.Key, node util.Node) error {
		if node != nil && !L[hx(key)] && missing == "" {
			missing = hx(key)
		}
		return nil
	}, util.NodeTypeLeafNode|util.NodeTypeFullNode|util.NodeTypeExtensionNode)
	if missing != "" {
		s.fail("C04", "event discipline: node %s of the final tree is not in the live set computed from the event log", missing)
	}
}

func (s *storeRun) recordSaved(t *trieH) {
	recs := s.deadRecs(s.dir)
	dead := recs[s.version]
	if dead == nil {
		dead = map[string]bool{}
	}
	s.saved = append(s.saved, savedRound{version: s.version, root: append(util.Key(nil), t.mpt.GetRoot()...), content: cloneMap(t.content), dead: dead})
	if len(dead) > 0 {
		s.ntDead++
	}
	if len(dead) > s.bigDead {
		s.bigDead = len(dead)
	}
}

// replayRound re-executes the recorded ops of the current round on the store in dir and saves; returns the sub-run.
func (s *storeRun) replayRound(dir string) *storeRun {
	sub := &storeRun{prop: s.prop, dir: dir, pndb: openPNDB(dir), tries: map[int]*trieH{}, saved: append([]savedRound(nil), s.saved...),
		pruned: s.pruned, sub: true, tags: map[string]bool{}}
	for _, op := range s.roundOps {
		sub.exec(op)
	}
	sub.exec("save")
	return sub
}

func (s *storeRun) exec(op string) string {
	s.opText = op
	f := strings.Fields(op)
	atoi := func(x string) int {
		n, err := strconv.Atoi(x)
		if err != nil {
			panic("bad number in op: " + op)
		}
		return n
	}
	trie := func(x string) *trieH {
		t, ok := s.tries[atoi(x)]
		if !ok {
			return nil
		}
		return t
	}
	switch f[0] {
	case "outside-quantifier":
		s.outside = true
		return "ok"

	case "light":
		// light: no per-operation frame/view re-reads after ins/del/bulk (large histories);
		// light 2: additionally no crash enumeration at saves (large prune histories; saves are enumerated elsewhere)
		s.light = true
		if len(f) > 1 && f[1] == "2" {
			s.noSaveCrash = true
		}
		return "ok"
	case "round":
		s.version = int64(atoi(f[1]))
		kind := "level"
		if len(f) > 2 {
			kind = f[2]
		}
		for i := range s.saved {
			if s.saved[i].version >= s.version && !s.saved[i].superseded {
				// a round executed again at this version supersedes the earlier execution (a competing block: the
				// chain continues from the later one)
				s.saved[i].superseded = true
				s.tags["round-reexecuted-at-same-version"] = true
			}
		}
		s.tries = map[int]*trieH{}
		t := s.openBlock(s.version, kind)
		s.tries[0] = t
		s.roundOps = []string{op}
		s.tags["parent:"+t.kind] = true
		if !s.sub {
			if t.kind == "mem" {
				t.startKeys = map[string]bool{}
			} else {
				_, keys, _, _ := walkRoot(s.dir, s.version, s.lastRoot())
				t.startKeys = keys
			}
			t.snap = s.observe(t)
		}
		if kind == "pndb" {
			// a trie working directly on the persistent store deletes replaced nodes there at once: every earlier
			// saved round (also the one it continues from) is abandoned
			for i := range s.saved {
				s.saved[i].superseded = true
			}
		}
		return "ok " + rootStr(t.mpt.GetRoot())

	case "ver":
		t := trie(f[1])
		if t == nil {
			return "bad-op"
		}
		s.roundOps = append(s.roundOps, op)
		v := int64(atoi(f[2]))
		if t.id == 0 {
			s.version = v
		} else {
			s.tags["version-bump-child"] = true
		}
		if len(s.tries) > 1 {
			s.tags["version-bump-with-children-open"] = true
		}
		t.mpt.SetVersion(util.Sequence(v))
		s.tags["version-bump"] = true
		if !s.sub {
			s.frame(map[int]bool{t.id: true}, -1)
		}
		return "ok"

	case "syncfrom", "syncinto":
		// syncinto <id> <w> <pairs>: the same on trie <id> (a child filled by MergeDB)
		t := s.tries[0]
		if f[0] == "syncinto" {
			t = trie(f[1])
			f = append([]string{"syncfrom"}, f[2:]...)
			s.tags["syncinto-child"] = true
		}
		if t == nil {
			return "bad-op"
		}
		if t.stale {
			s.tags["stale-write-skipped"] = true
			return "stale-write"
		}
		s.roundOps = append(s.roundOps, op)
		w := int64(atoi(f[1]))
		donorDB := util.NewMemoryNodeDB()
		var donorRoot util.Key
		content := map[string][]byte{}
		if f[len(f)-1] == "base" {
			// the donor is built off the saved state this round continues from (a peer that is a few inserts ahead of
			// that state): its store holds every node of that state, identical to the nodes this store holds
			f = f[:len(f)-1]
			if b := s.base(); b >= 0 {
				src := newMPT(s.pndb, w, s.saved[b].root)
				err := src.Iterate(context.Background(), func(ctx context.Context, path util.Path, key util.Key, node util.Node) error {
					if node != nil {
						return donorDB.PutNode(append(util.Key(nil), key...), node.CloneNode())
					}
					return nil
				}, util.NodeTypeLeafNode|util.NodeTypeFullNode|util.NodeTypeExtensionNode)
				if err != nil {
					s.fail("C05", "the saved state the round continues from cannot be read for the donor: %v", err)
				}
				donorRoot = append(util.Key(nil), s.saved[b].root...)
				content = cloneMap(s.saved[b].content)
			}
			s.tags["sync-base-donor"] = true
			if t.muts > 0 {
				s.tags["sync-base-donor-after-own-ops"] = true
			}
		}
		donor := newMPT(donorDB, w, donorRoot)
		if len(f) > 2 && f[2] != "-" {
			for _, kv := range strings.Split(f[2], ",") {
				i := strings.IndexByte(kv, '=')
				k, v := pathOf(kv[:i]), unhx(kv[i+1:])
				if _, err := donor.Insert([]byte(k), mkVal(append([]byte(nil), v...))); err != nil {
					panic("donor insert failed: " + err.Error())
				}
				content[k] = v
			}
		}
		out := guard(func() string {
			if err := t.mpt.MergeDB(donorDB, donor.GetRoot(), nil); err != nil {
				return errKind(err)
			}
			return "ok " + rootStr(t.mpt.GetRoot())
		})
		if !strings.HasPrefix(out, "ok") {
			s.fail("*", "MergeDB from a donor store failed: %s", out)
		}
		t.content = content
		s.wrote(t, -1)
		s.tags["syncfrom"] = true
		if w != s.version {
			s.tags["syncfrom-other-origin"] = true
		}
		if !s.sub {
			s.checkView(t, "after MergeDB")
			s.frame(map[int]bool{t.id: true}, t.id)
		}
		return out

	case "child":
		p := trie(f[2])
		id := atoi(f[1])
		if p == nil || s.tries[id] != nil || id == 0 {
			return "bad-op"
		}
		s.roundOps = append(s.roundOps, op)
		if !s.sub {
			for _, o := range s.tries {
				if o.snap == "" {
					o.snap = s.observe(o)
				}
			}
		}
		t := s.openChild(id, p)
		t.stale = p.stale
		s.tries[id] = t
		if !s.sub && !t.stale {
			s.checkView(t, "child view at open")
			s.frame(map[int]bool{id: true}, -1)
		}
		return "ok " + rootStr(t.mpt.GetRoot())

	case "ins", "del":
		t := trie(f[1])
		if t == nil {
			return "bad-op"
		}
		if t.stale {
			// a stale trie is only merged (rejected) or discarded: its writes read through the ancestor's store
			s.tags["stale-write-skipped"] = true
			return "stale-write"
		}
		s.roundOps = append(s.roundOps, op)
		path := pathOf(f[2])
		var val []byte
		if f[0] == "ins" {
			val = unhx(f[3])
		}
		// the path buffer is handed over like production code does (a fresh slice per call, never touched
		// again); the value buffer is scribbled over after the call
		pathBuf := []byte(path)
		valBuf := append([]byte(nil), val...)
		l0 := len(t.log)
		before := t.mpt.GetRoot()
		out := guard(func() string {
			var k util.Key
			var err error
			if f[0] == "del" {
				k, err = t.mpt.Delete(pathBuf)
			} else {
				k, err = t.mpt.Insert(pathBuf, mkVal(valBuf))
			}
			if err != nil {
				return errKind(err)
			}
			return "ok " + rootStr(k) + " ev=" + fmtEvents(t.log[l0:])
		})
		for j := range valBuf {
			valBuf[j] ^= 0xff
		}
		if os.Getenv("VERIF_SCRIBBLE_PATH") != "" {
			// diagnostic only (see notes/C03.md): Insert keeps references into the caller's path slice
			for j := range pathBuf {
				pathBuf[j] = 'f'
			}
		}
		_, present := t.content[path]
		switch {
		case f[0] == "ins":
			if !strings.HasPrefix(out, "ok") {
				s.fail("*", "insert into trie %d failed: %s", t.id, out)
			} else {
				t.content[path] = val
				s.wrote(t, -1)
			}
		case present:
			if !strings.HasPrefix(out, "ok") {
				s.fail("*", "delete of a path present in the view of trie %d failed: %s", t.id, out)
			} else {
				delete(t.content, path)
				s.wrote(t, -1)
				s.tags["delete-present"] = true
			}
		default:
			if out != "notpresent" {
				s.fail("C03", "delete of a path absent from the view of trie %d returned %q", t.id, out)
			}
			if !bytes.Equal(before, t.mpt.GetRoot()) {
				s.fail("C03", "failed delete changed the root of trie %d", t.id)
			}
		}
		if !s.sub && !s.light {
			s.checkView(t, "after own operation")
			s.frame(map[int]bool{t.id: true}, t.id)
		} else {
			t.snap = ""
		}
		return out

	case "bulk":
		// bulk <id> <n1> <seed1> [<n2> <seed2> ...]: n Inserts of pseudo-random 8-nibble paths / 2-byte values per pair
		// (the 64-bit generator of suite c17, the same on the model side); the same seed re-creates the same keys and values
		t := trie(f[1])
		if t == nil || len(f) < 4 || len(f)%2 != 0 {
			return "bad-op"
		}
		if t.stale {
			s.tags["stale-write-skipped"] = true
			return "stale-write"
		}
		s.roundOps = append(s.roundOps, op)
		out := guard(func() string {
			for i := 2; i+1 < len(f); i += 2 {
				x, err := strconv.ParseUint(f[i+1], 10, 64)
				if err != nil {
					panic("bad seed in op: " + op)
				}
				for j, n := 0, atoi(f[i]); j < n; j++ {
					var path string
					var val []byte
					x, path, val = bulkNext(x)
					if _, err := t.mpt.Insert([]byte(path), mkVal(append([]byte(nil), val...))); err != nil {
						return errKind(err)
					}
					t.content[path] = val
				}
			}
			return "ok " + rootStr(t.mpt.GetRoot())
		})
		if !strings.HasPrefix(out, "ok") {
			s.fail("*", "bulk insert into trie %d failed: %s", t.id, out)
		}
		s.wrote(t, -1)
		s.tags["bulk"] = true
		if !s.sub && !s.light {
			s.checkView(t, "after bulk insert")
			s.frame(map[int]bool{t.id: true}, t.id)
		} else {
			t.snap = ""
		}
		return out

	case "iter":
		// iteration THROUGH THE TRIE OBJECT ITSELF (not a probe): whatever the object caches is exercised
		t := trie(f[1])
		if t == nil {
			return "bad-op"
		}
		if t.stale {
			s.tags["stale-read-skipped"] = true
			return "stale-read"
		}
		out := guard(func() string {
			ps, err := iterPairs(t.mpt)
			if err != nil {
				return errKind(err)
			}
			return "ok " + fmtPairs(ps)
		})
		if staleReadError(out) && s.ancestorMoved(t) {
			s.tags["stale-descendant-read-broken"] = true
			return out
		}
		if want := "ok " + fmtPairs(sortedPairs(t.content)); out != want {
			s.fail("C03", "iteration through trie %d itself returned %q, want %q (parent content + own operations)", t.id, clip(out), clip(want))
		}
		s.tags["same-object-iter"] = true
		return out

	case "get", "getv":
		// point lookup through the trie object itself: GetNodeValueRaw (get) / GetNodeValue into a value (getv)
		t := trie(f[1])
		if t == nil {
			return "bad-op"
		}
		if t.stale {
			s.tags["stale-read-skipped"] = true
			return "stale-read"
		}
		path := pathOf(f[2])
		out := guard(func() string {
			if f[0] == "getv" {
				var v sval
				if err := t.mpt.GetNodeValue([]byte(path), &v); err != nil {
					return errKind(err)
				}
				return "ok " + hx(v.Buffer)
			}
			v, err := t.mpt.GetNodeValueRaw([]byte(path))
			if err != nil {
				return errKind(err)
			}
			return "ok " + hx(v)
		})
		if t.muts > 0 || t.parent != t.id {
			s.tags["same-object-read"] = true
		}
		if staleReadError(out) && s.ancestorMoved(t) {
			s.tags["stale-descendant-read-broken"] = true
			return out
		}
		want := "notpresent"
		if v, ok := t.content[path]; ok {
			want = "ok " + hx(v)
		}
		if out != want {
			s.fail("C03", "lookup(%s) in trie %d returned %q, want %q (parent content + own operations)", path, t.id, out, want)
		}
		return out

	case "merge":
		c := trie(f[1])
		if c == nil || c.id == 0 {
			return "bad-op"
		}
		p := s.tries[c.parent]
		s.roundOps = append(s.roundOps, op)
		raw, keep := false, false
		for _, fl := range f[2:] {
			switch fl {
			case "raw": // through the exported MergeChanges(child.GetChanges()) instead of MergeMPTChanges(child)
				raw = true
			case "keep": // the child stays open after an accepted merge (it may go on and be merged again)
				keep = true
			}
		}
		pSnap := p.snap
		newRoot, changes, deletes, startRoot := c.mpt.GetChanges()
		overlap := adversarialOrder(changes)
		for bs, d := leanConst("batchSize", 256), 0; d < 5; d++ {
			if b := []int{bs - 1, bs, bs + 1, 2 * bs, 2*bs + 1}[d]; len(changes) == b {
				s.tags[fmt.Sprintf("merge-changes=batchSize%+d", b-bs)] = true
			}
		}
		if os.Getenv("VERIF_MERGE_MAPORDER") != "" {
			overlap = false // diagnostic: let MergeMPTChanges use Go's map order also in the overlap case
		}
		out := guard(func() string {
			var err error
			if overlap || raw {
				// raw: both entry points are the API and must apply the same guards.
				// fixed defect (corpus/C03/fixed_merge_order.ops): MergeMPTChanges hands mergeChanges the child's
				// changes in Go map order; before the fix the outcome depended on that order when a key is the New
				// of one change and the Old of another. The exported MergeChanges takes the changes as a slice:
				// feed them in the bad order (creation before replacement), mergeChanges must cope.
				err = p.mpt.MergeChanges(newRoot, changes, deletes, startRoot)
			} else {
				err = p.mpt.MergeMPTChanges(c.mpt)
			}
			if err != nil {
				return errKind(err)
			}
			return "ok " + rootStr(p.mpt.GetRoot())
		})
		if overlap {
			s.tags["merge-new-old-overlap"] = true
		}
		if raw {
			s.tags["merge-raw"] = true
		}
		parentMoved := p.muts != c.parentMuts
		switch {
		case strings.HasPrefix(out, "ok"):
			if parentMoved && !mapsEqual(p.content, c.openContent) && !mapsEqual(p.content, c.content) {
				s.fail("C03", "merge of stale trie %d (its parent %d changed since it was opened) was accepted", c.id, p.id)
			}
			if c.muts > 0 {
				s.wrote(p, c.id) // the root may move even when the content does not (identical content re-created at a newer version)
			}
			if !mapsEqual(p.content, c.content) {
				s.ntMerges++
			}
			p.content = cloneMap(c.content)
			if !bytes.Equal(p.mpt.GetRoot(), c.mpt.GetRoot()) {
				s.fail("C03", "after merge the parent's root %s differs from the child's root %s", rootStr(p.mpt.GetRoot()), rootStr(c.mpt.GetRoot()))
			}
			if keep {
				s.tags["merge-keep"] = true
			} else {
				s.closeTrie(c.id)
			}
			if !s.sub {
				s.checkView(p, "parent after merge")
				s.frame(map[int]bool{p.id: true}, p.id)
			}
			s.tags["merge-ok"] = true
		case out == "stale":
			if !parentMoved {
				s.fail("C03", "merge of trie %d rejected as stale although its parent %d did not change since it was opened", c.id, p.id)
			}
			s.tags["merge-stale"] = true
			if !s.sub {
				if now := s.observe(p); now != pSnap {
					s.fail("C03", "rejected (stale) merge changed the parent %d:\n   was %s\n   now %s", p.id, clip(pSnap), clip(now))
				}
				s.checkView(p, "parent after rejected merge")
				s.frame(map[int]bool{}, -1)
			}
		default:
			s.fail("*", "merge of trie %d returned %q", c.id, out)
		}
		return out

	case "snap":
		// keep the change set the child hands out NOW (a block builder that takes a transaction's changes and merges
		// them later); the child may go on writing
		c := trie(f[1])
		if c == nil || c.id == 0 {
			return "bad-op"
		}
		s.roundOps = append(s.roundOps, op)
		c.snapRoot, c.snapChanges, c.snapDeletes, c.snapStart = c.mpt.GetChanges()
		c.snapRoot = append(util.Key(nil), c.snapRoot...)
		c.snapContent = cloneMap(c.content)
		c.snapMuts = c.muts
		c.hasSnap = true
		s.tags["snap"] = true
		return "ok " + rootStr(c.snapRoot)

	case "mergesnap":
		// parent.MergeChanges(the tuple taken by `snap`): the parent must take over the child's state AT SNAPSHOT TIME
		c := trie(f[1])
		if c == nil || c.id == 0 || !c.hasSnap {
			return "bad-op"
		}
		p := s.tries[c.parent]
		s.roundOps = append(s.roundOps, op)
		pSnap := p.snap
		if adversarialOrder(c.snapChanges) {
			s.tags["merge-new-old-overlap"] = true
		}
		out := guard(func() string {
			if err := p.mpt.MergeChanges(c.snapRoot, c.snapChanges, c.snapDeletes, c.snapStart); err != nil {
				return errKind(err)
			}
			return "ok " + rootStr(p.mpt.GetRoot())
		})
		if c.muts != c.snapMuts {
			s.tags["mergesnap-child-wrote-after-snap"] = true
		}
		parentMoved := p.muts != c.parentMuts
		switch {
		case strings.HasPrefix(out, "ok"):
			if parentMoved && !mapsEqual(p.content, c.openContent) && !mapsEqual(p.content, c.snapContent) {
				s.fail("C03", "merge of a stale change set of trie %d (its parent %d changed since it was opened) was accepted", c.id, p.id)
			}
			if c.snapMuts > 0 {
				s.wrote(p, -1)
			}
			if !mapsEqual(p.content, c.snapContent) {
				s.ntMerges++
			}
			p.content = cloneMap(c.snapContent)
			if !bytes.Equal(p.mpt.GetRoot(), c.snapRoot) {
				s.fail("C03", "after merging the change set taken from trie %d the parent's root %s differs from the root handed out with it %s", c.id, rootStr(p.mpt.GetRoot()), rootStr(c.snapRoot))
			}
			if !s.sub {
				s.checkView(p, "parent after merging a change set taken earlier (want: the child's content when it was taken)")
				s.frame(map[int]bool{p.id: true}, p.id)
			}
			s.tags["mergesnap-ok"] = true
		case out == "stale":
			if !parentMoved {
				s.fail("C03", "change set of trie %d rejected as stale although its parent %d did not change since it was opened", c.id, p.id)
			}
			s.tags["mergesnap-stale"] = true
			if !s.sub {
				if now := s.observe(p); now != pSnap {
					s.fail("C03", "rejected (stale) merge changed the parent %d:\n   was %s\n   now %s", p.id, clip(pSnap), clip(now))
				}
				s.checkView(p, "parent after rejected merge")
				s.frame(map[int]bool{}, -1)
			}
		default:
			s.fail("*", "merge of the change set of trie %d returned %q", c.id, out)
		}
		return out

	case "discard":
		t := trie(f[1])
		if t == nil || t.id == 0 {
			return "bad-op"
		}
		s.roundOps = append(s.roundOps, op)
		s.closeTrie(t.id)
		s.tags["discard"] = true
		if !s.sub {
			s.frame(map[int]bool{}, -1)
		}
		return "ok"

	case "observe":
		t := trie(f[1])
		if t == nil {
			return "bad-op"
		}
		if t.stale {
			s.tags["stale-read-skipped"] = true
			return "stale-read"
		}
		return s.observe(t)

	case "save-timeout":
		// SaveChanges leaves through ctx.Done() while its batch is stalled in the store. Variant a: the stall is
		// released and the stalled writer finishes before anything else happens. Variant b: SaveChanges is retried
		// (short timeout) BEFORE the release. A SaveChanges that returns nil claims the state is saved: at that
		// moment the persistent store must hold the complete new root.
		t := s.tries[0]
		if t == nil || len(f) < 2 {
			return "bad-op"
		}
		claimCheck := func(what string) {
			cd := freshDir("c04claim")
			grocksdb.FakeClone(s.dir, cd)
			_, _, missing, err := walkRoot(cd, s.version, t.mpt.GetRoot())
			if missing || err != nil {
				s.fail("C04", "%s reported success but the persistent store does not hold the complete root %s (missing=%v err=%v)", what, rootStr(t.mpt.GetRoot()), missing, err)
			}
			grocksdb.FakeReset(cd)
		}
		waitFor := func(cond func() bool, d time.Duration) bool {
			deadline := time.Now().Add(d)
			for !cond() {
				if time.Now().After(deadline) {
					return false
				}
				time.Sleep(200 * time.Microsecond)
			}
			return true
		}
		w0 := grocksdb.FakeWrites(s.dir)
		grocksdb.FakeStall(s.dir, true)
		ctx, cancel := context.WithCancel(context.Background())
		cancel()
		if err := t.mpt.SaveChanges(ctx, s.pndb, false); err == nil {
			claimCheck("a SaveChanges that left through a cancelled context while its batch was stalled")
		}
		waitFor(func() bool { return grocksdb.FakeStalledWriters(s.dir) >= 1 }, 2*time.Second)
		if f[1] == "b" {
			ctx2, cancel2 := context.WithTimeout(context.Background(), 20*time.Millisecond)
			err2 := t.mpt.SaveChanges(ctx2, s.pndb, false)
			cancel2()
			if err2 == nil {
				claimCheck("a SaveChanges retried while the first batch was still stalled")
			}
			waitFor(func() bool { return grocksdb.FakeStalledWriters(s.dir) >= 2 }, 50*time.Millisecond)
		}
		n := int64(grocksdb.FakeStalledWriters(s.dir))
		grocksdb.FakeRelease(s.dir)
		if !waitFor(func() bool { return grocksdb.FakeWrites(s.dir) >= w0+n && grocksdb.FakeStalledWriters(s.dir) == 0 }, 5*time.Second) {
			s.fail("*", "harness: the stalled writers did not finish after the release")
		}
		s.tags["save-timeout-"+f[1]] = true
		return "ok"

	case "save-fail":
		// the store fails the batch write: SaveChanges must report an error EVERY time (its result is picked by a
		// select over an error channel and a done channel)
		t := s.tries[0]
		if t == nil {
			return "bad-op"
		}
		attempts := 60
		if len(f) > 1 {
			attempts = atoi(f[1])
		}
		for i := 0; i < attempts; i++ {
			grocksdb.FakeFailNext(s.dir)
			if err := t.mpt.SaveChanges(context.Background(), s.pndb, false); err == nil {
				s.fail("C04", "SaveChanges reported success although its batch write failed (attempt %d of %d)", i+1, attempts)
				break
			}
		}
		s.tags["save-fail"] = true
		return "ok"

	case "save", "crash-save":
		t := s.tries[0]
		if t == nil {
			return "bad-op"
		}
		nPrev := len(s.saved)
		pre := ""
		if !s.sub {
			s.checkDiscipline(t)
			pre = freshDir("c04pre")
			grocksdb.FakeClone(s.dir, pre)
		}
		if f[0] == "crash-save" {
			k := int64(atoi(f[1]))
			grocksdb.FakeSetBudget(s.dir, k)
			_ = doSave(t, s.pndb, s.version)
			grocksdb.FakeSetBudget(s.dir, -1)
			// restart: everything in memory is lost; re-execute the round from the last saved root
			s.pndb = openPNDB(s.dir)
			s.checkRetained(s.dir, nPrev, "C04", "after the crashed save")
			ops := s.roundOps
			was := s.sub
			s.sub = true
			for _, o := range ops {
				s.exec(o)
			}
			s.sub = was
			t = s.tries[0]
			s.opText = op
			s.tags["crash-save"] = true
		}
		nChanges, nDead := t.mpt.GetChangeCount(), len(t.mpt.GetDeletes())
		w0 := grocksdb.FakeWrites(s.dir)
		grocksdb.FakeLog(s.dir, true)
		if err := doSave(t, s.pndb, s.version); err != nil {
			grocksdb.FakeLog(s.dir, false)
			s.fail("*", "save failed: %v", err)
			return errKind(err)
		}
		saveSizes := writeSizes(grocksdb.FakeLog(s.dir, false))
		saveWrites := grocksdb.FakeWrites(s.dir) - w0
		// sizes at the boundaries of the batch constants of the code (read from lean/Verif/Gen/Constants.lean)
		bs, mp := leanConst("batchSize", 256), leanConst("maxPruneNodes", 1000)
		for _, b := range []int{bs - 1, bs, bs + 1, 2 * bs, 2*bs + 1} {
			if nChanges == b {
				s.tags[fmt.Sprintf("save-changes=batchSize%+d", b-bs)] = true
			}
		}
		for _, b := range []int{mp - 1, mp, mp + 1, 2*mp + 1} {
			if nDead == b {
				s.tags[fmt.Sprintf("save-dead=maxPruneNodes%+d", b-mp)] = true
			}
		}
		s.recordSaved(t)
		s.ntSaves++
		if !s.sub && s.noSaveCrash {
			s.checkRetained(s.dir, len(s.saved), "C04", "after save")
			grocksdb.FakeReset(pre)
		} else if !s.sub {
			s.checkRetained(s.dir, len(s.saved), "C04", "after save")
			// crash enumeration over the save's write stream [batch of new nodes, dead-node record], on clones of
			// the pre-save store: crash, re-open, earlier roots intact, re-execute the round, re-save => same store
			def, dn := grocksdb.FakeSnapshot(s.dir, "default"), grocksdb.FakeSnapshot(s.dir, "dead_nodes")
			for k := int64(0); k < saveWrites; k++ {
				cd := freshDir("c04crash")
				grocksdb.FakeClone(pre, cd)
				grocksdb.FakeSetBudget(cd, k)
				if err := doSave(t, openPNDB(cd), s.version); err == nil {
					s.fail("C04", "save with a write budget of %d reported success", k)
				}
				grocksdb.FakeSetBudget(cd, -1)
				what := fmt.Sprintf("after a crash at write %d of the save", k)
				saved := s.saved
				s.saved = s.saved[:nPrev]
				s.checkRetained(cd, nPrev, "C04", what)
				sub := s.replayRound(cd)
				s.saved = saved
				for _, m := range sub.fails {
					s.fail("*", "%s, re-executing the round: %s", what, m)
				}
				if len(sub.saved) == 0 || !bytes.Equal(sub.saved[len(sub.saved)-1].root, t.mpt.GetRoot()) {
					s.fail("C04", "%s, re-executing the round gives a different root", what)
				}
				if !snapEqual(def, grocksdb.FakeSnapshot(cd, "default")) || !snapEqual(dn, grocksdb.FakeSnapshot(cd, "dead_nodes")) {
					s.fail("C04", "%s, re-executing and re-saving the round gives a different persistent store", what)
				}
				s.checkRetained(cd, len(s.saved), "C04", what+", re-execution and re-save")
				grocksdb.FakeReset(cd)
			}
			grocksdb.FakeReset(pre)
		}
		// the saved trie stays usable but the round is over for the generator
		return "ok " + rootStr(t.mpt.GetRoot()) + " n=" + strconv.Itoa(len(grocksdb.FakeSnapshot(s.dir, "default"))) + " w=" + saveSizes

	case "reopen":
		i := atoi(f[1])
		if i < 0 || i >= len(s.saved) {
			return "bad-op"
		}
		sr := s.saved[i]
		ps, _, missing, err := walkRoot(s.dir, sr.version, sr.root)
		if missing || err != nil {
			if sr.version >= s.pruned && !sr.superseded {
				s.fail("C04", "retained root #%d (version %d) is not readable: missing=%v err=%v", i, sr.version, missing, err)
			}
			return "missing"
		}
		if sr.version >= s.pruned && !sr.superseded {
			if got, want := fmtPairs(ps), fmtPairs(sortedPairs(sr.content)); got != want {
				s.fail("C04", "retained root #%d (version %d) reads %q, want %q", i, sr.version, got, want)
			}
		}
		return "ok " + fmtPairs(ps)

	case "prune", "crash-prune":
		v := int64(atoi(f[1]))
		before := grocksdb.FakeSnapshot(s.dir, "default")
		recsBefore := s.deadRecs(s.dir)
		allowed := map[string]bool{}
		for ver, m := range recsBefore {
			if ver < v {
				for k := range m {
					allowed[k] = true
				}
			}
		}
		for ver := range recsBefore {
			if ver < v && ver > s.pruned {
				s.pruned = ver
			}
		}
		switch {
		case v < 0:
			s.tags["prune-negative"] = true
		case v == 0:
			s.tags["prune-zero"] = true
		case v == math.MaxInt64:
			s.tags["prune-maxint64"] = true
		case len(s.saved) > 0 && v <= s.saved[0].version:
			s.tags["prune-at-or-below-first"] = true
		case len(s.saved) > 0 && v > s.saved[len(s.saved)-1].version:
			s.tags["prune-beyond-last"] = true
		}
		pre := freshDir("c05pre")
		grocksdb.FakeClone(s.dir, pre)
		mid := ""
		if f[0] == "crash-prune" {
			grocksdb.FakeSetBudget(s.dir, int64(atoi(f[2])))
			_ = s.pndb.PruneBelowVersion(context.Background(), v)
			grocksdb.FakeSetBudget(s.dir, -1)
			s.pndb = openPNDB(s.dir)
			mid = fmt.Sprintf(" mid=%d", len(grocksdb.FakeSnapshot(s.dir, "default")))
			s.checkPruned(s.dir, before, allowed, recsBefore, v, false, "after the crashed prune")
			s.tags["crash-prune"] = true
		}
		w0 := grocksdb.FakeWrites(s.dir)
		grocksdb.FakeLog(s.dir, true)
		if err := s.pndb.PruneBelowVersion(context.Background(), v); err != nil {
			s.fail("*", "prune failed: %v", err)
		}
		pruneSizes := writeSizes(grocksdb.FakeLog(s.dir, false))
		writes := grocksdb.FakeWrites(s.dir) - w0
		s.checkPruned(s.dir, before, allowed, recsBefore, v, true, "after prune")
		if len(allowed) > 0 {
			s.ntPrune++
		}
		if writes > 2 {
			s.tags["prune-multibatch"] = true
		}
		if !s.sub && f[0] == "prune" {
			// every crash prefix of the prune's write stream, on clones of the pre-prune store
			def, dn := grocksdb.FakeSnapshot(s.dir, "default"), grocksdb.FakeSnapshot(s.dir, "dead_nodes")
			for k := int64(0); k < writes; k++ {
				cd := freshDir("c05crash")
				grocksdb.FakeClone(pre, cd)
				grocksdb.FakeSetBudget(cd, k)
				if err := openPNDB(cd).PruneBelowVersion(context.Background(), v); err == nil {
					s.fail("C05", "prune with a write budget of %d of %d reported success", k, writes)
				}
				grocksdb.FakeSetBudget(cd, -1)
				what := fmt.Sprintf("after a crash at write %d of %d of the prune", k, writes)
				s.checkPruned(cd, before, allowed, recsBefore, v, false, what)
				if err := openPNDB(cd).PruneBelowVersion(context.Background(), v); err != nil {
					s.fail("C05", "%s: re-running prune failed: %v", what, err)
				}
				s.checkPruned(cd, before, allowed, recsBefore, v, true, what+" and re-running it")
				if !snapEqual(def, grocksdb.FakeSnapshot(cd, "default")) || !snapEqual(dn, grocksdb.FakeSnapshot(cd, "dead_nodes")) {
					s.fail("C05", "%s: re-running prune does not converge to the store of the uninterrupted prune", what)
				}
				grocksdb.FakeReset(cd)
			}
		}
		grocksdb.FakeReset(pre)
		return "ok n=" + strconv.Itoa(len(grocksdb.FakeSnapshot(s.dir, "default"))) + " w=" + pruneSizes + mid

	case "pstore":
		return pstoreLine(s.dir)
	}
	panic("unknown op " + op)
}

// checkPruned: relative to the pre-prune snapshot only allowed keys disappeared, nothing appeared, only records
// below v disappeared (all of them if complete), and every retained root is fully readable.
func (s *storeRun) checkPruned(dir string, before map[string][]byte, allowed map[string]bool, recsBefore map[int64]map[string]bool, v int64, complete bool, what string) {
	after := grocksdb.FakeSnapshot(dir, "default")
	for k, val := range before {
		w, ok := after[k]
		if !ok {
			if !allowed[hx([]byte(k))] {
				s.fail("C05", "%s: prune below %d removed node %s which is not recorded dead in any round below %d", what, v, hx([]byte(k)), v)
			}
			continue
		}
		if !bytes.Equal(val, w) {
			s.fail("C05", "%s: prune changed the value of node %s", what, hx([]byte(k)))
		}
		if complete && allowed[hx([]byte(k))] {
			s.fail("C05", "%s: node %s recorded dead below %d survived a complete prune", what, hx([]byte(k)), v)
		}
	}
	for k := range after {
		if _, ok := before[k]; !ok {
			s.fail("C05", "%s: prune added node %s", what, hx([]byte(k)))
		}
	}
	recs := deadRecords(dir)
	for ver := range recsBefore {
		_, still := recs[ver]
		if ver >= v && !still {
			s.fail("C05", "%s: prune below %d dropped the dead-node record of version %d", what, v, ver)
		}
		if ver < v && still && complete {
			s.fail("C05", "%s: the dead-node record of version %d survived a complete prune below %d", what, ver, v)
		}
	}
	s.checkRetained(dir, len(s.saved), "C05", what)
}

func runStoreCase(prop string, ops []string) CaseResult {
	s := &storeRun{prop: prop, dir: freshDir("store"), tries: map[int]*trieH{}, tags: map[string]bool{}, pruned: math.MinInt64}
	s.pndb = openPNDB(s.dir)
	res := CaseResult{}
	for i, op := range ops {
		s.opIdx = i
		func() {
			defer func() {
				if r := recover(); r != nil {
					s.opText = op
					s.fail("*", "harness-level panic: %v", r)
					res.Outs = append(res.Outs, "harness-panic")
				}
			}()
			res.Outs = append(res.Outs, s.exec(op))
		}()
	}
	grocksdb.FakeReset(s.dir)
	if s.outside && s.observed == 0 {
		// the code now copes with a history outside the property's quantifier: that is not a violation of anything, only
		// a documented boundary that moved - recorded as a tag, never as a failure
		s.tags["outside-quantifier:no-difference-any-more"] = true
	}
	res.Fails = s.fails
	for t := range s.tags {
		res.Tags = append(res.Tags, t)
	}
	if s.bigDead > 1000 {
		res.Tags = append(res.Tags, "dead>1000")
	}
	switch prop {
	case "C03":
		res.Nontrivial = s.ntMerges >= 1 && (s.tags["discard"] || s.tags["merge-stale"])
	case "C04":
		res.Nontrivial = s.ntSaves >= 2
	case "C05":
		res.Nontrivial = s.ntDead >= 1 && s.ntPrune >= 1
	default:
		res.Nontrivial = s.ntSaves >= 1
	}
	return res
}
