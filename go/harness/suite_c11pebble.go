package main

// Suites c11pebble / c11pebblekv — the real storage adapter (core/util/storage/kv.PebbleAdapter over cockroachdb/pebble).
//
// c11pebble   a slice of the c11 histories (updates, deletes, commits at every collapse level, GC passes, reloads, owners,
//             proofs) run over the REAL adapter: the recording store of the other wmpt suites forwards every write (with the
//             caller's own buffers) to a PebbleAdapter on a fresh directory and answers every read from it, comparing with
//             its reference map; `reload` closes the adapter, opens the directory again and rebuilds the trie from
//             (root, weight). Same oracles, same model correspondence as c11. Crash points (prefixes of the operation stream)
//             and injected failures stay on the in-memory reference: pebble's own durability / atomicity is trusted, the
//             adapter's USE of it is what is exercised.
// c11pebblekv the adapter contract alone (no trie, no model): random sequences of Get / Put / Delete / NewBatch (Put, Delete,
//             Commit(sync)) / reopen / reopen READ-ONLY (every write and every batch Commit has to report its error) on the real adapter and on a reference map, every
//             answer compared (value, found / not-found class as wmpt tests for it: errors.Is(err, wmpt.ErrKVNotFound) or the
//             same message), with aliasing probes: the value a Get returned is overwritten and read again; the caller's key
//             and value buffers are overwritten after Put and after a batch Put, before and after its Commit.
//
//	put <k> <v> | get <k> | del <k> | bnew | bput <k> <v> | bdel <k> | bcommit <0|1> | reopen | readonly   -> ok [<v>] | notfound | err
//
// Directories: <cwd>/.work/pebble/<pid>-<n>, removed after each case. Small explicit pebble options (1 MiB cache); the
// adapter's own defaults (`opts == nil`: 1 GiB cache) are used by case 0 of c11pebblekv.

import (
	"bytes"
	"fmt"
	"math/rand"
	"os"
	"path/filepath"
	"strings"
	"sync/atomic"
	"time"

	"github.com/0chain/common/core/util/storage"
	"github.com/0chain/common/core/util/storage/kv"
	"github.com/cockroachdb/pebble"
)

var pebbleCase int64

func pebbleDir() string {
	cwd, _ := os.Getwd()
	d := filepath.Join(cwd, ".work", "pebble", fmt.Sprintf("%d-%d", os.Getpid(), atomic.AddInt64(&pebbleCase, 1)))
	_ = os.MkdirAll(d, 0o755)
	return d
}

func openPebble(dir string, defaults bool) (*kv.PebbleAdapter, func(), error) {
	return openPebbleRO(dir, defaults, false)
}

func openPebbleRO(dir string, defaults, readOnly bool) (*kv.PebbleAdapter, func(), error) {
	if defaults && !readOnly {
		a, err := kv.NewPebbleAdapter(dir, nil)
		return a, func() {}, err
	}
	cache := pebble.NewCache(1 << 20)
	a, err := kv.NewPebbleAdapter(dir, &pebble.Options{Cache: cache, MemTableSize: 1 << 20, ReadOnly: readOnly})
	return a, cache.Unref, err
}

// ---- c11pebble: trie histories over the real adapter ----------------------------------------------------------

func runC11Pebble(ops []string) CaseResult {
	dir := pebbleDir()
	defer os.RemoveAll(dir)
	ad, release, err := openPebble(dir, false)
	if err != nil {
		return CaseResult{Fails: []string{"cannot open pebble: " + err.Error()}, Outs: make([]string, len(ops))}
	}
	x := newWrun(ops)
	x.st.inner = ad
	cur, curRelease := ad, release
	x.st.reopenFn = func() (storage.StorageAdapter, error) {
		cur.Close()
		curRelease()
		a, rel, err := openPebble(dir, false)
		if err != nil {
			return nil, err
		}
		cur, curRelease = a, rel
		return a, nil
	}
	defer func() {
		cur.Close()
		curRelease()
	}()
	res := runWmptOn(x)
	res.Tags = append(res.Tags, "real-adapter")
	if x.st.nfTranslated > 0 {
		res.Tags = append(res.Tags, "real-not-found-translated")
	}
	return res
}

func genC11Pebble(r *rand.Rand, tier string, idx int) []string {
	ops := genC11(r, tier, idx)
	// make sure the directory is reopened at least once after a commit, and read afterwards
	last := -1
	for i, o := range ops {
		if strings.HasPrefix(o, "commit") {
			last = i
		}
	}
	if last >= 0 && r.Intn(2) == 0 {
		ops = append(append(append([]string(nil), ops[:last+1]...), "reload", "owners"), ops[last+1:]...)
	}
	return append(ops, "owners", "root")
}

// ---- c11pebblekv: the adapter contract ------------------------------------------------------------------------

type kvRun struct {
	res   CaseResult
	ref   map[string][]byte
	ad    *kv.PebbleAdapter
	rel   func()
	dir   string
	defs  bool
	batch storage.Batcher
	bops  []kvOp
	done  bool // the current batch was committed
	ro    bool // the directory is open read-only: every write has to REPORT an error and change nothing
	r     *rand.Rand
}

func kvClass(v []byte, err error) string {
	switch {
	case err == nil:
		return "ok " + hxOrDash(v)
	case isKVNotFound(err):
		return "notfound"
	default:
		return "err"
	}
}

func scribble(b []byte) {
	for i := range b {
		b[i] ^= 0xa5
	}
}

func runC11PebbleKV(ops []string) CaseResult {
	x := &kvRun{ref: map[string][]byte{}, dir: pebbleDir(), r: rand.New(rand.NewSource(int64(len(ops))))}
	defer os.RemoveAll(x.dir)
	x.defs = len(ops) > 0 && ops[0] == "defaults"
	var err error
	if x.ad, x.rel, err = openPebble(x.dir, x.defs); err != nil {
		return CaseResult{Fails: []string{"cannot open pebble: " + err.Error()}, Outs: make([]string, len(ops))}
	}
	defer func() {
		x.ad.Close()
		x.rel()
	}()
	tags := map[string]bool{}
	fail := func(i int, f string, a ...interface{}) {
		if len(x.res.Fails) < 10 {
			x.res.Fails = append(x.res.Fails, fmt.Sprintf("op %d (%s): ", i, wmClip(ops[i], 60))+fmt.Sprintf(f, a...))
		}
	}
	refGet := func(k []byte) string {
		if v, ok := x.ref[string(k)]; ok {
			return "ok " + hxOrDash(v)
		}
		return "notfound"
	}
	check := func(i int, k []byte, when string) string {
		out := guard(func() string { return kvClass(x.ad.Get(append([]byte(nil), k...))) })
		if want := refGet(k); out != want {
			fail(i, "%s: Get(%x) = %s, the reference says %s", when, k, wmClip(out, 60), wmClip(want, 60))
		}
		return out
	}
	for i, op := range ops {
		f := strings.Fields(op)
		out := "ok"
		switch f[0] {
		case "defaults":
			tags["default-options"] = true
		case "get":
			k := unhx(f[1])
			var v []byte
			out = guard(func() string {
				var err error
				v, err = x.ad.Get(append([]byte(nil), k...))
				return kvClass(v, err)
			})
			if want := refGet(k); out != want {
				fail(i, "Get(%x) = %s, the reference says %s", k, wmClip(out, 60), wmClip(want, 60))
			}
			if len(v) > 0 {
				// the returned value belongs to the caller: overwriting it must not change what is stored, nor may later
				// writes change it
				keep := append([]byte(nil), v...)
				scribble(v)
				check(i, k, "after overwriting the returned value")
				scribble(v)
				_ = x.ad.Put([]byte("\x00probe"), bytes.Repeat([]byte{0x5a}, 64))
				_ = x.ad.Delete([]byte("\x00probe"))
				if !bytes.Equal(v, keep) {
					fail(i, "the value returned by Get(%x) changed after later writes: %x, was %x", k, v, keep)
				}
			}
		case "put":
			k, v := unhx(f[1]), unhx(f[2])
			kb, vb := append([]byte(nil), k...), append([]byte(nil), v...)
			out = guard(func() string { return kvClass(nil, x.ad.Put(kb, vb)) })
			switch {
			case x.ro:
				if out != "err" {
					fail(i, "Put on a read-only store returned %q, want an error", out)
				}
			case out == "ok -":
				out = "ok"
				x.ref[string(k)] = v
			default:
				fail(i, "Put failed: %s", out)
			}
			scribble(kb) // the buffers belong to the caller again
			scribble(vb)
			check(i, k, "after overwriting the buffers passed to Put")
		case "del":
			k := unhx(f[1])
			kb := append([]byte(nil), k...)
			out = guard(func() string { return kvClass(nil, x.ad.Delete(kb)) })
			switch {
			case x.ro:
				if out != "err" {
					fail(i, "Delete on a read-only store returned %q, want an error", out)
				}
			case out == "ok -":
				out = "ok"
				delete(x.ref, string(k))
			default:
				fail(i, "Delete failed: %s", out)
			}
			scribble(kb)
			check(i, k, "after Delete")
		case "bnew":
			x.batch, x.bops, x.done = x.ad.NewBatch(), nil, false
		case "bput", "bdel":
			if x.batch == nil || x.done {
				out = "skip"
				break
			}
			k := unhx(f[1])
			kb := append([]byte(nil), k...)
			if f[0] == "bput" {
				v := unhx(f[2])
				vb := append([]byte(nil), v...)
				out = guard(func() string { return kvClass(nil, x.batch.Put(kb, vb)) })
				scribble(vb)
				x.bops = append(x.bops, kvOp{k: string(k), v: v})
			} else {
				out = guard(func() string { return kvClass(nil, x.batch.Delete(kb)) })
				x.bops = append(x.bops, kvOp{del: true, k: string(k)})
			}
			scribble(kb)
			if out == "ok -" {
				out = "ok"
			} else {
				fail(i, "batch %s failed: %s", f[0], out)
			}
			check(i, k, "before the batch is committed") // a batch is invisible until Commit
		case "bcommit":
			if x.batch == nil || x.done {
				out = "skip"
				break
			}
			out = guard(func() string { return kvClass(nil, x.batch.Commit(f[1] == "1")) })
			if x.ro {
				// the batch cannot be written: Commit has to report it
				if out != "err" {
					fail(i, "batch Commit on a read-only store returned %q, want an error", out)
				}
				x.done = true
				for _, o := range x.bops {
					check(i, []byte(o.k), "after the failed batch commit")
				}
				tags["commit-error-reported"] = true
			} else if out == "ok -" {
				out = "ok"
				for _, o := range x.bops {
					if o.del {
						delete(x.ref, o.k)
					} else {
						x.ref[o.k] = o.v
					}
				}
				x.done = true
				for _, o := range x.bops {
					check(i, []byte(o.k), "after the batch commit")
				}
			} else {
				fail(i, "batch Commit failed: %s", out)
			}
		case "reopen", "readonly":
			x.ad.Close()
			x.rel()
			var err error
			x.ro = f[0] == "readonly"
			if x.ad, x.rel, err = openPebbleRO(x.dir, x.defs, x.ro); err != nil {
				x.res.Fails = append(x.res.Fails, "cannot reopen pebble: "+err.Error())
				for len(x.res.Outs) < len(ops) {
					x.res.Outs = append(x.res.Outs, "err")
				}
				return x.res
			}
			x.batch, x.done = nil, false
			for k := range x.ref {
				check(i, []byte(k), "after reopening the directory")
			}
			tags["reopen"] = true
		default:
			panic("unknown op " + op)
		}
		if out == "panic" {
			fail(i, "the adapter panicked")
		}
		tags[f[0]+":"+strings.SplitN(out, " ", 2)[0]] = true
		x.res.Outs = append(x.res.Outs, out)
	}
	for t := range tags {
		x.res.Tags = append(x.res.Tags, t)
	}
	x.res.Nontrivial = len(ops) >= 4
	return x.res
}

func genC11PebbleKV(r *rand.Rand, tier string, idx int) []string {
	var keys [][]byte
	for i := 0; i < 3+r.Intn(6); i++ {
		k := make([]byte, []int{32, 32, 32, 1, 7, 40}[r.Intn(6)])
		r.Read(k)
		keys = append(keys, k)
	}
	key := func() []byte { return keys[r.Intn(len(keys))] }
	val := func() string {
		v := make([]byte, []int{0, 1, 8, 43, 145, 600}[r.Intn(6)])
		r.Read(v)
		return hxOrDash(v)
	}
	var ops []string
	if idx == 0 {
		ops = append(ops, "defaults")
	}
	n := 10 + r.Intn(30)
	inBatch := false
	for k := 0; k < n; k++ {
		switch x := r.Intn(100); {
		case x < 18:
			ops = append(ops, fmt.Sprintf("put %x %s", key(), val()))
		case x < 40:
			ops = append(ops, fmt.Sprintf("get %x", key()))
		case x < 50:
			ops = append(ops, fmt.Sprintf("del %x", key()))
		case x < 58:
			ops = append(ops, "bnew")
			inBatch = true
		case x < 74 && inBatch:
			ops = append(ops, fmt.Sprintf("bput %x %s", key(), val()))
		case x < 84 && inBatch:
			ops = append(ops, fmt.Sprintf("bdel %x", key()))
		case x < 92 && inBatch:
			ops = append(ops, fmt.Sprintf("bcommit %d", r.Intn(2)))
			inBatch = false
		case x < 95:
			ops = append(ops, "reopen")
			inBatch = false
		case x < 97:
			// the directory opened read-only: a direct write and a batch have to report their error
			k1, k2 := key(), key()
			ops = append(ops, "readonly", fmt.Sprintf("get %x", k1), fmt.Sprintf("put %x %s", k1, val()), fmt.Sprintf("del %x", k2), "bnew",
				fmt.Sprintf("bput %x %s", k1, val()), fmt.Sprintf("bdel %x", k2), fmt.Sprintf("bcommit %d", r.Intn(2)), "reopen")
			inBatch = false
		default:
			ops = append(ops, fmt.Sprintf("get %x", key()))
		}
	}
	for _, k := range keys {
		ops = append(ops, fmt.Sprintf("get %x", k))
	}
	return ops
}

func init() {
	register(&Suite{
		Name:        "c11pebble",
		Rule:        "c11 histories (updates, deletes, commits at collapse levels -1..6, GC passes, reloads, owners, proofs) run over the real kv.PebbleAdapter on a fresh directory behind the recording store: every write forwarded with the caller's buffers, every read answered by pebble and compared with the reference map, reload = Close + NewPebbleAdapter on the same directory + trie rebuilt from (root, weight); oracles and model correspondence of c11; non-trivial = at least 2 mutations and one commit",
		Gen:         genC11Pebble,
		Run:         runC11Pebble,
		CaseTimeout: 3 * time.Minute,
		DefaultN: func(tier string) int {
			if tier == "thorough" {
				return 3000
			}
			return 150
		},
	})
	register(&Suite{
		Name:        "c11pebblekv",
		Rule:        "adapter contract of kv.PebbleAdapter against a reference map: 10..40 random Get / Put / Delete / NewBatch (Put, Delete, Commit(sync|nosync)) / reopen / read-only reopen (writes and batch commits must report their error) over 3..8 keys of 1..40 bytes and values of 0..600 bytes; every answer compared (value, found / not-found class as wmpt tests for it); aliasing probes after every Get (returned value overwritten, later writes), Put, batch Put (caller's buffers overwritten before and after Commit); batches invisible before Commit; case 0 uses the adapter's default options; non-trivial = at least 4 ops",
		Gen:         genC11PebbleKV,
		Run:         runC11PebbleKV,
		CaseTimeout: 3 * time.Minute,
		DefaultN: func(tier string) int {
			if tier == "thorough" {
				return 3000
			}
			return 150
		},
	})
}
