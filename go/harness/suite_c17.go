package main

// Suite c17: missing-node detection is exact and sync repair restores the trie.
//
//	new <mem|pndb> <version> | ver <n> | ins <path> <hex> | del <path>     build a trie (as in c01)
//	bulk <n> <seed>      n Inserts of pseudo-random 8-nibble paths / 2-byte values (64-bit LCG, same on the model side)
//	snap                 freeze the trie: "ok <root|-> <n>"  (n = nodes reachable from the root, pre-order)
//	rm <i,j,...>         damaged copy of the store without the nodes with these pre-order indexes; an index i names the
//	                     non-root node 1 + (i mod (n-1)); with n <= 1 nothing is removed   -> "ok <sorted removed keys|->"
//	rmsub <i>            as rm, removing the node and everything below it
//	rmleaves <k>         as rm, removing the first k leaf nodes in pre-order (every one of them is then an absent node
//	                     reachable through present ones) -> "ok <count> <SHA3 of the sorted keys>"
//	has                  HasMissingNodes on a fresh trie over the damaged store -> true | false | <error>
//	miss                 GetAllMissingNodes -> "ok <sorted key set|->" | <error>
//	get <path>           GetNodeValueRaw   -> "ok <hex>" | notpresent | nodenotfound | ...
//	iter                 Iterate (values)  -> "ok <pairs>" | iterchild | missingnodes | nodenotfound | ...
//	repair <v> [shape]   trie at version v over the damaged store, MergeDB(donor, root, nil) with a donor that holds the
//	                     removed nodes (inserted in shuffled order) plus two unrelated ones; shape = mem (default) | pndb |
//	                     lmm | lmp | lpp: MemoryNodeDB, PNodeDB, LevelNodeDB(memory|persistent current, memory|persistent
//	                     prev) with the nodes split randomly between the two levels
//	                     -> "ok <root> has=<bool> miss=<keys|-> donor=<same|changed>"; later ops read the repaired store
//	restore <raw|mergestate|othertrie> [shape]   the removed nodes come back THROUGH THE STORE (raw put / util.MergeState from a
//	                     donor / MergeDB on ANOTHER trie over the same store); the trie object that ran the earlier queries
//	                     is KEPT, later has/miss/get/iter/mkeys go through it -> "ok"
//	mkeys                GetMissingNodeKeys of the querying trie (keys its reads found absent so far) -> "ok <sorted set|->"
//	cwalk                for n = 1..R+1 (R = node reads of an undisturbed HasMissingNodes walk): fresh trie over the store
//	                     wrapped so that the n-th GetNode cancels the context; HasMissingNodes(ctx) and Iterate(ctx)
//	                     -> "ok <n>:<has>/<iter class>;..."  (ctx = the context's error)
//	sweep1 | sweepsub | all   composite: for every single non-root node / every subtree / every subset of the non-root
//	                     nodes (tries of <= 10 nodes, else "skip"): damage a memory copy, query, repair at a version that
//	                     alternates between the creation version and a different one
//	                     -> "ok <removed idx>:<has>:<missing idx>:<lookup classes>:<repair>;..."
//	                     lookup classes, one per path used by an earlier ins/del/get of the case (sorted): v value, n notpresent, m nodenotfound
//
// Oracle (independent of the code under test: own parser of the stored bytes, own walk of (store snapshot, root)):
// has == (some node reachable through present nodes is absent); miss == exactly that set; a lookup whose walk crosses an
// absent node gives nodenotfound, any other lookup gives the history's map answer; after repair the store again
// holds every node, re-computes to the root, has == false, the content is the history's content, and the donor's keys,
// bytes and key==hash are unchanged. A walk whose context expires on the way returns the context's error or exactly the
// undisturbed answer: never "missing" for a complete store, never "complete" for a damaged one.

import (
	"bytes"
	"context"
	"errors"
	"fmt"
	"math/rand"
	"sort"
	"strconv"
	"strings"

	"github.com/0chain/common/core/util"
	"github.com/linxGnu/grocksdb"
)

type c17State struct {
	kind    string
	mpt     *util.MerklePatriciaTrie
	db      util.NodeDB
	dir     string
	content map[string][]byte
	version int64
	used    map[string]bool

	snapped bool
	full    rawStore
	root    []byte
	order   []reachEntry
	removed []string
	curRaw  rawStore
	cur     util.NodeDB
	curDir  string
	curMpt  *util.MerklePatriciaTrie
	dirs    []string
}

// expectedLookup: the answer the property demands for a lookup of path over the damaged store.
func expectedLookup(s rawStore, root []byte, path string, content map[string][]byte) string {
	want := "notpresent"
	if v, ok := content[path]; ok {
		want = "ok " + hx(v)
	}
	if len(root) == 0 {
		return want
	}
	k, rest := root, path
	for {
		raw, ok := s[string(k)]
		if !ok {
			return "nodenotfound"
		}
		n, _ := parseStored(raw)
		switch n.kind {
		case 'L':
			return want
		case 'F':
			if rest == "" {
				return want
			}
			c := n.ch[nibIdx(rest[0])]
			if c == nil {
				return want
			}
			k, rest = c, rest[1:]
		case 'E':
			if !strings.HasPrefix(rest, string(n.path)) {
				return want
			}
			k, rest = n.ckey, rest[len(n.path):]
		}
	}
}

func (st *c17State) indexOf(i int) int {
	n := len(st.order)
	if n <= 1 {
		return -1
	}
	return 1 + i%(n-1)
}

func (st *c17State) subtree(i int) []int {
	out := []int{i}
	in := map[int]bool{i: true}
	for j := i + 1; j < len(st.order); j++ {
		if in[st.order[j].parent] {
			in[j] = true
			out = append(out, j)
		}
	}
	return out
}

// damage builds a copy of the frozen store without the given node indexes. kind: mem | pndb
func (st *c17State) damage(kind string, idxs []int) (util.NodeDB, string, rawStore, []string) {
	rm := map[string]bool{}
	var removed []string
	for _, i := range idxs {
		k := st.order[i].key
		if !rm[k] {
			rm[k] = true
			removed = append(removed, k)
		}
	}
	raw := rawStore{}
	for k, v := range st.full {
		if !rm[k] {
			raw[k] = v
		}
	}
	if kind == "pndb" {
		dir := freshDir("c17d")
		grocksdb.FakeClone(st.dir, dir)
		for k := range rm {
			grocksdb.FakeRawDelete(dir, []byte(k))
		}
		db, err := util.NewPNodeDB(dir, "")
		if err != nil {
			panic(err)
		}
		st.dirs = append(st.dirs, dir)
		return db, dir, raw, removed
	}
	db := util.NewMemoryNodeDB()
	_ = st.db.Iterate(context.Background(), func(_ context.Context, key util.Key, node util.Node) error {
		if !rm[string(key)] {
			_ = db.PutNode(append(util.Key(nil), key...), node)
		}
		return nil
	})
	return db, "", raw, removed
}

func snapshotDB(db util.NodeDB) (rawStore, bool) {
	out := rawStore{}
	selfKeyed := true
	_ = db.Iterate(context.Background(), func(_ context.Context, key util.Key, node util.Node) error {
		out[string(key)] = append([]byte(nil), node.Encode()...)
		if !bytes.Equal(node.GetHashBytes(), key) {
			selfKeyed = false
		}
		return nil
	})
	return out, selfKeyed
}

func sameRaw(a, b rawStore) bool {
	if len(a) != len(b) {
		return false
	}
	for k, v := range a {
		if w, ok := b[k]; !ok || !bytes.Equal(v, w) {
			return false
		}
	}
	return true
}

// countingDB counts GetNode calls and cancels a context at the at-th one.
type countingDB struct {
	util.NodeDB
	n, at  int64
	cancel func()
}

func (c *countingDB) GetNode(k util.Key) (util.Node, error) {
	n, err := c.NodeDB.GetNode(k)
	c.n++
	if c.n == c.at && c.cancel != nil {
		c.cancel()
	}
	return n, err
}

func ctxKind(err error) string {
	if errors.Is(err, context.Canceled) || errors.Is(err, context.DeadlineExceeded) {
		return "ctx"
	}
	return errKind(err)
}

func hasMissingStr(mpt *util.MerklePatriciaTrie) string {
	return guard(func() string {
		b, err := mpt.HasMissingNodes(context.Background())
		if err != nil {
			return errKind(err)
		}
		return strconv.FormatBool(b)
	})
}

func allMissing(mpt *util.MerklePatriciaTrie) (string, []string) {
	var keys []string
	s := guard(func() string {
		ks, err := mpt.GetAllMissingNodes()
		if err != nil {
			return errKind(err)
		}
		for _, k := range ks {
			keys = append(keys, string(k))
		}
		return "ok"
	})
	return s, keys
}

func getStr(mpt *util.MerklePatriciaTrie, path string) string {
	return guard(func() string {
		v, err := mpt.GetNodeValueRaw([]byte(path))
		if err != nil {
			return errKind(err)
		}
		return "ok " + hx(v)
	})
}

func iterStr(mpt *util.MerklePatriciaTrie) string {
	return guard(func() string {
		ps, err := iterPairs(mpt)
		if err != nil {
			return errKind(err)
		}
		return "ok " + fmtPairs(ps)
	})
}

// repair runs MergeDB at version v and checks everything the property says about it. Returns (has, miss, donor).
// donorShapes: the kinds of node store a repair donor may be. mem / pndb: one store; lmm / lmp / lpp: a LevelNodeDB
// (memory|persistent current, memory|persistent prev) - the shape of a block's state DB - with the nodes split randomly
// between its two levels.
var donorShapes = []string{"mem", "pndb", "lmm", "lmp", "lpp"}

type donorDB struct {
	db    util.NodeDB   // what MergeDB / MergeState iterate
	parts []util.NodeDB // the underlying single-level stores (1 or 2)
	dirs  []string
}

func newDonor(shape string) *donorDB {
	mk := func(persistent bool) (util.NodeDB, string) {
		if !persistent {
			return util.NewMemoryNodeDB(), ""
		}
		dir := freshDir("c17donor")
		db, err := util.NewPNodeDB(dir, "")
		if err != nil {
			panic(err)
		}
		return db, dir
	}
	d := &donorDB{}
	add := func(persistent bool) util.NodeDB {
		db, dir := mk(persistent)
		d.parts = append(d.parts, db)
		if dir != "" {
			d.dirs = append(d.dirs, dir)
		}
		return db
	}
	switch shape {
	case "pndb":
		d.db = add(true)
	case "lmm":
		d.db = util.NewLevelNodeDB(add(false), add(false), false)
	case "lmp":
		d.db = util.NewLevelNodeDB(add(false), add(true), false)
	case "lpp":
		d.db = util.NewLevelNodeDB(add(true), add(true), false)
	default:
		d.db = add(false)
	}
	return d
}

// put stores the node in a randomly chosen level of the donor.
func (d *donorDB) put(k util.Key, n util.Node, r *rand.Rand) {
	_ = d.parts[r.Intn(len(d.parts))].PutNode(k, n)
}

// snapshot: every entry of every level, and whether every key is the hash of its node.
func (d *donorDB) snapshot() (rawStore, bool) {
	out, ok := rawStore{}, true
	for i, p := range d.parts {
		s, sk := snapshotDB(p)
		ok = ok && sk
		for k, v := range s {
			out[fmt.Sprintf("%d/%s", i, k)] = v
		}
	}
	return out, ok
}

func (d *donorDB) close() {
	for _, dir := range d.dirs {
		grocksdb.FakeReset(dir)
	}
}

func (st *c17State) repair(db util.NodeDB, dir string, removed []string, v int64, shape string, r *rand.Rand, fail func(string, ...interface{})) (string, string, string, *util.MerklePatriciaTrie) {
	donor := newDonor(shape)
	defer donor.close()
	sh := append([]string(nil), removed...)
	r.Shuffle(len(sh), func(i, j int) { sh[i], sh[j] = sh[j], sh[i] })
	for _, k := range sh {
		n, err := st.db.GetNode(util.Key(k))
		if err != nil {
			panic("frozen store lost node " + hx([]byte(k)))
		}
		donor.put(util.Key(k), n, r)
	}
	// the donor also holds nodes that have nothing to do with this trie, older and younger than the repair version
	for j, o := range []int64{0, v + 5} {
		u := util.NewLeafNode([]byte("ee"), []byte{'e', byte('0' + j)}, util.Sequence(o), mkVal([]byte{0xee, byte(j), ':'}))
		donor.put(u.GetHashBytes(), u, r)
	}
	// the donor itself can read every removed node
	for _, k := range removed {
		if _, err := donor.db.GetNode(util.Key(k)); err != nil {
			fail("harness: donor (%s) cannot read node %s: %v", shape, hx([]byte(k)), err)
		}
	}
	before, _ := donor.snapshot()
	mpt := newMPT(db, v, st.root)
	res := guard(func() string { return errKind(mpt.MergeDB(donor.db, st.root, nil)) })
	if res != "ok" {
		fail("MergeDB at version %d from a %s donor: %s", v, shape, res)
	}
	after, selfKeyed := donor.snapshot()
	donorS := "same"
	if !sameRaw(before, after) || !selfKeyed {
		donorS = "changed"
		fail("MergeDB at version %d changed the donor store (before %d entries, after %d, every key == hash: %v)", v, len(before), len(after), selfKeyed)
	}
	if !bytes.Equal(mpt.GetRoot(), st.root) {
		fail("root after MergeDB is %s, want %s", rootStr(mpt.GetRoot()), rootStr(st.root))
	}
	// fresh trie (fresh cache) over the repaired store
	m2 := newMPT(db, v, st.root)
	has := hasMissingStr(m2)
	ms, keys := allMissing(m2)
	missS := ms
	if ms == "ok" {
		missS = fmtKeys(keys)
	}
	if len(st.root) > 0 {
		if has != "false" {
			fail("after repair at version %d (nodes created at %d) from a %s donor HasMissingNodes = %s, still missing %s", v, st.version, shape, has, missS)
		}
		if ms != "ok" || len(keys) != 0 {
			fail("after repair at version %d GetAllMissingNodes = %s %s", v, ms, fmtKeys(keys))
		}
	}
	if it, want := iterStr(m2), "ok "+fmtPairs(sortedPairs(st.content)); it != want {
		fail("after repair at version %d iteration = %q, want %q", v, it, want)
	}
	// the repaired store itself
	var now rawStore
	if dir != "" {
		now = rawStore(grocksdb.FakeSnapshot(dir, "default"))
	} else {
		now, _ = snapshotDB(db)
	}
	if _, absent, err := walkReach(now, st.root); err != nil || len(absent) > 0 {
		fail("after repair at version %d the store lacks %s (%v)", v, fmtKeys(absent), err)
	} else if h, content, err := recompute(now, st.root); err != nil || !bytes.Equal(h, st.root) || !sameContent(content, st.content) {
		fail("after repair at version %d the store re-computes to root %s (%v), want %s", v, rootStr(h), err, rootStr(st.root))
	}
	for k, raw := range now {
		if rn, err := parseStored(raw); err != nil || !bytes.Equal(rn.key(), []byte(k)) {
			fail("after repair at version %d store entry %s is not stored under its own hash", v, hx([]byte(k)))
			break
		}
	}
	return has, missS, donorS, m2
}

func idxList(xs []int) string {
	if len(xs) == 0 {
		return "-"
	}
	ss := make([]string, len(xs))
	for i, x := range xs {
		ss[i] = strconv.Itoa(x)
	}
	return strings.Join(ss, ".")
}

// digest: damage a memory copy, query, check against the oracle, repair; one compact record.
func (st *c17State) digest(idxs []int, v int64, r *rand.Rand, fail func(string, ...interface{})) string {
	db, _, raw, removed := st.damage("mem", idxs)
	mpt := newMPT(db, st.version, st.root)
	_, absent, _ := walkReach(raw, st.root)
	has := hasMissingStr(mpt)
	if want := strconv.FormatBool(len(absent) > 0); has != want {
		fail("removed %s: HasMissingNodes = %s, want %s", idxList(idxs), has, want)
	}
	ms, keys := allMissing(mpt)
	var missIdx []int
	if ms != "ok" {
		fail("removed %s: GetAllMissingNodes failed: %s", idxList(idxs), ms)
	} else {
		if fmtKeys(keys) != fmtKeys(absent) {
			fail("removed %s: GetAllMissingNodes = %s, absent nodes reachable through present ones = %s", idxList(idxs), fmtKeys(keys), fmtKeys(absent))
		}
		seen := map[string]bool{}
		for _, k := range keys {
			seen[k] = true
		}
		for i, e := range st.order {
			if seen[e.key] {
				missIdx = append(missIdx, i)
			}
		}
	}
	var cls strings.Builder
	for _, p := range st.usedSorted() {
		got := getStr(mpt, p)
		if want := expectedLookup(raw, st.root, p, st.content); got != want {
			fail("removed %s: lookup(%s) = %q, want %q", idxList(idxs), ptok(p), got, want)
		}
		switch {
		case strings.HasPrefix(got, "ok"):
			cls.WriteByte('v')
		case got == "notpresent":
			cls.WriteByte('n')
		case got == "nodenotfound":
			cls.WriteByte('m')
		case got == "panic":
			cls.WriteByte('p')
		default:
			cls.WriteByte('e')
		}
	}
	if cls.Len() == 0 {
		cls.WriteByte('-')
	}
	h2, m2, d2, _ := st.repair(db, "", removed, v, st.digestShape(r), r, fail)
	rep := "ok"
	if h2 != "false" || m2 != "-" || d2 != "same" {
		rep = "FAILED"
	}
	sort.Ints(idxs)
	return idxList(idxs) + ":" + has + ":" + idxList(missIdx) + ":" + cls.String() + ":" + rep
}

// digestShape: the composite ops draw from all donor shapes.
func (st *c17State) digestShape(r *rand.Rand) string {
	return digestDonorShapes[r.Intn(len(digestDonorShapes))]
}

var digestDonorShapes = donorShapes

func (st *c17State) usedSorted() []string {
	var ps []string
	for p := range st.used {
		ps = append(ps, p)
	}
	sort.Strings(ps)
	return ps
}

func runC17(ops []string) CaseResult {
	var st *c17State
	res := CaseResult{}
	tags := map[string]bool{}
	removals, repairs := 0, 0
	// the paths the composite ops look up: every path mentioned by an earlier ins / del / get of the case
	used := map[string]bool{}
	for i, op := range ops {
		fail := func(f string, a ...interface{}) {
			if len(res.Fails) < 20 {
				res.Fails = append(res.Fails, fmt.Sprintf("op %d (%s): ", i, op)+fmt.Sprintf(f, a...))
			}
		}
		r := rand.New(rand.NewSource(int64(i)*7919 + int64(len(ops))))
		f := strings.Fields(op)
		var out string
		if (f[0] == "ins" || f[0] == "del" || f[0] == "get") && len(f) > 1 {
			used[pathOf(f[1])] = true
		}
		if st == nil && f[0] != "new" {
			res.Outs = append(res.Outs, "bad-op")
			res.Fails = append(res.Fails, "harness: op before new: "+op)
			continue
		}
		if st != nil && !st.snapped && f[0] != "ver" && f[0] != "ins" && f[0] != "del" && f[0] != "snap" && f[0] != "bulk" {
			res.Outs = append(res.Outs, "bad-op")
			res.Fails = append(res.Fails, "harness: op before snap: "+op)
			continue
		}
		switch f[0] {
		case "new":
			v, _ := strconv.ParseInt(f[2], 10, 64)
			st = &c17State{kind: f[1], content: map[string][]byte{}, version: v, used: used}
			if f[1] == "pndb" {
				st.dir = freshDir("c17")
				st.dirs = append(st.dirs, st.dir)
				db, err := util.NewPNodeDB(st.dir, "")
				if err != nil {
					panic(err)
				}
				st.db = db
			} else {
				st.db = util.NewMemoryNodeDB()
			}
			st.mpt = newMPT(st.db, v, nil)
			tags["store:"+f[1]] = true
			out = "ok"
		case "ver":
			v, _ := strconv.ParseInt(f[1], 10, 64)
			if v != st.version {
				tags["multi-version"] = true
			}
			st.version = v
			st.mpt.SetVersion(util.Sequence(v))
			out = "ok"
		case "ins", "del":
			path := pathOf(f[1])
			var val []byte
			if f[0] == "ins" {
				val = unhx(f[2])
			}
			out = guard(func() string {
				var k util.Key
				var err error
				if f[0] == "del" {
					k, err = st.mpt.Delete([]byte(path))
				} else {
					k, err = st.mpt.Insert([]byte(path), mkVal(append([]byte(nil), val...)))
				}
				if err != nil {
					return errKind(err)
				}
				return "ok " + rootStr(k)
			})
			if strings.HasPrefix(out, "ok") {
				if f[0] == "ins" {
					st.content[path] = val
				} else {
					delete(st.content, path)
				}
			}
		case "bulk":
			n, _ := strconv.Atoi(f[1])
			x, _ := strconv.ParseUint(f[2], 10, 64)
			out = guard(func() string {
				var k util.Key
				for j := 0; j < n; j++ {
					x = x*6364136223846793005 + 1442695040888963407
					path := fmt.Sprintf("%08x", uint32(x>>32))
					val := []byte{byte(0x41 + (x>>8)%26), byte(x)}
					var err error
					if k, err = st.mpt.Insert([]byte(path), mkVal(append([]byte(nil), val...))); err != nil {
						return errKind(err)
					}
					st.content[path] = val
				}
				return "ok " + rootStr(k)
			})
			tags["bulk"] = true
		case "rmleaves":
			k, _ := strconv.Atoi(f[1])
			var idxs []int
			for j, e := range st.order {
				if j > 0 && e.n.kind == 'L' && len(idxs) < k {
					idxs = append(idxs, j)
				}
			}
			st.cur, st.curDir, st.curRaw, st.removed = st.damage(st.kind, idxs)
			st.curMpt = newMPT(st.cur, st.version, st.root)
			ks := append([]string(nil), st.removed...)
			sort.Strings(ks)
			out = fmt.Sprintf("ok %d %s", len(ks), hx(sha3sum([]byte(strings.Join(ks, "")))))
			if len(st.removed) > 0 {
				removals++
			}
			tags[fmt.Sprintf("absent-frontier:%d", len(ks))] = true
		case "snap":
			st.root = append([]byte(nil), st.mpt.GetRoot()...)
			if st.dir != "" {
				st.full = rawStore(grocksdb.FakeSnapshot(st.dir, "default"))
			} else {
				st.full, _ = snapshotDB(st.db)
			}
			order, absent, err := walkReach(st.full, st.root)
			if err != nil || len(absent) > 0 {
				fail("the undamaged store is incomplete: %v %s", err, fmtKeys(absent))
			}
			st.order = order
			st.snapped = true
			st.curRaw, st.cur, st.curDir = st.full, st.db, st.dir
			st.curMpt = newMPT(st.cur, st.version, st.root)
			out = fmt.Sprintf("ok %s %d", rootStr(st.root), len(order))
			tags[fmt.Sprintf("nodes:%02d", sizeBucket(len(order)))] = true
			depth, maxDepth := make([]int, len(order)), 0
			for j, e := range order {
				if e.parent >= 0 {
					depth[j] = depth[e.parent] + 1
				}
				if depth[j] > maxDepth {
					maxDepth = depth[j]
				}
			}
			if maxDepth > 32 {
				tags["node-levels>32"] = true
			}
		case "rm", "rmsub":
			var idxs []int
			if f[0] == "rm" {
				for _, s := range strings.Split(f[1], ",") {
					x, _ := strconv.Atoi(s)
					if j := st.indexOf(x); j > 0 {
						idxs = append(idxs, j)
					}
				}
			} else {
				x, _ := strconv.Atoi(f[1])
				if j := st.indexOf(x); j > 0 {
					idxs = st.subtree(j)
					if len(idxs) > 1 {
						tags["subtree-removed"] = true
					}
				}
			}
			st.cur, st.curDir, st.curRaw, st.removed = st.damage(st.kind, idxs)
			st.curMpt = newMPT(st.cur, st.version, st.root)
			out = "ok " + fmtKeys(st.removed)
			if len(st.removed) > 0 {
				removals++
			}
			if len(st.removed) > 1 {
				tags["several-removed"] = true
			}
		case "has":
			out = hasMissingStr(st.curMpt)
			_, absent, _ := walkReach(st.curRaw, st.root)
			if want := strconv.FormatBool(len(absent) > 0); out != want {
				fail("HasMissingNodes = %s, want %s (absent reachable nodes: %s)", out, want, fmtKeys(absent))
			}
		case "miss":
			ms, keys := allMissing(st.curMpt)
			out = ms
			if ms == "ok" {
				out = "ok " + fmtKeys(keys)
			}
			if len(st.root) > 0 {
				_, absent, _ := walkReach(st.curRaw, st.root)
				if ms != "ok" {
					fail("GetAllMissingNodes failed: %s", ms)
				} else if fmtKeys(keys) != fmtKeys(absent) {
					if len(keys)+len(absent) > 40 {
						fail("GetAllMissingNodes reports %d keys, %d absent nodes are reachable through present ones", len(keys), len(absent))
					} else {
						fail("GetAllMissingNodes = %s, absent nodes reachable through present ones = %s", fmtKeys(keys), fmtKeys(absent))
					}
				}
				if len(absent) > 0 && len(absent) < len(st.removed) {
					tags["missing-below-missing"] = true
				}
			}
		case "get":
			path := pathOf(f[1])
			out = getStr(st.curMpt, path)
			want := expectedLookup(st.curRaw, st.root, path, st.content)
			if out != want {
				fail("lookup = %q, want %q", out, want)
			}
			if want == "nodenotfound" {
				tags["lookup-crosses-missing"] = true
			} else if len(st.removed) > 0 && strings.HasPrefix(want, "ok") {
				tags["lookup-beside-missing"] = true
			}
		case "iter":
			out = iterStr(st.curMpt)
			_, absent, _ := walkReach(st.curRaw, st.root)
			if len(absent) == 0 {
				if want := "ok " + fmtPairs(sortedPairs(st.content)); out != want {
					fail("iteration = %q, want %q", out, want)
				}
			} else if strings.HasPrefix(out, "ok") || out == "panic" {
				fail("iteration over a trie with absent nodes returned %q", out)
			}
		case "restore":
			out = guard(func() string {
				shape := "mem"
				if len(f) > 2 {
					shape = f[2]
				}
				dd := newDonor(shape)
				defer dd.close()
				for _, k := range st.removed {
					n, err := st.db.GetNode(util.Key(k))
					if err != nil {
						panic("frozen store lost node")
					}
					dd.put(util.Key(k), n, r)
				}
				donor := dd.db
				switch f[1] {
				case "raw":
					for _, k := range st.removed {
						if st.curDir != "" {
							grocksdb.FakeRawPut(st.curDir, []byte(k), st.full[k])
						} else {
							n, _ := st.db.GetNode(util.Key(k))
							_ = st.cur.PutNode(util.Key(k), n)
						}
					}
				case "mergestate":
					if err := util.MergeState(context.Background(), donor, st.cur); err != nil {
						return errKind(err)
					}
				default:
					other := newMPT(st.cur, st.version+1, st.root)
					if err := other.MergeDB(donor, st.root, nil); err != nil {
						return errKind(err)
					}
				}
				return "ok"
			})
			if len(st.removed) > 0 {
				tags["restore-through-store:"+f[1]] = true
				repairs++
			}
			st.curRaw, st.removed = st.full, nil
		case "mkeys":
			var ks []string
			for _, k := range st.curMpt.GetMissingNodeKeys() {
				ks = append(ks, string(k))
			}
			out = "ok " + fmtKeys(ks)
			for _, k := range ks {
				if _, ok := st.full[k]; !ok && !(k == "" && len(st.root) == 0) { // the empty trie's nil root key is read by GetAllMissingNodes
					fail("GetMissingNodeKeys lists %s, which is not a node of the trie", hx([]byte(k)))
				}
			}
		case "cwalk":
			_, absent, _ := walkReach(st.curRaw, st.root)
			wantHas := strconv.FormatBool(len(absent) > 0)
			// R = reads of an undisturbed walk
			probe := &countingDB{NodeDB: st.cur}
			hasMissingStr(newMPT(probe, st.version, st.root))
			var recs []string
			for n := int64(1); n <= probe.n+1; n++ {
				ctx, cancel := context.WithCancel(context.Background())
				hs := guard(func() string {
					b, err := newMPT(&countingDB{NodeDB: st.cur, at: n, cancel: cancel}, st.version, st.root).HasMissingNodes(ctx)
					if err != nil {
						return ctxKind(err)
					}
					return strconv.FormatBool(b)
				})
				cancel()
				if hs != "ctx" && hs != wantHas {
					fail("context cancelled at node read %d of %d: HasMissingNodes = %s (the store's answer is %s)", n, probe.n, hs, wantHas)
				}
				ctx2, cancel2 := context.WithCancel(context.Background())
				var ps []pair
				is := guard(func() string {
					m := newMPT(&countingDB{NodeDB: st.cur, at: n, cancel: cancel2}, st.version, st.root)
					err := m.Iterate(ctx2, func(_ context.Context, path util.Path, _ util.Key, node util.Node) error {
						if vn, ok := node.(*util.ValueNode); ok && node != nil {
							ps = append(ps, pair{string(append([]byte(nil), path...)), append([]byte(nil), vn.GetValueBytes()...)})
						}
						return nil
					}, util.NodeTypeValueNode)
					if err != nil {
						return ctxKind(err)
					}
					return "ok"
				})
				cancel2()
				switch {
				case is == "ctx":
				case len(absent) == 0:
					if is != "ok" || fmtPairs(ps) != fmtPairs(sortedPairs(st.content)) {
						fail("context cancelled at node read %d of %d: Iterate over the complete store returned %s with %s", n, probe.n, is, fmtPairs(ps))
					}
				default:
					if is == "ok" || is == "panic" {
						fail("context cancelled at node read %d of %d: Iterate over the damaged store returned %s", n, probe.n, is)
					}
				}
				recs = append(recs, fmt.Sprintf("%d:%s/%s", n, hs, is))
			}
			out = "ok " + strings.Join(recs, ";")
			tags["ctx-cancelled-during-walk"] = true
		case "repair":
			v, _ := strconv.ParseInt(f[1], 10, 64)
			shape := "mem"
			if len(f) > 2 {
				shape = f[2]
			}
			tags["donor:"+shape] = true
			has, miss, donor, m2 := st.repair(st.cur, st.curDir, st.removed, v, shape, r, fail)
			out = fmt.Sprintf("ok %s has=%s miss=%s donor=%s", rootStr(st.root), has, miss, donor)
			st.curMpt = m2
			st.curRaw = st.full
			if len(st.removed) > 0 {
				repairs++
				if v == st.version {
					tags["repair:same-version"] = true
				} else {
					tags["repair:other-version"] = true
				}
				lo, hi := uint64(1<<63), uint64(0)
				for _, k := range st.removed {
					if rn, err := parseStored(st.full[k]); err == nil {
						if rn.origin < lo {
							lo = rn.origin
						}
						if rn.origin > hi {
							hi = rn.origin
						}
					}
				}
				switch {
				case uint64(v) < lo:
					tags["repair:below-all-origins"] = true
				case uint64(v) < hi:
					tags["repair:between-origins"] = true
				case uint64(v) > hi:
					tags["repair:above-all-origins"] = true
				}
			}
			st.removed = nil
		case "sweep1", "sweepsub", "all":
			n := len(st.order)
			var recs []string
			// repair versions cycle through: the trie version, above it, below every origin (0), just below the trie
			// version (between the origins of a multi-version trie)
			alt := func(k int) int64 {
				switch k % 4 {
				case 0:
					return st.version
				case 1:
					return st.version + 1 + int64(k)
				case 2:
					return 0
				}
				if st.version > 0 {
					return st.version - 1
				}
				return 0
			}
			switch {
			case f[0] == "all" && n > 10:
				out = "skip"
			case f[0] == "all":
				for mask := 1; mask < 1<<uint(n-1) && n > 1; mask++ {
					var idxs []int
					for b := 0; b < n-1; b++ {
						if mask&(1<<uint(b)) != 0 {
							idxs = append(idxs, b+1)
						}
					}
					recs = append(recs, st.digest(idxs, alt(mask), r, fail))
				}
				tags["all-subsets"] = true
			default:
				for j := 1; j < n; j++ {
					idxs := []int{j}
					if f[0] == "sweepsub" {
						idxs = st.subtree(j)
					}
					recs = append(recs, st.digest(idxs, alt(j), r, fail))
				}
			}
			if out == "" {
				out = "ok " + strings.Join(recs, ";")
				if len(recs) == 0 {
					out = "ok -"
				} else {
					removals += len(recs)
					repairs += len(recs)
				}
			}
		default:
			panic("unknown op " + op)
		}
		if out == "panic" {
			fail("operation panicked")
		}
		res.Outs = append(res.Outs, out)
	}
	if st != nil {
		for _, d := range st.dirs {
			grocksdb.FakeReset(d)
		}
	}
	for t := range tags {
		res.Tags = append(res.Tags, t)
	}
	res.Nontrivial = removals > 0 && repairs > 0
	return res
}

func genC17(r *rand.Rand, tier string, idx int) []string {
	kind := []string{"mem", "pndb"}[idx%2]
	ver := int64(1 + r.Intn(5)) // >= 1: version 0 lies below every node's origin
	ver0 := ver
	if idx%48 == 13 {
		return genC17Comb(r, kind, ver)
	}
	if idx%250 == 77 {
		return genC17Bulk(r, kind, ver)
	}
	ops := []string{fmt.Sprintf("new %s %d", kind, ver)}
	alpha := pathAlphabets[r.Intn(len(pathAlphabets))]
	small := idx%4 == 3 // small tries so that `all` applies
	maxOps := 12
	if small {
		maxOps = 5
	} else if tier == "thorough" {
		maxOps = 30
	}
	n := 2 + r.Intn(maxOps-1)
	var pool []string
	inserts := 0
	for k := 0; k < n; k++ {
		x := r.Intn(100)
		p0 := genPath(r, alpha, pool)
		if small && len(p0) > 8 {
			p0 = p0[:8]
		}
		p := ptok(p0)
		switch {
		case x < 70 || inserts == 0:
			ops = append(ops, "ins "+p+" "+genValue(r))
			pool = append(pool, p0)
			inserts++
		case x < 85:
			ops = append(ops, "del "+p)
		default:
			ver += int64(1 + r.Intn(3))
			ops = append(ops, fmt.Sprintf("ver %d", ver))
		}
	}
	ops = append(ops, "snap", "has", "miss", "iter")
	bound := 2 * inserts
	queries := func() {
		ops = append(ops, "has", "miss", "iter")
		seen := map[string]bool{}
		for k := 0; k < 5; k++ {
			var p string
			if r.Intn(4) == 0 || len(pool) == 0 {
				p = genPath(r, alpha, pool)
			} else {
				p = pool[r.Intn(len(pool))]
			}
			if !seen[p] {
				seen[p] = true
				ops = append(ops, "get "+ptok(p))
			}
		}
	}
	// below every origin, the first version, between, the last version, above
	repairV := func() int64 {
		switch r.Intn(6) {
		case 0:
			return 0
		case 1:
			return ver0
		case 2:
			return ver0 + r.Int63n(ver-ver0+1)
		case 3:
			return ver - 1
		case 4:
			return ver
		}
		return ver + 1 + int64(r.Intn(4))
	}
	groups := 4
	if tier == "thorough" {
		groups = 10
	}
	for g := 0; g < groups; g++ {
		switch r.Intn(3) {
		case 0:
			ops = append(ops, fmt.Sprintf("rm %d", r.Intn(bound+1)))
		case 1:
			ops = append(ops, fmt.Sprintf("rmsub %d", r.Intn(bound+1)))
		default:
			var xs []string
			for k, m := 0, 2+r.Intn(4); k < m; k++ {
				xs = append(xs, strconv.Itoa(r.Intn(bound+1)))
			}
			ops = append(ops, "rm "+strings.Join(xs, ","))
		}
		queries()
		if g == 0 {
			ops = append(ops, "cwalk")
		}
		if r.Intn(2) == 0 {
			// the nodes come back through the store; the SAME trie object goes on answering
			ops = append(ops, "mkeys", "restore "+[]string{"raw", "mergestate", "othertrie"}[r.Intn(3)]+" "+digestDonorShapes[r.Intn(len(digestDonorShapes))], "has", "miss", "iter", "mkeys")
		} else {
			ops = append(ops, fmt.Sprintf("repair %d %s", repairV(), digestDonorShapes[r.Intn(len(digestDonorShapes))]))
			ops = append(ops, "has", "iter")
		}
		if len(pool) > 0 {
			ops = append(ops, "get "+ptok(pool[r.Intn(len(pool))]), "get "+ptok(pool[r.Intn(len(pool))]))
		}
		if g == 1 {
			ops = append(ops, "cwalk") // over the complete store
		}
	}
	ops = append(ops, "sweep1", "sweepsub")
	if small || tier == "thorough" {
		ops = append(ops, "all")
	}
	return ops
}

// genComb returns 64-nibble keys forming a comb: a base key plus one "tooth" key per chosen position that shares the
// base key's prefix up to that position. The trie has a branch at every tooth position and an extension across every
// gap, `levels` node levels (branches + extensions) in a single chain below the root, the base key's leaf at the bottom.
func genComb(r *rand.Rand, levels int) []string {
	const hexd = "0123456789abcdef"
	base := make([]byte, 64)
	for i := range base {
		base[i] = hexd[r.Intn(16)]
	}
	keys := []string{string(base)}
	pos := 0
	if r.Intn(2) == 0 {
		pos = 1 + r.Intn(2) // extension at the root
	}
	for lv := 0; lv < levels && pos < 63; {
		k := append([]byte(nil), base...)
		k[pos] = hexd[(strings.IndexByte(hexd, base[pos])+1+r.Intn(15))%16]
		for j := pos + 1; j < 64; j++ {
			k[j] = hexd[r.Intn(16)]
		}
		keys = append(keys, string(k))
		lv++
		gap := 1
		if r.Intn(5) == 0 {
			gap = 2 + r.Intn(2)
			lv++
		}
		pos += gap
	}
	r.Shuffle(len(keys), func(i, j int) { keys[i], keys[j] = keys[j], keys[i] })
	return keys
}

// genC17Bulk: a LARGE trie (several hundred to a few thousand nodes); the numbers of absent reachable nodes straddle the
// size constants of the anchored code (BatchSize = 256: 255 / 256 / 257 / 512 / 513) and go up to every leaf.
func genC17Bulk(r *rand.Rand, kind string, ver int64) []string {
	ops := []string{fmt.Sprintf("new %s %d", kind, ver), fmt.Sprintf("bulk %d %d", 300+r.Intn(300), r.Int63())}
	ver += 2
	ops = append(ops, fmt.Sprintf("ver %d", ver), fmt.Sprintf("bulk %d %d", 300+r.Intn(700), r.Int63()), "snap", "has", "miss")
	counts := []int{255, 256, 257, 512, 513, 100000}
	r.Shuffle(len(counts), func(i, j int) { counts[i], counts[j] = counts[j], counts[i] })
	for _, k := range counts[:4] {
		ops = append(ops, fmt.Sprintf("rmleaves %d", k), "has", "miss")
		ops = append(ops, fmt.Sprintf("repair %d %s", []int64{0, ver, ver + 3}[r.Intn(3)], donorShapes[r.Intn(len(donorShapes))]), "has", "miss")
	}
	ops = append(ops, "rmsub 1", "has", "miss", "restore mergestate lmp", "has", "miss", "iter")
	return ops
}

// genC17Comb: a trie more than 32 node levels deep (33..63), built at several versions; nodes near the bottom (and
// random ones) are removed.
func genC17Comb(r *rand.Rand, kind string, ver int64) []string {
	ver0 := ver
	ops := []string{fmt.Sprintf("new %s %d", kind, ver)}
	keys := genComb(r, 33+r.Intn(31))
	for _, k := range keys {
		ops = append(ops, fmt.Sprintf("ins %s %02x", k, 0x41+r.Intn(26)))
		if r.Intn(8) == 0 {
			ver += int64(1 + r.Intn(3))
			ops = append(ops, fmt.Sprintf("ver %d", ver))
		}
	}
	ops = append(ops, "snap", "has", "miss")
	n := 2 * len(keys) // about the number of nodes; pre-order indexes near n are near the bottom of the comb
	for g := 0; g < 6; g++ {
		var i int
		switch g % 3 {
		case 0:
			i = n - 2 - r.Intn(6) // near the bottom
		case 1:
			i = n/2 + r.Intn(n/2)
		default:
			i = r.Intn(n)
		}
		if g%2 == 0 {
			ops = append(ops, fmt.Sprintf("rm %d", i))
		} else {
			ops = append(ops, fmt.Sprintf("rm %d,%d,%d", i, r.Intn(n), n-1-r.Intn(4)))
		}
		ops = append(ops, "has", "miss", "get "+keys[r.Intn(len(keys))], "get "+keys[r.Intn(len(keys))])
		v := []int64{0, ver0, ver, ver + 2, ver - 1, ver0 + 1}[r.Intn(6)]
		ops = append(ops, fmt.Sprintf("repair %d %s", v, digestDonorShapes[r.Intn(len(digestDonorShapes))]), "has", "miss")
	}
	ops = append(ops, fmt.Sprintf("rm %d", n-3), "has", "mkeys", "restore mergestate", "has", "miss", "mkeys", "cwalk")
	return append(ops, "iter", "sweep1")
}

func init() {
	register(&Suite{
		Name: "c17",
		Rule: "random multi-version tries on memory and persistent stores; removal of every single non-root node (sweep1), every subtree (sweepsub), random scattered sets (rm/rmsub groups) and, for tries of <= 10 nodes, every subset (all); HasMissingNodes / GetAllMissingNodes / lookups / iteration compared with an independent walk of the stored bytes; every 250th case a large trie (600..1600 bulk inserts) with 255/256/257/512/513/all leaves absent; every 48th case a comb-shaped trie of 64-nibble keys with 33..63 node levels (branches and extensions) in one chain; repair by MergeDB from a donor store (which also holds unrelated nodes) at versions below every origin, between origins, at and above the trie version; non-trivial = at least one non-empty removal and one repair",
		Gen:  genC17,
		Run:  runC17,
		Exhaustive: func(tier string, emit func([]string)) {
			// every trie holding 1..3 (thorough: 1..4) of these keys, at one or two versions, every subset of its nodes removed
			paths := []string{"-", "aa", "ab", "ba", "aaaa", "aaab", "abaa"}
			max := 3
			if tier == "thorough" {
				max = 4
			}
			var rec func(start int, cur []string)
			rec = func(start int, cur []string) {
				if len(cur) > 0 {
					for _, store := range []string{"mem", "pndb"} {
						ops := []string{"new " + store + " 1"}
						for i, p := range cur {
							if i == 1 {
								ops = append(ops, "ver 3")
							}
							ops = append(ops, fmt.Sprintf("ins %s 4%d", p, i))
						}
						ops = append(ops, "snap")
						for _, p := range paths {
							ops = append(ops, "get "+p)
						}
						ops = append(ops, "sweep1", "sweepsub", "all")
						emit(ops)
					}
				}
				if len(cur) == max {
					return
				}
				for i := start; i < len(paths); i++ {
					rec(i+1, append(append([]string(nil), cur...), paths[i]))
				}
			}
			rec(0, nil)
		},
		DefaultN: func(tier string) int {
			if tier == "thorough" {
				return 20000
			}
			return 600
		},
	})
}
