package main

// Suite c20glue — the glue around the log ring (core/logging/inmemory_logger.go: Check/Enabled level filtering of root
// and derived cores, WriteLogs(detailLevel); core/logging/handler.go: the three HTTP handlers), compared with the Lean
// model Verif.Model.RingGlue (`modeld ring`).
//
//	new <min> <stk>              fresh MemLogger with LevelEnabler <min> (debug|info|warn|error); logger 0 =
//	                             zap.New(core, zap.AddStacktrace(<stk>)) (<stk> = none: no stack traces)        -> ok
//	init <mode>                  logging.InitLogging(<mode>, tmpdir) (development|production); loggers 0,1,2 =
//	                             logging.Logger, logging.N2n, logging.MemUsage (three memory loggers)            -> ok
//	with <k> <key> <val>         loggers = append(loggers, loggers[k].With(zap.String(key, val)))                -> ok <index>
//	logf <k> <lvl> <msg> [k=v]…  loggers[k].<Lvl>(msg, zap.String(k, v)…)                                         -> ok
//	logfn <k> <lvl> <count> <start>  messages m<start>… at one level, no fields                                  -> ok
//	glogs                        (new) GetLogs(): level, message, Context fields, Stack != ""                     -> ok <n> <e|e|…>
//	render <detail>              (new) WriteLogs(buf, detail), parsed                                             -> ok <n> <e|e|…>
//	http <log|n2n|mem> <tok>     (init) LogWriter / N2NLogWriter / MemLogWriter through httptest with ?detail=<tok>
//	                             (<tok> = "-": no query)                                                        -> ok <n> <e|e|…>
//
// An entry prints as LEVEL:msg:k=v;k=v:S — fields and S(tack) only where present in the output; the console encoder's
// formatting (time, caller, JSON layout, stack text) is parsed away. Oracle: the enabled entries (level >= the memory
// logger's minimum, through whichever logger), newest first, at most BufferSize; fields iff detail >= 2; stack iff detail >= 3
// and zap attached one (level >= the AddStacktrace level); detail = decimal integer with optional sign, else 0, clamped
// to int64.

import (
	"bytes"
	"encoding/json"
	"fmt"
	"math/big"
	"math/rand"
	"net/http"
	"net/http/httptest"
	"net/url"
	"os"
	"regexp"
	"sort"
	"strconv"
	"strings"

	"github.com/0chain/common/core/logging"
	"github.com/0chain/common/core/viper"
	"go.uber.org/zap"
	"go.uber.org/zap/zapcore"
)

type glueEntry struct {
	lvl    int
	msg    string
	fields [][2]string
	stack  bool
}

var glueLevels = map[string]int{"debug": -1, "info": 0, "warn": 1, "error": 2, "none": 100}
var glueNames = map[int]string{-1: "DEBUG", 0: "INFO", 1: "WARN", 2: "ERROR"}

func glueFmtEntry(lvl string, msg string, fields [][2]string, stack bool) string {
	fs := "-"
	if len(fields) > 0 {
		var p []string
		for _, kv := range fields {
			p = append(p, kv[0]+"="+kv[1])
		}
		fs = strings.Join(p, ";")
	}
	st := "-"
	if stack {
		st = "S"
	}
	return lvl + ":" + msg + ":" + fs + ":" + st
}

func glueFmt(es []string) string {
	if len(es) == 0 {
		return "ok 0 -"
	}
	return fmt.Sprintf("ok %d %s", len(es), strings.Join(es, "|"))
}

var glueEntryStart = regexp.MustCompile(`^\d{4}-\d{2}-\d{2}T`)

// glueParse: the entries of a WriteLogs output, in order: which level, message, fields and whether a stack follows
func glueParse(text string) []string {
	var out []string
	lines := strings.Split(text, "\n")
	for i := 0; i < len(lines); i++ {
		l := lines[i]
		if !glueEntryStart.MatchString(l) {
			continue
		}
		cols := strings.Split(l, "\t")
		var fields [][2]string
		last := len(cols) - 1
		if last >= 2 && strings.HasPrefix(cols[last], "{") {
			m := map[string]interface{}{}
			if err := json.Unmarshal([]byte(cols[last]), &m); err == nil {
				var keys []string
				for k := range m {
					keys = append(keys, k)
				}
				sort.Strings(keys)
				for _, k := range keys {
					fields = append(fields, [2]string{k, fmt.Sprint(m[k])})
				}
			}
			last--
		}
		lvl, msg := "?", "?"
		if len(cols) > 1 {
			lvl = cols[1]
		}
		if last >= 2 {
			msg = cols[last]
		}
		stack := false
		for j := i + 1; j < len(lines) && !glueEntryStart.MatchString(lines[j]); j++ {
			if strings.TrimSpace(lines[j]) != "" {
				stack = true
			}
		}
		out = append(out, glueFmtEntry(lvl, msg, fields, stack))
	}
	return out
}

var glueInt = regexp.MustCompile(`^[+-]?[0-9]+$`)

// glueDetail: what the handlers make of the `detail` parameter (independent of strconv)
func glueDetail(tok string) *big.Int {
	if !glueInt.MatchString(tok) {
		return big.NewInt(0)
	}
	v, _ := new(big.Int).SetString(strings.TrimPrefix(tok, "+"), 10)
	max := new(big.Int).SetUint64(1<<63 - 1)
	min := new(big.Int).Neg(new(big.Int).SetUint64(1 << 63))
	if v.Cmp(max) > 0 {
		return max
	}
	if v.Cmp(min) < 0 {
		return min
	}
	return v
}

type glueRing struct {
	min, stk int
	written  []glueEntry // enabled entries, chronological
}

func runC20Glue(ops []string) CaseResult {
	res := CaseResult{}
	tags := map[string]bool{}
	var ml *logging.MemLogger
	var loggers []*zap.Logger
	var ringOf []int
	var rings []*glueRing
	mode := ""
	var tmp string
	defer func() {
		if tmp != "" {
			os.RemoveAll(tmp)
		}
	}()
	fail := func(i int, f string, a ...interface{}) {
		if len(res.Fails) < 10 {
			res.Fails = append(res.Fails, fmt.Sprintf("op %d (%s): ", i, ops[i])+fmt.Sprintf(f, a...))
		}
	}
	atoi := func(s string) int { v, _ := strconv.Atoi(s); return v }
	expect := func(r *glueRing, detail *big.Int, full bool) []string {
		var out []string
		for k := len(r.written) - 1; k >= 0 && len(out) < logging.BufferSize; k-- {
			e := r.written[k]
			var fs [][2]string
			if full || detail.Cmp(big.NewInt(2)) >= 0 {
				fs = e.fields
			}
			st := e.stack && (full || detail.Cmp(big.NewInt(3)) >= 0)
			out = append(out, glueFmtEntry(glueNames[e.lvl], e.msg, fs, st))
		}
		return out
	}
	check := func(i int, got, want []string, what string) {
		if c19EqStrs(got, want) {
			return
		}
		d := 0
		for d < len(got) && d < len(want) && got[d] == want[d] {
			d++
		}
		g, w := "<nothing>", "<nothing>"
		if d < len(got) {
			g = got[d]
		}
		if d < len(want) {
			w = want[d]
		}
		fail(i, "%s shows %d entries, want %d; first difference at position %d: got %s, want %s", what, len(got), len(want), d, g, w)
	}
	write := func(k int, lvl int, msg string, fields [][2]string) {
		var zf []zap.Field
		for _, kv := range fields {
			zf = append(zf, zap.String(kv[0], kv[1]))
		}
		switch lvl {
		case -1:
			loggers[k].Debug(msg, zf...)
		case 0:
			loggers[k].Info(msg, zf...)
		case 1:
			loggers[k].Warn(msg, zf...)
		default:
			loggers[k].Error(msg, zf...)
		}
		r := rings[ringOf[k]]
		if lvl >= r.min {
			r.written = append(r.written, glueEntry{lvl, msg, fields, lvl >= r.stk})
			if ringOf[k] != 0 || k != 0 {
				tags["enabled-through-derived-or-other"] = true
			}
		} else {
			tags["filtered-by-level"] = true
			if k >= len(rings) {
				tags["filtered-through-derived"] = true
			}
		}
	}
	for i, op := range ops {
		f := strings.Fields(op)
		bad := false
		switch f[0] {
		case "new":
			bad = mode != "" || len(f) != 3 || glueLevels[f[1]] == 0 && f[1] != "info" || glueLevels[f[2]] == 0 && f[2] != "info"
		case "init":
			bad = mode != "" || len(f) != 2
		case "with":
			bad = mode == "" || len(f) != 4 || atoi(f[1]) < 0 || atoi(f[1]) >= len(loggers)
		case "logf":
			bad = mode == "" || len(f) < 4 || atoi(f[1]) < 0 || atoi(f[1]) >= len(loggers) || glueLevels[f[2]] > 2
		case "logfn":
			bad = mode == "" || len(f) != 5 || atoi(f[1]) < 0 || atoi(f[1]) >= len(loggers) || glueLevels[f[2]] > 2
		case "glogs", "render":
			bad = mode != "new"
		case "http":
			bad = mode != "init" || len(f) != 3
		default:
			bad = true
		}
		if bad {
			res.Fails = append(res.Fails, "harness: malformed case at "+op)
			res.Outs = append(res.Outs, "bad-op")
			continue
		}
		out := guard(func() string {
			switch f[0] {
			case "new":
				mode = "new"
				min, stk := glueLevels[f[1]], glueLevels[f[2]]
				ml = logging.NewMemLogger(zapcore.NewJSONEncoder(zap.NewProductionEncoderConfig()), zapcore.Level(min))
				var opts []zap.Option
				if f[2] != "none" {
					opts = append(opts, zap.AddStacktrace(zapcore.Level(stk)))
				}
				loggers = []*zap.Logger{zap.New(ml.GetCore(), opts...)}
				ringOf = []int{0}
				rings = []*glueRing{{min: min, stk: stk}}
				tags["min:"+f[1]] = true
				return "ok"
			case "init":
				mode = "init"
				var err error
				tmp, err = os.MkdirTemp("", "verif-c20glue")
				if err != nil {
					panic(err)
				}
				viper.Set("logging.level", "debug")
				viper.Set("logging.console", false)
				logging.InitLogging(f[1], tmp)
				loggers = []*zap.Logger{logging.Logger, logging.N2n, logging.MemUsage}
				ringOf = []int{0, 1, 2}
				if f[1] == "development" {
					rings = []*glueRing{{min: -1, stk: 1}, {min: 0, stk: 1}, {min: 0, stk: 1}}
				} else {
					rings = []*glueRing{{min: 2, stk: 2}, {min: 0, stk: 2}, {min: 0, stk: 2}}
				}
				tags["init:"+f[1]] = true
				return "ok"
			case "with":
				k := atoi(f[1])
				loggers = append(loggers, loggers[k].With(zap.String(f[2], f[3])))
				ringOf = append(ringOf, ringOf[k])
				return fmt.Sprintf("ok %d", len(loggers)-1)
			case "logf":
				var fields [][2]string
				for _, kv := range f[4:] {
					p := strings.SplitN(kv, "=", 2)
					if len(p) == 2 {
						fields = append(fields, [2]string{p[0], p[1]})
					}
				}
				write(atoi(f[1]), glueLevels[f[2]], f[3], fields)
				return "ok"
			case "logfn":
				for j := 0; j < atoi(f[3]); j++ {
					write(atoi(f[1]), glueLevels[f[2]], "m"+strconv.Itoa(atoi(f[4])+j), nil)
				}
				return "ok"
			case "glogs":
				var got []string
				for _, e := range ml.GetLogs() {
					var fs [][2]string
					for _, c := range e.Context {
						fs = append(fs, [2]string{c.Key, c.String})
					}
					got = append(got, glueFmtEntry(strings.ToUpper(e.Level.String()), e.Message, fs, e.Stack != ""))
				}
				check(i, got, expect(rings[0], nil, true), "GetLogs")
				return glueFmt(got)
			case "render":
				var buf bytes.Buffer
				ml.WriteLogs(&buf, atoi(f[1]))
				got := glueParse(buf.String())
				check(i, got, expect(rings[0], big.NewInt(int64(atoi(f[1]))), false), fmt.Sprintf("WriteLogs(%s)", f[1]))
				tags["detail:"+f[1]] = true
				return glueFmt(got)
			case "http":
				var h http.HandlerFunc
				var r *glueRing
				switch f[1] {
				case "log":
					h, r = logging.LogWriter, rings[0]
				case "n2n":
					h, r = logging.N2NLogWriter, rings[1]
				default:
					h, r = logging.MemLogWriter, rings[2]
				}
				target := "/logs"
				if f[2] != "-" {
					target += "?" + url.Values{"detail": {f[2]}}.Encode()
				}
				rec := httptest.NewRecorder()
				h(rec, httptest.NewRequest("GET", target, nil))
				got := glueParse(rec.Body.String())
				check(i, got, expect(r, glueDetail(f[2]), false), "handler "+f[1]+" detail="+f[2])
				tags["http:"+f[1]] = true
				return glueFmt(got)
			}
			return "bad-op"
		})
		if out == "panic" {
			fail(i, "panic")
		}
		res.Outs = append(res.Outs, out)
	}
	res.Nontrivial = tags["filtered-by-level"] && tags["enabled-through-derived-or-other"]
	for _, r := range rings {
		if len(r.written) > logging.BufferSize {
			tags["overflow"] = true
		}
	}
	for t := range tags {
		res.Tags = append(res.Tags, t)
	}
	return res
}

func genC20Glue(r *rand.Rand, tier string, idx int) []string {
	lv := []string{"debug", "info", "warn", "error"}
	var ops []string
	httpMode := idx%3 == 2
	nlog := 1
	if httpMode {
		ops = append(ops, "init "+[]string{"development", "production"}[r.Intn(2)])
		nlog = 3
	} else {
		ops = append(ops, fmt.Sprintf("new %s %s", lv[r.Intn(4)], []string{"none", "debug", "warn", "error", "error"}[r.Intn(5)]))
	}
	toks := []string{"-", "0", "1", "2", "3", "4", "-1", "+2", "abc", "3.0", "2x", "007", "1e1", "0x3", "99999999999999999999", "-99999999999999999999", "9223372036854775807", "9223372036854775808", "%20", "٣"}
	next := 0
	n := 6 + r.Intn(30)
	for k := 0; k < n; k++ {
		switch x := r.Intn(20); {
		case x < 3:
			ops = append(ops, fmt.Sprintf("with %d w%d v%d", r.Intn(nlog), nlog, r.Intn(9)))
			nlog++
		case x < 12:
			op := fmt.Sprintf("logf %d %s m%d", r.Intn(nlog), lv[r.Intn(4)], next)
			next++
			for j, nf := 0, r.Intn(3); j < nf; j++ {
				op += fmt.Sprintf(" k%d=v%d", j, r.Intn(9))
			}
			ops = append(ops, op)
		case x < 13 && idx%5 == 0:
			ops = append(ops, fmt.Sprintf("logfn %d %s %d %d", r.Intn(nlog), lv[1+r.Intn(3)], 500+r.Intn(700), next))
			next += 1300
		case httpMode:
			ops = append(ops, fmt.Sprintf("http %s %s", []string{"log", "n2n", "mem"}[r.Intn(3)], toks[r.Intn(len(toks))]))
		case x < 16:
			ops = append(ops, "glogs")
		default:
			ops = append(ops, fmt.Sprintf("render %d", []int{-1, 0, 1, 2, 3, 4, 100}[r.Intn(7)]))
		}
	}
	if httpMode {
		ops = append(ops, "http log 3", "http n2n 2", "http mem -")
	} else {
		ops = append(ops, "glogs", "render 1", "render 2", "render 3")
	}
	return ops
}

func init() {
	register(&Suite{
		Name:   "c20glue",
		Rule:   "memory loggers with minimum level debug/info/warn/error (own NewMemLogger, or the three built by InitLogging in development/production mode), writes at all four levels with 0-2 fields through root and derived zap loggers, occasionally past the capacity; GetLogs, WriteLogs(detail -1..4,100) and the three HTTP handlers (detail absent, numeric, signed, non-numeric, huge) compared with the oracle and the model by level, message, field and stack presence; non-trivial = some entry filtered by level and some entry retained through a derived or second logger",
		Gen:    genC20Glue,
		Run:    runC20Glue,
		Serial: true,
		DefaultN: func(tier string) int {
			if tier == "thorough" {
				return 1200
			}
			return 150
		},
	})
}
