package main

// Helpers shared by the codec suites (c14, c15mpt, c17): an INDEPENDENT strict parser / encoder of the stored
// node format (no code of /repo involved), walks over a raw store (key -> stored bytes) and the checks every
// store entry must pass for C14.
//
// stored node = type byte (leaf 2, full 4, extension 8), version int64 LE, origin int64 LE, body
// body        = leaf: prefix ':' path ':' value | full: 16 x (hex(child)? ':') value? | extension: path ':' childkey
// key         = SHA3-256( LE64(origin) ++ body )

import (
	"bytes"
	"context"
	"encoding/binary"
	"encoding/hex"
	"errors"
	"fmt"
	"sort"
	"strings"

	"github.com/0chain/common/core/util"
)

type rnode struct {
	kind            byte // 'L','F','E'
	version, origin uint64
	prefix, path    []byte
	val             []byte     // nil = no value
	ch              [16][]byte // full node children (nil = none)
	ckey            []byte     // extension child key
}

var errBadStored = errors.New("not a well-formed stored node")

func isHexDigits(b []byte) bool {
	for _, c := range b {
		if !(c >= '0' && c <= '9' || c >= 'a' && c <= 'f') {
			return false
		}
	}
	return true
}

// parseStored accepts exactly the encodings a healthy store may contain.
func parseStored(raw []byte) (*rnode, error) {
	if len(raw) < 17 {
		return nil, errBadStored
	}
	n := &rnode{version: binary.LittleEndian.Uint64(raw[1:9]), origin: binary.LittleEndian.Uint64(raw[9:17])}
	body := raw[17:]
	switch raw[0] {
	case 2:
		n.kind = 'L'
		parts := bytes.SplitN(body, []byte{':'}, 3)
		if len(parts) != 3 || !isHexDigits(parts[0]) || !isHexDigits(parts[1]) {
			return nil, errBadStored
		}
		n.prefix, n.path = parts[0], parts[1]
		if len(parts[2]) > 0 {
			n.val = parts[2]
		}
	case 4:
		n.kind = 'F'
		for i := 0; i < 16; i++ {
			j := bytes.IndexByte(body, ':')
			if j < 0 || (j != 0 && j != 64) {
				return nil, errBadStored
			}
			if j == 64 {
				k, err := hex.DecodeString(string(body[:64]))
				if err != nil || !isHexDigits(body[:64]) {
					return nil, errBadStored
				}
				n.ch[i] = k
			}
			body = body[j+1:]
		}
		if len(body) > 0 {
			n.val = body
		}
	case 8:
		n.kind = 'E'
		j := bytes.IndexByte(body, ':')
		if j < 0 || !isHexDigits(body[:j]) || len(body)-j-1 != 32 {
			return nil, errBadStored
		}
		n.path, n.ckey = body[:j], body[j+1:]
	default:
		return nil, errBadStored
	}
	return n, nil
}

func (n *rnode) body() []byte {
	var b bytes.Buffer
	switch n.kind {
	case 'L':
		b.Write(n.prefix)
		b.WriteByte(':')
		b.Write(n.path)
		b.WriteByte(':')
		b.Write(n.val)
	case 'F':
		for i := 0; i < 16; i++ {
			if n.ch[i] != nil {
				b.WriteString(hex.EncodeToString(n.ch[i]))
			}
			b.WriteByte(':')
		}
		b.Write(n.val)
	case 'E':
		b.Write(n.path)
		b.WriteByte(':')
		b.Write(n.ckey)
	}
	return b.Bytes()
}

func le64b(x uint64) []byte {
	var b [8]byte
	binary.LittleEndian.PutUint64(b[:], x)
	return b[:]
}

func (n *rnode) key() []byte {
	return sha3sum(append(le64b(n.origin), n.body()...))
}

func (n *rnode) encode() []byte {
	t := map[byte]byte{'L': 2, 'F': 4, 'E': 8}[n.kind]
	out := append([]byte{t}, le64b(n.version)...)
	out = append(out, le64b(n.origin)...)
	return append(out, n.body()...)
}

type rawStore map[string][]byte // key bytes (as string) -> stored bytes

func (s rawStore) clone() rawStore {
	o := rawStore{}
	for k, v := range s {
		o[k] = v
	}
	return o
}

// reachEntry is one node reachable from the root through present nodes.
type reachEntry struct {
	key    string
	n      *rnode
	pos    string // position (hex path from the root)
	parent int    // index of the parent in the walk, -1 for the root
}

// walkReach walks the store from root in pre-order (children in index order). absent = keys referenced by a
// present node (or the root itself) that the store does not hold, in walk order.
func walkReach(s rawStore, root []byte) (order []reachEntry, absent []string, err error) {
	var rec func(k []byte, pos string, parent int) error
	rec = func(k []byte, pos string, parent int) error {
		raw, ok := s[string(k)]
		if !ok {
			absent = append(absent, string(k))
			return nil
		}
		n, e := parseStored(raw)
		if e != nil {
			return fmt.Errorf("store entry %s: %v", hx(k), e)
		}
		me := len(order)
		order = append(order, reachEntry{string(k), n, pos, parent})
		switch n.kind {
		case 'F':
			for i := 0; i < 16; i++ {
				if n.ch[i] != nil {
					if e := rec(n.ch[i], pos+string("0123456789abcdef"[i]), me); e != nil {
						return e
					}
				}
			}
		case 'E':
			return rec(n.ckey, pos+string(n.path), me)
		}
		return nil
	}
	if len(root) == 0 {
		return nil, nil, nil
	}
	err = rec(root, "", -1)
	return
}

// recompute re-derives the trie bottom-up from the decoded store contents: every node's key is recomputed from its
// own fields and the RECOMPUTED keys of its children; returns the recomputed root key and the content.
func recompute(s rawStore, root []byte) ([]byte, map[string][]byte, error) {
	content := map[string][]byte{}
	var rec func(k []byte, pos string) ([]byte, error)
	rec = func(k []byte, pos string) ([]byte, error) {
		raw, ok := s[string(k)]
		if !ok {
			return nil, fmt.Errorf("node %s referenced at position %q is not in the store", hx(k), pos)
		}
		n, e := parseStored(raw)
		if e != nil {
			return nil, fmt.Errorf("store entry %s: %v", hx(k), e)
		}
		m := *n
		switch n.kind {
		case 'L':
			if string(n.prefix) != pos {
				return nil, fmt.Errorf("leaf %s at position %q carries prefix %q", hx(k), pos, n.prefix)
			}
			if n.val != nil {
				content[pos+string(n.path)] = n.val
			}
		case 'F':
			if n.val != nil {
				content[pos] = n.val
			}
			for i := 0; i < 16; i++ {
				if n.ch[i] != nil {
					h, e := rec(n.ch[i], pos+string("0123456789abcdef"[i]))
					if e != nil {
						return nil, e
					}
					m.ch[i] = h
				}
			}
		case 'E':
			h, e := rec(n.ckey, pos+string(n.path))
			if e != nil {
				return nil, e
			}
			m.ckey = h
		}
		return m.key(), nil
	}
	if len(root) == 0 {
		return nil, content, nil
	}
	h, err := rec(root, "")
	return h, content, err
}

// fmtStore prints the given entries as sorted "key=bytes" list ("-" when empty).
func fmtEntries(s rawStore, keys []string) string {
	ks := append([]string(nil), keys...)
	sort.Strings(ks)
	var sb strings.Builder
	for i, k := range ks {
		if i > 0 {
			sb.WriteByte(',')
		}
		sb.WriteString(hx([]byte(k)))
		sb.WriteByte('=')
		sb.WriteString(hxBig(s[k]))
	}
	if sb.Len() == 0 {
		return "-"
	}
	return sb.String()
}

// hxBig prints byte strings above 4 kB as "#<length>:<SHA3-256>" (both sides of the correspondence do), else as hex.
func hxBig(b []byte) string {
	if len(b) > 4096 {
		return fmt.Sprintf("#%d:%s", len(b), hx(sha3sum(b)))
	}
	return hx(b)
}

func fmtKeys(keys []string) string {
	ks := append([]string(nil), keys...)
	sort.Strings(ks)
	var out []string
	for i, k := range ks {
		if i > 0 && ks[i-1] == k {
			continue
		}
		out = append(out, hx([]byte(k)))
	}
	if len(out) == 0 {
		return "-"
	}
	return strings.Join(out, ",")
}

// checkNodeDB iterates a node store through the exported NodeDB.Iterate and applies the per-entry checks of C14:
// the key is the hash of the node (by the implementation's GetHashBytes AND by the independent format above),
// CreateNode(Encode(n)) has the same encoding and the same hash. Returns key -> Encode().
func checkNodeDB(tag string, db util.NodeDB, fail func(string, ...interface{})) rawStore {
	out := rawStore{}
	err := db.Iterate(context.Background(), func(_ context.Context, key util.Key, node util.Node) error {
		enc := node.Encode()
		if _, seen := out[string(key)]; !seen { // a layered store yields the upper level first: that is the entry GetNode reads
			out[string(key)] = append([]byte(nil), enc...)
		}
		checkEntry(tag, key, enc, node, fail)
		return nil
	})
	if err != nil {
		fail("%s: Iterate failed: %v", tag, err)
	}
	return out
}

func checkEntry(tag string, key []byte, enc []byte, node util.Node, fail func(string, ...interface{})) {
	if node != nil {
		if h := node.GetHashBytes(); !bytes.Equal(h, key) {
			fail("%s: node stored under key %s hashes to %s", tag, hx(key), hx(h))
		}
	}
	rn, err := parseStored(enc)
	if err != nil {
		fail("%s: entry %s = %s: %v", tag, hx(key), hx(enc), err)
		return
	}
	if k := rn.key(); !bytes.Equal(k, key) {
		fail("%s: entry %s: SHA3(LE64(origin) ++ body) of the stored bytes is %s", tag, hx(key), hx(k))
	}
	if !bytes.Equal(rn.encode(), enc) {
		fail("%s: entry %s: stored bytes are not in canonical form", tag, hx(key))
	}
	res := guard(func() string {
		n2, err := util.CreateNode(bytes.NewReader(enc))
		if err != nil {
			return "decode error: " + err.Error()
		}
		if e2 := n2.Encode(); !bytes.Equal(e2, enc) {
			return "re-encoding differs: " + hx(e2)
		}
		if h2 := n2.GetHashBytes(); !bytes.Equal(h2, key) {
			return "hash after the round trip is " + hx(h2)
		}
		return ""
	})
	if res != "" {
		fail("%s: entry %s = %s does not round-trip through CreateNode: %s", tag, hx(key), hx(enc), res)
	}
}
