package main

// Suite c10 — block proofs verify for the honest trie and cannot be forged.
//
// Honest part: `proof <b> <slot>` for every block of generated tries (in memory, committed at every collapse level,
// reloaded): the proof verifies on a fresh trie to (canonical root of the content, value of the block's owner).
//
// Tampering part: `tamper <slot> <b> <class> args…` rewrites the honest proof kept in <slot> structurally (decode the
// CBOR pairs, change one thing, encode again) and verifies it for block b. Oracle: verification may fail, or yield a
// different root, but must never yield (trusted root, v) with v different from the value of the true owner of b.
// Classes (p, q = pair index; i, j = child index):
//
//	reweight p i j d      claimed weight of child i += d, of child j -= d (sum unchanged)          [finding C10-forged-child-weights]
//	addempty p i j d      absent child i becomes (H(""), d), claimed weight of child j -= d         [same finding]
//	shortw p w            claimed child weight inside the short node p := w                         [same finding]
//	swapsib p i j         swap the child entries i and j of branch p
//	subst p s q           pair p := pair q of the proof in slot s (other position / other trie)
//	drop p | dup p | trunc n
//	flip p f k bit        flip one bit: f = h (hash field), v (value / short child entry), k (short key), w (value weight), c<i> (child entry i)
//	valw p w              weight of the value node p := w
//	kind p                pair p := a value node whose hash pre-image equals that of the branch / short node it replaces,
//	                      later pairs dropped                                                        [finding C10-node-kind-confusion]
//	none                  the honest proof, verified for block b

import (
	"bytes"
	"encoding/binary"
	"fmt"
	"math/rand"
	"sort"
	"strings"
	"time"

	"github.com/0chain/common/core/util/wmpt"
	"github.com/fxamacker/cbor/v2"
)

func decodeProofPairs(proof []byte) ([]*wmpt.PersistNodeBase, bool) {
	pt := &wmpt.PersistTrie{}
	if err := cbor.Unmarshal(proof, pt); err != nil {
		return nil, false
	}
	var ns []*wmpt.PersistNodeBase
	for _, p := range pt.Pairs {
		if p == nil {
			return nil, false
		}
		n := &wmpt.PersistNodeBase{}
		if err := cbor.Unmarshal(p.Value, n); err != nil {
			return nil, false
		}
		ns = append(ns, n)
	}
	return ns, true
}

func encodeProofPairs(ns []*wmpt.PersistNodeBase) []byte {
	pt := &wmpt.PersistTrie{}
	for _, n := range ns {
		b, err := cbor.Marshal(n)
		if err != nil {
			panic(err)
		}
		pt.Pairs = append(pt.Pairs, &wmpt.PersistTriePair{Value: b})
	}
	b, err := cbor.Marshal(pt)
	if err != nil {
		panic(err)
	}
	return b
}

func childWeight(c []byte) uint64 { return binary.BigEndian.Uint64(c[32:40]) }

func setChildWeight(c []byte, w uint64) []byte {
	r := append([]byte(nil), c...)
	binary.BigEndian.PutUint64(r[32:40], w)
	return r
}

// applyTamper returns the tampered pair list, or nil when the tamper does not apply to this proof ("skip").
// Selectors are taken modulo what is there, so that generated tampers nearly always apply: p modulo the number of
// pairs; for reweight/addempty/swapsib the child arguments are RANKS among the present (entry of >= 40 bytes) resp.
// absent (empty entry) children of branch p; flip offsets modulo the field length.
func (x *wrun) applyTamper(ns []*wmpt.PersistNodeBase, class string, a []string) []*wmpt.PersistNodeBase {
	arg := func(k int) int { return atoi(a[k]) }
	if class == "none" {
		return ns
	}
	if len(ns) == 0 {
		return nil
	}
	if class == "trunc" {
		return ns[:arg(0)%(len(ns)+1)]
	}
	p := arg(0) % len(ns)
	n := ns[p]
	var pres, abs []int
	if n.Branch != nil {
		for k, c := range n.Branch.Children {
			if len(c) >= 40 {
				pres = append(pres, k)
			} else if len(c) == 0 {
				abs = append(abs, k)
			}
		}
	}
	switch class {
	case "reweight", "addempty":
		d := uint64(arg(3))
		if n.Branch == nil || len(pres) == 0 {
			return nil
		}
		ch := n.Branch.Children
		j := pres[arg(2)%len(pres)]
		var i int
		if class == "reweight" {
			if len(pres) < 2 {
				return nil
			}
			i = pres[arg(1)%len(pres)]
			if i == j {
				j = pres[(arg(2)+1)%len(pres)]
			}
		} else {
			if len(abs) == 0 {
				return nil
			}
			i = abs[arg(1)%len(abs)]
		}
		if childWeight(ch[j]) < d {
			return nil
		}
		if class == "reweight" {
			ch[i] = setChildWeight(ch[i], childWeight(ch[i])+d)
		} else {
			ch[i] = append(append([]byte(nil), emptyHashW...), be64(d)...)
		}
		ch[j] = setChildWeight(ch[j], childWeight(ch[j])-d)
		return ns
	case "shortw":
		if n.Short == nil || len(n.Short.Value) != 40 {
			return nil
		}
		n.Short.Value = setChildWeight(n.Short.Value, uint64(arg(1)))
		return ns
	case "valw":
		if n.Value == nil {
			return nil
		}
		n.Value.Weight = uint64(arg(1))
		return ns
	case "swapsib":
		if n.Branch == nil || len(pres) == 0 {
			return nil
		}
		ch := n.Branch.Children
		i, j := pres[arg(1)%len(pres)], arg(2)%16
		if j >= len(ch) || i == j {
			return nil
		}
		ch[i], ch[j] = ch[j], ch[i]
		return ns
	case "subst":
		other, ok := x.slots[arg(1)]
		if !ok {
			return nil
		}
		os, ok := decodeProofPairs(other.proof)
		if !ok || len(os) == 0 {
			return nil
		}
		ns[p] = os[arg(2)%len(os)]
		return ns
	case "append":
		// an element of the proof in another slot (arg 2 from its END: 0 = its leaf) appended after the whole proof
		other, ok := x.slots[arg(1)]
		if !ok {
			return nil
		}
		os, ok := decodeProofPairs(other.proof)
		if !ok || len(os) == 0 {
			return nil
		}
		return append(append([]*wmpt.PersistNodeBase(nil), ns...), os[len(os)-1-arg(2)%len(os)])
	case "drop":
		return append(ns[:p:p], ns[p+1:]...)
	case "dup":
		r := append([]*wmpt.PersistNodeBase(nil), ns[:p+1]...)
		return append(r, ns[p:]...)
	case "flip":
		fld, k, bit := a[1], arg(2), uint(arg(3))%8
		var tgt *[]byte
		switch {
		case n.Branch != nil && fld == "h":
			tgt = &n.Branch.Hash
		case n.Branch != nil && strings.HasPrefix(fld, "c"):
			if len(pres) == 0 {
				return nil
			}
			tgt = &n.Branch.Children[pres[atoi(fld[1:])%len(pres)]]
		case n.Value != nil && fld == "h":
			tgt = &n.Value.Hash
		case n.Value != nil && fld == "v":
			tgt = &n.Value.Value
		case n.Value != nil && fld == "w":
			n.Value.Weight ^= 1 << (uint(k%8)*8 + bit)
			return ns
		case n.Short != nil && fld == "h":
			tgt = &n.Short.Hash
		case n.Short != nil && fld == "v":
			tgt = &n.Short.Value
		case n.Short != nil && fld == "k":
			tgt = &n.Short.Key
		default:
			return nil
		}
		if len(*tgt) == 0 {
			return nil
		}
		b := append([]byte(nil), (*tgt)...)
		b[k%len(b)] ^= 1 << bit
		*tgt = b
		return ns
	case "kind":
		switch {
		case n.Branch != nil:
			var total uint64
			var body []byte
			for _, c := range n.Branch.Children {
				if len(c) >= 40 {
					total += childWeight(c)
					body = append(body, c[:32]...)
				} else {
					body = append(body, emptyHashW...)
				}
			}
			for k := len(n.Branch.Children); k < 16; k++ {
				body = append(body, emptyHashW...)
			}
			ns[p] = &wmpt.PersistNodeBase{Value: &wmpt.PersistNodeValue{Value: body, Hash: n.Branch.Hash, Weight: total}}
		case n.Short != nil && len(n.Short.Key) >= 8 && len(n.Short.Value) == 40:
			w := binary.BigEndian.Uint64(n.Short.Key[:8])
			val := append(append([]byte(nil), n.Short.Key[8:]...), n.Short.Value[:32]...)
			ns[p] = &wmpt.PersistNodeBase{Value: &wmpt.PersistNodeValue{Value: val, Hash: n.Short.Hash, Weight: w}}
		default:
			return nil
		}
		return ns[:p+1]
	}
	panic("unknown tamper class " + class)
}

func (x *wrun) opTamper(i int, f []string) string {
	slot, b, class := atoi(f[1]), u64(f[2]), f[3]
	s, ok := x.slots[slot]
	if !ok {
		return "skip"
	}
	ns, ok := decodeProofPairs(s.proof)
	if !ok {
		return "skip"
	}
	ns = x.applyTamper(ns, class, f[4:])
	if ns == nil {
		return "skip"
	}
	proof := encodeProofPairs(ns)
	var h, v []byte
	out := guard(func() string {
		var err error
		h, v, err = wmpt.New(nil, nil).VerifyBlockProof(b, proof)
		if err != nil {
			return "err"
		}
		return fmt.Sprintf("ok %x %s", h, hxOrDash(v))
	})
	x.tags["tamper:"+class] = true
	if out == "panic" {
		x.failIn("", i, "verification of a tampered proof panicked")
		return out
	}
	if b >= 1 && strings.HasPrefix(out, "ok") && bytes.Equal(h, s.root) { // (block 0 is outside the domain 1..total: any answer)
		x.tags["tamper-accepted:"+class] = true
		owner, inRange := s.content.owner(b)
		if !inRange || !bytes.Equal(v, s.content[owner].val) {
			// the matchers are the findings' fingerprints, not the tamper classes: a block in range, and
			//   forged child weights: the value returned is the one of the proof's OWN leaf (the re-weighted path leads there
			//                         although the block belongs to a neighbour);
			//   node-kind confusion:  the value returned is the crafted blob (the hash pre-image of the replaced node; its weight
			//                         field is attacker-chosen key bytes, so the block need not be in the trie's range).
			// Any other value — and, for re-weighting, an out-of-range block — is a failure of its own.
			cover := ""
			switch class {
			case "reweight", "addempty", "shortw":
				if leaf, ok := s.content.owner(s.block); ok && inRange && bytes.Equal(v, s.content[leaf].val) {
					cover = findC10W
				}
			case "kind":
				if last := ns[len(ns)-1]; last.Value != nil && bytes.Equal(v, last.Value.Value) {
					cover = findC10K
				}
			}
			want := "no owner (block out of range)"
			if inRange {
				want = fmt.Sprintf("value %x of owner %x", s.content[owner].val, owner)
			}
			x.failIn(cover, i, "forged proof accepted: verification for block %d yields the trusted root %x with value %s; the block has %s", b, h, hxOrDash(v), want)
		}
	}
	return out
}

func hxOrDash(b []byte) string {
	if len(b) == 0 {
		return "-"
	}
	return hx(b)
}

// ---- generator ------------------------------------------------------------------------------------------

// genWmptBuild emits ops that build a trie of n keys (returns ops, key pool, content model of the generator)
func genWmptBuild(r *rand.Rand, nkeys int, shared bool, withCommits bool) ([]string, []string, map[string][]byte) {
	pool := wkeyPool(r, nkeys)
	content := map[string][]byte{}
	var ops []string
	for k, key := range pool {
		v := wgenValue(r, k, shared)
		ops = append(ops, fmt.Sprintf("upd %x %x %d", key, v, wvalWeight(v)))
		content[key] = v
		if withCommits && r.Intn(6) == 0 {
			ops = append(ops, fmt.Sprintf("commit %d", r.Intn(7)-1))
		}
	}
	// a few deletes and overwrites so that reductions / merges shape the trie
	for k := 0; k < nkeys/3; k++ {
		idx := r.Intn(len(pool))
		key := pool[idx]
		if _, ok := content[key]; ok && r.Intn(2) == 0 && len(content) > 1 {
			ops = append(ops, fmt.Sprintf("updel %x", key))
			delete(content, key)
		} else {
			v := wgenValue(r, idx, shared)
			ops = append(ops, fmt.Sprintf("upd %x %x %d", key, v, wvalWeight(v)))
			content[key] = v
		}
	}
	return ops, pool, content
}

func genTotal(content map[string][]byte) int {
	t := 0
	for _, v := range content {
		t += int(wvalWeight(v))
	}
	return t
}

// genC10Comb: the longest possible proof paths (wcombPool): honest proofs of the blocks of key 0 (65 / 64 / … elements),
// of its deepest siblings and of a few others must verify; then some tampering of the long proof.
func genC10Comb(r *rand.Rand, tier string, idx int) []string {
	depth := 60 + r.Intn(4)
	if r.Intn(3) == 0 {
		depth = 63
	}
	pool := wcombPool(r, depth)
	content := map[string][]byte{}
	var ops []string
	order := r.Perm(len(pool))
	for _, k := range order {
		v := wgenValue(r, k, false)
		ops = append(ops, fmt.Sprintf("upd %x %x %d", pool[k], v, wvalWeight(v)))
		content[pool[k]] = v
	}
	switch idx % 3 {
	case 1:
		ops = append(ops, fmt.Sprintf("commit %d", r.Intn(7)-1))
	case 2:
		ops = append(ops, fmt.Sprintf("commit %d", r.Intn(7)-1), "reload")
	}
	// first block of a key in the generator's view
	first := func(key string) int {
		keys := make([]string, 0, len(content))
		for k := range content {
			keys = append(keys, k)
		}
		sort.Strings(keys)
		cum := 0
		for _, k := range keys {
			if k == key {
				return cum + 1
			}
			cum += int(wvalWeight(content[k]))
		}
		return 1
	}
	total := genTotal(content)
	b0 := first(pool[0])
	ops = append(ops, fmt.Sprintf("proof %d 0", b0))
	ops = append(ops, fmt.Sprintf("proof %d 1", first(pool[len(pool)-1]))) // the deepest sibling: same length
	ops = append(ops, fmt.Sprintf("proof %d 1", first(pool[1+r.Intn(len(pool)-1)])))
	ops = append(ops, fmt.Sprintf("proof %d 1", total+1))
	for k := 0; k < 3; k++ { // (the model re-hashes the whole path at every level: long proofs are expensive there)
		p := []int{0, 1, 30 + r.Intn(30), depth, depth + 1}[r.Intn(5)]
		var t string
		switch r.Intn(5) {
		case 0:
			t = fmt.Sprintf("reweight %d %d %d 1", p, r.Intn(16), r.Intn(16))
		case 1:
			t = fmt.Sprintf("drop %d", p)
		case 2:
			t = fmt.Sprintf("dup %d", p)
		case 3:
			t = fmt.Sprintf("flip %d h %d %d", p, r.Intn(32), r.Intn(8))
		default:
			t = fmt.Sprintf("kind %d", p)
		}
		ops = append(ops, fmt.Sprintf("tamper 0 %d %s", b0, t))
	}
	return ops
}

func genC10(r *rand.Rand, tier string, idx int) []string {
	if idx%150 == 7 {
		return genC10Comb(r, tier, idx)
	}
	nkeys := 1 + r.Intn(9)
	if idx%11 == 0 {
		nkeys = 1 + r.Intn(2)
	}
	ops, _, content := genWmptBuild(r, nkeys, false, idx%3 == 0)
	switch idx % 4 {
	case 1:
		ops = append(ops, fmt.Sprintf("commit %d", r.Intn(7)-1))
	case 2:
		ops = append(ops, fmt.Sprintf("commit %d", r.Intn(7)-1), "reload")
	}
	total := genTotal(content)
	if total == 0 {
		return append(ops, "proof 1 0")
	}
	if idx%5 == 0 {
		// honest proofs of every block
		for b := 1; b <= total; b++ {
			ops = append(ops, fmt.Sprintf("proof %d 0", b))
		}
		ops = append(ops, fmt.Sprintf("proof %d 0", total+1))
		return ops
	}
	b0 := 1 + r.Intn(total)
	ops = append(ops, fmt.Sprintf("proof %d 0", b0))
	b1 := 1 + r.Intn(total)
	ops = append(ops, fmt.Sprintf("proof %d 1", b1))
	// the HONEST proofs verified for other blocks (class `none`, outside every finding): the neighbours of their own block,
	// block 0, the last block and the first beyond the total — must be rejected or yield that block's real owner
	for slot, own := range []int{b0, b1} {
		for _, b := range []int{own - 1, own + 1, own + 2, 0, 1, total, total + 1} {
			if b >= 0 {
				ops = append(ops, fmt.Sprintf("tamper %d %d none", slot, b))
			}
		}
	}
	nt := 6 + r.Intn(10)
	for k := 0; k < nt; k++ {
		slot := r.Intn(2)
		b := 1 + r.Intn(total+1)
		if r.Intn(3) == 0 {
			b = []int{b0, b1}[slot]
		}
		p := r.Intn(4)
		var t string
		switch r.Intn(14) {
		case 13:
			t = fmt.Sprintf("append %d %d %d", p, 1-slot, r.Intn(3)/2) // mostly the other proof's leaf
		case 0, 1:
			t = fmt.Sprintf("reweight %d %d %d %d", p, r.Intn(16), r.Intn(16), 1+r.Intn(4))
		case 2:
			t = fmt.Sprintf("addempty %d %d %d %d", p, r.Intn(16), r.Intn(16), 1+r.Intn(4))
		case 3:
			t = fmt.Sprintf("shortw %d %d", p, r.Intn(8))
		case 4:
			t = fmt.Sprintf("swapsib %d %d %d", p, r.Intn(16), r.Intn(16))
		case 5:
			t = fmt.Sprintf("subst %d %d %d", p, r.Intn(2), r.Intn(4))
		case 6:
			t = fmt.Sprintf("drop %d", p)
		case 7:
			t = fmt.Sprintf("dup %d", p)
		case 8:
			t = fmt.Sprintf("trunc %d", r.Intn(4))
		case 9, 10:
			flds := []string{"h", "v", "k", "w", fmt.Sprintf("c%d", r.Intn(16))}
			t = fmt.Sprintf("flip %d %s %d %d", p, flds[r.Intn(len(flds))], r.Intn(44), r.Intn(8))
		case 11:
			t = fmt.Sprintf("valw %d %d", p, r.Intn(6))
		default:
			t = fmt.Sprintf("kind %d", p)
		}
		ops = append(ops, fmt.Sprintf("tamper %d %d %s", slot, b, t))
	}
	// directed re-weighting: try every pair of children of the first pairs with the neighbouring block
	if idx%2 == 0 {
		for p := 0; p < 2; p++ {
			i, j := r.Intn(16), r.Intn(16)
			ops = append(ops, fmt.Sprintf("tamper 0 %d reweight %d %d %d 1", max(1, b0-1), p, i, j))
			ops = append(ops, fmt.Sprintf("tamper 0 %d reweight %d %d %d 1", min(total, b0+1), p, j, i))
		}
	}
	return ops
}

func init() {
	register(&Suite{
		Name:        "c10",
		Rule:        "tries of 1..9 keys (every 150th case: comb-shaped tries of 62..65 keys in which one key has a sibling at every nibble depth 0..60/61/62/63 — the longest proof paths, up to 65 elements; 32-byte keys with shared prefixes of every length, weights 1..4 determined by the value; in memory, committed at collapse levels -1..5, reloaded); honest proofs of every block, the kept honest proofs verified for the neighbouring blocks / block 0 / the last block / the first beyond the total, then structured tampering of two kept proofs (re-weighting with constant sum, empty-hash child, sibling swap, substitution from other positions/proofs, an element of the other proof (its leaf) appended after the proof, drop/duplicate/truncate, bit flips in every field, node-kind substitution); non-trivial = at least 2 mutations and one verified honest proof",
		Gen:         genC10,
		Run:         runWmpt,
		CaseTimeout: 3 * time.Minute, // a stalled machine must not look like a hang; a real hang still fails the case
		DefaultN: func(tier string) int {
			if tier == "thorough" {
				return 60000
			}
			return 1500
		},
	})
}
