package main

// Shared interpreter and oracle for the state-cache suites c06, c07, c08 (core/statecache).
//
// Op language (one op per line; every op prints exactly one output line):
//
//	blk  <bid> <hash> <prev>     NewBlockCache(sc, Block{Hash, PrevHash}); "-" is the empty hash         -> ok
//	bhash <bid> <hash>           BlockCache.SetBlockHash                                                 -> ok
//	txn  <tid> <bid>             NewTransactionCache(block cache bid)                                    -> ok
//	qtxn <tid> <hash>            NewTransactionCache(NewQueryBlockCache(sc, hash))                       -> ok
//	tset <tid> <key> <val>       TransactionCache.Set                                                    -> ok
//	trem <tid> <key>             TransactionCache.Remove                                                 -> ok
//	tget <tid> <key>             TransactionCache.Get                                                    -> hit <val> | miss
//	tcommit <tid>                TransactionCache.Commit                                                 -> ok | panic
//	bset <bid> <key> <val>       BlockCache.Set                                                          -> ok
//	bget <bid> <key>             BlockCache.Get                                                          -> hit <val> | miss
//	bcommit <bid>                BlockCache.Commit                                                       -> ok
//	qget <hash> <key>            NewQueryBlockCache(sc, hash).Get(key)                                   -> hit <val> | miss
//	sget <key> <hash>            StateCache.Get(key, hash)                                               -> hit <val> | miss
//	srem <key>                   StateCache.Remove(key): drops the key's whole version map                -> ok
//	chain <n> <pfx> <prev> <key|-> <val>   n block caches <pfx>1..<pfx>n, each the child of the previous one (the first
//	                             of <prev>), created and committed in order; the first writes key=val if key != "-"  -> ok
//	fan <n> <pfx> <prev> <key> <valpfx>    n sibling block caches <pfx>i with parent prev, each writes key=<valpfx><i-hex>
//	                             and commits                                                                        -> ok
//
// Values are lower-case hex tokens. In "node" mode (suite c07, first op `mode node`) a value token is the hex of a
// trie-node encoding and the Go value is the real util node (Clone = encode/decode).
//
// Oracle (independent of the code under test): the harness keeps its own record of the committed block tree
// T (hash -> parent, writes; the first effective commit of a hash wins) and of the pending writes of every block /
// transaction cache. The expected answer of a lookup is the first entry for the key in: the context's own pending
// writes (transaction, then its block), then the chain hash, parent(hash), ... through T where a block that is not in
// T ends the chain; for a block cache the chain starts at its parent while the block is being built and at the block
// itself once this block cache's Commit has taken effect (its own committed writes are on its chain; fixed defect
// corpus/C06/fixed_blockcache_after_commit.ops). A second, never effective block cache for an already committed hash
// keeps the parent's view (one hash names one block: assumption).
// C06: a hit must carry exactly that value (hit on a tombstone or on "nothing" is a failure); misses are allowed.

import (
	"bytes"
	"fmt"
	"os"
	"path/filepath"
	"sort"
	"strconv"
	"strings"
	"sync/atomic"

	"github.com/0chain/common/core/statecache"
	"github.com/0chain/common/core/util"
)

// The capacities of the tree under test: lru.New(n) of the per-key version maps in StateCache.commit, and maxHisDepth /
// the hashCache capacity in NewStateCache. They are not exported by the package; the harness reads them from the table
// go/extract/scfacts regenerates before every run (lean/Verif/Gen/StateCacheFacts.lean, relative to the working directory
// bin/check starts the harness in, or $VERIF_SC_FACTS), so that the oracle, the finding matchers and the boundary
// generators follow a change of the constants like the model driver does. Defaults: the values of /repo HEAD.
var (
	scCapPerKey = 200
	scMaxDepth  = 2000
)

func init() {
	path := os.Getenv("VERIF_SC_FACTS")
	if path == "" {
		path = filepath.Join("lean", "Verif", "Gen", "StateCacheFacts.lean")
	}
	data, err := os.ReadFile(path)
	if err != nil {
		return
	}
	for _, line := range strings.Split(string(data), "\n") {
		var name string
		var v int
		if n, _ := fmt.Sscanf(line, "def %s : Nat := %d", &name, &v); n == 2 && v > 0 {
			switch name {
			case "capPerKey":
				scCapPerKey = v
			case "maxHisDepth":
				scMaxDepth = v
			}
		}
	}
}

// ---- value types ------------------------------------------------------------------------------------------

// bval is a mutable byte-slice value with identity; Clone is a deep copy.
type bval struct{ b []byte }

// bvalOnClone, when set, observes every Clone of a bval (suite c08 uses it to learn the order in which commit()
// visits a block's keys).
var bvalOnClone atomic.Pointer[func(v *bval)]

func (v *bval) Clone() statecache.Value {
	if f := bvalOnClone.Load(); f != nil {
		(*f)(v)
	}
	return &bval{b: append([]byte(nil), v.b...)}
}
func (v *bval) CopyFrom(o interface{}) bool {
	if ov, ok := o.(*bval); ok {
		v.b = append([]byte(nil), ov.b...)
		return true
	}
	return false
}

func scMkValue(tok string, node bool) statecache.Value {
	b := unhx(tok)
	if !node {
		return &bval{b: b}
	}
	n, err := util.CreateNode(bytes.NewBuffer(b))
	if err != nil {
		panic("bad node token " + tok + ": " + err.Error())
	}
	if hx(n.Encode()) != tok {
		panic("node token is not canonical: " + tok)
	}
	return n
}

func scValTok(v statecache.Value) string {
	switch x := v.(type) {
	case *bval:
		if len(x.b) == 0 {
			return "-"
		}
		return hx(x.b)
	case util.Node:
		return hx(x.Encode())
	case nil:
		return "nil"
	}
	return fmt.Sprintf("unknown-%T", v)
}

// scScribble mutates a value in place through every mutable part it exposes.
func scScribble(v statecache.Value) {
	fl := func(b []byte) {
		for i := range b {
			b[i] ^= 0x5a
		}
	}
	switch x := v.(type) {
	case *bval:
		fl(x.b)
		x.b = append(x.b, 0xee)
	case *util.LeafNode:
		fl(x.Path)
		fl(x.Prefix)
		if x.Value != nil {
			if sv, ok := x.Value.Value.(*util.SecureSerializableValue); ok {
				fl(sv.Buffer)
			}
		}
		x.SetOrigin(x.GetOrigin() + 77)
	case *util.FullNode:
		for i := range x.Children {
			fl(x.Children[i])
		}
		if x.Value != nil {
			if sv, ok := x.Value.Value.(*util.SecureSerializableValue); ok {
				fl(sv.Buffer)
			}
		}
		x.SetOrigin(x.GetOrigin() + 77)
	case *util.ExtensionNode:
		fl(x.Path)
		fl(x.NodeKey)
		x.SetOrigin(x.GetOrigin() + 77)
	case *util.ValueNode:
		if sv, ok := x.Value.(*util.SecureSerializableValue); ok {
			fl(sv.Buffer)
		}
	}
}

// ---- world --------------------------------------------------------------------------------------------------

type scEntry struct {
	val  string
	tomb bool
}

type scBlock struct {
	prev   string
	writes map[string]scEntry
}

type scBH struct {
	bc        *statecache.BlockCache
	hash      string
	prev      string
	pending   map[string]scEntry
	effective bool // this handle's Commit took effect (its pending writes became T[hash])
	private   bool // lives on a state cache of its own (NewEmpty, fblk): oracle hashes carry a unique prefix, so nothing
	// of it is ever on a chain of the case's shared state cache, and nothing of the shared one on its chain
}

type scLateDup struct {
	hash   string
	at     int
	writes map[string]scEntry
}

type scTH struct {
	tc      *statecache.TransactionCache
	bid     string // block-cache handle, or "" for a query transaction
	qhash   string
	pending map[string]scEntry
}

type scWorld struct {
	sc      *statecache.StateCache
	T       map[string]*scBlock
	commits int
	bh      map[string]*scBH
	th      map[string]*scTH
	// entryBlocks[key] = blocks that may have received an entry in the key's version map: own committed writes
	// plus every block a state-level lookup for the key was issued at (memo candidates)
	entryBlocks map[string]map[string]bool
	removed     map[string]bool // keys whose version map was dropped by StateCache.Remove
	outOfOrder  bool            // some block was committed after one of its children
	commitSeq   map[string]int  // hash -> number of commits that had taken effect when it was committed
	lateDup     bool            // a block was committed again when at least maxHisDepth other commits had followed its first
	                            // commit (its link may have been evicted, so the second commit may take effect)
	node        bool // value tokens are trie-node encodings
	mutate      bool // scribble over every value handed in or out (C07)
	strict      bool // C07 publish: a miss where a value is expected is a failure while no capacity is exceeded
	handed      []statecache.Value

	res  *CaseResult
	tags map[string]bool
	// event log for the fingerprints of the open C06 findings (per key, per chain — never case-global)
	clock    int
	commitAt map[string]int            // hash -> time of the first effective commit
	sremAt   map[string][]int          // key -> times of StateCache.Remove(key)
	entryIdx map[string]map[string]int // key -> block -> creation number of the entry in the key's version map (since the last Remove)
	entrySeq map[string]int            // key -> entries created in the key's version map since the last Remove
	lateDups []scLateDup               // second commits of a hash after its link may have been evicted
	schedErr string // suite c08: the scheduler could not drive the schedule of this run (wait timed out)
	opi  int
	op   string
	// statistics for the non-triviality rules
	ancestorHits int // hits answered by a proper ancestor
	layerHits    int
	mutations    int
}

func newSCWorld(res *CaseResult) *scWorld {
	return &scWorld{sc: statecache.NewStateCache(), T: map[string]*scBlock{}, bh: map[string]*scBH{}, th: map[string]*scTH{},
		entryBlocks: map[string]map[string]bool{}, removed: map[string]bool{}, commitSeq: map[string]int{}, res: res, tags: map[string]bool{}}
}

func hashOf(tok string) string {
	if tok == "-" {
		return ""
	}
	return tok
}

func (w *scWorld) fail(f string, a ...interface{}) {
	w.res.Fails = append(w.res.Fails, fmt.Sprintf("op %d (%s): ", w.opi, w.op)+fmt.Sprintf(f, a...))
}

func (w *scWorld) noteEntry(key, blk string) {
	m := w.entryBlocks[key]
	if m == nil {
		m = map[string]bool{}
		w.entryBlocks[key] = m
	}
	m[blk] = true
}

func (w *scWorld) tick() int { w.clock++; return w.clock }

// noteCreated records that the implementation has created an entry for (key, blk) in the key's version map: the commit
// of a block that wrote the key, or a state-level lookup at blk that HIT (the answer is memoised at the queried block)
func (w *scWorld) noteCreated(key, blk string) {
	if w.entryIdx == nil {
		w.entryIdx, w.entrySeq = map[string]map[string]int{}, map[string]int{}
	}
	m := w.entryIdx[key]
	if m == nil {
		m = map[string]int{}
		w.entryIdx[key] = m
	}
	if _, ok := m[blk]; !ok {
		w.entrySeq[key]++
		m[blk] = w.entrySeq[key]
	}
}

// fingerprint decides whether a WRONG HIT `val` of a state-level lookup of key at block blk is one of the open C06
// findings. All three predict the same shape — the entry of the expected writer W (first writer of the key on the chain
// of blk) is gone and the lookup walks on to a PROPER ANCESTOR A of W on that chain and returns A's write — and differ in
// how W's entry got lost:
//   - capacity: at least capPerKey-1 entries were created in the key's version map after W's own entry (lookups that
//     missed create none; entries older than W's cannot evict it);
//   - remove-out-of-order: a Remove(key) happened after W's commit and before A's commit (A re-created the map);
//   - recommit-after-remove: a Remove(key) after W's commit, and after it a second, late commit of A's hash.
// Anything else — a sibling's, a descendant's, another key's value, a value from nowhere — is judged normally.
func (w *scWorld) fingerprint(key, blk, val string) string {
	var path []string
	seen := map[string]bool{}
	for cur := blk; ; {
		b, ok := w.T[cur]
		if !ok || seen[cur] {
			break
		}
		seen[cur] = true
		path = append(path, cur)
		cur = b.prev
	}
	wi := -1
	for i, h := range path {
		if _, ok := w.T[h].writes[key]; ok {
			wi = i
			break
		}
	}
	if wi < 0 {
		return ""
	}
	W := path[wi]
	cW := w.commitAt[W]
	for _, A := range path[wi+1:] {
		e, ok := w.T[A].writes[key]
		own := ok && !e.tomb && e.val == val
		if own {
			if idx, ok := w.entryIdx[key][W]; ok && w.entrySeq[key]-idx >= scCapPerKey-1 {
				return findingEviction
			}
			for _, s := range w.sremAt[key] {
				if cW < s && s < w.commitAt[A] {
					return findingRemove
				}
			}
		}
		for _, d := range w.lateDups {
			if d.hash != A {
				continue
			}
			de, dok := d.writes[key]
			if !own && !(dok && !de.tomb && de.val == val) {
				continue
			}
			for _, s := range w.sremAt[key] {
				if cW < s && s < d.at {
					return findingRecommit
				}
			}
		}
	}
	return ""
}

// chain returns the oracle answer for key at block hash: (entry, found, distance).
func (w *scWorld) chain(key, hash string) (scEntry, bool, int) {
	cur := hash
	seen := map[string]bool{}
	for d := 0; ; d++ {
		b, ok := w.T[cur]
		if !ok || seen[cur] {
			return scEntry{}, false, d
		}
		seen[cur] = true
		if e, ok := b.writes[key]; ok {
			return e, true, d
		}
		cur = b.prev
	}
}

// expectation of a lookup: which entry the property demands, and where it comes from
type scExpect struct {
	e     scEntry
	found bool
	src   string // "txn", "blk", "own-committed", "chain"
	dist  int
}

func (w *scWorld) expectState(key, hash string) scExpect {
	e, ok, d := w.chain(key, hash)
	return scExpect{e: e, found: ok, src: "chain", dist: d}
}

func (w *scWorld) expectBlock(b *scBH, key string) scExpect {
	if e, ok := b.pending[key]; ok {
		return scExpect{e: e, found: true, src: "blk"}
	}
	if b.effective {
		// this block cache has been committed: the block's own committed writes are on the context's chain
		x := w.expectState(key, b.hash)
		if x.src == "chain" && x.dist == 0 {
			x.src = "own-committed"
		}
		return x
	}
	x := w.expectState(key, b.prev)
	x.dist++
	return x
}

// base is the block at which the block cache's fallback lookup is issued
func (b *scBH) base() string {
	if b.effective {
		return b.hash
	}
	return b.prev
}

func (w *scWorld) expectTxn(t *scTH, key string) scExpect {
	if e, ok := t.pending[key]; ok {
		return scExpect{e: e, found: true, src: "txn"}
	}
	if t.bid == "" {
		return w.expectState(key, t.qhash)
	}
	return w.expectBlock(w.bh[t.bid], key)
}

// withinCapacity: no LRU of the state cache can have evicted anything so far
func (w *scWorld) withinCapacity(key string) bool {
	return len(w.entryBlocks[key]) <= scCapPerKey && w.commits <= scMaxDepth
}

const (
	findingEviction = "C06-capacity-eviction"
	findingRemove   = "C06-remove-out-of-order"
	findingRecommit = "C06-recommit-after-remove"
)

// judge compares a lookup result with the expectation.
func (w *scWorld) judge(out string, x scExpect, key, stateBlk string, throughState bool) {
	if throughState {
		w.noteEntry(key, stateBlk)
	}
	want := "miss"
	if x.found && !x.e.tomb {
		want = "hit " + x.e.val
	}
	if strings.HasPrefix(out, "hit") {
		if out != want {
			what := "nothing (no entry on the chain)"
			if x.found && x.e.tomb {
				what = "a removal"
			} else if x.found {
				what = "value " + x.e.val + " (from " + x.src + ")"
			}
			w.fail("lookup returned %q but the block tree determines %s", out, what)
			// narrow matchers of the open known findings: the fingerprint of each, value included
			id := ""
			if throughState {
				id = w.fingerprint(key, stateBlk, out[len("hit "):])
			}
			w.setFinding(id)
			if throughState {
				w.noteCreated(key, stateBlk)
			}
		} else {
			if throughState && x.src != "blk" && x.src != "txn" {
				w.noteCreated(key, stateBlk) // memoised at the queried block (or its own entry, already there)
			}
			if x.src == "chain" && x.dist > 0 {
				w.ancestorHits++
			}
			if x.src != "chain" {
				w.layerHits++
			}
			w.tags["hit:"+x.src] = true
			if x.dist > 0 {
				w.tags["hit:ancestor"] = true
			}
		}
		return
	}
	if out == "miss" {
		switch {
		case want == "miss" && x.found:
			w.tags["miss:removed"] = true
		case want == "miss":
			w.tags["miss:nothing"] = true
		default:
			w.tags["miss:avoidable"] = true
			if w.strict && w.withinCapacity(key) && x.dist <= scMaxDepth && !w.removed[key] {
				w.fail("lookup missed but %s holds value %s and no capacity was exceeded", x.src, x.e.val)
				w.setFinding("")
			}
		}
		return
	}
	w.fail("lookup returned %q", out)
	w.setFinding("")
}

// setFinding records the finding id of the first failure only; a later failure of a different kind clears it so
// that a case is suppressed only when every failure in it is accepted by the same narrow matcher.
func (w *scWorld) setFinding(id string) {
	if len(w.res.Fails) == 1 {
		w.res.Finding = id
	} else if w.res.Finding != id {
		w.res.Finding = ""
	}
}

func (w *scWorld) outGet(v statecache.Value, ok bool) string {
	if !ok {
		return "miss"
	}
	out := "hit " + scValTok(v)
	if w.mutate {
		scScribble(v)
		w.handed = append(w.handed, v)
	}
	return out
}

func (w *scWorld) newBlock(bid, hash, prev string) *scBH {
	b := &scBH{bc: statecache.NewBlockCache(w.sc, statecache.Block{Hash: hash, PrevHash: prev}), hash: hash, prev: prev, pending: map[string]scEntry{}}
	w.bh[bid] = b
	return b
}

func (w *scWorld) commitBlock(b *scBH) {
	b.bc.Commit()
	w.recordCommit(b)
}

// recordCommit updates the oracle's tree for a Commit call on b that has been issued (first effective commit wins).
func (w *scWorld) recordCommit(b *scBH) {
	if _, dup := w.T[b.hash]; dup {
		w.tags["commit:duplicate"] = true
		if w.commits-w.commitSeq[b.hash] >= scMaxDepth {
			w.lateDup = true
			w.tags["commit:duplicate-after-link-loss"] = true
			cp := map[string]scEntry{}
			for k, e := range b.pending {
				cp[k] = e
			}
			w.lateDups = append(w.lateDups, scLateDup{hash: b.hash, at: w.tick(), writes: cp})
		}
		return
	}
	if w.commitAt == nil {
		w.commitAt = map[string]int{}
	}
	w.commitAt[b.hash] = w.tick()
	w.commitSeq[b.hash] = w.commits
	for _, x := range w.T {
		if x.prev == b.hash && b.hash != "" {
			w.outOfOrder = true // a child of this block is already committed
			w.tags["commit:out-of-order"] = true
		}
	}
	blk := &scBlock{prev: b.prev, writes: b.pending}
	w.T[b.hash] = blk
	for k := range blk.writes {
		w.noteEntry(k, b.hash)
		w.noteCreated(k, b.hash)
	}
	b.pending = map[string]scEntry{}
	b.effective = true
	w.commits++
	w.mutations++
}

// step executes one op on the real code and the oracle; returns the output line.
func (w *scWorld) step(i int, op string) string {
	w.opi, w.op = i, op
	f := strings.Fields(op)
	bad := func() string { panic("malformed op: " + op) }
	need := func(n int) {
		if len(f) != n {
			bad()
		}
	}
	getB := func(id string) *scBH {
		b := w.bh[id]
		if b == nil {
			panic("unknown block cache handle in op: " + op)
		}
		return b
	}
	getT := func(id string) *scTH {
		t := w.th[id]
		if t == nil {
			panic("unknown transaction cache handle in op: " + op)
		}
		return t
	}
	// the key token "-" stands for the empty key
	if len(f) > 2 {
		switch f[0] {
		case "tset", "trem", "tget", "bset", "bget", "qget":
			if f[2] == "-" {
				f[2] = ""
			}
		}
	}
	if len(f) > 1 && (f[0] == "sget" || f[0] == "srem") && f[1] == "-" {
		f[1] = ""
	}
	switch f[0] {
	case "mode":
		need(2)
		w.node = f[1] == "node"
		return "ok"
	case "blk":
		need(4)
		w.newBlock(f[1], hashOf(f[2]), hashOf(f[3]))
		return "ok"
	case "bhash":
		need(3)
		b := getB(f[1])
		b.bc.SetBlockHash(hashOf(f[2]))
		b.hash = hashOf(f[2])
		if b.private {
			b.hash = "~f:" + f[1] + ":" + hashOf(f[2])
		}
		return "ok"
	case "txn":
		need(3)
		b := getB(f[2])
		w.th[f[1]] = &scTH{tc: statecache.NewTransactionCache(b.bc), bid: f[2], pending: map[string]scEntry{}}
		return "ok"
	case "empty":
		// statecache.NewEmpty(): a transaction cache over a block cache of its own on a state cache of its own — a
		// private world. Oracle / model: a transaction on a never-committed block with unique hashes.
		need(2)
		bid := "~" + f[1]
		w.bh[bid] = &scBH{hash: "~e:" + f[1], prev: "~p:" + f[1], pending: map[string]scEntry{}, private: true}
		w.th[f[1]] = &scTH{tc: statecache.NewEmpty(), bid: bid, pending: map[string]scEntry{}}
		w.tags["newempty"] = true
		return "ok"
	case "blktxn":
		// statecache.NewBlockTxnCaches: block cache + transaction cache in one call
		need(5)
		bc, tc := statecache.NewBlockTxnCaches(w.sc, statecache.Block{Hash: hashOf(f[3]), PrevHash: hashOf(f[4])})
		w.bh[f[1]] = &scBH{bc: bc, hash: hashOf(f[3]), prev: hashOf(f[4]), pending: map[string]scEntry{}}
		w.th[f[2]] = &scTH{tc: tc, bid: f[1], pending: map[string]scEntry{}}
		w.tags["newblocktxncaches"] = true
		return "ok"
	case "fblk":
		// a block cache on a FRESH state cache: its commits and lookups never meet the case's shared state cache, even
		// when it uses the same hashes. Oracle / model: the hashes of its world carry the prefix "~f:<bid>:".
		need(4)
		pfx := "~f:" + f[1] + ":"
		w.bh[f[1]] = &scBH{bc: statecache.NewBlockCache(statecache.NewStateCache(), statecache.Block{Hash: hashOf(f[2]), PrevHash: hashOf(f[3])}),
			hash: pfx + hashOf(f[2]), prev: pfx + hashOf(f[3]), pending: map[string]scEntry{}, private: true}
		w.tags["fresh-statecache"] = true
		return "ok"
	case "qtxn":
		need(3)
		w.th[f[1]] = &scTH{tc: statecache.NewTransactionCache(statecache.NewQueryBlockCache(w.sc, hashOf(f[2]))), qhash: hashOf(f[2]), pending: map[string]scEntry{}}
		return "ok"
	case "tset":
		need(4)
		t := getT(f[1])
		v := scMkValue(f[3], w.node)
		t.tc.Set(f[2], v)
		if w.mutate {
			scScribble(v)
			w.handed = append(w.handed, v)
		}
		t.pending[f[2]] = scEntry{val: f[3]}
		return "ok"
	case "trem":
		need(3)
		t := getT(f[1])
		t.tc.Remove(f[2])
		t.pending[f[2]] = scEntry{tomb: true}
		w.tags["remove"] = true
		return "ok"
	case "tget":
		need(3)
		t := getT(f[1])
		x := w.expectTxn(t, f[2])
		out := guard(func() string { return w.outGet(t.tc.Get(f[2])) })
		sb := t.qhash
		shared := true
		if t.bid != "" {
			sb = w.bh[t.bid].base()
			shared = !w.bh[t.bid].private
		}
		w.judge(out, x, f[2], sb, shared && (x.src == "chain" || x.src == "own-committed"))
		return out
	case "tcommit":
		need(2)
		t := getT(f[1])
		out := guard(func() string { t.tc.Commit(); return "ok" })
		if t.bid == "" {
			// Commit on a transaction cache over a QueryBlockCache panics by design when it holds writes
			if (len(t.pending) > 0) != (out == "panic") {
				w.fail("query transaction commit returned %q with %d pending writes", out, len(t.pending))
				w.setFinding("")
			}
			w.tags["qtxn-commit"] = true
			return out
		}
		if out != "ok" {
			w.fail("transaction commit: %s", out)
			w.setFinding("")
			return out
		}
		b := w.bh[t.bid]
		for k, e := range t.pending {
			b.pending[k] = e
		}
		t.pending = map[string]scEntry{}
		w.mutations++
		return out
	case "bset":
		need(4)
		b := getB(f[1])
		v := scMkValue(f[3], w.node)
		b.bc.Set(f[2], v)
		if w.mutate {
			scScribble(v)
			w.handed = append(w.handed, v)
		}
		b.pending[f[2]] = scEntry{val: f[3]}
		return "ok"
	case "bget":
		need(3)
		b := getB(f[1])
		x := w.expectBlock(b, f[2])
		out := guard(func() string { return w.outGet(b.bc.Get(f[2])) })
		w.judge(out, x, f[2], b.base(), !b.private && (x.src == "chain" || x.src == "own-committed"))
		return out
	case "bcommit":
		need(2)
		out := guard(func() string { w.commitBlock(getB(f[1])); return "ok" })
		if out != "ok" {
			w.fail("BlockCache.Commit: %s", out)
			w.setFinding("")
		}
		return out
	case "qget":
		need(3)
		h := hashOf(f[1])
		x := w.expectState(f[2], h)
		out := guard(func() string { return w.outGet(statecache.NewQueryBlockCache(w.sc, h).Get(f[2])) })
		w.judge(out, x, f[2], h, true)
		return out
	case "sget":
		need(3)
		h := hashOf(f[2])
		x := w.expectState(f[1], h)
		out := guard(func() string { return w.outGet(w.sc.Get(f[1], h)) })
		w.judge(out, x, f[1], h, true)
		return out
	case "srem":
		need(2)
		w.sc.Remove(f[1])
		w.removed[f[1]] = true
		delete(w.entryBlocks, f[1]) // the map starts empty again
		delete(w.entryIdx, f[1])
		delete(w.entrySeq, f[1])
		if w.sremAt == nil {
			w.sremAt = map[string][]int{}
		}
		w.sremAt[f[1]] = append(w.sremAt[f[1]], w.tick())
		w.tags["remove-key"] = true
		return "ok"
	case "chain":
		need(6)
		n, err := strconv.Atoi(f[1])
		if err != nil {
			bad()
		}
		prev := hashOf(f[3])
		for j := 1; j <= n; j++ {
			h := f[2] + strconv.Itoa(j)
			b := w.newBlock(h, h, prev)
			if j == 1 && f[4] != "-" {
				b.bc.Set(f[4], scMkValue(f[5], w.node))
				b.pending[f[4]] = scEntry{val: f[5]}
			}
			w.commitBlock(b)
			prev = h
		}
		w.tags["chain"] = true
		return "ok"
	case "fan":
		need(6)
		n, err := strconv.Atoi(f[1])
		if err != nil {
			bad()
		}
		for j := 1; j <= n; j++ {
			h := f[2] + strconv.Itoa(j)
			b := w.newBlock(h, h, hashOf(f[3]))
			val := f[5] + fmt.Sprintf("%04x", j)
			b.bc.Set(f[4], scMkValue(val, w.node))
			b.pending[f[4]] = scEntry{val: val}
			w.commitBlock(b)
		}
		w.tags["fan"] = true
		return "ok"
	}
	return bad()
}

func (w *scWorld) finish() {
	for t := range w.tags {
		w.res.Tags = append(w.res.Tags, t)
	}
	sort.Strings(w.res.Tags)
}

func runSCSeq(ops []string, mutate, strict bool, nontrivial func(w *scWorld) bool) CaseResult {
	res := CaseResult{}
	w := newSCWorld(&res)
	w.mutate, w.strict = mutate, strict
	for i, op := range ops {
		res.Outs = append(res.Outs, w.step(i, op))
	}
	w.finish()
	res.Nontrivial = nontrivial(w)
	return res
}
