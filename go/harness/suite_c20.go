package main

// Suites c20 (sequential histories, compared with the Lean ring model) and c20conc (concurrent writers and
// readers under the race detector; oracle only) — in-memory log ring buffer, core/logging/inmemory_logger.go.
//
// Everything goes through the real zap API: logger 0 is zap.New(memLogger.GetCore()); `with k` derives a new
// logger from logger k with Logger.With (-> MemCore.With -> clone); `log` is Logger.Info (-> Check -> Write).
//
//	cap                         logging.BufferSize                                  -> ok <BufferSize>
//	with <k>                    loggers = append(loggers, loggers[k].With(field))   -> ok <index of the new logger>
//	log <k> <msg>               loggers[k].Info(msg)                                -> ok
//	logn <k> <count> <start>    loggers[k].Info("m<start>") ... "m<start+count-1>"  -> ok
//	getlogs                     messages of MemLogger.GetLogs(), in slice order     -> ok <count> <m,m,...|->
//	reread <k>                  the entries the k-th getlogs returned, read again now       -> ok <count> <m,m,...|->
//	writelogs                   messages parsed from MemLogger.WriteLogs output     -> ok <count> <m,m,...|->
//	conc <pre> <G> <perG> <readers>   (suite c20conc) see runC20Conc                 -> ok <final count>
//
// Oracle: GetLogs == (all messages written so far through any logger, newest first).take(BufferSize) — nothing
// lost, duplicated or out of order; entries handed out by an earlier GetLogs keep their message.

import (
	"bytes"
	"fmt"
	"math/rand"
	"strconv"
	"strings"
	"sync"
	"sync/atomic"

	"github.com/0chain/common/core/logging"
	"go.uber.org/zap"
	"go.uber.org/zap/zapcore"
	"go.uber.org/zap/zaptest/observer"
)

func c20New() (*logging.MemLogger, *zap.Logger) {
	cfg := zap.NewProductionEncoderConfig()
	ml := logging.NewMemLogger(zapcore.NewJSONEncoder(cfg), zapcore.DebugLevel)
	return ml, zap.New(ml.GetCore())
}

func c20Msgs(es []*observer.LoggedEntry) []string {
	out := make([]string, len(es))
	for i, e := range es {
		if e == nil {
			out[i] = "<nil>"
		} else {
			out[i] = e.Message
		}
	}
	return out
}

func c20Fmt(ms []string) string {
	if len(ms) == 0 {
		return "ok 0 -"
	}
	return fmt.Sprintf("ok %d %s", len(ms), strings.Join(ms, ","))
}

type c20Snap struct {
	e   *observer.LoggedEntry
	msg string
}

func runC20(ops []string) CaseResult {
	res := CaseResult{}
	tags := map[string]bool{}
	ml, root := c20New()
	loggers := []*zap.Logger{root}
	var written []string // chronological
	var snaps []c20Snap
	var snapLists [][]*observer.LoggedEntry // what each getlogs returned
	var snapMsgs [][]string                 // and what it read as at that time
	derivedWrites, rootWrites := 0, 0
	fail := func(i int, f string, a ...interface{}) {
		if len(res.Fails) < 10 {
			res.Fails = append(res.Fails, fmt.Sprintf("op %d (%s): ", i, ops[i])+fmt.Sprintf(f, a...))
		}
	}
	expect := func() []string {
		var want []string
		for k := len(written) - 1; k >= 0 && len(want) < logging.BufferSize; k-- {
			want = append(want, written[k])
		}
		return want
	}
	checkLogs := func(i int, got []string) {
		want := expect()
		if c19EqStrs(got, want) {
			return
		}
		d := 0
		for d < len(got) && d < len(want) && got[d] == want[d] {
			d++
		}
		show := func(s []string) string {
			if len(s) > 8 {
				return strings.Join(s[:8], ",") + ",..."
			}
			return strings.Join(s, ",")
		}
		fail(i, "after %d writes (%d through derived loggers) the buffer returns %d entries [%s], want the %d most recent, newest first [%s]; first difference at position %d",
			len(written), derivedWrites, len(got), show(got), len(want), show(want), d)
	}
	checkSnaps := func(i int) {
		for _, s := range snaps {
			if s.e.Message != s.msg {
				fail(i, "an entry returned earlier by GetLogs as %q now reads %q (snapshot entries must not change)", s.msg, s.e.Message)
				return
			}
		}
	}
	write := func(k int, msg string) {
		loggers[k].Info(msg)
		written = append(written, msg)
		if k == 0 {
			rootWrites++
		} else {
			derivedWrites++
		}
	}
	atoi := func(s string) int { v, _ := strconv.Atoi(s); return v }
	for i, op := range ops {
		f := strings.Fields(op)
		// a case that names a logger that does not exist (yet) is malformed, not failing (shrinker)
		if (f[0] == "with" || f[0] == "log" || f[0] == "logn") && (len(f) < 2 || atoi(f[1]) < 0 || atoi(f[1]) >= len(loggers)) {
			res.Fails = append(res.Fails, "harness: malformed case, no logger "+op)
			res.Outs = append(res.Outs, "bad-op")
			continue
		}
		if f[0] == "reread" && (len(f) != 2 || atoi(f[1]) < 0 || atoi(f[1]) >= len(snapLists)) {
			res.Fails = append(res.Fails, "harness: malformed case, no snapshot "+op)
			res.Outs = append(res.Outs, "bad-op")
			continue
		}
		out := guard(func() string {
			switch f[0] {
			case "cap":
				return fmt.Sprintf("ok %d", logging.BufferSize)
			case "with":
				k := atoi(f[1])
				loggers = append(loggers, loggers[k].With(zap.Int("derived", len(loggers))))
				if k > 0 {
					tags["derived-from-derived"] = true
				}
				if len(written) > 0 {
					tags["derived-after-writes"] = true
				}
				return fmt.Sprintf("ok %d", len(loggers)-1)
			case "log":
				write(atoi(f[1]), f[2])
				return "ok"
			case "logn":
				k, c, s := atoi(f[1]), atoi(f[2]), atoi(f[3])
				for j := 0; j < c; j++ {
					write(k, "m"+strconv.Itoa(s+j))
				}
				return "ok"
			case "getlogs":
				es := ml.GetLogs()
				got := c20Msgs(es)
				checkLogs(i, got)
				checkSnaps(i)
				snapLists = append(snapLists, es)
				snapMsgs = append(snapMsgs, got)
				if len(snaps) < 1<<16 {
					for j, e := range es {
						if e != nil {
							snaps = append(snaps, c20Snap{e, got[j]})
						}
					}
				}
				return c20Fmt(got)
			case "reread":
				k := atoi(f[1])
				now := c20Msgs(snapLists[k])
				if !c19EqStrs(now, snapMsgs[k]) {
					d := 0
					for d < len(now) && now[d] == snapMsgs[k][d] {
						d++
					}
					fail(i, "the entries returned by getlogs #%d read differently now: position %d was %q, is %q (entries handed out must not change)", k, d, snapMsgs[k][d], now[d])
				}
				tags["reread"] = true
				return c20Fmt(now)
			case "writelogs":
				var buf bytes.Buffer
				ml.WriteLogs(&buf, logging.IncludeMessage)
				var got []string
				for _, l := range strings.Split(strings.TrimRight(buf.String(), "\n"), "\n") {
					if l == "" {
						continue
					}
					fs := strings.Split(l, "\t")
					got = append(got, fs[len(fs)-1])
				}
				checkLogs(i, got)
				return c20Fmt(got)
			}
			return "bad-op"
		})
		if out == "panic" {
			fail(i, "panic")
		}
		res.Outs = append(res.Outs, out)
	}
	checkSnaps(len(ops) - 1)
	switch {
	case len(written) < logging.BufferSize:
		tags["total<cap"] = true
	case len(written) == logging.BufferSize:
		tags["total=cap"] = true
	case len(written) <= 2*logging.BufferSize:
		tags["total<=2cap"] = true
	default:
		tags["total>2cap"] = true
	}
	if derivedWrites > 0 && rootWrites > 0 {
		tags["root+derived-writes"] = true
	}
	res.Nontrivial = derivedWrites > 0 && rootWrites > 0
	for t := range tags {
		res.Tags = append(res.Tags, t)
	}
	return res
}

func genC20(r *rand.Rand, tier string, idx int) []string {
	ops := []string{}
	if idx%10 == 0 {
		ops = append(ops, "cap")
	}
	nlog := 1
	next := 0
	reads := 0
	pick := func() int {
		if r.Intn(3) == 0 {
			return 0
		}
		return r.Intn(nlog)
	}
	if idx%3 != 0 {
		// short history, one message per op, derivations at arbitrary times
		n := 3 + r.Intn(24)
		for k := 0; k < n; k++ {
			switch x := r.Intn(10); {
			case x < 2:
				ops = append(ops, fmt.Sprintf("with %d", r.Intn(nlog)))
				nlog++
			case x < 8:
				ops = append(ops, fmt.Sprintf("log %d m%d", pick(), next))
				next++
			default:
				ops = append(ops, "getlogs")
				reads++
			}
		}
		ops = append(ops, "getlogs", "writelogs")
		for k := 0; k < reads+1 && k < 3; k++ {
			ops = append(ops, fmt.Sprintf("reread %d", r.Intn(reads+1)))
		}
		return ops
	}
	// long history: total below, at, just above and far above the capacity, written in chunks through the
	// root and derived loggers, with reads in between
	c := logging.BufferSize
	totals := []int{c - 1, c, c + 1, c + 2, 2*c - 1, 2 * c, 2*c + 1, 3*c + 17, 5 * c, c / 2, c - 3 + r.Intn(7), c + r.Intn(3*c)}
	total := totals[r.Intn(len(totals))]
	for next < total {
		switch x := r.Intn(12); {
		case x < 2 && nlog < 12:
			ops = append(ops, fmt.Sprintf("with %d", r.Intn(nlog)))
			nlog++
		case x < 3:
			ops = append(ops, "getlogs")
			reads++
			if reads > 1 && r.Intn(2) == 0 {
				ops = append(ops, fmt.Sprintf("reread %d", r.Intn(reads-1)))
			}
		default:
			var cnt int
			switch r.Intn(4) {
			case 0:
				cnt = 1
			case 1:
				cnt = 1 + r.Intn(8)
			case 2:
				cnt = 1 + r.Intn(300)
			default:
				cnt = 1 + r.Intn(c+10)
			}
			if cnt > total-next {
				cnt = total - next
			}
			// stop exactly at the capacity once, to read the buffer when it has just filled
			if next < c && next+cnt > c && r.Intn(2) == 0 {
				cnt = c - next
			}
			ops = append(ops, fmt.Sprintf("logn %d %d %d", pick(), cnt, next))
			next += cnt
			if next == c || next == c+1 {
				ops = append(ops, "getlogs")
				reads++
			}
		}
	}
	ops = append(ops, "getlogs")
	// the snapshots taken on the way (the first ones are long overwritten in the ring) must still read the same
	for k := 0; k < reads && k < 3; k++ {
		ops = append(ops, fmt.Sprintf("reread %d", k))
	}
	if r.Intn(4) == 0 {
		ops = append(ops, "writelogs")
	}
	return ops
}

// ------------------------------------------------------------------------------------------------ concurrent

// c20ParseMsg: "p<seq>" (pre-written, sequential) -> (-1, seq); "g<g>:<seq>" -> (g, seq)
func c20ParseMsg(m string) (int, int, bool) {
	if strings.HasPrefix(m, "p") {
		s, err := strconv.Atoi(m[1:])
		return -1, s, err == nil
	}
	if strings.HasPrefix(m, "g") {
		k := strings.IndexByte(m, ':')
		if k < 0 {
			return 0, 0, false
		}
		g, e1 := strconv.Atoi(m[1:k])
		s, e2 := strconv.Atoi(m[k+1:])
		return g, s, e1 == nil && e2 == nil
	}
	return 0, 0, false
}

// c20CheckSnapshot: what every linearizable snapshot satisfies: entries were written, none twice, per writer
// newest first and contiguous (the retained window is a suffix of one total order that respects each writer's
// program order), pre-written entries older than all concurrent ones. Returns per-writer newest sequence.
func c20CheckSnapshot(ms []string, pre, G, perG int) (map[int]int, string) {
	if len(ms) > logging.BufferSize {
		return nil, fmt.Sprintf("%d entries returned, capacity is %d", len(ms), logging.BufferSize)
	}
	seen := map[string]bool{}
	last := map[int]int{}   // writer -> last sequence seen while walking newest -> oldest
	newest := map[int]int{} // writer -> newest sequence
	preSeen := false
	for pos, m := range ms {
		g, s, ok := c20ParseMsg(m)
		if !ok || g >= G || s < 0 || (g == -1 && s >= pre) || (g >= 0 && s >= perG) {
			return nil, fmt.Sprintf("entry %q at position %d was never written", m, pos)
		}
		if seen[m] {
			return nil, fmt.Sprintf("entry %q returned twice", m)
		}
		seen[m] = true
		if g == -1 {
			preSeen = true
		} else if preSeen {
			return nil, fmt.Sprintf("entry %q of a concurrent writer is reported older than a pre-written entry", m)
		}
		if l, ok := last[g]; ok {
			if s != l-1 {
				return nil, fmt.Sprintf("writer %d: entry %d follows entry %d in newest-first order (want %d: order kept, nothing missing in between)", g, s, l, l-1)
			}
		} else {
			newest[g] = s
		}
		last[g] = s
	}
	return newest, ""
}

// runC20Conc: `conc <pre> <G> <perG> <readers>`: pre messages written sequentially through the root logger, then G
// goroutines write perG unique messages each — writer g uses the root logger (g%4==0), a logger derived before
// the start after different numbers of pre-writes (g%4==1), a logger it derives itself half way (g%4==2), or a
// logger derived from a derived logger (g%4==3) — while `readers` goroutines call GetLogs in a loop and check
// every snapshot. Any report of the race detector during the op is an oracle failure.
func runC20Conc(ops []string) CaseResult {
	res := CaseResult{}
	fail := func(i int, f string, a ...interface{}) {
		if len(res.Fails) < 10 {
			res.Fails = append(res.Fails, fmt.Sprintf("op %d (%s): ", i, ops[i])+fmt.Sprintf(f, a...))
		}
	}
	for i, op := range ops {
		f := strings.Fields(op)
		if f[0] != "conc" || len(f) != 5 {
			res.Outs = append(res.Outs, "bad-op")
			continue
		}
		pre, _ := strconv.Atoi(f[1])
		G, _ := strconv.Atoi(f[2])
		perG, _ := strconv.Atoi(f[3])
		readers, _ := strconv.Atoi(f[4])
		racesBefore := c20RaceErrors()
		ml, root := c20New()
		// derived loggers created at different times during the sequential prefix
		preDerived := make([]*zap.Logger, G)
		for k := 0; k < pre; k++ {
			if G > 0 && k%(pre/G+1) == 0 {
				g := k / (pre/G + 1)
				preDerived[g] = root.With(zap.Int("w", g))
			}
			root.Info("p" + strconv.Itoa(k))
		}
		for g := range preDerived {
			if preDerived[g] == nil {
				preDerived[g] = root.With(zap.Int("w", g))
			}
		}
		var wg, rg sync.WaitGroup
		var done int32
		var mu sync.Mutex
		var errs []string
		report := func(s string) {
			mu.Lock()
			if len(errs) < 5 {
				errs = append(errs, s)
			}
			mu.Unlock()
		}
		var snaps []c20Snap
		start := make(chan struct{})
		for g := 0; g < G; g++ {
			wg.Add(1)
			go func(g int) {
				defer wg.Done()
				defer func() {
					if r := recover(); r != nil {
						report(fmt.Sprintf("writer %d panicked: %v", g, r))
					}
				}()
				<-start
				lg := root
				switch g % 4 {
				case 1:
					lg = preDerived[g]
				case 3:
					lg = preDerived[g].With(zap.Int("nested", g))
				}
				for s := 0; s < perG; s++ {
					if g%4 == 2 && s == perG/2 {
						lg = root.With(zap.Int("late", g))
					}
					lg.Info("g" + strconv.Itoa(g) + ":" + strconv.Itoa(s))
				}
			}(g)
		}
		for rd := 0; rd < readers; rd++ {
			rg.Add(1)
			go func(rd int) {
				defer rg.Done()
				defer func() {
					if r := recover(); r != nil {
						report(fmt.Sprintf("reader %d panicked: %v", rd, r))
					}
				}()
				<-start
				prevNewest := map[int]int{}
				prevLen := 0
				var mine []c20Snap
				for it := 0; atomic.LoadInt32(&done) == 0 || it == 0; it++ {
					es := ml.GetLogs()
					ms := c20Msgs(es)
					newest, e := c20CheckSnapshot(ms, pre, G, perG)
					if e != "" {
						report("concurrent GetLogs: " + e)
						break
					}
					if len(ms) < prevLen {
						report(fmt.Sprintf("concurrent GetLogs: %d entries after an earlier snapshot of %d", len(ms), prevLen))
					}
					for g, s := range prevNewest {
						if n, ok := newest[g]; ok && n < s {
							report(fmt.Sprintf("concurrent GetLogs: writer %d's newest entry went back from %d to %d", g, s, n))
						}
					}
					prevNewest, prevLen = newest, len(ms)
					if len(mine) < 8192 {
						for j, e := range es {
							mine = append(mine, c20Snap{e, ms[j]})
						}
					}
				}
				mu.Lock()
				snaps = append(snaps, mine...)
				mu.Unlock()
			}(rd)
		}
		close(start)
		wg.Wait()
		atomic.StoreInt32(&done, 1)
		rg.Wait()
		for _, e := range errs {
			fail(i, "%s", e)
		}
		final := c20Msgs(ml.GetLogs())
		total := pre + G*perG
		want := total
		if want > logging.BufferSize {
			want = logging.BufferSize
		}
		if len(final) != want {
			fail(i, "after %d writes (%d sequential, %d goroutines x %d) GetLogs returns %d entries, want %d", total, pre, G, perG, len(final), want)
		}
		newest, e := c20CheckSnapshot(final, pre, G, perG)
		if e != "" {
			fail(i, "final GetLogs: %s", e)
		} else {
			for g, s := range newest {
				if g >= 0 && s != perG-1 {
					fail(i, "final GetLogs: writer %d's newest retained entry is %d, its last write %d is lost", g, s, perG-1)
				}
				if g == -1 && s != pre-1 {
					fail(i, "final GetLogs: newest retained pre-written entry is %d, want %d", s, pre-1)
				}
			}
		}
		for _, s := range snaps {
			if s.e.Message != s.msg {
				fail(i, "an entry returned earlier by GetLogs as %q now reads %q (snapshot entries must not change)", s.msg, s.e.Message)
				break
			}
		}
		if d := c20RaceErrors() - racesBefore; d > 0 {
			fail(i, "DATA RACE: the Go race detector reported %d data race(s) during this operation (report on stderr)", d)
		}
		res.Outs = append(res.Outs, fmt.Sprintf("ok %d", want))
		res.Nontrivial = res.Nontrivial || (G >= 2 && perG > 0)
		switch {
		case total > logging.BufferSize:
			res.Tags = append(res.Tags, "total>cap")
		case total == logging.BufferSize:
			res.Tags = append(res.Tags, "total=cap")
		default:
			res.Tags = append(res.Tags, "total<cap")
		}
	}
	if c20RaceEnabled {
		res.Tags = append(res.Tags, "race-detector-on")
	} else {
		// without the race detector the "DATA RACE" oracle can never fire: a lost `"race": true` must not pass silently
		res.Fails = append(res.Fails, "harness: suite c20conc must be built with -race (suite config \"race\": true)")
	}
	return res
}

func genC20Conc(r *rand.Rand, tier string, idx int) []string {
	c := logging.BufferSize
	G := 2 + r.Intn(7)
	var pre, perG int
	switch idx % 4 {
	case 0: // total below the capacity
		pre = []int{0, 1, 10, c / 2}[r.Intn(4)]
		perG = 1 + r.Intn(20)
	case 1: // total exactly at, one below, one above the capacity
		perG = 1 + r.Intn(100)
		if G*perG > c-1 { // small capacities
			perG = (c - 1) / G
			if perG < 1 {
				perG = 1
			}
		}
		pre = c + r.Intn(3) - 1 - G*perG
		if pre < 0 {
			pre = 0
		}
	default: // far above
		pre = []int{0, 1, 10, c / 2, c - 1, c, c + 5}[r.Intn(7)]
		perG = 200 + r.Intn(600)
	}
	return []string{fmt.Sprintf("conc %d %d %d %d", pre, G, perG, 1+r.Intn(3))}
}

func init() {
	register(&Suite{
		Name: "c20",
		Rule: "sequential histories of writes through the root zap logger and loggers derived from it (and from derived ones) at arbitrary times; short histories one message per op, long ones in chunks with totals below, at, just above and far above BufferSize; GetLogs/WriteLogs compared with (all messages, newest first).take(BufferSize); non-trivial = writes through both the root and a derived logger",
		Gen:  genC20,
		Run:  runC20,
		DefaultN: func(tier string) int {
			if tier == "thorough" {
				return 6000
			}
			return 300
		},
	})
	register(&Suite{
		Name:        "c20conc",
		Rule:        "G goroutines write unique message ids through the root logger, loggers derived before the start, derived half way and derived from derived ones, while reader goroutines call GetLogs; every snapshot and the final buffer checked (subset of written, no duplicates, per-writer newest-first and contiguous, size = min(total, cap), last write of every writer retained, earlier snapshots unchanged); race-detector reports are failures; non-trivial = at least 2 writers",
		Gen:         genC20Conc,
		Run:         runC20Conc,
		Serial:      true,
		CaseTimeout: 120 * 1e9,
		DefaultN: func(tier string) int {
			if tier == "thorough" {
				return 1500
			}
			return 60
		},
	})
}
