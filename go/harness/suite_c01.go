package main

// Suites c01 (map semantics of the state trie, all store kinds, changing versions) and c02 (canonical,
// format-stable root at a fixed version). Same op language:
//
//	new <mem|level|pndb> <version>      always first
//	ver <n>                             set trie version
//	layer                               continue in a fresh LevelNodeDB level over the store used so far
//	relevel <mem|pndb> <all|leaves|odd> <save|mergestate>
//	                                    continue in a trie over a LevelNodeDB whose CURRENT level (memory / persistent)
//	                                    was filled beforehand and is only read at first: the nodes of the present state
//	                                    are split - all / the leaves / those with an odd last key byte go into the new
//	                                    current level (through another trie's SaveChanges, or MergeState), the rest into
//	                                    a fresh lower store; the state is readable only through both levels
//	ins <path> <hexvalue>               Insert
//	insempty <path>                     Insert of an empty value (must behave as Delete)
//	insbig <path>                       Insert of a value of MPTMaxAllowableNodeSize+1 bytes (must be rejected)
//	insfill <path> <len> <bytehex>      Insert of <len> times the byte: stored iff len <= 10 MiB (the SPECIFIED limit,
//	                                    not read from the code), rejected above
//	del <path>                          Delete
//	get <path>                          GetNodeValueRaw
//	iter                                Iterate (values)
//
// Outputs: ins/del/insempty/insbig -> "ok <roothex|->" | notpresent | toolarge | nodenotfound | panic | err
//          get -> "ok <hex>" | notpresent | nodenotfound | ...       iter -> "ok <path>=<hex>,..."
//
// Oracle (C01): a Go map. After every operation: the operation's own result, then every path ever used is looked
// up and a full iteration is compared with the sorted map. Oracle (C02): root == independent canonical-root
// computation from the sorted content (single version), and no two different contents share a root in the run.

import (
	"context"
	"bytes"
	"fmt"
	"math/rand"
	"strconv"
	"strings"
	"sync"

	"github.com/0chain/common/core/util"
)

type mptState struct {
	mpt     *util.MerklePatriciaTrie
	content map[string][]byte
	used    map[string]bool
	version int64
	multiV  bool
}

func openStore(kind string) util.NodeDB {
	switch kind {
	case "mem":
		return util.NewMemoryNodeDB()
	case "level":
		return util.NewLevelNodeDB(util.NewMemoryNodeDB(), util.NewMemoryNodeDB(), false)
	case "pndb":
		db, err := util.NewPNodeDB(freshDir("c01"), "")
		if err != nil {
			panic(err)
		}
		return db
	}
	panic("unknown store kind " + kind)
}

// ptok / pathOf: the empty path is written "-" in op lines
func ptok(p string) string {
	if p == "" {
		return "-"
	}
	return p
}

func pathOf(tok string) string {
	if tok == "-" {
		return ""
	}
	return tok
}

func rootStr(k util.Key) string {
	if len(k) == 0 {
		return "-"
	}
	return hx(k)
}

var bigValue = bytes.Repeat([]byte{0xab}, util.MPTMaxAllowableNodeSize+1)

// specMaxValue: the largest value Insert must accept (bytes of the encoded value). A constant of the specification: the
// oracle and the model do NOT read it from the code, so a changed limit in the code shows up as a difference.
const specMaxValue = 10 * 1024 * 1024

// hxv prints a value: hex; a long value made of one repeated byte as "#<len>*<byte>" (exact, so usable by the oracle)
func hxv(v []byte) string {
	if len(v) > 64 {
		uniform := true
		for _, b := range v {
			if b != v[0] {
				uniform = false
				break
			}
		}
		if uniform {
			return fmt.Sprintf("#%d*%02x", len(v), v[0])
		}
	}
	return hx(v)
}

func fmtPairsV(ps []pair) string {
	var sb strings.Builder
	for i, p := range ps {
		if i > 0 {
			sb.WriteByte(',')
		}
		sb.WriteString(ptok(p.path))
		sb.WriteByte('=')
		sb.WriteString(hxv(p.val))
	}
	return sb.String()
}

var (
	rootSeenMu sync.Mutex
	rootSeen   = map[string]string{} // root hex -> canonical content string (C02 injectivity over the run)
)

// typeConfusion is the matcher of known finding C02-type-confusion: the two colliding contents differ only in
// that one holds a single key K = P+lp whose value has 31-len(lp) bytes (a leaf at position P whose encoding
// "P:lp:value" reads as an extension "P:<32-byte child key>") where the other holds >= 2 keys extending P+P.
func typeConfusion(ca, cb string) bool {
	parse := func(c string) map[string]string {
		m := map[string]string{}
		i := strings.IndexByte(c, '|')
		for _, kv := range strings.Split(c[i+1:], ",") {
			if kv == "" {
				continue
			}
			j := strings.IndexByte(kv, '=')
			m[strings.TrimPrefix(kv[:j], "-")] = kv[j+1:]
		}
		return m
	}
	a, b := parse(ca), parse(cb)
	onlyA, onlyB := map[string]string{}, map[string]string{}
	for k, v := range a {
		if b[k] != v {
			onlyA[k] = v
		}
	}
	for k, v := range b {
		if a[k] != v {
			onlyB[k] = v
		}
	}
	check := func(one, many map[string]string) bool {
		if len(one) != 1 || len(many) < 2 {
			return false
		}
		for k, v := range one {
			for pl := 0; pl <= len(k); pl++ {
				pfx, lp := k[:pl], k[pl:]
				if len(lp)+1+len(v)/2 != 32 {
					continue
				}
				ok := true
				for k2 := range many {
					if !strings.HasPrefix(k2, pfx+pfx) {
						ok = false
					}
				}
				if ok {
					return true
				}
			}
		}
		return false
	}
	// leaf/branch confusion at the root: one content is a single key of 0 or 64 nibbles whose value holds the
	// rest of a branch encoding (hence at least 14 separator bytes), the other content has >= 2 keys
	leafFull := func(one, many map[string]string) bool {
		if len(one) != 1 || len(many) < 2 || len(a) != len(onlyA) || len(b) != len(onlyB) {
			return false
		}
		for k, v := range one {
			if (len(k) == 0 || len(k) == 64) && strings.Count(v, "3a") >= 14 {
				return true
			}
		}
		return false
	}
	return check(onlyA, onlyB) || check(onlyB, onlyA) || leafFull(onlyA, onlyB) || leafFull(onlyB, onlyA)
}

func contentKey(version int64, m map[string][]byte) string {
	return strconv.FormatInt(version, 10) + "|" + fmtPairs(sortedPairs(m))
}

func runMptMap(ops []string, checkCanon bool) CaseResult {
	var st *mptState
	res := CaseResult{}
	tags := map[string]bool{}
	fail := func(i int, f string, a ...interface{}) {
		res.Fails = append(res.Fails, fmt.Sprintf("op %d (%s): ", i, ops[i])+fmt.Sprintf(f, a...))
	}
	mutations := 0
	collisionFails := 0 // failures that ARE the matched collision of the open finding
	for i, op := range ops {
		f := strings.Fields(op)
		var out string
		switch f[0] {
		case "new":
			v, _ := strconv.ParseInt(f[2], 10, 64)
			st = &mptState{mpt: newMPT(openStore(f[1]), v, nil), content: map[string][]byte{}, used: map[string]bool{}, version: v}
			tags["store:"+f[1]] = true
			out = "ok"
		case "layer":
			// continue in a fresh level (as a transaction trie does) over the store used so far
			st.mpt = newMPT(util.NewLevelNodeDB(util.NewMemoryNodeDB(), st.mpt.GetNodeDB(), false), st.version, st.mpt.GetRoot())
			tags["layered-over-content"] = true
			out = "ok"
		case "relevel":
			out = guard(func() string {
				ctx := context.Background()
				upperSrc, lower := util.NewMemoryNodeDB(), util.NewMemoryNodeDB()
				err := st.mpt.Iterate(ctx, func(ctx context.Context, path util.Path, key util.Key, node util.Node) error {
					if node == nil {
						return nil
					}
					_, isLeaf := node.(*util.LeafNode)
					up := f[2] == "all" || (f[2] == "leaves" && isLeaf) || (f[2] == "odd" && key[len(key)-1]%2 == 1)
					dst := lower
					if up {
						dst = upperSrc
					}
					return dst.PutNode(append(util.Key(nil), key...), node.CloneNode())
				}, util.NodeTypeLeafNode|util.NodeTypeFullNode|util.NodeTypeExtensionNode)
				if err != nil {
					return errKind(err)
				}
				var upper util.NodeDB = util.NewMemoryNodeDB()
				if f[1] == "pndb" {
					upper = openStore("pndb")
				}
				if f[3] == "save" {
					// another trie takes the nodes over (MergeDB) and saves its changes into the level
					other := newMPT(util.NewMemoryNodeDB(), st.version, nil)
					if err := other.MergeDB(upperSrc, st.mpt.GetRoot(), nil); err != nil {
						return errKind(err)
					}
					if err := other.SaveChanges(ctx, upper, false); err != nil {
						return errKind(err)
					}
				} else if err := util.MergeState(ctx, upperSrc, upper); err != nil {
					return errKind(err)
				}
				st.mpt = newMPT(util.NewLevelNodeDB(upper, lower, false), st.version, st.mpt.GetRoot())
				return "ok"
			})
			if out != "ok" {
				fail(i, "building the layered store failed: %s", out)
			}
			tags["prefilled-current-level:"+f[1]] = true
		case "ver":
			v, _ := strconv.ParseInt(f[1], 10, 64)
			if v != st.version {
				st.multiV = true
			}
			st.version = v
			st.mpt.SetVersion(util.Sequence(v))
			out = "ok"
		case "ins", "insempty", "insbig", "insfill", "del":
			path := pathOf(f[1])
			st.used[path] = true
			var val []byte
			switch f[0] {
			case "ins":
				val = unhx(f[2])
			case "insbig":
				val = bigValue
			case "insfill":
				n, _ := strconv.Atoi(f[2])
				val = bytes.Repeat(unhx(f[3]), n)
				// the oracle decides by the specified limit
				if n > specMaxValue {
					f[0] = "insbig"
				} else {
					f[0] = "ins"
					tags[fmt.Sprintf("stored-value-len=%d", n)] = true
				}
			}
			before := st.mpt.GetRoot()
			ccBefore, szBefore := st.mpt.GetChangeCount(), st.mpt.GetNodeDB().Size(context.Background())
			pathBuf := []byte(path)
			valBuf := append([]byte(nil), val...)
			out = guard(func() string {
				var k util.Key
				var err error
				if f[0] == "del" {
					k, err = st.mpt.Delete(pathBuf)
				} else {
					k, err = st.mpt.Insert(pathBuf, mkVal(valBuf))
				}
				if err != nil {
					return errKind(err)
				}
				return "ok " + rootStr(k)
			})
			// scribble over the buffers handed in: the trie must not alias them
			for j := range pathBuf {
				pathBuf[j] = 'f'
			}
			for j := range valBuf {
				valBuf[j] ^= 0xff
			}
			// oracle
			_, present := st.content[path]
			switch {
			case f[0] == "insbig":
				if out != "toolarge" {
					fail(i, "oversize value not rejected: %s", out)
				}
				if !bytes.Equal(before, st.mpt.GetRoot()) {
					fail(i, "rejected insert changed the root")
				}
				if cc, sz := st.mpt.GetChangeCount(), st.mpt.GetNodeDB().Size(context.Background()); cc != ccBefore || sz != szBefore {
					fail(i, "rejected insert changed the trie's pending changes / node store (change count %d -> %d, store size %d -> %d)", ccBefore, cc, szBefore, sz)
				}
				tags["oversize"] = true
			case f[0] == "ins":
				if !strings.HasPrefix(out, "ok") {
					fail(i, "insert failed: %s", out)
				} else {
					st.content[path] = val
					mutations++
				}
				if present {
					tags["overwrite"] = true
				}
			default: // del, insempty
				if present {
					if !strings.HasPrefix(out, "ok") {
						fail(i, "delete of a present path failed: %s", out)
					} else {
						delete(st.content, path)
						mutations++
						tags["delete-present"] = true
					}
				} else {
					if out != "notpresent" {
						fail(i, "delete of an absent path returned %q, want notpresent", out)
					}
					if !bytes.Equal(before, st.mpt.GetRoot()) {
						fail(i, "delete of an absent path changed the root")
					}
					tags["delete-absent"] = true
				}
			}
			if out == "panic" {
				tags["panic"] = true
			}
		case "get":
			path := pathOf(f[1])
			st.used[path] = true
			out = guard(func() string {
				v, err := st.mpt.GetNodeValueRaw([]byte(path))
				if err != nil {
					return errKind(err)
				}
				return "ok " + hxv(v)
			})
			want := "notpresent"
			if v, ok := st.content[path]; ok {
				want = "ok " + hxv(v)
			}
			if out != want {
				fail(i, "lookup returned %q, want %q", out, want)
			}
		case "iter":
			out = guard(func() string {
				ps, err := iterPairs(st.mpt)
				if err != nil {
					return errKind(err)
				}
				return "ok " + fmtPairsV(ps)
			})
			if want := "ok " + fmtPairsV(sortedPairs(st.content)); out != want {
				fail(i, "iteration returned %q, want %q", out, want)
			}
		default:
			panic("unknown op " + op)
		}
		res.Outs = append(res.Outs, out)
		if st != nil && f[0] != "get" && f[0] != "iter" && len(res.Fails) == 0 {
			// full observation after every mutating op
			for p := range st.used {
				got := guard(func() string {
					v, err := st.mpt.GetNodeValueRaw([]byte(p))
					if err != nil {
						return errKind(err)
					}
					return "ok " + hxv(v)
				})
				want := "notpresent"
				if v, ok := st.content[p]; ok {
					want = "ok " + hxv(v)
				}
				if got != want {
					fail(i, "afterwards lookup(%s) = %q, want %q", p, got, want)
				}
			}
			got := guard(func() string {
				ps, err := iterPairs(st.mpt)
				if err != nil {
					return errKind(err)
				}
				return "ok " + fmtPairsV(ps)
			})
			if want := "ok " + fmtPairsV(sortedPairs(st.content)); got != want {
				fail(i, "afterwards iteration = %q, want %q", got, want)
			} else if i%3 == 0 {
				// the value callbacks do not depend on which other node kinds the caller asked for
				for _, mask := range []byte{util.NodeTypesAll, util.NodeTypeValueNode | util.NodeTypeFullNode, util.NodeTypeValueNode | util.NodeTypeLeafNode, util.NodeTypeValueNode | util.NodeTypeExtensionNode} {
					gm := guard(func() string {
						ps, err := iterPairsMask(st.mpt, mask)
						if err != nil {
							return errKind(err)
						}
						return "ok " + fmtPairsV(ps)
					})
					if gm != want {
						fail(i, "afterwards iteration with node-type mask %d reports values %q, want %q", mask, gm, want)
					}
				}
			}
			// the same content must be readable through a second trie over the same store (fresh node cache):
			// the writing trie's own cache must not be what makes the state readable
			clone := util.CloneMPT(st.mpt)
			for p := range st.used {
				got := guard(func() string {
					v, err := clone.GetNodeValueRaw([]byte(p))
					if err != nil {
						return errKind(err)
					}
					return "ok " + hxv(v)
				})
				want := "notpresent"
				if v, ok := st.content[p]; ok {
					want = "ok " + hxv(v)
				}
				if got != want {
					fail(i, "afterwards lookup(%s) through a second trie over the same store = %q, want %q", p, got, want)
				}
			}
			if checkCanon && !st.multiV {
				want := rootStr(canonRoot(st.content, st.version))
				if got := rootStr(st.mpt.GetRoot()); got != want {
					fail(i, "root %s differs from the canonical root %s of the content %s", got, want, fmtPairsV(sortedPairs(st.content)))
				} else {
					ck := contentKey(st.version, st.content)
					rk := strconv.FormatInt(st.version, 10) + "|" + got
					rootSeenMu.Lock()
					if prev, ok := rootSeen[rk]; ok && prev != ck {
						fail(i, "two different contents share root %s: %s vs %s", got, prev, ck)
						if typeConfusion(prev, ck) {
							res.Finding = "C02-type-confusion"
							collisionFails++
						}
					}
					rootSeen[rk] = ck
					rootSeenMu.Unlock()
				}
			}
		}
	}
	for t := range tags {
		res.Tags = append(res.Tags, t)
	}
	if len(res.Fails) > collisionFails {
		res.Finding = "" // at least one failure is not the collision the open finding describes: report the case
	}
	res.Nontrivial = mutations >= 2
	return res
}

// ---- generators -----------------------------------------------------------------------------------------

var pathAlphabets = []string{"ab", "a0", "ab0", "0123456789abcdef", "0f"}

func genPath(r *rand.Rand, alpha string, pool []string) string {
	// reuse / prefix-extend / truncate an existing path with high probability
	if len(pool) > 0 && r.Intn(100) < 55 {
		p := pool[r.Intn(len(pool))]
		switch r.Intn(4) {
		case 0:
			return p
		case 1:
			if len(p) >= 2 {
				return p[:2*r.Intn(len(p)/2+1)]
			}
			return p
		case 2:
			ext := ""
			for k, m := 0, 2*(1+r.Intn(2)); k < m; k++ {
				ext += string(alpha[r.Intn(len(alpha))])
			}
			return p + ext
		default:
			if len(p) >= 2 {
				b := []byte(p)
				b[r.Intn(len(b))] = alpha[r.Intn(len(alpha))]
				return string(b)
			}
			return p
		}
	}
	var n int
	switch x := r.Intn(100); {
	case x < 6:
		n = 0
	case x < 30:
		n = 2
	case x < 60:
		n = 4
	case x < 80:
		n = 6
	case x < 92:
		n = 8
	default:
		n = 64
	}
	b := make([]byte, n)
	for i := range b {
		b[i] = alpha[r.Intn(len(alpha))]
	}
	return string(b)
}

func genValue(r *rand.Rand) string {
	switch r.Intn(10) {
	case 0:
		return hx([]byte(":"))
	case 1:
		return hx([]byte("a:b::c"))
	case 2:
		return "00"
	case 3:
		return "c0" // msgpack nil
	case 4:
		b := make([]byte, 1+r.Intn(40))
		r.Read(b)
		return hx(b)
	default:
		return hx([]byte{byte('A' + r.Intn(26)), byte(r.Intn(256))})
	}
}

func genMptMap(fixedVersion bool) func(r *rand.Rand, tier string, idx int) []string {
	return func(r *rand.Rand, tier string, idx int) []string {
		if !fixedVersion && idx%500 == 123 {
			return genBigValues(r, idx/500)
		}
		stores := []string{"mem", "level", "pndb"}
		ver := int64(r.Intn(5))
		if r.Intn(5) == 0 {
			// boundary versions: every byte of the 8-byte little-endian origin must matter
			big := []int64{1 << 8, 1 << 16, 1<<31 - 1, 1 << 31, 1<<32 - 1, 1 << 32, 1<<32 + 1, 1 << 40, 1 << 48, 1 << 56, 1<<62 + 12345, 1<<63 - 3}
			ver = big[r.Intn(len(big))]
		}
		ops := []string{fmt.Sprintf("new %s %d", stores[idx%3], ver)}
		alpha := pathAlphabets[r.Intn(len(pathAlphabets))]
		maxOps := 14
		if tier == "thorough" {
			maxOps = 40
		}
		n := 2 + r.Intn(maxOps-1)
		var pool []string
		for k := 0; k < n; k++ {
			x := r.Intn(100)
			p0 := genPath(r, alpha, pool)
			p := ptok(p0)
			switch {
			case x < 48:
				ops = append(ops, "ins "+p+" "+genValue(r))
				pool = append(pool, p0)
			case x < 74:
				ops = append(ops, "del "+p)
			case x < 78:
				ops = append(ops, "insempty "+p)
			case x < 88:
				ops = append(ops, "get "+p)
			case x < 93:
				ops = append(ops, "iter")
			case x < 94 && idx%12 == 0:
				ops = append(ops, "insbig "+p)
			case x < 96 && idx%2 == 1:
				if idx%4 == 3 {
					// a layered store whose upper level already holds nodes and is read before it is written: the full
					// observation (lookups of every used path, iteration) follows the op at once
					ops = append(ops, fmt.Sprintf("relevel %s %s %s", []string{"mem", "pndb"}[r.Intn(2)], []string{"all", "leaves", "odd"}[r.Intn(3)], []string{"save", "mergestate"}[r.Intn(2)]), "get "+p, "iter")
				} else {
					ops = append(ops, "layer")
				}
			default:
				if !fixedVersion {
					if ver < 1<<63-8 { // versions are non-negative int64 (block rounds): never wrap
						ver += int64(r.Intn(3))
					}
					ops = append(ops, fmt.Sprintf("ver %d", ver))
				} else {
					ops = append(ops, "get "+p)
				}
			}
		}
		if idx%6 == 0 && len(pool) > 0 {
			// over-size values at interior positions (a proper prefix of a stored path, the empty path): the
			// rejection must leave no trace, not even an orphan node
			q := pool[r.Intn(len(pool))]
			if len(q) >= 2 {
				ops = append(ops, "insbig "+ptok(q[:2*r.Intn(len(q)/2)]))
			}
			ops = append(ops, "insbig "+ptok(q))
		}
		ops = append(ops, "iter")
		return ops
	}
}

// genBigValues: short histories that STORE values at the size limit of Insert: exactly MPTMaxAllowableNodeSize (read from
// lean/Verif/Gen/Constants.lean: the boundary of the code), one less, one more (rejected), lengths at which the ENCODED
// node straddles the limit (the limit is on the value, not on the node), and 2 MiB; on a leaf and on a branch (a value
// at a path that is a proper prefix of two other stored paths). One large value per case (the model hashes it per op).
func genBigValues(r *rand.Rand, k int) []string {
	max := leanConst("mptMaxAllowableNodeSize", 10*1024*1024)
	stores := []string{"mem", "level", "pndb"}
	ops := []string{fmt.Sprintf("new %s %d", stores[k%3], 1+r.Intn(4))}
	branch := (k%2 == 1) != ((k/6)%2 == 1)
	path := "ab"
	ops = append(ops, "ins cd "+genValue(r))
	overhead := 1 + 8 + 8 + len(path) + 2 // leaf: type, origin, version, prefix+path characters, two separators
	if branch {
		ops = append(ops, "ins abcd 4101", "ins abef 4102")
		overhead = 1 + 8 + 8 + 16 + 2*64 // full node: type, origin, version, 16 separators, two child keys in hex
	}
	lens := []int{max, 2 * 1024 * 1024, max - overhead + 1, max - 1, max - overhead, max - overhead - 1}
	n := lens[k%6]
	fill := byte(0x41 + r.Intn(26))
	ops = append(ops, fmt.Sprintf("insfill %s %d %02x", path, n, fill), "get "+path)
	switch r.Intn(3) {
	case 0:
		ops = append(ops, fmt.Sprintf("insfill %s %d %02x", path, max+1, fill), "iter") // rejected, the stored one stays
	case 1:
		ops = append(ops, "del "+path, "iter")
	default:
		ops = append(ops, "iter")
	}
	return ops
}

// exhaustive small scope: every history of <= 4 mutating ops over paths of length <= 4 on alphabet {a,b}
func exhMptMap(tier string, emit func([]string)) {
	if tier != "thorough" {
		return
	}
	paths := []string{"-", "aa", "ab", "ba", "aaaa", "aaab", "abaa"}
	var mops []string
	for _, p := range paths {
		mops = append(mops, "ins "+p+" 41", "del "+p)
	}
	var rec func(cur []string, depth int)
	rec = func(cur []string, depth int) {
		if depth > 0 {
			emit(append(append([]string{"new mem 1"}, cur...), "iter"))
		}
		if depth == 4 {
			return
		}
		for _, m := range mops {
			rec(append(cur, m), depth+1)
		}
	}
	rec(nil, 0)
}

func init() {
	register(&Suite{
		Name: "c01",
		Rule: "random histories of ins/del/get/iter over even-length hex paths (lengths 0,2,4,6,8,64; small alphabets; forced prefix relations) on mem/level/pndb stores with changing versions; non-trivial = at least 2 successful mutations; distinct by op text",
		Gen:  genMptMap(false),
		Run:  func(ops []string) CaseResult { return runMptMap(ops, false) },
		Exhaustive: exhMptMap,
		DefaultN: func(tier string) int {
			if tier == "thorough" {
				return 200000
			}
			return 3000
		},
	})
	register(&Suite{
		Name: "c02",
		Rule: "random single-version histories (insert, overwrite, delete, delete-then-reinsert, interior-path values); root after every op compared with an independent canonical-root computation from the sorted content; non-trivial = at least 2 successful mutations",
		Gen:  genMptMap(true),
		Run:  func(ops []string) CaseResult { return runMptMap(ops, true) },
		DefaultN: func(tier string) int {
			if tier == "thorough" {
				return 200000
			}
			return 3000
		},
	})
}
