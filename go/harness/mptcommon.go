package main

// Helpers shared by the state-trie suites (C01–C05, C14, C16, C17): store construction over the fake RocksDB,
// canonical outcome enum, independent canonical-root oracle.

import (
	"bytes"
	"context"
	"encoding/binary"
	"encoding/hex"
	"errors"
	"fmt"
	"sort"
	"strings"
	"sync/atomic"

	"github.com/0chain/common/core/logging"
	"github.com/0chain/common/core/statecache"
	"github.com/0chain/common/core/util"
	"go.uber.org/zap"
	"golang.org/x/crypto/sha3"
)

func init() {
	logging.Logger = zap.NewNop()
	logging.N2n = zap.NewNop()
}

var dirCounter int64

func freshDir(tag string) string {
	return fmt.Sprintf("fake://%s/%d", tag, atomic.AddInt64(&dirCounter, 1))
}

type sval = util.SecureSerializableValue

func mkVal(b []byte) *sval { return &sval{Buffer: b} }

// errKind maps implementation errors to the small canonical enum used on both sides of the correspondence.
func errKind(err error) string {
	switch {
	case err == nil:
		return "ok"
	case errors.Is(err, util.ErrValueNotPresent):
		return "notpresent"
	case errors.Is(err, util.ErrNodeNotFound):
		return "nodenotfound"
	case errors.Is(err, util.ErrIteratingChildNodes):
		return "iterchild"
	case errors.Is(err, util.ErrMissingNodes):
		return "missingnodes"
	case strings.Contains(err.Error(), "maximum permissible size"):
		return "toolarge"
	case strings.Contains(err.Error(), "invalid hex path"):
		return "invalidpath"
	case strings.Contains(err.Error(), "optimistic lock failure"):
		return "stale"
	default:
		return "err"
	}
}

// guard runs f and converts a panic into the outcome "panic".
func guard(f func() string) (out string) {
	defer func() {
		if r := recover(); r != nil {
			out = "panic"
		}
	}()
	return f()
}

func newMPT(db util.NodeDB, version int64, root util.Key) *util.MerklePatriciaTrie {
	return util.NewMerklePatriciaTrie(db, util.Sequence(version), root, statecache.NewEmpty())
}

type pair struct {
	path string
	val  []byte
}

// iterPairs returns the (path,value) pairs in the order the implementation's iteration emits them.
func iterPairs(mpt *util.MerklePatriciaTrie) ([]pair, error) {
	var ps []pair
	err := mpt.Iterate(context.Background(), func(ctx context.Context, path util.Path, key util.Key, node util.Node) error {
		if node == nil {
			return nil
		}
		vn, ok := node.(*util.ValueNode)
		if !ok {
			return nil
		}
		ps = append(ps, pair{string(append([]byte(nil), path...)), append([]byte(nil), vn.GetValueBytes()...)})
		return nil
	}, util.NodeTypeValueNode)
	return ps, err
}

// iterPairsMask is iterPairs with an arbitrary node-type mask: only the value callbacks are collected.
func iterPairsMask(mpt *util.MerklePatriciaTrie, mask byte) ([]pair, error) {
	var ps []pair
	err := mpt.Iterate(context.Background(), func(ctx context.Context, path util.Path, key util.Key, node util.Node) error {
		if node == nil {
			return nil
		}
		vn, ok := node.(*util.ValueNode)
		if !ok {
			return nil
		}
		ps = append(ps, pair{string(append([]byte(nil), path...)), append([]byte(nil), vn.GetValueBytes()...)})
		return nil
	}, mask)
	return ps, err
}

func fmtPairs(ps []pair) string {
	var sb strings.Builder
	for i, p := range ps {
		if i > 0 {
			sb.WriteByte(',')
		}
		if p.path == "" {
			sb.WriteByte('-')
		}
		sb.WriteString(p.path)
		sb.WriteByte('=')
		sb.WriteString(hex.EncodeToString(p.val))
	}
	return sb.String()
}

func sortedPairs(m map[string][]byte) []pair {
	var ps []pair
	for k, v := range m {
		ps = append(ps, pair{k, v})
	}
	sort.Slice(ps, func(i, j int) bool { return ps[i].path < ps[j].path })
	return ps
}

// ---------------------------------------------------------------------------------------------------------
// Independent implementation of the published node-hash format applied to the canonical trie of a content
// (oracle of C02). Shares no code with /repo: built directly from the sorted content.

func sha3sum(b []byte) []byte {
	h := sha3.New256()
	h.Write(b)
	return h.Sum(nil)
}

type cnode struct {
	kind  byte // 'L','F','E'
	path  string
	val   []byte
	ch    [16]*cnode
	child *cnode
}

func nibIdx(c byte) int {
	if c >= '0' && c <= '9' {
		return int(c - '0')
	}
	return int(c-'a') + 10
}

// canonBuild builds the canonical trie for content whose paths all start with `prefix` already stripped.
func canonBuild(ps []pair) *cnode {
	if len(ps) == 0 {
		return nil
	}
	if len(ps) == 1 {
		return &cnode{kind: 'L', path: ps[0].path, val: ps[0].val}
	}
	// common prefix
	cp := ps[0].path
	for _, p := range ps[1:] {
		i := 0
		for i < len(cp) && i < len(p.path) && cp[i] == p.path[i] {
			i++
		}
		cp = cp[:i]
	}
	if len(cp) > 0 {
		rest := make([]pair, len(ps))
		for i, p := range ps {
			rest[i] = pair{p.path[len(cp):], p.val}
		}
		return &cnode{kind: 'E', path: cp, child: canonBuild(rest)}
	}
	f := &cnode{kind: 'F'}
	groups := map[int][]pair{}
	for _, p := range ps {
		if p.path == "" {
			f.val = p.val
			continue
		}
		i := nibIdx(p.path[0])
		groups[i] = append(groups[i], pair{p.path[1:], p.val})
	}
	for i, g := range groups {
		f.ch[i] = canonBuild(g)
	}
	return f
}

func canonHash(n *cnode, prefix string, origin int64) []byte {
	var buf bytes.Buffer
	_ = binary.Write(&buf, binary.LittleEndian, origin)
	switch n.kind {
	case 'L':
		buf.WriteString(prefix)
		buf.WriteByte(':')
		buf.WriteString(n.path)
		buf.WriteByte(':')
		buf.Write(n.val)
	case 'E':
		buf.WriteString(n.path)
		buf.WriteByte(':')
		buf.Write(canonHash(n.child, prefix+n.path, origin))
	case 'F':
		for i := 0; i < 16; i++ {
			if n.ch[i] != nil {
				buf.WriteString(hex.EncodeToString(canonHash(n.ch[i], prefix+string("0123456789abcdef"[i]), origin)))
			}
			buf.WriteByte(':')
		}
		buf.Write(n.val)
	}
	return sha3sum(buf.Bytes())
}

// canonRoot is the root hash of the canonical trie holding `content`, all nodes at one origin.
func canonRoot(content map[string][]byte, origin int64) []byte {
	t := canonBuild(sortedPairs(content))
	if t == nil {
		return nil
	}
	return canonHash(t, "", origin)
}
