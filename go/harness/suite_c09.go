package main

// Suite c09 — total weight, block ownership and root follow content (op language and oracles: wmptrun.go).
//
// Histories of upd / updel / del over a pool of 32-byte keys with shared prefixes of every length, interleaved with
// commits at collapse levels -1..5 (+ batch application), GC passes (right after a commit), reloads from the last
// committed (root, weight), `weight` after every mutation (checked inside the runner), `root` (when clean and as the
// last op), `owner b` for random blocks and `owners` (every block) on clean tries. Values are unique to their key
// (finding C11-F2 is about byte-equal values under two keys and is explored by suite c11).

import (
	"fmt"
	"math/rand"
	"time"
)

type wgen struct {
	r       *rand.Rand
	pool    []string
	live    map[string][]byte // generator's own view of the content
	commitd map[string][]byte
	ops     []string
	dirty   bool
	shared  bool
}

func newWgen(r *rand.Rand, nkeys int, shared bool) *wgen {
	return &wgen{r: r, pool: wkeyPool(r, nkeys), live: map[string][]byte{}, commitd: map[string][]byte{}, shared: shared}
}

func (g *wgen) emit(f string, a ...interface{}) { g.ops = append(g.ops, fmt.Sprintf(f, a...)) }

func (g *wgen) total() int { return genTotal(g.live) }

func (g *wgen) liveKeys() []int {
	var ks []int
	for i, k := range g.pool {
		if _, ok := g.live[k]; ok {
			ks = append(ks, i)
		}
	}
	return ks
}

func (g *wgen) upd(idx int, v []byte) {
	g.emit("upd %x %x %d", g.pool[idx], v, wvalWeight(v))
	g.live[g.pool[idx]] = v
	g.dirty = true
}

func (g *wgen) mutate() {
	r := g.r
	idx := r.Intn(len(g.pool))
	key := g.pool[idx]
	old, present := g.live[key]
	switch x := r.Intn(100); {
	case x < 50 || !present && x < 80:
		g.upd(idx, wgenValue(r, idx, g.shared))
	case x < 58 && present:
		g.upd(idx, old) // re-write of the same value
	case x < 80:
		if r.Intn(2) == 0 {
			g.emit("updel %x", key)
		} else {
			g.emit("del %x", key)
		}
		if present {
			delete(g.live, key)
			g.dirty = true
			if r.Intn(4) == 0 {
				g.upd(idx, old) // delete and re-add identical content
			}
		}
	default:
		if r.Intn(2) == 0 {
			g.emit("updel %x", key)
		} else {
			g.emit("del %x", key)
		}
		if present {
			delete(g.live, key)
			g.dirty = true
		}
	}
}

func (g *wgen) commit() {
	g.emit("commit %d", g.r.Intn(8)-1)
	g.commitd = map[string][]byte{}
	for k, v := range g.live {
		g.commitd[k] = v
	}
	g.dirty = false
}

func (g *wgen) reload() {
	g.emit("reload")
	g.live = map[string][]byte{}
	for k, v := range g.commitd {
		g.live[k] = v
	}
	g.dirty = false
}

func genC09(r *rand.Rand, tier string, idx int) []string {
	nkeys := 2 + r.Intn(8)
	if tier == "thorough" && idx%7 == 0 {
		nkeys = 8 + r.Intn(12)
	}
	g := newWgen(r, nkeys, false)
	maxOps := 22
	if tier == "thorough" {
		maxOps = 50
	}
	n := 4 + r.Intn(maxOps)
	for k := 0; k < n; k++ {
		switch x := r.Intn(100); {
		case x < 62:
			g.mutate()
		case x < 76:
			g.commit()
			if r.Intn(3) == 0 {
				g.emit("gc")
			}
			if r.Intn(4) == 0 {
				g.emit("root")
			}
			if r.Intn(5) == 0 {
				g.emit("owners")
			}
		case x < 84:
			if !g.dirty {
				g.reload()
			} else {
				g.commit()
				g.reload()
			}
		case x < 88:
			g.emit("weight")
		case x < 96:
			if !g.dirty {
				if t := g.total(); t > 0 {
					g.emit("owner %d", 1+r.Intn(t+1))
				}
			}
		default:
			if !g.dirty {
				g.emit("owners")
			}
		}
	}
	switch r.Intn(3) {
	case 0:
		g.emit("root") // on a possibly dirty trie, nothing follows
		g.emit("owners")
	case 1:
		g.commit()
		g.emit("owners")
		g.reload()
		g.emit("owners")
		g.emit("root")
	default:
		g.emit("owners")
		g.emit("root")
		g.emit("weight")
	}
	return g.ops
}

func init() {
	register(&Suite{
		Name:        "c09",
		Rule:        "histories of 4..25 (thorough 4..53) ops: update / overwrite / same-value rewrite / delete (both entry points) / delete+re-add over 2..9 (thorough up to 19) 32-byte keys sharing prefixes of every length, weights 1..4 determined by the value, interleaved with commit at collapse levels -1..6, GC, reload from the committed (root, weight), weight, root, owner of random and of every block; non-trivial = at least 2 successful mutations and one commit",
		Gen:         genC09,
		Run:         runWmpt,
		CaseTimeout: 3 * time.Minute, // a stalled machine must not look like a hang; a real hang still fails the case
		DefaultN: func(tier string) int {
			if tier == "thorough" {
				return 80000
			}
			return 2000
		},
	})
}
