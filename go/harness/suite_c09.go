package main

// Suite c09 — total weight, block ownership and root follow content (op language and oracles: wmptrun.go).
//
// Histories of upd / updel / del over a pool of 32-byte keys with shared prefixes of every length, interleaved with
// commits at collapse levels -1..5 (+ batch application), GC passes (right after a commit), reloads from the last
// committed (root, weight), `weight` after every mutation (checked inside the runner), `root` (when clean and as the
// last op), `owner b` for random blocks and `owners` (every block) on clean tries. Values are unique to their key
// (finding C11-F2 is about byte-equal values under two keys and is explored by suite c11).

import (
	"fmt"
	"math/rand"
	"sort"
	"strings"
	"time"
)

type wgen struct {
	r       *rand.Rand
	pool    []string
	live    map[string][]byte // generator's own view of the content
	commitd map[string][]byte
	ops     []string
	dirty   bool
	shared  bool
}

func newWgen(r *rand.Rand, nkeys int, shared bool) *wgen {
	return &wgen{r: r, pool: wkeyPool(r, nkeys), live: map[string][]byte{}, commitd: map[string][]byte{}, shared: shared}
}

func (g *wgen) emit(f string, a ...interface{}) { g.ops = append(g.ops, fmt.Sprintf(f, a...)) }

func (g *wgen) total() int { return genTotal(g.live) }

func (g *wgen) liveKeys() []int {
	var ks []int
	for i, k := range g.pool {
		if _, ok := g.live[k]; ok {
			ks = append(ks, i)
		}
	}
	return ks
}

func (g *wgen) upd(idx int, v []byte) {
	g.emit("upd %x %x %d", g.pool[idx], v, wvalWeight(v))
	g.live[g.pool[idx]] = v
	g.dirty = true
}

func (g *wgen) mutate() {
	r := g.r
	idx := r.Intn(len(g.pool))
	key := g.pool[idx]
	old, present := g.live[key]
	switch x := r.Intn(100); {
	case x < 50 || !present && x < 80:
		g.upd(idx, wgenValue(r, idx, g.shared))
	case x < 58 && present:
		g.upd(idx, old) // re-write of the same value
	case x < 80:
		g.emit("%s %x", g.delOp(), key)
		if present {
			delete(g.live, key)
			g.dirty = true
			if r.Intn(4) == 0 {
				g.upd(idx, old) // delete and re-add identical content
			}
		}
	case x < 83:
		// API edges: keys that are not 32 bytes, a value with weight 0 (replaced at once: a trie of total weight 0 is outside the
		// reopen oracle's domain)
		switch r.Intn(4) {
		case 0:
			g.emit("updbad %s %x %d", []string{"nil", "empty", fmt.Sprintf("%x", key[:31]), fmt.Sprintf("%x00", key)}[r.Intn(4)], wgenValue(r, idx, g.shared), 1+r.Intn(4))
		case 1:
			g.emit("updbad %s - 0", []string{"nil", "empty"}[r.Intn(2)])
		case 2:
			// (Delete has no key-length check: a SHORT key that spells the path of a short node deletes the whole subtree below
			// it — reported, notes/C09.md; only the nil / empty spellings are sent here)
			g.emit("delbad %s", []string{"nil", "empty"}[r.Intn(2)])
		default:
			v := wgenValue(r, idx, g.shared)
			v2 := wgenValue(r, idx, g.shared)
			for string(v2) == string(v) || present && string(v2) == string(old) {
				v2 = wgenValue(r, idx, g.shared) // (a same-value rewrite would keep the weight 0)
			}
			g.emit("updzw %x %x %x %d", key, v, v2, wvalWeight(v2)) // both updates in ONE op: nothing can fall in between
			g.live[key] = v2
			g.dirty = true
			if r.Intn(4) == 0 {
				g.emit("upd %x %x 0", key, v) // the plain spelling is answered by a token and not executed
			}
		}
	default:
		g.emit("%s %x", g.delOp(), key)
		if present {
			delete(g.live, key)
			g.dirty = true
		}
	}
}

// delOp: the three ways to delete — Delete(key), Update(key, nil, 0), Update(key, []byte{}, 0)
func (g *wgen) delOp() string {
	return []string{"updel", "updel0", "del"}[g.r.Intn(3)]
}

func (g *wgen) commit() {
	g.emit("commit %d", g.r.Intn(8)-1)
	g.commitd = map[string][]byte{}
	for k, v := range g.live {
		g.commitd[k] = v
	}
	g.dirty = false
}

func (g *wgen) reload() {
	g.emit("reload")
	g.live = map[string][]byte{}
	for k, v := range g.commitd {
		g.live[k] = v
	}
	g.dirty = false
}

// ---- boundary weights --------------------------------------------------------------------------------------
//
// Weights are uint64 in the Go code and the weight delta of an update is an int64: histories whose weights sit at the
// boundaries of these types (total always below 2^64 — the no-overflow side condition of C09, outside of which nothing is
// claimed). The Lean model computes over unbounded naturals, so it says what the answers are.

type bigEnt struct {
	val []byte
	w   uint64
}

type bigGen struct {
	r      *rand.Rand
	pool   []string
	live   map[string]bigEnt
	commit map[string]bigEnt
	ops    []string
	dirty  bool
	serial int
}

func (g *bigGen) emit(f string, a ...interface{}) { g.ops = append(g.ops, fmt.Sprintf(f, a...)) }

func (g *bigGen) total() uint64 {
	var t uint64
	for _, e := range g.live {
		t += e.w
	}
	return t
}

// pickWeight draws from the boundary set; `rest` fills the total up to 2^64-1. The result keeps the total below 2^64.
func (g *bigGen) pickWeight(others uint64) uint64 {
	room := ^uint64(0) - others // the largest weight that keeps the total at most 2^64-1
	cands := []uint64{1, 2, 1 << 31, 1 << 32, 1 << 62, 1<<63 - 1, 1 << 63, 1<<63 + 1, room, room - 1, room / 2, 3, 105}
	for try := 0; try < 8; try++ {
		w := cands[g.r.Intn(len(cands))]
		if w >= 1 && w <= room {
			return w
		}
	}
	if room == 0 {
		return 0
	}
	return 1
}

func (g *bigGen) upd(idx int) {
	key := g.pool[idx]
	var others uint64
	for k, e := range g.live {
		if k != key {
			others += e.w
		}
	}
	w := g.pickWeight(others)
	if w == 0 {
		return
	}
	if old, ok := g.live[key]; ok && g.r.Intn(3) == 0 {
		// re-weight across 2^63: up if the key is below, down if above
		if room := ^uint64(0) - others; old.w < 1<<63 && room >= 1<<63 {
			w = 1 << 63
			if room > 1<<63 && g.r.Intn(2) == 0 {
				w++
			}
		} else if old.w >= 1<<63 {
			w = []uint64{1, 1<<63 - 1, 1 << 62}[g.r.Intn(3)]
		}
	}
	g.serial++
	val := []byte{byte(g.serial), byte(g.serial >> 8), byte(idx), 0xbb} // a new value every time: a same-value rewrite keeps the old weight
	g.emit("upd %x %x %d", key, val, w)
	g.live[key] = bigEnt{val, w}
	g.dirty = true
}

// boundary blocks of the generator's view of the content: first / last block of every interval, and total + 1
func (g *bigGen) ownersAt() {
	keys := make([]string, 0, len(g.live))
	for k := range g.live {
		keys = append(keys, k)
	}
	sort.Strings(keys)
	var bs []string
	var cum uint64
	for _, k := range keys {
		w := g.live[k].w
		bs = append(bs, fmt.Sprintf("%d", cum+1))
		if w > 1 {
			bs = append(bs, fmt.Sprintf("%d", cum+w))
			if w > 2 {
				bs = append(bs, fmt.Sprintf("%d", cum+1+uint64(g.r.Int63())%(w-1)))
			}
		}
		cum += w
	}
	if cum < ^uint64(0) {
		bs = append(bs, fmt.Sprintf("%d", cum+1)) // beyond the total: range
	}
	if len(bs) == 0 {
		bs = []string{"1"}
	}
	g.emit("ownersat %s", strings.Join(bs, ","))
}

func (g *bigGen) doCommit() {
	g.emit("commit %d", g.r.Intn(8)-1)
	g.commit = map[string]bigEnt{}
	for k, e := range g.live {
		g.commit[k] = e
	}
	g.dirty = false
}

func genC09Big(r *rand.Rand, tier string, idx int) []string {
	g := &bigGen{r: r, pool: wkeyPool(r, 2+r.Intn(6)), live: map[string]bigEnt{}, commit: map[string]bigEnt{}}
	// a few small entries first, so that the boundary weights arrive below existing branches
	for k := 0; k < 1+r.Intn(3); k++ {
		i := r.Intn(len(g.pool))
		g.serial++
		val := []byte{byte(g.serial), 0, byte(i), 0xaa}
		w := uint64(1 + r.Intn(200))
		if _, ok := g.live[g.pool[i]]; !ok {
			g.emit("upd %x %x %d", g.pool[i], val, w)
			g.live[g.pool[i]] = bigEnt{val, w}
			g.dirty = true
		}
	}
	n := 4 + r.Intn(14)
	for k := 0; k < n; k++ {
		switch x := r.Intn(100); {
		case x < 50:
			g.upd(r.Intn(len(g.pool)))
			if r.Intn(3) == 0 {
				g.emit("weight")
			}
		case x < 62:
			key := g.pool[r.Intn(len(g.pool))]
			if r.Intn(2) == 0 {
				g.emit("updel %x", key)
			} else {
				g.emit("del %x", key)
			}
			if _, ok := g.live[key]; ok {
				delete(g.live, key)
				g.dirty = true
			}
		case x < 76:
			g.doCommit()
			if r.Intn(3) == 0 {
				g.emit("gc")
			}
			g.ownersAt()
		case x < 84:
			if g.dirty {
				g.doCommit()
			}
			g.emit("reload")
			g.live = map[string]bigEnt{}
			for k, e := range g.commit {
				g.live[k] = e
			}
		case x < 92:
			g.ownersAt()
		default:
			g.emit("root")
		}
	}
	g.emit("weight")
	g.ownersAt()
	g.emit("root")
	if r.Intn(2) == 0 {
		g.doCommit()
		g.ownersAt()
	}
	return g.ops
}

func genC09(r *rand.Rand, tier string, idx int) []string {
	if idx%4 == 3 {
		return genC09Big(r, tier, idx)
	}
	nkeys := 2 + r.Intn(8)
	if tier == "thorough" && idx%7 == 0 {
		nkeys = 8 + r.Intn(12)
	}
	g := newWgen(r, nkeys, false)
	maxOps := 22
	if tier == "thorough" {
		maxOps = 50
	}
	n := 4 + r.Intn(maxOps)
	for k := 0; k < n; k++ {
		switch x := r.Intn(100); {
		case x < 62:
			g.mutate()
		case x < 76:
			g.commit()
			if r.Intn(3) == 0 {
				g.emit("gc")
			}
			if r.Intn(4) == 0 {
				g.emit("root")
			}
			if r.Intn(5) == 0 {
				g.emit("owners")
			}
		case x < 84:
			if !g.dirty {
				g.reload()
			} else {
				g.commit()
				g.reload()
			}
		case x < 88:
			g.emit("weight")
		case x < 96:
			if !g.dirty {
				if t := g.total(); t > 0 {
					g.emit("owner %d", 1+r.Intn(t+1))
				}
			}
		default:
			if !g.dirty {
				g.emit("owners")
			}
		}
	}
	switch r.Intn(3) {
	case 0:
		g.emit("root") // on a possibly dirty trie, nothing follows
		g.emit("owners")
	case 1:
		g.commit()
		g.emit("owners")
		g.reload()
		g.emit("owners")
		g.emit("root")
	default:
		g.emit("owners")
		g.emit("root")
		g.emit("weight")
	}
	return g.ops
}

func init() {
	register(&Suite{
		Name:        "c09",
		Rule:        "histories of 4..25 (thorough 4..53) ops: update / overwrite / same-value rewrite / delete (Delete, Update with nil, Update with an empty non-nil slice; present and absent keys) / keys that are not 32 bytes (nil, empty, 31, 33 bytes) / a value of weight 0 / delete+re-add over 2..9 (thorough up to 19) 32-byte keys sharing prefixes of every length, weights 1..4 determined by the value (every fourth case: weights from the boundary set {1, 2, 3, 105, 2^31, 2^32, 2^62, 2^63-1, 2^63, 2^63+1, 2^64-1-others and neighbours} with the total below 2^64, re-weighting across 2^63 in both directions, owners checked at the first / last / an inner block of every interval and beyond the total), interleaved with commit at collapse levels -1..6, GC, reload from the committed (root, weight), weight, root, owner of random and of every block; non-trivial = at least 2 successful mutations and one commit",
		Gen:         genC09,
		Run:         runWmpt,
		CaseTimeout: 3 * time.Minute, // a stalled machine must not look like a hang; a real hang still fails the case
		DefaultN: func(tier string) int {
			if tier == "thorough" {
				return 80000
			}
			return 2000
		},
	})
}
