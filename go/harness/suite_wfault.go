package main

// Suite wfault — the weighted trie under injected storage failures (op language, retry protocol and oracles: wmptrun.go).
//
// The histories of the suites c11 (commit / GC / reload / reopen), c12 (path export / import / mirrored updates) and c13
// (checkpoint / commit / rollback) with one-shot storage failures armed at chosen points: the k-th next Get, batch Put,
// batch Delete or batch Commit fails, k swept over the case index. An operation that reports the error is retried by the
// runner; after the retry, and for every later operation (commit, GC passes, reopen from (root, weight), proofs, exports),
// the ordinary oracles apply. No Lean model follows these histories (the model's storage does not fail): oracle only.

import (
	"fmt"
	"math/rand"
	"strings"
	"time"
)

var faultClasses = []string{"get", "bput", "bcommit", "bdel"}

// insertBefore puts `extra` before the first op at or after position `from` whose first word is in `words`.
func insertBefore(ops []string, from int, words string, extra ...string) ([]string, int) {
	for i := from; i < len(ops); i++ {
		w := strings.Fields(ops[i])[0]
		if strings.Contains(" "+words+" ", " "+w+" ") {
			out := append([]string(nil), ops[:i]...)
			out = append(out, extra...)
			return append(out, ops[i:]...), i + len(extra)
		}
	}
	return ops, -1
}

func genWfault(r *rand.Rand, tier string, idx int) []string {
	k := 1 + (idx/12)%12 // the k-th call fails: swept 1..12
	if idx%12 == 5 {
		// directed: a trie whose root is not a branch (one key, or keys sharing their first nibbles): Commit walks it
		// sequentially, leaves first; the FIRST batch Put fails, the commit is retried — nothing may be lost
		pool := wkeyPool(r, 1+r.Intn(3))
		base := nibblesOf(pool[0])
		share := 1 + r.Intn(4)
		for i, kk := range pool {
			nb := nibblesOf(kk)
			copy(nb[:share], base[:share])
			b := make([]byte, 32)
			for j := range b {
				b[j] = nb[2*j]<<4 | nb[2*j+1]
			}
			pool[i] = string(b)
		}
		g := &wgen{r: r, pool: pool, live: map[string][]byte{}, commitd: map[string][]byte{}}
		for i := range pool {
			g.upd(i, wgenValue(r, i, false))
		}
		if r.Intn(2) == 0 {
			g.commit()
			if r.Intn(2) == 0 {
				g.reload()
			}
			g.upd(r.Intn(len(pool)), wgenValue(r, 0, false))
		}
		g.emit("fault bput 1")
		g.commit()
		g.emit("owners")
		g.reload()
		g.emit("owners")
		g.upd(r.Intn(len(pool)), wgenValue(r, 1, false))
		g.emit("fault bput %d", 1+r.Intn(3))
		g.commit()
		g.emit("owners")
		return g.ops
	}
	switch idx % 4 {
	case 0, 1: // commit / GC / reload histories: failures anywhere
		ops := genC11(r, tier, idx)
		class := faultClasses[(idx/4)%len(faultClasses)]
		n := 1 + r.Intn(2)
		for j := 0; j < n; j++ {
			words := "upd updel del commit gc owners owner proof"
			switch class {
			case "bput", "bcommit":
				words = "commit"
			case "bdel":
				words = "gc"
			}
			kk := k
			if class != "get" && class != "bput" {
				kk = 1 + k%2
			}
			from := r.Intn(len(ops))
			arm := []string{fmt.Sprintf("fault %s %d", class, kk)}
			if class == "get" {
				// reads fail only where the trie holds references: commit at a low collapse level and reopen first
				arm = []string{fmt.Sprintf("commit %d", r.Intn(3)-1), "reload", arm[0]}
				if r.Intn(3) == 0 {
					arm = arm[1:] // … or only reopen (uncommitted changes are dropped)
				}
			}
			ops, _ = insertBefore(ops, from, words, arm...)
			class = faultClasses[r.Intn(len(faultClasses))]
		}
		return append(ops, "nofault", "owners", "root")
	case 2: // path export from a trie whose subtrees are references: a Get fails while GetPath resolves them
		ops := genC12(r, tier, 5*idx) // shapes 0: branch root
		var gp string
		for _, o := range ops {
			if strings.HasPrefix(o, "getpath ") {
				gp = o
			}
		}
		// make sure the source holds references: commit at a collapse level and reload before the export
		ops, at := insertBefore(ops, 0, "getpath", fmt.Sprintf("commit %d", r.Intn(4)-1), "reload", fmt.Sprintf("fault get %d", k))
		if at < 0 || gp == "" {
			return ops
		}
		// afterwards the source trie must still be whole: owners, a second export of the same keys, its import
		return append(ops, "nofault", "owners", gp, "import", "root")
	default: // checkpoint / commit / rollback: the clean-up batch of the rollback fails, or the commit's batch does
		ops := genC13(r, tier, idx)
		switch (idx / 4) % 3 {
		case 0:
			ops, _ = insertBefore(ops, 0, "rollback rollbacktrie", "fault bcommit 1")
		case 1:
			ops, _ = insertBefore(ops, 0, "rollback rollbacktrie", fmt.Sprintf("fault bdel %d", 1+k%3))
		default:
			var at int
			ops, at = insertBefore(ops, 0, "saveroot")
			ops, _ = insertBefore(ops, at+1, "commit commit2", fmt.Sprintf("fault %s %d", []string{"bput", "get", "bcommit"}[k%3], k))
		}
		// GC passes after the rollback must not touch the checkpoint
		var at int
		ops, at = insertBefore(ops, 0, "rollback rollbacktrie")
		if at >= 0 && at+1 <= len(ops) {
			rest := append([]string(nil), ops[at+1:]...)
			ops = append(append(ops[:at+1], "nofault", "gc", "gc", "owners"), rest...)
		}
		return ops
	}
}

func init() {
	register(&Suite{
		Name:        "wfault",
		Rule:        "histories of the suites c11 / c12 / c13 with one-shot storage failures: the k-th next Get / batch Put / batch Delete / batch Commit fails, k swept 1..12 over the case index, armed before updates, deletes, commits, GC passes, reads, path exports (from tries whose subtrees are references), rollbacks; an operation that reports the error is retried, then — and after every later commit, GC pass, reopen, proof, export — the ordinary oracles apply; non-trivial = at least 2 mutations and one commit",
		Gen:         genWfault,
		Run:         runWmpt,
		CaseTimeout: 3 * time.Minute,
		DefaultN: func(tier string) int {
			if tier == "thorough" {
				return 40000
			}
			return 1200
		},
	})
}
