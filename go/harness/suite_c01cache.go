package main

// Suite c01cache: the trie's node cache (getNode: TransactionCache first, then the store) is transparent.
//
//	new <mem|pndb> <version> | ver <n> | ins <path> <hex> | del <path>     build a trie (as in c01 / c17)
//	snap                 freeze: "ok <root|-> <n>" (n = nodes reachable from the root, pre-order)
//	cwarm orig           the following c* ops go through the trie that executed the history (its cache was filled by
//	                     insertNode / deleteNode)                                      -> ok
//	cwarm fresh          ... through a trie opened now on the store (empty cache, filled by its own reads)     -> ok
//	crm <i,j,...>        delete these nodes (pre-order indexes as in c17) from the store IN PLACE, under the tries,
//	                     without telling them (cumulative)                             -> "ok <sorted named keys|->"
//	crmsub <i>           as crm, the node and everything below it
//	crestore             put every removed node back, in place                         -> ok
//	cget <path>          GetNodeValueRaw through the selected trie   -> "ok <hex>" | notpresent | nodenotfound
//	chas                 HasMissingNodes through the selected trie   -> true | false
//	citer                Iterate (values) through the selected trie  -> "ok <pairs>" | iterchild | nodenotfound
//	ckeys                the selected trie's cache: every key for which cache.Get hits, with a digest of the cached
//	                     node's encoding                             -> "ok <key=sha3(enc)[:8],...|->"
//	fget <path> | fhas   the same queries through a brand-new trie (empty cache) over the store as it is now
//
// Oracle (independent of the code under test: own parser of the stored bytes, own walk of (store snapshot, root), the
// history's map): a fresh trie answers exactly what the walk of the damaged store gives (C17); a trie with a warm
// cache answers nodenotfound or the history's map answer, never anything else; whenever the fresh trie's answer is not
// nodenotfound the warm trie answers the same; HasMissingNodes through the warm trie can only turn true into false;
// with nothing removed both tries agree with the map.  The exact answers of the warm trie (which nodes the cache
// masks) are compared with the Lean model's lookupC / hasMissingC / iterC run on the same cache contents.

import (
	"bytes"
	"fmt"
	"math/rand"
	"sort"
	"strconv"
	"strings"

	"github.com/0chain/common/core/util"
	"github.com/linxGnu/grocksdb"
)

type ccState struct {
	c17      c17State // kind, db, dir, content, version, full, root, order
	orig     *util.MerklePatriciaTrie
	warm     *util.MerklePatriciaTrie // trie of the last `cwarm fresh`
	selOrig  bool
	backup   *util.MemoryNodeDB // node objects of the frozen store (mem restore)
	universe map[string]bool    // every key a store snapshot ever showed
	curRaw   rawStore
	removed  map[string]bool
}

func (st *ccState) sel() *util.MerklePatriciaTrie {
	if st.selOrig {
		return st.orig
	}
	return st.warm
}

func (st *ccState) snapshot() rawStore {
	if st.c17.dir != "" {
		return rawStore(grocksdb.FakeSnapshot(st.c17.dir, "default"))
	}
	s, _ := snapshotDB(st.c17.db)
	return s
}

func (st *ccState) note(s rawStore) {
	for k := range s {
		st.universe[k] = true
	}
}

func cacheKeys(mpt *util.MerklePatriciaTrie, universe map[string]bool) string {
	var parts []string
	for k := range universe {
		v, ok := mpt.Cache().Get(k)
		if !ok {
			continue
		}
		n, isNode := v.(util.Node)
		if !isNode {
			parts = append(parts, hx([]byte(k))+"=notanode")
			continue
		}
		parts = append(parts, hx([]byte(k))+"="+hx(sha3sum(n.Encode())[:8]))
	}
	if len(parts) == 0 {
		return "-"
	}
	sort.Strings(parts)
	return strings.Join(parts, ",")
}

func runC01Cache(ops []string) CaseResult {
	var st *ccState
	res := CaseResult{}
	tags := map[string]bool{}
	masked, damagedQueries := 0, 0
	for i, op := range ops {
		fail := func(f string, a ...interface{}) {
			if len(res.Fails) < 20 {
				res.Fails = append(res.Fails, fmt.Sprintf("op %d (%s): ", i, op)+fmt.Sprintf(f, a...))
			}
		}
		f := strings.Fields(op)
		var out string
		if st == nil && f[0] != "new" {
			res.Outs = append(res.Outs, "bad-op")
			res.Fails = append(res.Fails, "harness: op before new: "+op)
			continue
		}
		if st != nil && f[0] != "new" {
			building := f[0] == "ver" || f[0] == "ins" || f[0] == "del" || f[0] == "snap"
			if st.c17.snapped == building {
				res.Outs = append(res.Outs, "bad-op")
				res.Fails = append(res.Fails, "harness: op out of phase: "+op)
				continue
			}
		}
		c := func() *c17State { return &st.c17 }
		switch f[0] {
		case "new":
			v, _ := strconv.ParseInt(f[2], 10, 64)
			st = &ccState{universe: map[string]bool{}, removed: map[string]bool{}, selOrig: true}
			st.c17 = c17State{kind: f[1], content: map[string][]byte{}, version: v, used: map[string]bool{}}
			if f[1] == "pndb" {
				st.c17.dir = freshDir("c01cache")
				st.c17.dirs = append(st.c17.dirs, st.c17.dir)
				db, err := util.NewPNodeDB(st.c17.dir, "")
				if err != nil {
					panic(err)
				}
				st.c17.db = db
			} else {
				st.c17.db = util.NewMemoryNodeDB()
			}
			st.orig = newMPT(st.c17.db, v, nil)
			tags["store:"+f[1]] = true
			out = "ok"
		case "ver":
			v, _ := strconv.ParseInt(f[1], 10, 64)
			if v != c().version {
				tags["multi-version"] = true
			}
			c().version = v
			st.orig.SetVersion(util.Sequence(v))
			out = "ok"
		case "ins", "del":
			path := pathOf(f[1])
			var val []byte
			if f[0] == "ins" {
				val = unhx(f[2])
			}
			out = guard(func() string {
				var k util.Key
				var err error
				if f[0] == "del" {
					k, err = st.orig.Delete([]byte(path))
				} else {
					k, err = st.orig.Insert([]byte(path), mkVal(append([]byte(nil), val...)))
				}
				if err != nil {
					return errKind(err)
				}
				return "ok " + rootStr(k)
			})
			if strings.HasPrefix(out, "ok") {
				if f[0] == "ins" {
					c().content[path] = val
				} else {
					delete(c().content, path)
					tags["history-with-delete"] = true
				}
			}
			st.note(st.snapshot())
		case "snap":
			c().root = append([]byte(nil), st.orig.GetRoot()...)
			c().full = st.snapshot()
			st.note(c().full)
			order, absent, err := walkReach(c().full, c().root)
			if err != nil || len(absent) > 0 {
				fail("the undamaged store is incomplete: %v %s", err, fmtKeys(absent))
			}
			c().order = order
			c().snapped = true
			st.curRaw = c().full.clone()
			st.backup = util.NewMemoryNodeDB()
			for k := range c().full {
				if n, err := c().db.GetNode(util.Key(k)); err == nil {
					_ = st.backup.PutNode(util.Key(k), n)
				}
			}
			st.warm = newMPT(c().db, c().version, c().root)
			out = fmt.Sprintf("ok %s %d", rootStr(c().root), len(order))
			tags[fmt.Sprintf("nodes:%02d", sizeBucket(len(order)))] = true
		case "cwarm":
			st.selOrig = f[1] == "orig"
			if !st.selOrig {
				st.warm = newMPT(c().db, c().version, c().root)
			}
			tags["through:"+f[1]] = true
			out = "ok"
		case "crm", "crmsub":
			var idxs []int
			if f[0] == "crm" {
				for _, s := range strings.Split(f[1], ",") {
					x, _ := strconv.Atoi(s)
					if j := c().indexOf(x); j > 0 {
						idxs = append(idxs, j)
					}
				}
			} else {
				x, _ := strconv.Atoi(f[1])
				if j := c().indexOf(x); j > 0 {
					idxs = c().subtree(j)
				}
			}
			var named []string
			for _, j := range idxs {
				k := c().order[j].key
				named = append(named, k)
				if st.removed[k] {
					continue
				}
				st.removed[k] = true
				delete(st.curRaw, k)
				if c().dir != "" {
					grocksdb.FakeRawDelete(c().dir, []byte(k))
				} else if err := c().db.DeleteNode(util.Key(k)); err != nil {
					fail("DeleteNode on the store failed: %v", err)
				}
			}
			out = "ok " + fmtKeys(named)
		case "crestore":
			for k := range st.removed {
				if c().dir != "" {
					grocksdb.FakeRawPut(c().dir, []byte(k), c().full[k])
				} else if n, err := st.backup.GetNode(util.Key(k)); err == nil {
					_ = c().db.PutNode(util.Key(k), n)
				} else {
					fail("backup lost node %s", hx([]byte(k)))
				}
				st.curRaw[k] = c().full[k]
			}
			st.removed = map[string]bool{}
			out = "ok"
		case "cget", "fget":
			path := pathOf(f[1])
			mapAns := "notpresent"
			if v, ok := c().content[path]; ok {
				mapAns = "ok " + hx(v)
			}
			freshWant := expectedLookup(st.curRaw, c().root, path, c().content)
			if f[0] == "fget" {
				out = getStr(newMPT(c().db, c().version, c().root), path)
				if out != freshWant {
					fail("lookup through a fresh trie = %q, the walk of the store gives %q", out, freshWant)
				}
				break
			}
			out = getStr(st.sel(), path)
			if len(st.removed) > 0 {
				damagedQueries++
			}
			if out != "nodenotfound" && out != mapAns {
				fail("lookup through the warm trie = %q; the content is %q (fresh trie: %q)", out, mapAns, freshWant)
			}
			if freshWant != "nodenotfound" && out != freshWant {
				fail("lookup through the warm trie = %q, but the store alone answers %q", out, freshWant)
			}
			if freshWant == "nodenotfound" && out != "nodenotfound" {
				masked++
				tags["masked-lookup"] = true
			} else if freshWant == "nodenotfound" {
				tags["unmasked-nodenotfound"] = true
			}
		case "chas", "fhas":
			_, absent, _ := walkReach(st.curRaw, c().root)
			freshWant := strconv.FormatBool(len(absent) > 0)
			if f[0] == "fhas" {
				out = hasMissingStr(newMPT(c().db, c().version, c().root))
				if out != freshWant {
					fail("HasMissingNodes through a fresh trie = %s, want %s", out, freshWant)
				}
				break
			}
			out = hasMissingStr(st.sel())
			if len(st.removed) > 0 {
				damagedQueries++
			}
			if out != "true" && out != "false" {
				fail("HasMissingNodes through the warm trie = %s", out)
			}
			if out == "true" && freshWant == "false" {
				fail("HasMissingNodes through the warm trie = true although the store is complete")
			}
			if out == "false" && freshWant == "true" {
				masked++
				tags["masked-hasmissing"] = true
			}
		case "citer":
			out = iterStr(st.sel())
			_, absent, _ := walkReach(st.curRaw, c().root)
			want := "ok " + fmtPairs(sortedPairs(c().content))
			if len(absent) == 0 && out != want {
				fail("iteration through the warm trie = %q, want %q", out, want)
			}
			if strings.HasPrefix(out, "ok") && out != want {
				fail("iteration through the warm trie succeeded with %q, the content is %q", out, want)
			}
			if len(absent) > 0 && out == want {
				masked++
				tags["masked-iteration"] = true
			}
		case "ckeys":
			out = "ok " + cacheKeys(st.sel(), st.universe)
			// every cached node is a node of the history, under its own hash
			for k := range st.universe {
				if v, ok := st.sel().Cache().Get(k); ok {
					if n, isNode := v.(util.Node); !isNode || !bytes.Equal(n.GetHashBytes(), []byte(k)) {
						fail("cache entry %s is not a node stored under its own hash", hx([]byte(k)))
					}
				}
			}
		default:
			panic("unknown op " + op)
		}
		if out == "panic" {
			fail("operation panicked")
		}
		res.Outs = append(res.Outs, out)
	}
	if st != nil {
		for _, d := range st.c17.dirs {
			grocksdb.FakeReset(d)
		}
	}
	if masked > 0 {
		tags["masking-observed"] = true
	}
	for t := range tags {
		res.Tags = append(res.Tags, t)
	}
	res.Nontrivial = damagedQueries > 0
	return res
}

func genC01Cache(r *rand.Rand, tier string, idx int) []string {
	kind := []string{"mem", "pndb"}[idx%2]
	ver := int64(1 + r.Intn(5))
	ops := []string{fmt.Sprintf("new %s %d", kind, ver)}
	alpha := pathAlphabets[r.Intn(len(pathAlphabets))]
	maxOps := 10
	if tier == "thorough" {
		maxOps = 20
	}
	n := 2 + r.Intn(maxOps-1)
	var pool []string
	inserts := 0
	for k := 0; k < n; k++ {
		x := r.Intn(100)
		p0 := genPath(r, alpha, pool)
		p := ptok(p0)
		switch {
		case x < 70 || inserts == 0:
			ops = append(ops, "ins "+p+" "+genValue(r))
			pool = append(pool, p0)
			inserts++
		case x < 88:
			ops = append(ops, "del "+p)
		default:
			ver += int64(1 + r.Intn(3))
			ops = append(ops, fmt.Sprintf("ver %d", ver))
		}
	}
	ops = append(ops, "snap")
	bound := 2 * inserts
	pick := func() string {
		if r.Intn(4) == 0 || len(pool) == 0 {
			return ptok(genPath(r, alpha, pool))
		}
		return ptok(pool[r.Intn(len(pool))])
	}
	damage := func() {
		switch r.Intn(3) {
		case 0:
			ops = append(ops, fmt.Sprintf("crm %d", r.Intn(bound+1)))
		case 1:
			ops = append(ops, fmt.Sprintf("crmsub %d", r.Intn(bound+1)))
		default:
			var xs []string
			for k, m := 0, 2+r.Intn(3); k < m; k++ {
				xs = append(xs, strconv.Itoa(r.Intn(bound+1)))
			}
			ops = append(ops, "crm "+strings.Join(xs, ","))
		}
	}
	queries := func(k int) {
		for j := 0; j < k; j++ {
			switch r.Intn(8) {
			case 0:
				ops = append(ops, "chas", "fhas")
			case 1:
				ops = append(ops, "citer")
			case 2:
				ops = append(ops, "ckeys")
			default:
				p := pick()
				ops = append(ops, "cget "+p, "fget "+p)
			}
		}
	}
	groups := 3
	if tier == "thorough" {
		groups = 6
	}
	for g := 0; g < groups; g++ {
		switch r.Intn(3) {
		case 0:
			// the writing trie: its cache holds every node it wrote
			ops = append(ops, "cwarm orig", "ckeys")
		case 1:
			// a reader that has read a few paths before the damage
			ops = append(ops, "cwarm fresh")
			for j, m := 0, 1+r.Intn(3); j < m; j++ {
				ops = append(ops, "cget "+pick())
			}
			ops = append(ops, "ckeys")
		default:
			// a reader that has walked everything before the damage
			ops = append(ops, "cwarm fresh", []string{"chas", "citer"}[r.Intn(2)], "ckeys")
		}
		damage()
		queries(3 + r.Intn(4))
		if r.Intn(2) == 0 {
			damage()
			queries(2 + r.Intn(3))
		}
		ops = append(ops, "ckeys", "chas", "fhas")
		if r.Intn(3) > 0 {
			ops = append(ops, "crestore", "chas", "cget "+pick(), "ckeys")
		}
	}
	return ops
}

func init() {
	register(&Suite{
		Name: "c01cache",
		Rule: "random multi-version tries (inserts and deletes) on memory and persistent stores; the store is damaged IN PLACE (single nodes, scattered sets, subtrees; cumulative; sometimes restored) under the trie that wrote the history (cache filled by insertNode/deleteNode) and under reader tries whose cache was warmed by a few lookups or by a full walk; every lookup, HasMissingNodes, iteration and the cache's key set (with a digest of each cached node) is compared with the Lean model run on the same cache contents, and the same queries through a brand-new trie with the walk of the stored bytes; non-trivial = at least one query through a warm trie over a damaged store",
		Gen:  genC01Cache,
		Run:  runC01Cache,
		Exhaustive: func(tier string, emit func([]string)) {
			// every trie holding 1..3 of these keys, every single non-root node and every subtree removed under the
			// writer and under a reader that has read one path / everything
			paths := []string{"-", "aa", "ab", "ba", "aaaa", "aaab"}
			var rec func(start int, cur []string)
			rec = func(start int, cur []string) {
				if len(cur) > 0 {
					for _, store := range []string{"mem", "pndb"} {
						for j := 0; j < 2*len(cur); j++ {
							for _, sub := range []string{"crm", "crmsub"} {
								base := []string{"new " + store + " 1"}
								for i, p := range cur {
									if i == 1 {
										base = append(base, "ver 3")
									}
									base = append(base, fmt.Sprintf("ins %s 4%d", p, i))
								}
								base = append(base, "snap")
								for _, warm := range [][]string{{"cwarm orig"}, {"cwarm fresh", "cget " + cur[0]}, {"cwarm fresh", "chas"}} {
									ops := append(append([]string(nil), base...), warm...)
									ops = append(ops, "ckeys", fmt.Sprintf("%s %d", sub, j))
									for _, p := range paths {
										ops = append(ops, "cget "+p, "fget "+p)
									}
									ops = append(ops, "chas", "fhas", "citer", "ckeys", "crestore", "chas", "citer")
									emit(ops)
								}
							}
						}
					}
				}
				if len(cur) == 3 {
					return
				}
				for i := start; i < len(paths); i++ {
					rec(i+1, append(append([]string(nil), cur...), paths[i]))
				}
			}
			if tier == "thorough" {
				rec(0, nil)
			}
		},
		DefaultN: func(tier string) int {
			if tier == "thorough" {
				return 5000
			}
			return 300
		},
	})
}
