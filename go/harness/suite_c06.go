package main

// Suite c06 — "State cache never returns a wrong value for a block" (core/statecache). Op language and oracle: see
// sccommon.go. Generator: block trees with forks, gaps, duplicate hashes, out-of-order commits, chains crossing
// maxHisDepth, removals, uncommitted and abandoned transactions / blocks, lookups at old and sibling blocks
// interleaved with the tip at all four layers (transaction, block, query, state).

import (
	"fmt"
	"math/rand"
)

type c06gBlock struct {
	bid, hash, prev string
	committed       bool
	txns            []string
	private         bool // on a state cache of its own (op fblk): never re-hashed
}

type c06gen struct {
	thorough bool
	noRemove bool // suite c07: StateCache.Remove is C06's subject (open finding C06-remove-out-of-order)
	r      *rand.Rand
	ops    []string
	keys   []string
	blocks []*c06gBlock
	txns   []string // all txn ids (block and query transactions)
	nb, nt int
	vc     int
	hashes []string // every hash ever mentioned (for lookups), including unknown ones
	node   bool
	adv    bool     // adversarial names: hashes / keys of different lengths, prefixes and suffixes of one string
	hpool  []string // hashes still to hand out in adversarial mode
}

// initAdv replaces the fixed-format names (h<n>, k<n>) by names that collide under every naive way of combining a block
// hash with a key: all hashes and keys are prefixes / suffixes of ONE random string over an alphabet that contains the
// usual separator characters, so that h1+k1 == h2+k2 (and k1+h1 == k2+h2, and with a separator in between) for several
// pairs on purpose; a key equal to a hash; the empty key (token "-").
func (g *c06gen) initAdv() {
	g.adv = true
	r := g.r
	alpha := []string{"a", "a", "b", "b", "1", ":", "/", "|", ".", "_", "#", ","}
	n := 4 + r.Intn(3)
	s := ""
	for i := 0; i < n; i++ {
		s += alpha[r.Intn(len(alpha))]
	}
	seen := map[string]bool{"-": true, "": true}
	var names []string
	add := func(x string) {
		if !seen[x] {
			seen[x] = true
			names = append(names, x)
		}
	}
	// two splits of s first: h1+k1 == h2+k2 == s
	i := 1 + r.Intn(n-1)
	j := 1 + r.Intn(n-1)
	for j == i {
		j = 1 + r.Intn(n-1)
	}
	g.hpool = nil
	g.keys = nil
	for _, c := range []int{i, j} {
		add(s[:c])
		g.hpool = append(g.hpool, s[:c])
		g.keys = append(g.keys, s[c:])
	}
	for c := 1; c < n; c++ {
		add(s[:c])
		add(s[c:])
	}
	add(s)
	r.Shuffle(len(names), func(a, b int) { names[a], names[b] = names[b], names[a] })
	for _, x := range names {
		dup := false
		for _, h := range g.hpool {
			dup = dup || h == x
		}
		if !dup {
			g.hpool = append(g.hpool, x)
		}
	}
	// keys: the two suffixes, sometimes a hash itself, sometimes the empty key; duplicates removed
	if r.Intn(2) == 0 {
		g.keys = append(g.keys, g.hpool[r.Intn(len(g.hpool))])
	}
	if r.Intn(3) == 0 {
		g.keys = append(g.keys, "-")
	}
	uniq := g.keys[:0]
	ks := map[string]bool{}
	for _, k := range g.keys {
		if !ks[k] {
			ks[k] = true
			uniq = append(uniq, k)
		}
	}
	g.keys = uniq
}

// freshHash names block #n
func (g *c06gen) freshHash(n int) string {
	if g.adv && len(g.hpool) > 0 {
		h := g.hpool[0]
		g.hpool = g.hpool[1:]
		return h
	}
	return fmt.Sprintf("h%d", n)
}

func (g *c06gen) emit(f string, a ...interface{}) { g.ops = append(g.ops, fmt.Sprintf(f, a...)) }

func (g *c06gen) val() string {
	g.vc++
	if g.node {
		return genNodeTok(g.r, g.vc)
	}
	switch g.r.Intn(12) {
	case 0:
		return fmt.Sprintf("%04x%s", g.vc, "00ff3a3a")
	default:
		return fmt.Sprintf("%04x", g.vc)
	}
}

func (g *c06gen) key() string { return g.keys[g.r.Intn(len(g.keys))] }

func (g *c06gen) anyHash() string {
	if len(g.hashes) == 0 || g.r.Intn(25) == 0 {
		return []string{"-", "hx", "hy"}[g.r.Intn(3)]
	}
	// bias to the most recent (tip) and to old blocks
	switch g.r.Intn(4) {
	case 0:
		return g.hashes[len(g.hashes)-1]
	case 1:
		return g.hashes[g.r.Intn((len(g.hashes)+1)/2)]
	}
	return g.hashes[g.r.Intn(len(g.hashes))]
}

func (g *c06gen) newBlock() {
	g.nb++
	bid := fmt.Sprintf("b%d", g.nb)
	hash := g.freshHash(g.nb)
	prev := "-"
	x := g.r.Intn(100)
	switch {
	case len(g.blocks) == 0:
		if x < 30 {
			prev = "hx"
		}
	case x < 55:
		prev = g.blocks[len(g.blocks)-1].hash
	case x < 80:
		prev = g.blocks[g.r.Intn(len(g.blocks))].hash
	case x < 86:
		prev = "hx" // a block that never exists: gap
	case x < 90:
		prev = "-"
	case x < 95:
		// second block cache for an existing hash (same parent)
		o := g.blocks[g.r.Intn(len(g.blocks))]
		hash, prev = o.hash, o.prev
	case x < 97:
		prev = hash // self-parent (cycle)
	default:
		prev = fmt.Sprintf("h%d", g.nb+1) // parent created later (or never)
	}
	b := &c06gBlock{bid: bid, hash: hash, prev: prev}
	g.blocks = append(g.blocks, b)
	g.hashes = append(g.hashes, hash)
	g.emit("blk %s %s %s", bid, hash, prev)
	if g.r.Intn(100) < 45 {
		g.emit("bset %s %s %s", bid, g.key(), g.val())
	}
}

func (g *c06gen) pickBlock(allowCommitted bool) *c06gBlock {
	if len(g.blocks) == 0 {
		return nil
	}
	var cand []*c06gBlock
	for _, b := range g.blocks {
		if !b.committed {
			cand = append(cand, b)
		}
	}
	if len(cand) == 0 || (allowCommitted && g.r.Intn(6) == 0) {
		if !allowCommitted {
			return nil
		}
		return g.blocks[g.r.Intn(len(g.blocks))]
	}
	return cand[g.r.Intn(len(cand))]
}

func (g *c06gen) txnBlockCommitted(t string) bool {
	for _, b := range g.blocks {
		for _, bt := range b.txns {
			if bt == t {
				return b.committed
			}
		}
	}
	return false
}

func (g *c06gen) pickTxn() (string, bool) {
	if len(g.txns) == 0 {
		return "", false
	}
	for try := 0; ; try++ {
		// prefer recent transactions
		t := g.txns[g.r.Intn(len(g.txns))]
		if g.r.Intn(2) == 0 {
			t = g.txns[len(g.txns)-1]
		}
		// less often a transaction whose block cache has already been committed
		if try > 4 || !g.txnBlockCommitted(t) || g.r.Intn(4) == 0 {
			return t, true
		}
	}
}

// constructors the plain histories never use: NewEmpty (several private worlds beside the case's caches),
// NewBlockTxnCaches, a block cache on a fresh state cache
func (g *c06gen) stepExtra() {
	switch x := g.r.Intn(11); {
	case x >= 8:
		// a key written and then removed (or removed and then written) inside ONE block through two layers: the later
		// operation must win, a removal must stay a removal even if the block wrote the key itself before
		b := g.pickBlock(false)
		if b == nil {
			g.newBlock()
			b = g.blocks[len(g.blocks)-1]
		}
		k := g.key()
		g.nt++
		t := fmt.Sprintf("t%d", g.nt)
		b.txns = append(b.txns, t)
		g.txns = append(g.txns, t)
		if g.r.Intn(3) != 0 {
			g.emit("bset %s %s %s", b.bid, k, g.val())
			g.emit("txn %s %s", t, b.bid)
			g.emit("trem %s %s", t, k)
		} else {
			g.emit("txn %s %s", t, b.bid)
			g.emit("trem %s %s", t, k)
			g.emit("tcommit %s", t)
			g.emit("tset %s %s %s", t, k, g.val())
		}
		g.emit("tcommit %s", t)
		g.emit("bget %s %s", b.bid, k)
	case x < 4:
		g.nt++
		t := fmt.Sprintf("e%d", g.nt)
		g.txns = append(g.txns, t)
		g.emit("empty %s", t)
		if g.r.Intn(2) == 0 {
			g.emit("tset %s %s %s", t, g.key(), g.val())
		}
	case x < 6 || !g.noRemove:
		g.nb++
		g.nt++
		bid, hash, t := fmt.Sprintf("b%d", g.nb), g.freshHash(g.nb), fmt.Sprintf("t%d", g.nt)
		prev := "-"
		if len(g.blocks) > 0 {
			prev = g.blocks[g.r.Intn(len(g.blocks))].hash
		}
		g.blocks = append(g.blocks, &c06gBlock{bid: bid, hash: hash, prev: prev, txns: []string{t}})
		g.hashes = append(g.hashes, hash)
		g.txns = append(g.txns, t)
		g.emit("blktxn %s %s %s %s", bid, t, hash, prev)
	default:
		// same hashes as blocks of the shared world, on a state cache of its own (only without StateCache.Remove: the
		// model keeps the private world in the shared map under prefixed hashes, a Remove would drop those too)
		g.nb++
		bid := fmt.Sprintf("b%d", g.nb)
		hash, prev := g.freshHash(g.nb), "-"
		if len(g.blocks) > 0 {
			o := g.blocks[g.r.Intn(len(g.blocks))]
			if g.r.Intn(2) == 0 {
				hash, prev = o.hash, o.prev
			} else {
				prev = o.hash
			}
		}
		g.blocks = append(g.blocks, &c06gBlock{bid: bid, hash: hash, prev: prev, private: true})
		g.emit("fblk %s %s %s", bid, hash, prev)
		g.emit("bset %s %s %s", bid, g.key(), g.val())
	}
}

func (g *c06gen) stepRandom() {
	if g.r.Intn(16) == 0 {
		g.stepExtra()
		return
	}
	x := g.r.Intn(100)
	switch {
	case x < 18 || len(g.blocks) == 0:
		g.newBlock()
	case x < 27:
		if b := g.pickBlock(true); b != nil {
			g.nt++
			t := fmt.Sprintf("t%d", g.nt)
			b.txns = append(b.txns, t)
			g.txns = append(g.txns, t)
			g.emit("txn %s %s", t, b.bid)
		}
	case x < 29:
		g.nt++
		t := fmt.Sprintf("t%d", g.nt)
		g.txns = append(g.txns, t)
		g.emit("qtxn %s %s", t, g.anyHash())
	case x < 42:
		if t, ok := g.pickTxn(); ok {
			if g.r.Intn(4) == 0 {
				g.emit("trem %s %s", t, g.key())
			} else {
				g.emit("tset %s %s %s", t, g.key(), g.val())
			}
		} else if b := g.pickBlock(false); b != nil {
			g.emit("bset %s %s %s", b.bid, g.key(), g.val())
		}
	case x < 50:
		if b := g.pickBlock(true); b != nil {
			g.emit("bset %s %s %s", b.bid, g.key(), g.val())
		}
	case x < 58:
		if t, ok := g.pickTxn(); ok {
			g.emit("tcommit %s", t)
		}
	case x < 72:
		// commit a block: usually the oldest uncommitted one (parents first), sometimes any
		var b *c06gBlock
		if g.r.Intn(4) != 0 {
			for _, c := range g.blocks {
				if !c.committed {
					b = c
					break
				}
			}
		}
		if b == nil {
			b = g.pickBlock(true)
		}
		if b != nil {
			if g.r.Intn(3) == 0 {
				for _, t := range b.txns {
					if g.r.Intn(2) == 0 {
						g.emit("tcommit %s", t)
					}
				}
			}
			g.emit("bcommit %s", b.bid)
			b.committed = true
		}
	case x < 74:
		if b := g.pickBlock(false); b != nil && !b.private && g.r.Intn(3) == 0 {
			g.nb++
			nh := g.freshHash(g.nb)
			g.emit("bhash %s %s", b.bid, nh)
			b.hash = nh
			g.hashes = append(g.hashes, nh)
		}
	case x < 76:
		if g.r.Intn(3) == 0 && !g.noRemove {
			g.emit("srem %s", g.key()) // StateCache.Remove drops the key's whole version map
		} else {
			g.lookup()
		}
	default:
		g.lookup()
	}
}

// querySweep looks every key up at every block through a fresh QueryBlockCache, twice (an answer given once must not
// change the next one — for the same or for ANY other block / key)
func (g *c06gen) querySweep() {
	hs := g.hashes
	if len(hs) > 8 {
		hs = hs[len(hs)-8:]
	}
	for pass := 0; pass < 2; pass++ {
		for _, h := range hs {
			for _, k := range g.keys {
				g.emit("qget %s %s", h, k)
			}
		}
	}
}

func (g *c06gen) lookup() {
	switch y := g.r.Intn(10); {
	case y < 4:
		g.emit("sget %s %s", g.key(), g.anyHash())
	case y < 6:
		g.emit("qget %s %s", g.anyHash(), g.key())
	case y < 8:
		if b := g.pickBlock(true); b != nil {
			g.emit("bget %s %s", b.bid, g.key())
		}
	default:
		if t, ok := g.pickTxn(); ok {
			g.emit("tget %s %s", t, g.key())
		}
	}
}

func genC06(r *rand.Rand, tier string, idx int) []string {
	g := &c06gen{r: r, thorough: tier == "thorough"}
	for i, n := 0, 1+r.Intn(3); i < n; i++ {
		g.keys = append(g.keys, fmt.Sprintf("k%d", i+1))
	}
	period := 200
	if tier == "thorough" {
		period = 400
	}
	switch idx % period {
	case 11, 12, 13:
		return genC06Long(g, idx%period-11)
	case 21:
		return genC06Cycle(g)
	case 31, 32:
		return genC06Capacity(g)
	}
	if idx%4 == 2 {
		return genC06Perm(g)
	}
	if idx%8 == 5 {
		return genC06InOrder(g)
	}
	if idx%4 == 1 {
		g.initAdv()
	}
	maxOps := 36
	if tier == "thorough" {
		maxOps = 90
	}
	n := 6 + r.Intn(maxOps)
	for len(g.ops) < n {
		g.stepRandom()
	}
	// closing sweep: every key at a few blocks, tip last-but-one and old ones interleaved, directly and through
	// query block caches
	for _, k := range g.keys {
		for j := 0; j < 3; j++ {
			g.emit("sget %s %s", k, g.anyHash())
			g.emit("qget %s %s", g.anyHash(), k)
		}
	}
	g.querySweep()
	return g.ops
}

// chains that cross maxHisDepth = 2000 (and the link-cache capacity, which is the same number)
func genC06Long(g *c06gen, variant int) []string {
	r := g.r
	k := g.keys[0]
	n := scMaxDepth + []int{-1, 0, 1, 2, 3, 100}[r.Intn(6)]
	if g.thorough && r.Intn(4) == 0 {
		n = scMaxDepth + []int{500, 2100}[r.Intn(2)] // the link cache (capacity maxHisDepth) evicts hundreds / thousands of links
	}
	g.emit("blk r0 r0 -")
	if variant != 2 {
		g.emit("bset r0 %s %s", k, g.val())
	}
	g.emit("bcommit r0")
	g.emit("chain %d c r0 %s %s", n, map[bool]string{true: k, false: "-"}[variant == 1], g.val())
	probe := func() {
		for _, d := range []int{n, n - 1, n - r.Intn(5), 1 + r.Intn(n), 1, 2} {
			if d < 1 {
				d = 1
			}
			g.emit("sget %s c%d", k, d)
		}
		g.emit("sget %s r0", k)
	}
	probe()
	if r.Intn(2) == 0 {
		// drop the key's map, then let a block in the middle re-create it (commits stay in ancestor order)
		g.emit("srem %s", k)
		g.emit("sget %s c%d", k, n)
	}
	// a fork off the middle of the chain and a write near the tip, then look again from the tip and from old blocks
	mid := 1 + r.Intn(n)
	g.emit("blk f1 f1 c%d", mid)
	g.emit("bset f1 %s %s", k, g.val())
	g.emit("bcommit f1")
	g.emit("blk tip tip c%d", n)
	if r.Intn(2) == 0 {
		g.emit("bset tip %s %s", k, g.val())
	}
	g.emit("bcommit tip")
	g.emit("sget %s tip", k)
	g.emit("sget %s f1", k)
	probe()
	return g.ops
}

// parent cycles: the walk can only end by the depth cut-off
func genC06Cycle(g *c06gen) []string {
	k := g.keys[0]
	g.emit("blk a a -")
	g.emit("bset a %s %s", k, g.val())
	g.emit("bcommit a")
	if g.r.Intn(2) == 0 {
		g.emit("blk s s s")
		g.emit("bcommit s")
		g.emit("sget %s s", k)
		g.emit("blk s2 s2 s")
		g.emit("bcommit s2")
		g.emit("sget %s s2", k)
	} else {
		g.emit("blk p p q")
		g.emit("blk q q p")
		g.emit("bcommit p")
		g.emit("sget %s p", k)
		g.emit("bcommit q")
		g.emit("sget %s p", k)
		g.emit("sget %s q", k)
	}
	g.emit("sget %s a", k)
	return g.ops
}

// many sibling writers of one key around the per-key capacity of 200 (open finding C06-capacity-eviction above it)
func genC06Capacity(g *c06gen) []string {
	r := g.r
	k := g.keys[0]
	n := scCapPerKey - 10 + r.Intn(25)
	g.emit("blk a a -")
	g.emit("bset a %s %s", k, g.val())
	g.emit("bcommit a")
	g.emit("blk c c a")
	g.emit("bset c %s %s", k, g.val())
	g.emit("bcommit c")
	g.emit("blk d d c")
	g.emit("bcommit d")
	if r.Intn(2) == 0 {
		g.emit("sget %s a", k)
	}
	g.emit("fan %d s a %s %04x", n, k, 0xf000+r.Intn(0xfff))
	g.emit("sget %s d", k)
	g.emit("sget %s c", k)
	g.emit("sget %s a", k)
	g.emit("sget %s s%d", k, 1+r.Intn(n))
	return g.ops
}

// exhaustive small scope: every sequence of up to L symbols over
// {commit-with-write X, commit-without-write X, commit-with-removal X, lookup at X} for the tree A <- B <- C, A <- D and
// one key (commits in every order: children before parents, gaps filled later, removals of a key the cache never saw)
func exhC06(tier string, emit func([]string)) {
	depth := 3
	if tier == "thorough" {
		depth = 5
	}
	blocks := []struct{ h, p string }{{"A", "-"}, {"B", "A"}, {"C", "B"}, {"D", "A"}}
	type sym struct {
		kind int // 0 write, 1 empty, 2 lookup, 3 removal
		blk  int
	}
	var syms []sym
	for k := 0; k < 4; k++ {
		for b := range blocks {
			syms = append(syms, sym{k, b})
		}
	}
	var rec func(cur []sym)
	rec = func(cur []sym) {
		if len(cur) > 0 && cur[len(cur)-1].kind == 2 {
			var ops []string
			nh := 0
			for _, s := range cur {
				b := blocks[s.blk]
				switch s.kind {
				case 0, 1, 3:
					nh++
					id := fmt.Sprintf("b%d", nh)
					ops = append(ops, fmt.Sprintf("blk %s %s %s", id, b.h, b.p))
					if s.kind == 0 {
						ops = append(ops, fmt.Sprintf("bset %s k %02x%02x", id, 0xa0+s.blk, nh))
					}
					if s.kind == 3 {
						ops = append(ops, fmt.Sprintf("txn t%d %s", nh, id), fmt.Sprintf("trem t%d k", nh), fmt.Sprintf("tcommit t%d", nh))
					}
					ops = append(ops, "bcommit "+id)
				default:
					ops = append(ops, "sget k "+b.h)
				}
			}
			emit(ops)
		}
		if len(cur) == depth {
			return
		}
		for _, s := range syms {
			rec(append(cur, s))
		}
	}
	rec(nil)
}

// a block tree whose blocks are all built first (writes and removals, directly and through transactions, of keys the
// cache may never have seen) and then committed in an arbitrary permutation — children before parents, gaps filled
// later — with lookups at every layer interleaved and a full sweep (every key at every block) at the end
func genC06Perm(g *c06gen) []string {
	r := g.r
	n := 3 + r.Intn(6)
	type pb struct{ bid, hash, prev string }
	var bs []pb
	for i := 0; i < n; i++ {
		hash := fmt.Sprintf("p%d", i+1)
		prev := "-"
		if i > 0 {
			switch x := r.Intn(10); {
			case x < 6:
				prev = bs[i-1].hash // chain
			case x < 9:
				prev = bs[r.Intn(i)].hash // fork
			default:
				prev = "px" // never committed
			}
		}
		b := pb{fmt.Sprintf("b%d", i+1), hash, prev}
		bs = append(bs, b)
		g.emit("blk %s %s %s", b.bid, b.hash, b.prev)
		for _, k := range g.keys {
			switch r.Intn(6) {
			case 0, 1:
				g.emit("bset %s %s %s", b.bid, k, g.val())
			case 2:
				g.nt++
				g.emit("txn t%d %s", g.nt, b.bid)
				g.emit("trem t%d %s", g.nt, k)
				g.emit("tcommit t%d", g.nt)
			case 3:
				g.nt++
				g.emit("txn t%d %s", g.nt, b.bid)
				g.emit("tset t%d %s %s", g.nt, k, g.val())
				if r.Intn(2) == 0 {
					g.emit("tcommit t%d", g.nt)
				}
			}
		}
	}
	look := func() {
		b := bs[r.Intn(n)]
		k := g.key()
		switch r.Intn(5) {
		case 0:
			g.emit("qget %s %s", b.hash, k)
		case 1:
			g.emit("bget %s %s", b.bid, k)
		case 2:
			// a fresh child context of the block
			g.nb++
			g.emit("blk c%d c%d %s", g.nb, g.nb, b.hash)
			g.emit("bget c%d %s", g.nb, k)
		default:
			g.emit("sget %s %s", k, b.hash)
		}
	}
	perm := r.Perm(n)
	for _, i := range perm {
		if r.Intn(8) != 0 { // sometimes a block is never committed
			g.emit("bcommit %s", bs[i].bid)
		}
		for j, m := 0, r.Intn(3); j < m; j++ {
			look()
		}
		if r.Intn(6) == 0 {
			g.emit("srem %s", g.key())
		}
	}
	for _, k := range g.keys {
		for _, b := range bs {
			g.emit("sget %s %s", k, b.hash)
		}
	}
	return g.ops
}

// blocks committed strictly in ancestor order (every block right after it is built, parents first) with
// StateCache.Remove at arbitrary points: a dropped version map may only turn hits into misses (remove_safe_in_order)
func genC06InOrder(g *c06gen) []string {
	r := g.r
	n := 4 + r.Intn(10)
	var hashes []string
	for i := 0; i < n; i++ {
		hash := fmt.Sprintf("o%d", i+1)
		prev := "-"
		if i > 0 {
			if r.Intn(3) == 0 {
				prev = hashes[r.Intn(i)]
			} else {
				prev = hashes[i-1]
			}
		}
		g.emit("blk %s %s %s", hash, hash, prev)
		for _, k := range g.keys {
			switch r.Intn(5) {
			case 0, 1:
				g.emit("bset %s %s %s", hash, k, g.val())
			case 2:
				g.nt++
				g.emit("txn t%d %s", g.nt, hash)
				g.emit("trem t%d %s", g.nt, k)
				g.emit("tcommit t%d", g.nt)
			}
		}
		g.emit("bcommit %s", hash)
		hashes = append(hashes, hash)
		for j, m := 0, r.Intn(3); j < m; j++ {
			g.emit("sget %s %s", g.key(), hashes[r.Intn(len(hashes))])
		}
		if r.Intn(3) == 0 {
			g.emit("srem %s", g.key())
		}
	}
	for _, k := range g.keys {
		for _, h := range hashes {
			g.emit("sget %s %s", k, h)
		}
	}
	return g.ops
}

func init() {
	register(&Suite{
		Name: "c06",
		Rule: "random histories over block trees with forks, gaps, duplicate and late parents, cycles, out-of-order commits, removals, abandoned transactions/blocks, lookups at old/sibling/tip blocks at all four layers; chains of 1999..2100 blocks crossing maxHisDepth; sibling fans around the per-key capacity; StateCache.Remove at arbitrary points (in trees committed in ancestor order, in permuted trees, after long chains); block trees built first and committed in an arbitrary permutation (children before parents, removals of never-seen keys); exhaustive sequences of commit-with-write / -without / -with-removal / lookup over a 4-block tree; oracle = ancestor-chain answer from the harness's own record of the committed tree; non-trivial = at least one hit answered by a proper ancestor or by a pending layer",
		Gen:  genC06,
		Run: func(ops []string) CaseResult {
			return runSCSeq(ops, false, false, func(w *scWorld) bool { return w.ancestorHits+w.layerHits > 0 })
		},
		Exhaustive: exhC06,
		DefaultN: func(tier string) int {
			if tier == "thorough" {
				return 60000
			}
			return 3000
		},
	})
}
