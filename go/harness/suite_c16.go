package main

// Suite c16: concurrent use of ONE state trie (DESIGN.md §6 C16). Supporting evidence for the proof over the
// regenerated lock table: per-goroutine scripts run against one shared trie in a re-executed copy of the harness
// (so that a race-detector report is captured through the exit code), every operation stamped with call / return
// times, the history checked against the map specification with porcupine, the final root and content against a
// sequential linearization, saved change sets against the final content.
//
// Op language (one case = one concurrent scenario; setup lines first, then thread lines):
//
//	new <mem|level|pndb> <version>     store kind and the single version used throughout
//	pre ins <path> <hex> | pre del <path>   sequential setup on a builder trie
//	rm <i>                             remove the i-th (mod n) non-root node reachable from the root from the store
//	donor ins <path> <hex> | donor del <path>   sequential setup of the donor trie that `mergedb` merges in
//	children <n>                       n child tries, each over its own LevelNodeDB layered on the shared trie's store
//	fresh                              the shared trie is a new trie object over the same store and root (empty node cache)
//	t <tid> ins <path> <hex> | del <path> | get <path> | iter | root | changes | count | deletes | save | savec
//	        | missing | allmissing | hasmissing | pause <n> | sleep <microseconds>
//	        | cins <k> <path> <hex> | cdel <k> <path> | cget <k> <path> | citer <k> | croot <k>   the operation on child trie k
//	        | cmerge <k>    MergeMPTChanges(child k) into the shared trie while other goroutines keep updating child k
//	        | validate      Validate(): must return nil (the trie is sane at every linearization point)
//	        | insempty <path> | insnil <path>   Insert of a value encoding to zero bytes / of nil: must behave as Delete
//	        | insbig <path>  Insert of an over-size value: must be rejected and change nothing
//	        | pp            PrettyPrint to io.Discard
//	        | mergechanges <path> <hex>   as mergechild, through MergeChanges(root, changes, deletes, startRoot)
//	        | deletes       GetDeletes: number of nodes, and how many of them are MergeDB's dead nodes
//	        | mergedb       MergeDB(donor store, donor root, two dead nodes): the trie becomes the donor trie
//	        | mergechild <path> <hex>   child trie opened at the current root inserts the key, MergeMPTChanges(child)
//	        | changesread   GetChanges and then read the returned records as a caller would (fixed defect 4d3d8c8)
//	        | setver        SetVersion(GetVersion()) - outside the property's operation list, never generated
//
// Outputs: as in suite c01 (ok <root> / ok <hex> / notpresent / nodenotfound / iterchild ...); `race` on every line
// when the race detector stopped the run.

import (
	"bufio"
	"bytes"
	"context"
	"fmt"
	"io"
	"math/rand"
	"os"
	"os/exec"
	"runtime"
	"sort"
	"strconv"
	"strings"
	"sync"
	"sync/atomic"
	"time"

	"github.com/0chain/common/core/util"
	"github.com/anishathalye/porcupine"
)

func init() {
	childModes["c16child"] = c16Child
	register(&Suite{
		Name: "c16",
		Rule: "2-6 goroutines run scripts (ins/del/get/iter/root/GetChanges/GetChangeCount/GetDeletes/SaveChanges/missing-node reads, random Gosched/sleeps) over one shared trie on mem/level/pndb stores; scenarios: lookups into nodes removed from the store, disjoint key sets, overlapping key sets, readers vs writer vs saver, several tries over one store (child tries on their own LevelNodeDB layered over the shared trie's store, one goroutine each, plus readers of the shared trie: every child must behave as a map of its own), a child trie that is updated by one goroutine while another merges it into the shared trie (a merge that returns ok must install the child's content of ONE instant inside the call and leave every node resolvable; stale must change nothing), value flips (writers put v1, v2, v1, ... on a few keys so that replaced nodes come back, vs back-to-back Validate, which must return nil; memory and level stores), merges (MergeDB from a donor store with dead nodes and MergeMPTChanges from a child trie vs back-to-back GetDeletes/GetChanges; GetDeletes must list the dead nodes of exactly the merges before it), snapshot stress (writers vs back-to-back GetChanges, each returned (root, changes, deletes, startRoot) replayed over the setup store and required to be one complete state); child process under the race detector (exit 66 = DATA RACE); porcupine against the map specification; final root/content and saved change sets checked; non-trivial = >= 2 goroutines and (a successful concurrent update or >= 2 absent-node hits)",
		Gen:  genC16,
		Run:  runC16,
		DefaultN: func(tier string) int {
			if tier == "thorough" {
				return 20000
			}
			return 700
		},
		CaseTimeout: 420 * time.Second, // the linearizability re-checks may take 2 x 120 s
	})
}

// ---- child: runs one scenario on the real trie ----------------------------------------------------------------

type c16Line struct {
	call, ret int64
	out       string
}

func c16OpenStore(kind string) util.NodeDB {
	switch kind {
	case "mem":
		return util.NewMemoryNodeDB()
	case "level":
		return util.NewLevelNodeDB(util.NewMemoryNodeDB(), util.NewMemoryNodeDB(), false)
	case "pndb":
		db, err := util.NewPNodeDB(freshDir("c16"), "")
		if err != nil {
			panic(err)
		}
		return db
	}
	panic("unknown store kind " + kind)
}

// reachableKeys lists the keys of the nodes reachable from root through the store, depth first, root excluded.
func reachableKeys(db util.NodeDB, root util.Key) []util.Key {
	var keys []util.Key
	var walk func(k util.Key, isRoot bool)
	walk = func(k util.Key, isRoot bool) {
		n, err := db.GetNode(k)
		if err != nil || n == nil {
			return
		}
		if !isRoot {
			keys = append(keys, append(util.Key(nil), k...))
		}
		switch x := n.(type) {
		case *util.FullNode:
			for _, c := range x.Children {
				if c != nil {
					walk(c, false)
				}
			}
		case *util.ExtensionNode:
			walk(x.NodeKey, false)
		}
	}
	walk(root, true)
	return keys
}

func c16Child() {
	var ops []string
	sc := bufio.NewScanner(os.Stdin)
	sc.Buffer(make([]byte, 1<<20), 64<<20)
	for sc.Scan() {
		ops = append(ops, sc.Text())
	}
	res := make([]c16Line, len(ops))
	var (
		db, db2, base util.NodeDB
		builder, mpt  *util.MerklePatriciaTrie
		version       int64
		kind          string
		fresh         bool
		nChildren     int
	)
	t0 := time.Now()
	now := func() int64 { return int64(time.Since(t0)) }
	firstT := len(ops)
	for i, op := range ops {
		f := strings.Fields(op)
		if f[0] == "t" {
			firstT = i
			break
		}
		res[i].call = now()
		switch f[0] {
		case "new":
			kind = f[1]
			version, _ = strconv.ParseInt(f[2], 10, 64)
			db = c16OpenStore(kind)
			if kind == "pndb" {
				db2 = c16OpenStore("pndb")
			} else {
				db2 = util.NewMemoryNodeDB()
			}
			builder = newMPT(db, version, nil)
			res[i].out = "ok"
		case "pre":
			res[i].out = guard(func() string {
				var k util.Key
				var err error
				if f[1] == "ins" {
					k, err = builder.Insert([]byte(pathOf(f[2])), mkVal(unhx(f[3])))
				} else {
					k, err = builder.Delete([]byte(pathOf(f[2])))
				}
				if err != nil {
					return errKind(err)
				}
				return "ok " + rootStr(k)
			})
		case "rm":
			n, _ := strconv.Atoi(f[1])
			keys := reachableKeys(db, builder.GetRoot())
			if len(keys) == 0 {
				res[i].out = "none"
			} else {
				k := keys[n%len(keys)]
				if err := db.DeleteNode(k); err != nil {
					res[i].out = errKind(err)
				} else {
					c16Snap.removed = true
					res[i].out = "ok " + hx(k)
				}
			}
		case "fresh":
			fresh = true
			res[i].out = "ok"
		case "children":
			// n child tries, each over its own LevelNodeDB layered on the SHARED trie's store, opened at the
			// shared trie's root when the threads start (production pattern: block trie + transaction tries)
			nChildren, _ = strconv.Atoi(f[1])
			res[i].out = "ok"
		case "donor":
			// a second, independent trie (own store, same version) that `mergedb` merges into the shared trie
			if c16Snap.donor == nil {
				c16Snap.donorDB = util.NewMemoryNodeDB()
				c16Snap.donor = newMPT(c16Snap.donorDB, version, nil)
			}
			res[i].out = guard(func() string {
				var k util.Key
				var err error
				if f[1] == "ins" {
					k, err = c16Snap.donor.Insert([]byte(pathOf(f[2])), mkVal(unhx(f[3])))
				} else {
					k, err = c16Snap.donor.Delete([]byte(pathOf(f[2])))
				}
				if err != nil {
					return errKind(err)
				}
				return "ok " + rootStr(k)
			})
		default:
			panic("unknown setup op " + op)
		}
		res[i].ret = now()
	}
	if builder == nil {
		panic("case does not start with new")
	}
	mpt = builder
	if fresh {
		mpt = newMPT(db, version, builder.GetRoot())
	}
	// snapshot of the store after setup: saved change sets are checked on top of it
	base = util.NewMemoryNodeDB()
	_ = db.Iterate(context.Background(), func(ctx context.Context, key util.Key, node util.Node) error {
		return base.PutNode(key, node)
	})

	c16Snap.base, c16Snap.version, c16Snap.root0 = base, version, append(util.Key(nil), mpt.GetRoot()...)
	if !fresh {
		c16Snap.root0 = nil // the builder trie's collector started from the empty trie
	}
	for k := 0; k < nChildren; k++ {
		cdb := util.NewLevelNodeDB(util.NewMemoryNodeDB(), mpt.GetNodeDB(), false)
		c16Children = append(c16Children, newMPT(cdb, version, mpt.GetRoot()))
	}
	threads := map[int][]int{}
	var tids []int
	for i := firstT; i < len(ops); i++ {
		f := strings.Fields(ops[i])
		if f[0] != "t" {
			panic("setup op after the first thread op: " + ops[i])
		}
		tid, _ := strconv.Atoi(f[1])
		if _, ok := threads[tid]; !ok {
			tids = append(tids, tid)
		}
		threads[tid] = append(threads[tid], i)
	}
	sort.Ints(tids)
	start := make(chan struct{})
	var wg sync.WaitGroup
	for _, tid := range tids {
		wg.Add(1)
		go func(idxs []int) {
			defer wg.Done()
			<-start
			for _, i := range idxs {
				f := strings.Fields(ops[i])[2:]
				res[i].call = now()
				var post func() string
				res[i].out = c16Exec(mpt, db2, f, &post)
				res[i].ret = now()
				if post != nil { // checks on the returned values, outside the stamped interval
					res[i].out += " " + guard(post)
				}
			}
		}(threads[tid])
	}
	close(start)
	wg.Wait()

	w := bufio.NewWriter(os.Stdout)
	for _, l := range res {
		fmt.Fprintf(w, "%d %d %s\n", l.call, l.ret, l.out)
	}
	// final observations, strictly after every thread has finished
	fmt.Fprintf(w, "final missing %d\n", len(mpt.GetMissingNodeKeys()))
	c := now()
	root := mpt.GetRoot()
	fmt.Fprintf(w, "final root %d %d ok %s\n", c, now(), rootStr(root))
	c = now()
	iterOut := guard(func() string {
		ps, err := iterPairs(mpt)
		if err != nil {
			return errKind(err)
		}
		return "ok " + fmtPairs(ps)
	})
	fmt.Fprintf(w, "final iter %d %d %s\n", c, now(), iterOut)
	saved := guard(func() string {
		if err := mpt.SaveChanges(context.Background(), db2, false); err != nil {
			return errKind(err)
		}
		if len(root) == 0 {
			return "ok " // empty trie: nothing to read back
		}
		chk := newMPT(util.NewLevelNodeDB(db2, base, false), version, root)
		ps, err := iterPairs(chk)
		if err != nil {
			return errKind(err)
		}
		return "ok " + fmtPairs(ps)
	})
	fmt.Fprintf(w, "final saved %s\n", saved)
	for k, ch := range c16Children {
		c := now()
		out := guard(func() string {
			ps, err := iterPairs(ch)
			if err != nil {
				return errKind(err)
			}
			return "ok " + fmtPairs(ps)
		})
		fmt.Fprintf(w, "final child %d %d %d %s %s\n", k, c, now(), rootStr(ch.GetRoot()), out)
	}
	w.Flush()
}

// c16Children: the child tries layered over the shared trie's store (setup op `children n`)
var c16Children []*util.MerklePatriciaTrie

// c16Snap: what the child needs to judge a change set returned by GetChanges (set once before the threads start).
var c16Snap struct {
	base    util.NodeDB // the store as it was after setup
	version int64
	root0   util.Key // root the shared trie (and its change collector) started from
	removed bool     // nodes were removed from the store: snapshots cannot be complete
	donor   *util.MerklePatriciaTrie
	donorDB *util.MemoryNodeDB
}

// the dead nodes every `mergedb` hands to MergeDB (they belong to no trie)
func c16DeadNodes(version int64) []util.Node {
	return []util.Node{
		util.NewLeafNode(util.Path("dd"), util.Path("d0"), util.Sequence(version), mkVal([]byte("dead-node-0"))),
		util.NewLeafNode(util.Path("dd"), util.Path("d1"), util.Sequence(version), mkVal([]byte("dead-node-1"))),
	}
}

// c16SnapCheck judges (root, changes, deletes, startRoot) as ONE snapshot: the changes replayed into a fresh store
// layered over the setup store must make the trie at the RETURNED root complete (a root of one state paired with
// the change set of another leaves nodes missing), no node of `deletes` may be live under that root, startRoot
// must be the root the collector started from. Prints the content read back, which the parent compares with the
// specification state at the operation's linearization point.
func c16SnapCheck(root util.Key, changes []*util.NodeChange, deletes []util.Node, startRoot util.Key) string {
	if c16Snap.removed {
		return "snap=skipped"
	}
	if !bytes.Equal(startRoot, c16Snap.root0) {
		return "snap=startroot(" + rootStr(startRoot) + ")"
	}
	tmp := util.NewMemoryNodeDB()
	for _, c := range changes {
		if err := tmp.PutNode(c.New.GetHashBytes(), c.New); err != nil {
			return "snap=put(" + errKind(err) + ")"
		}
	}
	if len(root) == 0 {
		return "snap=ok c="
	}
	lvl := util.NewLevelNodeDB(tmp, c16Snap.base, false)
	ps, err := iterPairs(newMPT(lvl, c16Snap.version, root))
	if err != nil {
		return "snap=incomplete(" + errKind(err) + ")"
	}
	live := map[string]bool{string(root): true}
	for _, k := range reachableKeys(lvl, root) {
		live[string(k)] = true
	}
	for _, d := range deletes {
		if live[string(d.GetHashBytes())] {
			return "snap=deadlive(" + d.GetHash() + ")"
		}
	}
	return "snap=ok c=" + fmtPairs(ps)
}

func c16Exec(mpt *util.MerklePatriciaTrie, db2 util.NodeDB, f []string, post *func() string) string {
	if len(c16Children) == 0 {
		switch f[0] {
		case "cins", "cdel", "cget", "citer", "croot", "cmerge":
			// malformed case (e.g. the shrinker dropped the `children` line): not a property failure
			fmt.Fprintln(os.Stderr, "case uses child tries without a `children <n>` setup line")
			os.Exit(3)
		}
	}
	return guard(func() string {
		if len(f[0]) > 1 && f[0][0] == 'c' {
			switch f[0][1:] {
			case "ins", "del", "get", "iter", "root":
				// the same operation on child trie <k>: c<op> <k> args...
				k, _ := strconv.Atoi(f[1])
				return c16Exec(c16Children[k%len(c16Children)], db2, append([]string{f[0][1:]}, f[2:]...), post)
			}
		}
		switch f[0] {
		case "ins":
			k, err := mpt.Insert([]byte(pathOf(f[1])), mkVal(unhx(f[2])))
			if err != nil {
				return errKind(err)
			}
			return "ok " + rootStr(k)
		case "insempty", "insnil", "insbig":
			// Insert of a value that encodes to zero bytes, of a nil value (both must behave as Delete), of an
			// over-size value (must be rejected)
			var v util.MPTSerializable
			switch f[0] {
			case "insempty":
				v = &sval{}
			case "insbig":
				v = mkVal(bigValue)
			}
			k, err := mpt.Insert([]byte(pathOf(f[1])), v)
			if err != nil {
				return errKind(err)
			}
			return "ok " + rootStr(k)
		case "pp":
			return errKind(mpt.PrettyPrint(io.Discard))
		case "mergechanges":
			// like mergechild, through the exported MergeChanges(root, changes, deletes, startRoot)
			root := mpt.GetRoot()
			child := newMPT(util.NewLevelNodeDB(util.NewMemoryNodeDB(), mpt.GetNodeDB(), false), c16Snap.version, root)
			if _, err := child.Insert([]byte(pathOf(f[1])), mkVal(unhx(f[2]))); err != nil {
				return "childfail"
			}
			nr, ch, dl, sr := child.GetChanges()
			return errKind(mpt.MergeChanges(nr, ch, dl, sr))
		case "del":
			k, err := mpt.Delete([]byte(pathOf(f[1])))
			if err != nil {
				return errKind(err)
			}
			return "ok " + rootStr(k)
		case "get":
			v, err := mpt.GetNodeValueRaw([]byte(pathOf(f[1])))
			if err != nil {
				return errKind(err)
			}
			return "ok " + hx(v)
		case "iter":
			ps, err := iterPairs(mpt)
			if err != nil {
				return errKind(err)
			}
			return "ok " + fmtPairs(ps)
		case "root":
			return "ok " + rootStr(mpt.GetRoot())
		case "changes":
			root, changes, deletes, startRoot := mpt.GetChanges()
			*post = func() string { return c16SnapCheck(root, changes, deletes, startRoot) }
			return fmt.Sprintf("ok %s n=%d d=%d", rootStr(root), len(changes), len(deletes))
		case "changesread":
			// GetChanges, then read the returned records as a caller would (fixed defect 4d3d8c8)
			root, changes, deletes, startRoot := mpt.GetChanges()
			*post = func() string { return c16SnapCheck(root, changes, deletes, startRoot) }
			h := 0
			for _, c := range changes {
				h += len(c.New.GetHash())
				if c.Old != nil {
					h += len(c.Old.GetHash())
				}
			}
			return fmt.Sprintf("ok %s n=%d d=%d h=%d", rootStr(root), len(changes), len(deletes), h/64)
		case "validate":
			if err := mpt.Validate(); err != nil {
				msg := err.Error()
				if len(msg) > 60 {
					msg = msg[:60]
				}
				return "invalid(" + strings.ReplaceAll(msg, " ", "_") + ")"
			}
			return "ok"
		case "setver":
			mpt.SetVersion(mpt.GetVersion())
			return "ok"
		case "dbversion":
			// LevelNodeDB.GetDBVersion on the trie's store, concurrently with child merges: MergeMPTChanges used to
			// write `db.version` without the store's mutex (fixed defect 0a1942f)
			if l, ok := mpt.GetNodeDB().(*util.LevelNodeDB); ok {
				return fmt.Sprintf("ok %d", l.GetDBVersion()&0)
			}
			return "ok -"
		case "count":
			return fmt.Sprintf("ok %d", mpt.GetChangeCount())
		case "deletes":
			dead := map[string]bool{}
			for _, d := range c16DeadNodes(c16Snap.version) {
				dead[d.GetHash()] = true
			}
			nodes := mpt.GetDeletes()
			n := 0
			for _, d := range nodes {
				if dead[d.GetHash()] {
					n++
				}
			}
			return fmt.Sprintf("ok %d dead=%d", len(nodes), n)
		case "mergedb":
			// MergeDB: the shared trie becomes the donor trie (root + all its nodes), plus two dead nodes
			var root util.Key
			var ndb util.NodeDB = util.NewMemoryNodeDB()
			if c16Snap.donor != nil {
				root, ndb = c16Snap.donor.GetRoot(), c16Snap.donorDB
			}
			return errKind(mpt.MergeDB(ndb, root, c16DeadNodes(c16Snap.version)))
		case "cmerge":
			// merge child trie <k> - which other goroutines keep updating - into the shared trie
			k, _ := strconv.Atoi(f[1])
			err := mpt.MergeMPTChanges(c16Children[k%len(c16Children)])
			*post = func() string { // the merger is the only goroutine that changes the shared trie: read it back
				ps, err := iterPairs(mpt)
				if err != nil {
					return "res=incomplete(" + errKind(err) + ")"
				}
				return "res=ok c=" + fmtPairs(ps)
			}
			return errKind(err)
		case "mergechild":
			// a child trie opened at the current root inserts one key and is merged back (MergeMPTChanges):
			// succeeds only if the shared trie's root is still the one the child started from
			root := mpt.GetRoot()
			child := newMPT(util.NewLevelNodeDB(util.NewMemoryNodeDB(), mpt.GetNodeDB(), false), c16Snap.version, root)
			if _, err := child.Insert([]byte(pathOf(f[1])), mkVal(unhx(f[2]))); err != nil {
				return "childfail"
			}
			return errKind(mpt.MergeMPTChanges(child))
		case "save":
			return errKind(mpt.SaveChanges(context.Background(), db2, false))
		case "savec":
			ctx, cancel := context.WithCancel(context.Background())
			cancel()
			err := mpt.SaveChanges(ctx, db2, false)
			if err == context.Canceled {
				return "cancelled"
			}
			return errKind(err)
		case "missing":
			return fmt.Sprintf("ok %d", len(mpt.GetMissingNodeKeys()))
		case "allmissing":
			ks, err := mpt.GetAllMissingNodes()
			if err != nil {
				return errKind(err)
			}
			return fmt.Sprintf("ok %d", len(ks))
		case "hasmissing":
			b, err := mpt.HasMissingNodes(context.Background())
			if err != nil {
				return errKind(err)
			}
			return fmt.Sprintf("ok %v", b)
		case "pause":
			n, _ := strconv.Atoi(f[1])
			for i := 0; i < n; i++ {
				runtime.Gosched()
			}
			return "ok"
		case "sleep":
			n, _ := strconv.Atoi(f[1])
			time.Sleep(time.Duration(n) * time.Microsecond)
			return "ok"
		}
		panic("unknown thread op " + strings.Join(f, " "))
	})
}

// ---- parent: spawn the child, judge the history ---------------------------------------------------------------

type linIn struct {
	kind, key, val string
}

func parseContent(s string) map[string]string {
	m := map[string]string{}
	if s == "" {
		return m
	}
	for _, kv := range strings.Split(s, ",") {
		j := strings.IndexByte(kv, '=')
		m[strings.TrimPrefix(kv[:j], "-")] = kv[j+1:]
	}
	return m
}

func contentStr(m map[string]string) string {
	b := map[string][]byte{}
	for k, v := range m {
		b[k] = unhx(v)
	}
	return fmtPairs(sortedPairs(b))
}

func canonRootOf(m map[string]string, version int64) string {
	b := map[string][]byte{}
	for k, v := range m {
		b[k] = unhx(v)
	}
	return rootStr(canonRoot(b, version))
}

// c16Model is the sequential map specification. State = canonical content string. In `removed` scenarios an
// operation may fail with nodenotfound / iterchild at any time and is then a no-op.
func c16Model(init string, version int64, removed bool, donor string) porcupine.Model {
	softFail := func(out string) bool {
		return removed && (out == "nodenotfound" || out == "iterchild" || out == "missingnodes")
	}
	inner := c16ContentStep(version)
	return porcupine.Model{
		// state = "<number of MergeDB calls so far>#<content>"
		Init:  func() interface{} { return "0#" + init },
		Equal: func(a, b interface{}) bool { return a.(string) == b.(string) },
		Step: func(state, input, output interface{}) (bool, interface{}) {
			full, in, out := state.(string), input.(linIn), output.(string)
			if softFail(out) {
				return true, full
			}
			sep := strings.IndexByte(full, '#')
			merges, _ := strconv.Atoi(full[:sep])
			st := full[sep+1:]
			switch in.kind {
			case "mergedb": // the trie becomes the donor trie; two more dead nodes are recorded
				if out != "ok" {
					return false, full
				}
				return true, fmt.Sprintf("%d#%s", merges+1, donor)
			case "deletes": // GetDeletes must list the dead nodes of exactly the MergeDB calls before it
				f := strings.Fields(out)
				return len(f) == 3 && f[0] == "ok" && f[2] == fmt.Sprintf("dead=%d", 2*merges), full
			case "mergechild":
				if out == "stale" || out == "childfail" {
					return true, full
				}
				if out != "ok" {
					return false, full
				}
				m := parseContent(st)
				m[in.key] = in.val
				return true, fmt.Sprintf("%d#%s", merges, contentStr(m))
			}
			ok, ns := inner(st, in, out)
			return ok, fmt.Sprintf("%d#%s", merges, ns)
		},
		DescribeOperation: func(input, output interface{}) string {
			in := input.(linIn)
			return fmt.Sprintf("%s %s %s -> %s", in.kind, ptok(in.key), in.val, output.(string))
		},
	}
}

// c16FamilyModel: the shared (parent) trie and its child tries as one system. State = "P|C0|C1|...": content of
// the parent and of every child (all start from the setup content S). Child operations act on their child's map.
// `cmerge k` (MergeMPTChanges) returning ok is, at ONE instant between its call and return, either a no-op (the
// parent already equals the child) or installs the child's content of that instant in the parent, which is allowed
// only while the parent still is at the content the child started from; `stale` leaves the parent unchanged and is
// legal only when the parent has moved away from S. The content read back from the parent right after the merge
// (c=...) must be the parent's content of the new state.
func c16FamilyModel(init string, version int64, nChildren int) porcupine.Model {
	inner := c16ContentStep(version)
	start := init
	for k := 0; k < nChildren; k++ {
		start += "|" + init
	}
	return porcupine.Model{
		Init:  func() interface{} { return start },
		Equal: func(a, b interface{}) bool { return a.(string) == b.(string) },
		Step: func(state, input, output interface{}) (bool, interface{}) {
			st, in, out := state.(string), input.(linIn), output.(string)
			parts := strings.Split(st, "|")
			join := func() string { return strings.Join(parts, "|") }
			switch {
			case in.kind == "cmerge":
				k, _ := strconv.Atoi(in.key)
				k = 1 + k%nChildren
				f := strings.Fields(out)
				if len(f) == 0 {
					return false, st
				}
				switch f[0] {
				case "ok":
					if parts[0] != parts[k] {
						if parts[0] != init {
							return false, st // the parent had moved on: this merge had to be rejected
						}
						parts[0] = parts[k]
					}
				case "stale":
					if parts[0] == init {
						return false, st
					}
				default:
					return false, st
				}
				for i, x := range f {
					if x == "res=ok" && i+1 < len(f) && strings.HasPrefix(f[i+1], "c=") && f[i+1][2:] != parts[0] {
						return false, st
					}
				}
				return true, join()
			case len(in.kind) > 2 && in.kind[0] == 'c' && strings.Contains(in.kind, ":"):
				j := strings.IndexByte(in.kind, ':')
				k, _ := strconv.Atoi(in.kind[1:j])
				k = 1 + k%nChildren
				ok, ns := inner(parts[k], linIn{in.kind[j+1:], in.key, in.val}, out)
				parts[k] = ns
				return ok, join()
			default:
				ok, ns := inner(parts[0], in, out)
				parts[0] = ns
				return ok, join()
			}
		},
		DescribeOperation: func(input, output interface{}) string {
			in := input.(linIn)
			return fmt.Sprintf("%s %s %s -> %s", in.kind, ptok(in.key), in.val, output.(string))
		},
	}
}

// c16ContentStep is the map specification proper: content string -> content string
func c16ContentStep(version int64) func(st string, in linIn, out string) (bool, string) {
	return func(st string, in linIn, out string) (bool, string) {
		{
			m := parseContent(st)
			switch in.kind {
			case "ins":
				if !strings.HasPrefix(out, "ok ") {
					return false, st
				}
				m[in.key] = in.val
				if out[3:] != canonRootOf(m, version) {
					return false, st
				}
				return true, contentStr(m)
			case "del":
				_, present := m[in.key]
				if out == "notpresent" {
					return !present, st
				}
				if !strings.HasPrefix(out, "ok ") || !present {
					return false, st
				}
				delete(m, in.key)
				if out[3:] != canonRootOf(m, version) {
					return false, st
				}
				return true, contentStr(m)
			case "get":
				v, present := m[in.key]
				if out == "notpresent" {
					return !present, st
				}
				return present && out == "ok "+v, st
			case "emptyprobe": // legal only while the trie is empty
				return st == "", st
			case "iter":
				return out == "ok "+st, st
			case "root":
				return out == "ok "+canonRootOf(m, version), st
			case "changes":
				f := strings.Fields(out)
				if len(f) < 2 || f[0] != "ok" || f[1] != canonRootOf(m, version) {
					return false, st
				}
				for i, x := range f {
					// content read back from the returned change set at the returned root = the state here
					if x == "snap=ok" && i+1 < len(f) && strings.HasPrefix(f[i+1], "c=") {
						return f[i+1][2:] == st, st
					}
				}
				return true, st
			}
			return false, st
		}
	}
}

// c16KeyModel is the map specification restricted to one key (porcupine partitions the history by key); state =
// the key's value in hex, "" = absent, "\x00" = not yet touched (resolved from the setup content).
func c16KeyModel(initial map[string]string) porcupine.Model {
	return porcupine.Model{
		Partition: func(h []porcupine.Operation) [][]porcupine.Operation {
			by := map[string][]porcupine.Operation{}
			var order []string
			for _, o := range h {
				k := o.Input.(linIn).key
				if _, ok := by[k]; !ok {
					order = append(order, k)
				}
				by[k] = append(by[k], o)
			}
			var out [][]porcupine.Operation
			for _, k := range order {
				out = append(out, by[k])
			}
			return out
		},
		Init:  func() interface{} { return "\x00" },
		Equal: func(a, b interface{}) bool { return a.(string) == b.(string) },
		Step: func(state, input, output interface{}) (bool, interface{}) {
			st, in, out := state.(string), input.(linIn), output.(string)
			if st == "\x00" {
				st = initial[in.key]
			}
			switch in.kind {
			case "ins":
				return strings.HasPrefix(out, "ok "), in.val
			case "del":
				if out == "notpresent" {
					return st == "", st
				}
				return strings.HasPrefix(out, "ok ") && st != "", ""
			case "get":
				if out == "notpresent" {
					return st == "", st
				}
				return st != "" && out == "ok "+st, st
			}
			return false, st
		},
		DescribeOperation: func(input, output interface{}) string {
			in := input.(linIn)
			return fmt.Sprintf("%s %s %s -> %s", in.kind, ptok(in.key), in.val, output.(string))
		},
	}
}

// budgets of the linearizability check; C16_LIN_MS / C16_LIN_SLOW_MS override them (used to test the fallback path)
func c16Budget(env string, def time.Duration) time.Duration {
	if v, err := strconv.Atoi(os.Getenv(env)); err == nil && v > 0 {
		return time.Duration(v) * time.Millisecond
	}
	return def
}

func c16SlowBudget() time.Duration { return c16Budget("C16_LIN_SLOW_MS", 120*time.Second) }

var c16SlowMu sync.Mutex // one long re-check at a time

// c16CheckLin decides a history: porcupine with the normal budget; if that does not finish, again ALONE with a long
// budget; if that does not finish either, per key (point operations partitioned by path with the single-key map
// model, every iteration result turned into one lookup per key of the universe - implied by, hence weaker than, the
// full check, but it decides). Unknown is returned only if even that does not finish: the caller fails the case.
func c16CheckLin(model porcupine.Model, hist []porcupine.Operation, init string, tags map[string]bool) porcupine.CheckResult {
	r := porcupine.CheckOperationsTimeout(model, hist, c16Budget("C16_LIN_MS", 10*time.Second))
	if r != porcupine.Unknown {
		return r
	}
	tags["linearizability-recheck-long"] = true
	c16SlowMu.Lock()
	r = porcupine.CheckOperationsTimeout(model, hist, c16SlowBudget())
	c16SlowMu.Unlock()
	if r != porcupine.Unknown {
		return r
	}
	tags["linearizability-recheck-per-key"] = true
	initial := parseContent(init)
	keys := map[string]bool{}
	for k := range initial {
		keys[k] = true
	}
	for _, h := range hist {
		in := h.Input.(linIn)
		switch in.kind {
		case "ins", "del", "get":
			keys[in.key] = true
		case "iter":
			if out := h.Output.(string); strings.HasPrefix(out, "ok ") {
				for k := range parseContent(out[3:]) {
					keys[k] = true
				}
			}
		}
	}
	var kh []porcupine.Operation
	for _, h := range hist {
		in := h.Input.(linIn)
		out := h.Output.(string)
		switch in.kind {
		case "ins", "del", "get":
			if out == "nodenotfound" || out == "iterchild" || out == "missingnodes" {
				continue
			}
			kh = append(kh, h)
		case "root":
			continue // a hash: not decomposable; the final root is compared with the canonical root separately
		case "iter", "changes":
			content, ok := "", false
			if in.kind == "iter" && strings.HasPrefix(out, "ok ") {
				content, ok = out[3:], true
			}
			if in.kind == "changes" { // the content read back from the returned snapshot
				ff := strings.Fields(out)
				for i, x := range ff {
					if x == "snap=ok" && i+1 < len(ff) && strings.HasPrefix(ff[i+1], "c=") {
						content, ok = ff[i+1][2:], true
					}
				}
			}
			if !ok {
				continue
			}
			m := parseContent(content)
			for k := range keys {
				o := "notpresent"
				if v, ok := m[k]; ok {
					o = "ok " + v
				}
				kh = append(kh, porcupine.Operation{ClientId: h.ClientId, Input: linIn{"get", k, ""}, Call: h.Call, Output: o, Return: h.Return})
			}
		default:
			// root / change-set reads, merges: not decomposable per key; if any is present the per-key check cannot
			// stand in for the full one
			return porcupine.Unknown
		}
	}
	c16SlowMu.Lock()
	defer c16SlowMu.Unlock()
	return porcupine.CheckOperationsTimeout(c16KeyModel(initial), kh, c16SlowBudget())
}

var c16Hangs int32 // cases whose child process had to be killed

var c16RaceEnabled = false // set by race_on.go under the race build tag

func raceSummary(stderr string) string {
	var keep []string
	lines := strings.Split(stderr, "\n")
	for i, l := range lines {
		t := strings.TrimSpace(l)
		switch {
		case strings.HasPrefix(t, "WARNING: DATA RACE"):
			keep = append(keep, t)
		case strings.HasPrefix(t, "Write at") || strings.HasPrefix(t, "Read at") || strings.HasPrefix(t, "Previous write at") || strings.HasPrefix(t, "Previous read at"):
			s := strings.Fields(t)
			kind := strings.Join(s[:len(s)-4], " ")
			if len(s) < 5 {
				kind = t
			}
			var frames []string
			for j := i + 1; j < len(lines) && len(frames) < 4; j++ {
				ft := strings.TrimSpace(lines[j])
				if ft == "" {
					break
				}
				if strings.HasPrefix(ft, "/") || strings.Contains(ft, ".go:") {
					continue
				}
				if k := strings.LastIndex(ft, "("); k > 0 && strings.HasSuffix(ft, ")") {
					ft = ft[:k]
				}
				if k := strings.LastIndex(ft, "/"); k >= 0 {
					ft = ft[k+1:]
				}
				frames = append(frames, ft)
			}
			keep = append(keep, kind+": "+strings.Join(frames, " < "))
		}
		if len(keep) >= 3 {
			break
		}
	}
	if len(keep) == 0 {
		if len(stderr) > 600 {
			stderr = stderr[:600]
		}
		return strings.ReplaceAll(stderr, "\n", " | ")
	}
	return strings.Join(keep, " | ")
}

func runC16(ops []string) (res CaseResult) {
	all := func(s string) []string {
		o := make([]string, len(ops))
		for i := range o {
			o[i] = s
		}
		return o
	}
	exe, err := os.Executable()
	if err != nil {
		return CaseResult{Outs: all("harness-error"), Fails: []string{"harness: " + err.Error()}}
	}
	if atomic.LoadInt32(&c16Hangs) >= 3 {
		// a lock that is never released makes every later case hang as well: do not wait for all of them
		return CaseResult{Outs: all("not-run"), Fails: []string{"harness-skip: not run: three earlier cases did not terminate (deadlock?)"}}
	}
	ctx, cancel := context.WithTimeout(context.Background(), 12*time.Second)
	defer cancel()
	cmd := exec.CommandContext(ctx, exe, "c16child")
	cmd.Env = append(os.Environ(), "GORACE=halt_on_error=1 exitcode=66 atexit_sleep_ms=0")
	cmd.Stdin = strings.NewReader(strings.Join(ops, "\n") + "\n")
	var stdout, stderr bytes.Buffer
	cmd.Stdout, cmd.Stderr = &stdout, &stderr
	runErr := cmd.Run()
	tags := map[string]bool{}
	defer func() {
		for t := range tags {
			res.Tags = append(res.Tags, t)
		}
		sort.Strings(res.Tags)
	}()
	if !c16RaceEnabled {
		tags["race-detector-off"] = true
	}
	if runErr != nil {
		code := -1
		if ee, ok := runErr.(*exec.ExitError); ok {
			code = ee.ExitCode()
		}
		if code == 66 {
			tags["DATA-RACE"] = true
			res.Outs = all("race")
			sum := raceSummary(stderr.String())
			res.Fails = []string{"DATA RACE reported by the race detector: " + sum}
			return res
		}
		if ctx.Err() != nil {
			atomic.AddInt32(&c16Hangs, 1)
			res.Outs = all("timeout")
			res.Fails = []string{"the scenario did not terminate within 12 s (deadlock: a lock is never released?)"}
			return res
		}
		msg := stderr.String()
		if len(msg) > 1500 {
			msg = msg[:1500]
		}
		res.Outs = all("child-failed")
		res.Fails = []string{fmt.Sprintf("harness: child exited with %v: %s", runErr, strings.ReplaceAll(msg, "\n", " | "))}
		return res
	}
	lines := strings.Split(strings.TrimRight(stdout.String(), "\n"), "\n")
	if len(lines) < len(ops)+4 {
		res.Outs = all("child-failed")
		res.Fails = []string{fmt.Sprintf("harness: child printed %d lines for %d ops", len(lines), len(ops))}
		return res
	}
	type rec struct {
		call, ret int64
		out       string
	}
	recs := make([]rec, len(ops))
	for i := range ops {
		f := strings.SplitN(lines[i], " ", 3)
		recs[i].call, _ = strconv.ParseInt(f[0], 10, 64)
		recs[i].ret, _ = strconv.ParseInt(f[1], 10, 64)
		if len(f) > 2 {
			recs[i].out = f[2]
		}
		res.Outs = append(res.Outs, recs[i].out)
	}
	fail := func(f string, a ...interface{}) { res.Fails = append(res.Fails, fmt.Sprintf(f, a...)) }

	// sequential setup replayed on a Go map
	content := map[string]string{}
	donor := map[string]string{}
	var version int64
	removed, kind := false, ""
	threadIDs := map[string]bool{}
	for i, op := range ops {
		f := strings.Fields(op)
		switch f[0] {
		case "new":
			kind = f[1]
			version, _ = strconv.ParseInt(f[2], 10, 64)
			tags["store:"+kind] = true
		case "pre":
			if f[1] == "ins" {
				if !strings.HasPrefix(recs[i].out, "ok") {
					fail("op %d (%s): setup insert failed: %s", i, op, recs[i].out)
				}
				content[pathOf(f[2])] = f[3]
			} else {
				_, present := content[pathOf(f[2])]
				if present != strings.HasPrefix(recs[i].out, "ok") {
					fail("op %d (%s): setup delete returned %s, key present=%v", i, op, recs[i].out, present)
				}
				delete(content, pathOf(f[2]))
			}
		case "donor":
			if f[1] == "ins" {
				if !strings.HasPrefix(recs[i].out, "ok") {
					fail("op %d (%s): donor insert failed: %s", i, op, recs[i].out)
				}
				donor[pathOf(f[2])] = f[3]
			} else {
				delete(donor, pathOf(f[2]))
			}
		case "rm":
			if strings.HasPrefix(recs[i].out, "ok") {
				removed = true
			}
		case "t":
			threadIDs[f[1]] = true
		}
	}
	if removed {
		tags["absent-nodes"] = true
	}
	init := contentStr(content)

	// history
	var hist []porcupine.Operation
	childHist := map[int][]porcupine.Operation{}
	fullState := removed
	absentHits, updatesOK := 0, 0
	emptyProbes, hasCmerge, nChildren := 0, false, 0
	type hitRec struct {
		call, ret int64
		one       bool // records exactly one missing-node entry
	}
	var hits []hitRec    // operations that record missing-node entries
	var updCalls []int64 // call times of the updates (ins/del/merges), with a bound on the nodes each can create
	var updNodes []int
	type pendingCheck struct {
		i         int
		op, kind  string
		call, ret int64
		n         int
	}
	var pending []pendingCheck // count / missing results, judged once all operations are known
	isFresh := false
	for _, op := range ops {
		if op == "fresh" {
			isFresh = true
		}
	}
	for _, op := range ops {
		if f := strings.Fields(op); len(f) == 2 && f[0] == "children" {
			nChildren, _ = strconv.Atoi(f[1])
		}
	}
	onlyGetsHit := true
	for i, op := range ops {
		f := strings.Fields(op)
		if f[0] != "t" {
			continue
		}
		tid, _ := strconv.Atoi(f[1])
		out := recs[i].out
		call, ret := recs[i].call, recs[i].ret
		if ret <= call {
			ret = call + 1
		}
		tags["op:"+f[2]] = true
		if out == "panic" {
			fail("op %d (%s): panicked", i, op)
			continue
		}
		soft := out == "nodenotfound" || out == "iterchild" || out == "missingnodes"
		if f[2] == "pp" && removed {
			onlyGetsHit = false // PrettyPrint walks the whole trie and records every absent node it meets
		}
		if soft && !removed && out == "nodenotfound" && (f[2] == "allmissing" || f[2] == "pp") {
			// GetAllMissingNodes / PrettyPrint on an EMPTY trie look up the nil root key, return "node not found" and
			// record one nil key in the missing-node list (sequential behaviour, a matter of C17). Tolerated ONLY
			// if the trie can be empty at some instant inside the operation: the probe goes into the history as an
			// operation that is legal in the empty state only; the final missing-list check counts it.
			tags[f[2]+"-on-empty-trie"] = true
			emptyProbes++
			fullState = true
			hits = append(hits, hitRec{call, ret, true})
			hist = append(hist, porcupine.Operation{ClientId: tid, Input: linIn{"emptyprobe", "", ""}, Call: call, Output: out, Return: ret})
			continue
		}
		if soft {
			if !removed {
				fail("op %d (%s): returned %s although no node was removed from the store", i, op, out)
				continue
			}
			absentHits++
			if f[2] != "get" {
				onlyGetsHit = false
			}
			hits = append(hits, hitRec{call, ret, f[2] == "get" || f[2] == "ins" || f[2] == "del" || f[2] == "insempty" || f[2] == "insnil"})
		} else if removed && (f[2] == "iter" || f[2] == "pp" || f[2] == "allmissing" || f[2] == "hasmissing") {
			hits = append(hits, hitRec{call, ret, false}) // may have recorded entries without failing
		}
		switch f[2] {
		case "cmerge", "cins", "cdel":
			// a child merge brings in everything the child recorded; child updates feed it
			updCalls = append(updCalls, call)
			updNodes = append(updNodes, 1<<20)
		case "ins", "del", "insempty", "insnil", "mergechild", "mergechanges":
			updCalls = append(updCalls, call)
			n := 8
			if len(f) > 3 {
				n += len(f[3])
			}
			updNodes = append(updNodes, n)
		case "mergedb":
			updCalls = append(updCalls, call)
			updNodes = append(updNodes, 1<<20)
		}
		var in linIn
		switch f[2] {
		case "cins", "cdel", "cget", "citer", "croot":
			// operation on a child trie layered over the shared store: its own map, starting from the setup content
			k, _ := strconv.Atoi(f[3])
			var cin linIn
			switch f[2] {
			case "cins":
				cin = linIn{"ins", pathOf(f[4]), f[5]}
			case "cdel":
				cin = linIn{"del", pathOf(f[4]), ""}
			case "cget":
				cin = linIn{"get", pathOf(f[4]), ""}
			default:
				cin = linIn{f[2][1:], "", ""}
			}
			tags["child-tries"] = true
			if strings.HasPrefix(out, "ok") && (f[2] == "cins" || f[2] == "cdel") {
				updatesOK++
			}
			childHist[k] = append(childHist[k], porcupine.Operation{ClientId: tid, Input: cin, Call: call, Output: out, Return: ret})
			continue
		case "ins":
			in = linIn{"ins", pathOf(f[3]), f[4]}
			if strings.HasPrefix(out, "ok") {
				updatesOK++
			}
		case "del", "insempty", "insnil":
			// an insert of an empty-encoding or nil value IS a delete
			in = linIn{"del", pathOf(f[3]), ""}
			if f[2] != "del" {
				tags["insert-of-empty-or-nil-value"] = true
			}
			if strings.HasPrefix(out, "ok") {
				updatesOK++
			}
		case "insbig":
			tags["oversize-insert"] = true
			if out != "toolarge" {
				fail("op %d (%s): an over-size value was not rejected: %s", i, op, out)
			}
			continue
		case "pp":
			if out != "ok" && !removed {
				fail("op %d (%s): PrettyPrint returned %s on a complete store", i, op, out)
			}
			continue
		case "get":
			in = linIn{"get", pathOf(f[3]), ""}
		case "iter", "root", "changes", "changesread":
			for _, x := range strings.Fields(out) {
				if strings.HasPrefix(x, "snap=") && x != "snap=ok" && x != "snap=skipped" {
					tags["torn-snapshot"] = true
					fail("op %d (%s): GetChanges returned an inconsistent snapshot (%s): root %s with this change set is not one state of the trie", i, op, x[5:], strings.Fields(out)[1])
				}
			}
			k := f[2]
			if k == "changesread" {
				k = "changes"
			}
			in = linIn{k, "", ""}
			fullState = true
		case "allmissing":
			if !removed && out != "ok 0" {
				fail("op %d (%s): GetAllMissingNodes returned %s on a complete store", i, op, out)
			}
			if removed && out != "ok 0" {
				onlyGetsHit = false
			}
			continue
		case "hasmissing":
			if !removed && out != "ok false" {
				fail("op %d (%s): HasMissingNodes returned %s on a complete store", i, op, out)
			}
			if removed {
				onlyGetsHit = false
			}
			continue
		case "cmerge":
			in = linIn{"cmerge", f[3], ""}
			fullState, hasCmerge = true, true
			if strings.Contains(out, "res=incomplete") {
				tags["merge-left-unresolvable-nodes"] = true
				fail("op %d (%s): MergeMPTChanges returned %s but the shared trie has unresolvable nodes afterwards (%s)", i, op, strings.Fields(out)[0], out)
			}
			if strings.HasPrefix(out, "ok") {
				updatesOK++
			}
		case "mergedb", "deletes":
			in = linIn{f[2], "", ""}
			fullState = true
			if out == "ok" {
				updatesOK++
			}
		case "mergechild", "mergechanges":
			in = linIn{"mergechild", pathOf(f[3]), f[4]}
			fullState = true
			if out == "ok" {
				updatesOK++
			}
		case "validate":
			// the trie is sane at every linearization point (every update is one critical section), so Validate,
			// which checks it under the read lock, must return nil - also while old values are written back
			if out != "ok" {
				tags["validate-false-alarm"] = true
				fail("op %d (%s): Validate returned %s on a trie that is sane at every instant (it must judge ONE state: change set and store read under one lock)", i, op, out)
			}
			continue
		case "save":
			if out != "ok" {
				fail("op %d (%s): SaveChanges returned %s, want ok", i, op, out)
			}
			continue
		case "savec":
			if out != "ok" && out != "cancelled" {
				fail("op %d (%s): SaveChanges with a cancelled context returned %s, want ok or cancelled", i, op, out)
			}
			continue
		case "count", "missing":
			ff := strings.Fields(out)
			n, perr := -1, error(nil)
			if len(ff) == 2 && ff[0] == "ok" {
				n, perr = strconv.Atoi(ff[1])
			}
			if len(ff) != 2 || ff[0] != "ok" || perr != nil || n < 0 {
				fail("op %d (%s): returned %q, want ok <n>", i, op, out)
				continue
			}
			pending = append(pending, pendingCheck{i, op, f[2], call, ret, n})
			continue
		case "setver", "dbversion":
			if !strings.HasPrefix(out, "ok") {
				fail("op %d (%s): returned %s", i, op, out)
			}
			continue
		default:
			continue
		}
		hist = append(hist, porcupine.Operation{ClientId: tid, Input: in, Call: call, Output: out, Return: ret})
	}
	for _, pc := range pending {
		switch pc.kind {
		case "missing":
			// entries recorded by operations that returned before the call are in the list; only operations that
			// started before the return can have added to it
			lo, hi, exact := 0, 0, true
			for _, h := range hits {
				if h.ret < pc.call {
					lo++
				}
				if h.call < pc.ret {
					hi++
					exact = exact && h.one
				}
			}
			if pc.n < lo || (exact && pc.n > hi) {
				fail("op %d (%s): GetMissingNodeKeys returned %d keys; %d recording operations had returned before its call, %d had started before its return", pc.i, pc.op, pc.n, lo, hi)
			}
		case "count":
			// no change can be recorded before the first update starts; an update creates a bounded number of nodes
			bound := 0
			for k, c := range updCalls {
				if c < pc.ret {
					bound += updNodes[k]
				}
			}
			if !isFresh {
				bound += 1 << 20 // the builder trie's collector also holds the setup's changes
			}
			if pc.n > bound {
				fail("op %d (%s): GetChangeCount returned %d although the updates started before its return can have created at most %d nodes", pc.i, pc.op, pc.n, bound)
			}
		}
	}
	// final observations as operations after everything else
	finalRoot, finalIter, finalMissing, finalSaved := "", "", "", ""
	for _, l := range lines[len(ops):] {
		f := strings.Fields(l)
		if len(f) < 3 || f[0] != "final" {
			continue
		}
		switch f[1] {
		case "root":
			finalRoot = strings.Join(f[4:], " ")
			c, _ := strconv.ParseInt(f[2], 10, 64)
			r, _ := strconv.ParseInt(f[3], 10, 64)
			hist = append(hist, porcupine.Operation{ClientId: 99, Input: linIn{"root", "", ""}, Call: c, Output: finalRoot, Return: r + 1})
		case "iter":
			finalIter = strings.Join(f[4:], " ")
			if finalIter == "ok" {
				finalIter = "ok "
			}
			c, _ := strconv.ParseInt(f[2], 10, 64)
			r, _ := strconv.ParseInt(f[3], 10, 64)
			hist = append(hist, porcupine.Operation{ClientId: 99, Input: linIn{"iter", "", ""}, Call: c, Output: finalIter, Return: r + 1})
		case "missing":
			finalMissing = f[2]
		case "saved":
			finalSaved = strings.Join(f[2:], " ")
			if finalSaved == "ok" {
				finalSaved = "ok "
			}
		case "child": // final child <k> <call> <ret> <root> <iter...>
			k, _ := strconv.Atoi(f[2])
			c, _ := strconv.ParseInt(f[3], 10, 64)
			r, _ := strconv.ParseInt(f[4], 10, 64)
			it := strings.Join(f[6:], " ")
			if it == "ok" {
				it = "ok "
			}
			childHist[k] = append(childHist[k],
				porcupine.Operation{ClientId: 99, Input: linIn{"root", "", ""}, Call: c, Output: "ok " + f[5], Return: r + 1},
				porcupine.Operation{ClientId: 99, Input: linIn{"iter", "", ""}, Call: c, Output: it, Return: r + 1})
		}
	}
	famModel := false
	if hasCmerge {
		// a child is merged while it is being written: one history over the family (shared trie + children)
		for k, h := range childHist {
			for _, o := range h {
				in := o.Input.(linIn)
				in.kind = fmt.Sprintf("c%d:%s", k, in.kind)
				o.Input = in
				hist = append(hist, o)
			}
		}
		childHist = map[int][]porcupine.Operation{}
		famModel = true
	}
	// every child trie is a map of its own that starts from the setup content, whatever the other tries do
	for k, h := range childHist {
		cm := c16Model(init, version, false, "")
		cres := c16CheckLin(cm, h, init, tags)
		if cres == porcupine.Unknown {
			fail("child trie %d: the linearizability check did not finish (first budget, then %v alone, then per key): undecided counts as a failure", k, c16SlowBudget())
		}
		if cres == porcupine.Illegal {
			tags["child-not-linearizable"] = true
			var hs []string
			sort.Slice(h, func(i, j int) bool { return h[i].Call < h[j].Call })
			for _, o := range h {
				hs = append(hs, fmt.Sprintf("[g%d %d..%d] %s", o.ClientId, o.Call/1000, o.Return/1000, cm.DescribeOperation(o.Input, o.Output)))
			}
			fail("child trie %d (own LevelNodeDB over the shared store) does not behave as a map of its own started from %q: %s", k, init, strings.Join(hs, " ; "))
		}
	}
	model := c16Model(init, version, removed, contentStr(donor))
	if famModel {
		model = c16FamilyModel(init, version, nChildren)
	}
	if !fullState {
		// only single-key operations: check each key's sub-history on its own (the final content becomes one
		// final lookup per key; the final root is compared with the canonical root of the final content below)
		tags["partitioned-by-key"] = true
		var kh []porcupine.Operation
		keys := map[string]bool{}
		for k := range content {
			keys[k] = true
		}
		var fc, fr int64
		for _, h := range hist {
			in := h.Input.(linIn)
			if in.kind == "iter" || in.kind == "root" {
				fc, fr = h.Call, h.Return
				continue
			}
			keys[in.key] = true
			kh = append(kh, h)
		}
		if strings.HasPrefix(finalIter, "ok ") {
			fm := parseContent(finalIter[3:])
			for k := range fm {
				keys[k] = true
			}
			for k := range keys {
				out := "notpresent"
				if v, ok := fm[k]; ok {
					out = "ok " + v
				}
				kh = append(kh, porcupine.Operation{ClientId: 99, Input: linIn{"get", k, ""}, Call: fc, Output: out, Return: fr})
			}
		}
		hist = kh
		model = c16KeyModel(content)
	}
	switch c16CheckLin(model, hist, init, tags) {
	case porcupine.Illegal:
		tags["not-linearizable"] = true
		var hs []string
		sort.Slice(hist, func(i, j int) bool { return hist[i].Call < hist[j].Call })
		for _, h := range hist {
			hs = append(hs, fmt.Sprintf("[g%d %d..%d] %s", h.ClientId, h.Call/1000, h.Return/1000, model.DescribeOperation(h.Input, h.Output)))
		}
		fail("history is not linearizable w.r.t. the map specification (initial content %q, version %d); final root/content are the last two operations: %s", init, version, strings.Join(hs, " ; "))
	case porcupine.Unknown:
		tags["linearizability-undecided"] = true
		fail("the linearizability check did not finish (first budget, then %v alone, then per key): undecided counts as a failure (%d operations)", c16SlowBudget(), len(hist))
	}
	if !removed {
		if strings.HasPrefix(finalIter, "ok ") && strings.HasPrefix(finalRoot, "ok ") {
			if want := canonRootOf(parseContent(finalIter[3:]), version); finalRoot[3:] != want {
				fail("final root %s differs from the canonical root %s of the final content %q", finalRoot[3:], want, finalIter[3:])
			}
		} else {
			fail("final observation failed: root=%q iter=%q", finalRoot, finalIter)
		}
		if finalSaved != finalIter {
			fail("content readable from the saved change sets on top of the setup snapshot is %q, final content is %q", finalSaved, finalIter)
		}
		if finalMissing != strconv.Itoa(emptyProbes) {
			fail("missing-node list has %s entries on a complete store; %d probes of the empty trie (one nil key each) were made", finalMissing, emptyProbes)
		}
	} else {
		fm, _ := strconv.Atoi(finalMissing)
		if fm < absentHits {
			fail("%d operations ran into an absent node but the missing-node list has only %d entries (entries lost)", absentHits, fm)
		}
		if onlyGetsHit && fm != absentHits {
			fail("%d lookups ran into an absent node (one entry each) but the missing-node list has %d entries", absentHits, fm)
		}
	}
	res.Nontrivial = len(threadIDs) >= 2 && (updatesOK >= 1 || absentHits >= 2)
	if absentHits >= 2 {
		tags["absent-hits>=2"] = true
	}
	return res
}

// ---- generator ------------------------------------------------------------------------------------------------

func genC16(r *rand.Rand, tier string, idx int) []string {
	stores := []string{"mem", "level", "pndb"}
	ver := r.Intn(3)
	ops := []string{fmt.Sprintf("new %s %d", stores[idx%3], ver)}
	alpha := []string{"ab", "a0", "0123456789abcdef", "0f"}[r.Intn(4)]
	// 0 absent nodes, 1 disjoint keys, 2 overlapping keys, 3 readers vs writer vs saver, 4 snapshot stress, 5 merges,
	// 6 child tries over the shared store, 7 a child trie written while it is merged
	sel := idx % 12
	// 8 value flips vs Validate
	scenario := []int{0, 1, 2, 3, 0, 5, 2, 4, 8, 6, 3, 7}[sel]
	maxThreads, maxOps := 4, 7
	if tier == "thorough" {
		maxThreads, maxOps = 6, 14
	}
	nThreads := 2 + r.Intn(maxThreads-1)
	if scenario == 4 {
		// snapshot stress: writers update continuously while snapshotters call GetChanges back to back - a
		// GetChanges that is not ONE critical section returns the root of one state with the change set of another
		nThreads = 4 + r.Intn(2)
		maxOps = 30
		if tier == "thorough" {
			maxOps = 60
		}
	}
	if scenario == 6 {
		// several tries over one store: child tries (own LevelNodeDB layered on the shared trie's store), each used
		// by its own goroutine, plus readers of the shared (parent) trie, which nobody updates
		nThreads = 3 + r.Intn(3)
		maxOps = 14
		if tier == "thorough" {
			maxOps = 28
		}
	}
	if scenario == 5 {
		// merges: MergeDB (the only writer of deleteNodes) and child merges vs back-to-back GetDeletes / GetChanges
		nThreads = 3 + r.Intn(3)
		maxOps = 16
		if tier == "thorough" {
			maxOps = 30
		}
	}
	if scenario == 8 {
		// value flips: writers put v1, v2, v1, ... on a few keys, so that nodes replaced earlier in the round come
		// back into the store, while validators call Validate back to back (memory and level stores: Validate checks
		// nothing on a persistent store)
		ops[0] = fmt.Sprintf("new %s %d", []string{"mem", "level"}[(idx/12)%2], ver)
		nThreads = 4 + r.Intn(2)
		maxOps = 40
		if tier == "thorough" {
			maxOps = 70
		}
	}
	if scenario == 7 {
		// a child trie that is itself used concurrently: goroutine 0 (and sometimes 3) keeps updating child 0 while
		// goroutine 1 merges it into the shared trie (MergeMPTChanges) and goroutine 2 reads the shared trie
		nThreads = 3 + r.Intn(2)
		maxOps = 20
		if tier == "thorough" {
			maxOps = 36
		}
	}
	var pool []string
	nPre := 3 + r.Intn(8)
	if scenario == 1 {
		nPre = r.Intn(4)
	}
	seen := map[string]bool{}
	preVal := map[string]string{}
	if scenario == 8 {
		nPre = 8 + r.Intn(8) // a bigger trie: more replaced nodes for Validate to look up
	}
	for k := 0; k < nPre; k++ {
		p := genPath(r, alpha, pool)
		if scenario == 1 {
			p = "ff" + p // setup keys outside every thread's own prefix
		}
		pv := genValue(r)
		ops = append(ops, "pre ins "+ptok(p)+" "+pv)
		preVal[p] = pv
		if !seen[p] {
			seen[p] = true
			pool = append(pool, p)
		}
	}
	if scenario != 1 && scenario != 8 && r.Intn(4) == 0 && len(pool) > 0 {
		ops = append(ops, "pre del "+ptok(pool[r.Intn(len(pool))]))
	}
	if scenario == 5 {
		for k, n := 0, r.Intn(6); k < n; k++ {
			ops = append(ops, "donor ins "+ptok(genPath(r, alpha, pool))+" "+genValue(r))
		}
	}
	if scenario == 6 {
		ops = append(ops, fmt.Sprintf("children %d", nThreads-1))
	}
	if scenario == 7 {
		ops = append(ops, "children 1")
	}
	if scenario == 0 {
		for k, n := 0, 1+r.Intn(2); k < n; k++ {
			ops = append(ops, fmt.Sprintf("rm %d", r.Intn(64)))
		}
		ops = append(ops, "fresh")
	} else if scenario == 8 || r.Intn(2) == 0 {
		// (value flips: always a fresh collector, so that the nodes of the setup are the `Old` side of the changes)
		ops = append(ops, "fresh")
	}
	pause := func(tid int) {
		if scenario == 8 {
			return // back to back
		}
		switch r.Intn(6) {
		case 0:
			ops = append(ops, fmt.Sprintf("t %d pause %d", tid, 1+r.Intn(4)))
		case 1:
			ops = append(ops, fmt.Sprintf("t %d sleep %d", tid, 1+r.Intn(200)))
		}
	}
	// thread scripts are generated per thread and then interleaved in the file (the file order is irrelevant
	// across threads; within a thread it is the program order)
	var flipKeys []string
	flipCount := map[int]int{}
	scripts := make([][]string, nThreads)
	for tid := 0; tid < nThreads; tid++ {
		n := 2 + r.Intn(maxOps-1)
		own := fmt.Sprintf("%x%x", tid+1, tid+1)
		var mine []string
		key := func() string {
			switch scenario {
			case 1:
				if len(mine) > 0 && r.Intn(2) == 0 {
					return mine[r.Intn(len(mine))]
				}
				p := own + genPath(r, alpha, nil)
				mine = append(mine, p)
				return p
			default:
				return genPath(r, alpha, pool)
			}
		}
		role := "mixed"
		if scenario == 0 && (tid < 2 || r.Intn(3) > 0) {
			role = "reader"
		}
		if scenario == 3 {
			role = []string{"writer", "reader", "saver", "reader", "mixed", "saver"}[tid%6]
		}
		if scenario == 4 {
			role = []string{"writer", "snapshotter", "writer", "snapshotter", "snapshotter"}[tid%5]
			n = maxOps/2 + r.Intn(maxOps/2)
		}
		if scenario == 5 {
			role = []string{"merger", "delreader", "writer", "delreader", "merger"}[tid%5]
			n = maxOps/2 + r.Intn(maxOps/2)
		}
		if scenario == 8 {
			role = []string{"flipper", "validator", "validator", "flipper", "validator"}[tid%5]
			n = maxOps/2 + r.Intn(maxOps/2)
		}
		if scenario == 7 {
			role = []string{"child0user", "childmerger", "reader", "child0user"}[tid%4]
			n = maxOps/2 + r.Intn(maxOps/2)
			if role == "childmerger" {
				n = 3 + r.Intn(4)
			}
		}
		if scenario == 6 {
			role = "childuser" // goroutine tid owns child trie tid; the last goroutine reads the parent
			if tid == nThreads-1 {
				role = "reader"
			}
			n = maxOps/2 + r.Intn(maxOps/2)
		}
		for k := 0; k < n; k++ {
			x := r.Intn(100)
			var line string
			switch role {
			case "flipper":
				// few keys, two values per key, alternating
				if len(flipKeys) == 0 {
					for j := 0; j < 2+r.Intn(3); j++ {
						flipKeys = append(flipKeys, pool[r.Intn(len(pool))]) // keys of the setup
					}
				}
				fk := r.Intn(len(flipKeys))
				flipCount[fk]++
				// alternate between another value and the value the key had in the setup: the second write brings the
				// setup's nodes (the `Old` side of the recorded changes) back into the store
				orig := preVal[flipKeys[fk]]
				other := "4242"
				if orig == other {
					other = "4343"
				}
				line = fmt.Sprintf("ins %s %s", ptok(flipKeys[fk]), []string{orig, other}[flipCount[fk]%2])
				if x >= 92 {
					line = "insempty " + ptok(flipKeys[fk])
				}
			case "validator":
				if x < 80 {
					line = "validate"
				} else if x < 90 {
					line = "changes"
				} else {
					line = "root"
				}
			case "child0user":
				switch {
				case x < 55:
					p := key()
					line = fmt.Sprintf("cins 0 %s %s", ptok(p), genValue(r))
					pool = append(pool, p)
				case x < 85:
					line = fmt.Sprintf("cdel 0 %s", ptok(key()))
				case x < 95:
					line = fmt.Sprintf("cget 0 %s", ptok(key()))
				default:
					line = "croot 0"
				}
			case "childmerger":
				line = "cmerge 0"
			case "childuser":
				switch {
				case x < 40:
					p := key()
					line = fmt.Sprintf("cins %d %s %s", tid, ptok(p), genValue(r))
					pool = append(pool, p)
				case x < 58:
					line = fmt.Sprintf("cdel %d %s", tid, ptok(key()))
				case x < 82:
					line = fmt.Sprintf("cget %d %s", tid, ptok(key()))
				case x < 92:
					line = fmt.Sprintf("citer %d", tid)
				default:
					line = fmt.Sprintf("croot %d", tid)
				}
			case "merger":
				switch {
				case x < 40:
					line = "mergedb"
				case x < 56:
					line = "mergechild " + ptok(key()) + " " + genValue(r)
				case x < 70:
					line = "mergechanges " + ptok(key()) + " " + genValue(r)
				case x < 90:
					line = "ins " + ptok(key()) + " " + genValue(r)
				default:
					line = "del " + ptok(key())
				}
			case "delreader":
				switch {
				case x < 12:
					line = "dbversion" // LevelNodeDB.GetDBVersion on the shared store (fixed defect 0a1942f)
				case x < 65:
					line = "deletes"
				case x < 80:
					line = "changes"
				case x < 90:
					line = "iter"
				default:
					line = "root"
				}
			case "snapshotter":
				if x < 60 {
					line = "changes"
				} else if x < 90 {
					line = "changesread"
				} else {
					line = "root"
				}
			case "reader":
				switch {
				case x < 50:
					line = "get " + ptok(key())
				case x < 68:
					line = "iter"
				case x < 76:
					line = "missing"
				case x < 84:
					line = "allmissing"
				case x < 90:
					line = "hasmissing"
				case x < 93:
					line = "root"
				case x < 96:
					line = "validate"
				case x < 98:
					line = "pp"
				default:
					line = "count"
				}
			case "saver":
				switch {
				case x < 30:
					line = "save"
				case x < 40:
					line = "savec"
				case x < 60:
					line = "changes"
					if idx%2 == 1 {
						line = "changesread" // also read the returned records (fixed defect 4d3d8c8)
					}
				case x < 75:
					line = "count"
				case x < 85:
					line = "deletes"
				default:
					line = "get " + ptok(key())
				}
			case "writer":
				switch {
				case x < 54:
					line = "ins " + ptok(key()) + " " + genValue(r)
				case x < 60:
					line = []string{"insempty ", "insnil "}[x%2] + ptok(key())
				case x < 62:
					line = "insbig " + ptok(key())
				default:
					line = "del " + ptok(key())
				}
			default:
				switch {
				case x < 28:
					p := key()
					line = "ins " + ptok(p) + " " + genValue(r)
					if scenario != 1 {
						pool = append(pool, p)
					}
				case x < 33:
					line = []string{"insempty ", "insnil "}[x%2] + ptok(key()) // present or absent path
				case x < 34:
					line = "insbig " + ptok(key())
				case x < 52:
					line = "del " + ptok(key())
				case x < 74:
					line = "get " + ptok(key())
				case x < 82:
					line = "iter"
				case x < 86:
					line = "root"
				case x < 90:
					line = "changes"
				case x < 93:
					line = "count"
				case x < 96:
					line = "save"
				case x < 98:
					line = "deletes"
				default:
					line = "missing"
				}
			}
			scripts[tid] = append(scripts[tid], fmt.Sprintf("t %d %s", tid, line))
		}
	}
	// write the scripts round-robin so that a reader of the file sees the threads side by side
	for k := 0; ; k++ {
		any := false
		for tid := 0; tid < nThreads; tid++ {
			if k < len(scripts[tid]) {
				any = true
				pause(tid)
				ops = append(ops, scripts[tid][k])
			}
		}
		if !any {
			break
		}
	}
	return ops
}
