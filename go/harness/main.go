// Command harness drives the real 0chain/common code (built from the working tree named by the go.mod
// replace directive) on generated operation sequences, prints one canonical output line per operation and
// evaluates an independent Go oracle of each property on every case.
//
//	harness -suite <name> [-seed N] [-n N] [-tier quick|thorough] [-out DIR] [-corpus DIR] [-replay FILE]
//
// Files written to -out:
//
//	ops.txt     "#case <i> <origin>" followed by the case's op lines (input of the Lean model driver)
//	impl.txt    "#case <i> <origin>" followed by one output line per op line (compared with the model's output)
//	report.json counts, input distribution, oracle failures (with known-finding matcher verdicts), samples
//
// A suite is registered from an init() function in its own file (see suite_*.go).
package main

import (
	"bufio"
	"crypto/sha256"
	"encoding/hex"
	"encoding/json"
	"flag"
	"fmt"
	"math/rand"
	"os"
	"path/filepath"
	"runtime"
	"runtime/debug"
	"sort"
	"strings"
	"sync"
	"time"
)

// CaseResult is what running one case on the implementation yields.
type CaseResult struct {
	Outs       []string // exactly one output line per op line
	Fails      []string // property-oracle failures observed on the implementation (empty = property held)
	Finding    string   // id of the open known finding whose matcher accepts this case ("" = none)
	Tags       []string // feature / branch tags hit, for the distribution report
	Nontrivial bool     // by the suite's stated rule
}

// Suite is one family of cases for one property (or several sharing a generator).
type Suite struct {
	Name string
	Rule string // how cases are generated and what makes one non-trivial
	// Gen returns the op lines of generated case idx; all randomness comes from r.
	Gen func(r *rand.Rand, tier string, idx int) []string
	// Run executes the ops on the real implementation from a fresh state.
	Run func(ops []string) CaseResult
	// Exhaustive optionally enumerates a finite scope completely (thorough tier, or quick if cheap).
	Exhaustive func(tier string, emit func(ops []string))
	// DefaultN gives the number of generated cases per tier when -n is not given.
	DefaultN func(tier string) int
	// Serial forces single-threaded execution (suites that touch process-global state).
	Serial bool
	// CaseTimeout overrides the per-case watchdog (default 30 s).
	CaseTimeout time.Duration
}

var suites = map[string]*Suite{}

// children are sub-commands a suite may run in a fresh process of this same binary (`harness -child <name> args...`),
// e.g. to turn a race-detector report (exit status / stderr of the child) into an oracle failure of the parent's case.
var children = map[string]func(args []string){}

func register(s *Suite) { suites[s.Name] = s }

type failure struct {
	Case    int      `json:"case"`
	Origin  string   `json:"origin"`
	Finding string   `json:"finding"`
	Msgs    []string `json:"msgs"`
	Ops     []string `json:"ops"`
	Shrunk  []string `json:"shrunk,omitempty"`
}

type report struct {
	Suite              string         `json:"suite"`
	Tier               string         `json:"tier"`
	Seed               int64          `json:"seed"`
	Evaluations        int            `json:"evaluations"`
	DistinctNontrivial int            `json:"distinct_nontrivial"`
	Rule               string         `json:"rule"`
	Exhaustive         bool           `json:"exhaustive"`
	ExhaustiveCases    int            `json:"exhaustive_cases"`
	CorpusCases        int            `json:"corpus_cases"`
	OpMix              map[string]int `json:"op_mix"`
	OutMix             map[string]int `json:"out_mix"`
	SizeHist           map[string]int `json:"size_hist"`
	Tags               map[string]int `json:"tags"`
	Failures           []failure      `json:"failures"`
	KnownFindingHits   map[string]int `json:"known_finding_hits"`
	Samples            [][]string     `json:"samples"`
	WallS              float64        `json:"wall_s"`
}

type kase struct {
	origin string
	ops    []string
}

func caseRand(seed int64, idx int) *rand.Rand {
	return rand.New(rand.NewSource(seed*1000003 + int64(idx)*7919 + 17))
}

// hangIsFailure: the concurrency suites, where an intermittent hang is an intermittent deadlock of the code under test
func hangIsFailure(suite string) bool {
	switch suite {
	case "c08", "c08free", "c08race", "c16", "c20conc":
		return true
	}
	return false
}

// runGuarded runs one case with panic recovery and a watchdog.
func runGuarded(s *Suite, ops []string) CaseResult {
	to := s.CaseTimeout
	if to == 0 {
		to = 30 * time.Second
	}
	ch := make(chan CaseResult, 1)
	go func() {
		defer func() {
			if r := recover(); r != nil {
				outs := make([]string, len(ops))
				for i := range outs {
					outs[i] = "harness-panic"
				}
				ch <- CaseResult{Outs: outs, Fails: []string{fmt.Sprintf("harness-level panic: %v\n%s", r, debug.Stack())}}
			}
		}()
		ch <- s.Run(ops)
	}()
	select {
	case r := <-ch:
		return r
	case <-time.After(to):
		outs := make([]string, len(ops))
		for i := range outs {
			outs[i] = "timeout"
		}
		return CaseResult{Outs: outs, Fails: []string{"case did not terminate within " + to.String()}}
	}
}

// shrink removes op lines while the case still fails the oracle with no finding matcher accepting it.
func shrink(s *Suite, ops []string) []string {
	cur := append([]string(nil), ops...)
	stillFails := func(c []string) bool {
		r := runGuarded(s, c)
		for _, m := range r.Fails {
			if strings.HasPrefix(m, "harness") {
				return false // the shrunk case is malformed, not failing
			}
		}
		return len(r.Fails) > 0 && r.Finding == ""
	}
	deadline := time.Now().Add(20 * time.Second)
	for chunk := len(cur) / 2; chunk >= 1; {
		removed := false
		for i := 0; i+chunk <= len(cur) && time.Now().Before(deadline); {
			cand := append(append([]string(nil), cur[:i]...), cur[i+chunk:]...)
			if len(cand) > 0 && stillFails(cand) {
				cur = cand
				removed = true
			} else {
				i += chunk
			}
		}
		if !removed || chunk > len(cur)/2 {
			chunk /= 2
		}
		if time.Now().After(deadline) {
			break
		}
	}
	return cur
}

func readCase(path string) ([]string, error) {
	f, err := os.Open(path)
	if err != nil {
		return nil, err
	}
	defer f.Close()
	var ops []string
	sc := bufio.NewScanner(f)
	sc.Buffer(make([]byte, 1<<20), 64<<20)
	for sc.Scan() {
		l := strings.TrimRight(sc.Text(), "\r\n")
		if l == "" || strings.HasPrefix(l, "#") {
			continue
		}
		ops = append(ops, l)
	}
	return ops, sc.Err()
}

// childModes: sub-commands a suite runs in a re-executed copy of this binary (`harness <mode> ...`), e.g. to
// isolate a run whose race-detector report must be captured through the exit code.
var childModes = map[string]func(){}

func main() {
	if len(os.Args) > 2 && os.Args[1] == "-child" {
		if f, ok := children[os.Args[2]]; ok {
			f(os.Args[3:])
			return
		}
		fmt.Fprintln(os.Stderr, "unknown child", os.Args[2])
		os.Exit(2)
	}
	if len(os.Args) > 1 {
		if f, ok := childModes[os.Args[1]]; ok {
			f()
			return
		}
	}
	var (
		suiteName = flag.String("suite", "", "suite name")
		seed      = flag.Int64("seed", 1, "PRNG seed")
		n         = flag.Int("n", -1, "number of generated cases (default: per suite and tier)")
		tier      = flag.String("tier", "quick", "quick|thorough")
		out       = flag.String("out", "", "output directory")
		corpus    = flag.String("corpus", "", "directory of corpus cases (*.ops), run first")
		replay    = flag.String("replay", "", "run exactly this one case file")
		workers   = flag.Int("workers", runtime.NumCPU(), "parallel workers")
		list      = flag.Bool("list", false, "list suites")
		noShrink  = flag.Bool("noshrink", false, "do not shrink failing cases")
	)
	flag.Parse()
	if *list {
		var names []string
		for k := range suites {
			names = append(names, k)
		}
		sort.Strings(names)
		fmt.Println(strings.Join(names, "\n"))
		return
	}
	s, ok := suites[*suiteName]
	if !ok {
		fmt.Fprintln(os.Stderr, "unknown suite", *suiteName)
		os.Exit(2)
	}
	if *out == "" {
		fmt.Fprintln(os.Stderr, "-out required")
		os.Exit(2)
	}
	if err := os.MkdirAll(*out, 0o755); err != nil {
		panic(err)
	}
	start := time.Now()

	var cases []kase
	rep := report{Suite: s.Name, Tier: *tier, Seed: *seed, Rule: s.Rule,
		OpMix: map[string]int{}, OutMix: map[string]int{}, SizeHist: map[string]int{}, Tags: map[string]int{},
		KnownFindingHits: map[string]int{}, Failures: []failure{}, Samples: [][]string{}}
	if *replay != "" {
		ops, err := readCase(*replay)
		if err != nil {
			panic(err)
		}
		cases = append(cases, kase{"replay:" + filepath.Base(*replay), ops})
	} else {
		if *corpus != "" {
			files, _ := filepath.Glob(filepath.Join(*corpus, "*.ops"))
			sort.Strings(files)
			for _, f := range files {
				ops, err := readCase(f)
				if err != nil {
					panic(err)
				}
				if len(ops) > 0 {
					cases = append(cases, kase{"corpus:" + filepath.Base(f), ops})
				}
			}
			rep.CorpusCases = len(cases)
		}
		if s.Exhaustive != nil {
			before := len(cases)
			s.Exhaustive(*tier, func(ops []string) {
				cases = append(cases, kase{"exh", append([]string(nil), ops...)})
			})
			rep.ExhaustiveCases = len(cases) - before
			rep.Exhaustive = rep.ExhaustiveCases > 0
		}
		cnt := *n
		if cnt < 0 {
			cnt = 1000
			if s.DefaultN != nil {
				cnt = s.DefaultN(*tier)
			}
		}
		if s.Gen != nil {
			for i := 0; i < cnt; i++ {
				cases = append(cases, kase{fmt.Sprintf("gen:%d:%d", *seed, i), s.Gen(caseRand(*seed, i), *tier, i)})
			}
		}
	}

	results := make([]CaseResult, len(cases))
	w := *workers
	if s.Serial || w < 1 {
		w = 1
	}
	var wg sync.WaitGroup
	idxCh := make(chan int, 64)
	for k := 0; k < w; k++ {
		wg.Add(1)
		go func() {
			defer wg.Done()
			for i := range idxCh {
				r := runGuarded(s, cases[i].ops)
				if len(r.Outs) != len(cases[i].ops) {
					r.Fails = append(r.Fails, fmt.Sprintf("harness bug: %d outputs for %d ops", len(r.Outs), len(cases[i].ops)))
					for len(r.Outs) < len(cases[i].ops) {
						r.Outs = append(r.Outs, "missing-output")
					}
					r.Outs = r.Outs[:len(cases[i].ops)]
				}
				results[i] = r
			}
		}()
	}
	for i := range cases {
		idxCh <- i
	}
	close(idxCh)
	wg.Wait()

	// A case that hit the watchdog while 16 workers compete for a loaded machine is re-run alone with a
	// generous limit: only a case that does not terminate on its own is a property failure (no false alarm
	// from machine load).
	for i := range cases {
		slow := false // a promptness failure measured while other cases were running is measured again alone
		for _, m := range results[i].Fails {
			if strings.Contains(m, "did not terminate promptly") {
				slow = true
			}
		}
		if slow || len(results[i].Fails) == 1 && strings.HasPrefix(results[i].Fails[0], "case did not terminate within") {
			saved := s.CaseTimeout
			if s.CaseTimeout == 0 {
				s.CaseTimeout = 30 * time.Second
			}
			limit := s.CaseTimeout
			s.CaseTimeout *= 8
			t0 := time.Now()
			r := runGuarded(s, cases[i].ops)
			alone := time.Since(t0)
			s.CaseTimeout = saved
			if len(r.Outs) == len(cases[i].ops) {
				r.Tags = append(r.Tags, "watchdog_rerun")
				// only the suites that run the code under test on several goroutines: a suite doing real disk I/O (pebble) or a
				// single-threaded one can stall for minutes on a machine saturated by other checks without any hang in the code
				if !slow && len(r.Fails) == 0 && alone*30 < limit && hangIsFailure(s.Name) {
					// Machine load slows a case down by a small factor, not by 30x: a case that ran into the watchdog among the
					// other workers but finishes that quickly on its own did not merely run slowly - it hung once (an
					// intermittent deadlock or lost wake-up), which no property tolerates.
					r.Fails = append(r.Fails, fmt.Sprintf("case did not terminate within %s among the other workers but takes %s alone: it hung intermittently", limit, alone.Round(time.Millisecond)))
				}
				results[i] = r
			}
		}
	}

	opsF, _ := os.Create(filepath.Join(*out, "ops.txt"))
	implF, _ := os.Create(filepath.Join(*out, "impl.txt"))
	ow, iw := bufio.NewWriterSize(opsF, 1<<20), bufio.NewWriterSize(implF, 1<<20)
	distinct := map[[32]byte]bool{}
	for i, c := range cases {
		r := results[i]
		fmt.Fprintf(ow, "#case %d %s\n", i, c.origin)
		fmt.Fprintf(iw, "#case %d %s\n", i, c.origin)
		for j, op := range c.ops {
			fmt.Fprintln(ow, op)
			fmt.Fprintln(iw, r.Outs[j])
			rep.OpMix[strings.SplitN(op, " ", 2)[0]]++
			rep.OutMix[strings.SplitN(r.Outs[j], " ", 2)[0]]++
		}
		rep.SizeHist[fmt.Sprintf("%02d", sizeBucket(len(c.ops)))]++
		for _, t := range r.Tags {
			rep.Tags[t]++
		}
		if r.Nontrivial {
			distinct[sha256.Sum256([]byte(strings.Join(c.ops, "\n")))] = true
		}
		if len(r.Fails) > 0 {
			if r.Finding != "" {
				rep.KnownFindingHits[r.Finding]++
				if rep.KnownFindingHits[r.Finding] > 3 {
					continue
				}
			}
			f := failure{Case: i, Origin: c.origin, Finding: r.Finding, Msgs: r.Fails, Ops: c.ops}
			if r.Finding == "" && !*noShrink && countUnlisted(rep.Failures) < 3 {
				f.Shrunk = shrink(s, c.ops)
			}
			if len(rep.Failures) < 50 {
				rep.Failures = append(rep.Failures, f)
			}
		}
		if len(rep.Samples) < 3 && (i%97 == 0 || len(cases) < 50) {
			smp := c.ops
			if len(smp) > 40 {
				smp = append(append([]string(nil), smp[:40]...), fmt.Sprintf("... (%d more ops)", len(c.ops)-40))
			}
			rep.Samples = append(rep.Samples, smp)
		}
	}
	ow.Flush()
	iw.Flush()
	opsF.Close()
	implF.Close()
	rep.Evaluations = len(cases)
	rep.DistinctNontrivial = len(distinct)
	rep.WallS = time.Since(start).Seconds()
	b, _ := json.MarshalIndent(rep, "", " ")
	if err := os.WriteFile(filepath.Join(*out, "report.json"), b, 0o644); err != nil {
		panic(err)
	}
	unl := countUnlisted(rep.Failures)
	fmt.Printf("suite=%s cases=%d distinct_nontrivial=%d failures=%d unlisted=%d wall=%.1fs\n", s.Name, len(cases), len(distinct), len(rep.Failures), unl, rep.WallS)
}

func countUnlisted(fs []failure) int {
	c := 0
	for _, f := range fs {
		if f.Finding == "" {
			c++
		}
	}
	return c
}

func sizeBucket(n int) int {
	switch {
	case n <= 4:
		return n
	case n <= 8:
		return 8
	case n <= 16:
		return 16
	case n <= 32:
		return 32
	case n <= 64:
		return 64
	default:
		return 99
	}
}

func hx(b []byte) string { return hex.EncodeToString(b) }

func unhx(s string) []byte {
	if s == "-" {
		return nil
	}
	b, err := hex.DecodeString(s)
	if err != nil {
		panic("bad hex in op line: " + s)
	}
	return b
}
