//go:build race

package main

import "runtime"

// c20RaceErrors: number of data races the Go race detector has reported so far in this process.
func c20RaceErrors() int { return runtime.RaceErrors() }

const c20RaceEnabled = true
