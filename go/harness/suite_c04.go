package main

// Suite c04: saved state is complete and survives crashes.
// Runner, op language and oracles: mptstore.go; generator: mptstore_gen.go.

import "time"

func init() {
	register(&Suite{
		Name:        "c04",
		Rule:        "multi-round histories (2-5 rounds, more in thorough) of transactions merged/discarded then SaveChanges(includeDeletes=false)+RecordDeadNodes on the fake RocksDB; after every save every retained root is re-opened on the persistent store alone; every save is additionally crashed at every write index on a clone of the store, re-opened, re-executed and re-saved; explicit crash-save ops do the same on the main store; three large cases per quick run with change sets of exactly BatchSize-1 .. 2*BatchSize+1 nodes; non-trivial = at least two saved rounds",
		Gen:         genStoreCase(profC04),
		CaseTimeout: 120 * time.Second, // generous: a loaded machine must not turn into an oracle failure
		Run:         func(ops []string) CaseResult { return runStoreCase("C04", ops) },
		DefaultN: func(tier string) int {
			if tier == "thorough" {
				return 100000
			}
			return 1200
		},
	})
}
