package main

// Deterministic schedules WITHOUT a hook in the repository: the harness owns the value type, and every Clone() of a
// harness value made by a scheduled goroutine is a yield point (`bvalOnClone`). That puts a yield point at every clone
// site inside TransactionCache.Set/Get/Commit, BlockCache.Set/Get/setValue and StateCache.Get/commit. A thread that is
// released runs until its next Clone, until it returns, or until it blocks on a mutex (recognised from the goroutine's
// wait state); blocked threads are re-examined after every step.
//
// Used for op `txnsched` of suite c08free: a transaction cache is committed into its (uncommitted) block while lookups
// go through the SAME transaction cache, through the block cache, and through the state cache at that block.
// Oracle (Go only, no model): a key written by the transaction is answered by the transaction's own Get with the
// written value AT ANY TIME (before, during, after Commit) — never with an older value from the ancestor chain, never
// with a miss; the block cache answers old or new during the commit and new after it returned; the state cache at the
// uncommitted block never hits; after everything returned all layers answer the written values.

import (
	"fmt"
	"os"
	"regexp"
	"runtime"
	"sort"
	"strconv"
	"strings"
	"sync"
	"sync/atomic"
	"time"

	"github.com/0chain/common/core/statecache"
)

// every wait of the two schedulers (hook-driven and Clone-driven) is bounded by schedTO(): 10 s, raised to 60 s for the
// last attempt of a schedule that could not be driven before (a loaded machine must not turn into a false alarm; a
// deadlock of the code under a schedule persists through all attempts and is reported)
var c08SchedTO atomic.Int64

func schedTO() time.Duration {
	if v := c08SchedTO.Load(); v > 0 {
		return time.Duration(v)
	}
	return c08SchedDefault
}

// VERIF_SCHED_TO_MS shortens the default wait (self-test of the retry path: with 1 ms most first attempts time out)
var c08SchedDefault = func() time.Duration {
	if ms, err := strconv.Atoi(os.Getenv("VERIF_SCHED_TO_MS")); err == nil && ms > 0 {
		return time.Duration(ms) * time.Millisecond
	}
	return 10 * time.Second
}()

const schedAttempts = 3

var c08GoidRe = regexp.MustCompile(`^goroutine (\d+) `)

func c08Goid() string {
	buf := make([]byte, 64)
	n := runtime.Stack(buf, false)
	if m := c08GoidRe.FindSubmatch(buf[:n]); m != nil {
		return string(m[1])
	}
	return ""
}

// c08BlockedOnMutex reports whether goroutine id is parked in sync.Mutex.Lock / sync.RWMutex.(R)Lock
func c08BlockedOnMutex(id string) bool {
	buf := make([]byte, 1<<16)
	n := runtime.Stack(buf, true)
	for _, blk := range strings.Split(string(buf[:n]), "\n\n") {
		if strings.HasPrefix(blk, "goroutine "+id+" [") {
			hdr := blk[:strings.IndexByte(blk, '\n')]
			return strings.Contains(hdr, "sync.Mutex.Lock") || strings.Contains(hdr, "semacquire") || strings.Contains(hdr, "sync.RWMutex")
		}
	}
	return false
}

const (
	tsNew = iota
	tsParked
	tsBlocked
	tsDone
)

type tsEvt struct {
	t     int
	point string
	done  bool
}

type tsThread struct {
	name   string
	body   func() string
	state  int
	goid   string
	point  string
	result string
	first  int // index of the step at which the thread was started (-1 = never)
	last   int // index of the step after which it was seen finished
}

type tsStep struct {
	chosen  int
	enabled []int
}

type tsSched struct {
	th     []*tsThread
	tids   sync.Map
	resume []chan struct{}
	events chan tsEvt
	steps  []tsStep
	trace  []string
	err    string
}

func (s *tsSched) yield(point string) {
	v, ok := s.tids.Load(c08Goid())
	if !ok {
		return
	}
	t := v.(int)
	s.events <- tsEvt{t: t, point: point}
	<-s.resume[t]
}

func (s *tsSched) note(e tsEvt) {
	th := s.th[e.t]
	if e.done {
		th.state = tsDone
		th.last = len(s.steps)
	} else {
		th.state = tsParked
		th.point = e.point
	}
}

// settle waits until thread t is parked at a Clone, finished, or blocked on a mutex
func (s *tsSched) settle(t int) bool {
	th := s.th[t]
	deadline := time.Now().Add(schedTO() / 2)
	for i := 0; ; i++ {
		select {
		case e := <-s.events:
			s.note(e)
			if e.t == t {
				return true
			}
			continue
		default:
		}
		if i%4 == 3 && c08BlockedOnMutex(th.goid) {
			th.state = tsBlocked
			return true
		}
		if time.Now().After(deadline) {
			s.err = fmt.Sprintf("thread %s neither reached a Clone, nor returned, nor blocked on a mutex within %s", th.name, schedTO()/2)
			return false
		}
		runtime.Gosched()
		if i > 32 {
			time.Sleep(10 * time.Microsecond)
		}
	}
}

func (s *tsSched) step(t int) bool {
	th := s.th[t]
	s.steps = append(s.steps, tsStep{t, s.enabled()})
	switch th.state {
	case tsNew:
		th.first = len(s.steps) - 1
		s.trace = append(s.trace, fmt.Sprintf("%d:start", t))
		idCh := make(chan string, 1)
		go func() {
			id := c08Goid()
			s.tids.Store(id, t)
			idCh <- id
			r := guard(th.body)
			th.result = r
			s.events <- tsEvt{t: t, done: true}
		}()
		select {
		case th.goid = <-idCh:
		case <-time.After(schedTO()):
			s.err = fmt.Sprintf("the goroutine of thread %s did not start", th.name)
			return false
		}
		th.state = tsBlocked // until settled
	case tsParked:
		s.trace = append(s.trace, fmt.Sprintf("%d:%s", t, th.point))
		th.state = tsBlocked
		select {
		case s.resume[t] <- struct{}{}:
		case <-time.After(schedTO()):
			s.err = fmt.Sprintf("thread %s was taken to be parked at %s but does not accept its release", th.name, th.point)
			return false
		}
	default:
		return true
	}
	if !s.settle(t) {
		return false
	}
	// a mutex may have been released: every blocked thread either stays blocked or moves on
	for u, o := range s.th {
		if u != t && o.state == tsBlocked {
			if !s.settle(u) {
				return false
			}
		}
	}
	return true
}

func (s *tsSched) enabled() []int {
	var out []int
	for t, th := range s.th {
		if th.state == tsNew || th.state == tsParked {
			out = append(out, t)
		}
	}
	return out
}

// run executes the schedule (digits of non-enabled threads are skipped) and then completes with the lowest enabled thread
func tsRun(threads []*tsThread, sched string) *tsSched {
	s := &tsSched{th: threads, resume: make([]chan struct{}, len(threads)), events: make(chan tsEvt, 4*len(threads))}
	for i := range s.resume {
		s.resume[i] = make(chan struct{})
		threads[i].first, threads[i].last = -1, -1
	}
	onClone := func(v *bval) { s.yield("clone:" + hx(v.b)) }
	bvalOnClone.Store(&onClone)
	defer bvalOnClone.Store(nil)
	isEnabled := func(t int) bool {
		for _, e := range s.enabled() {
			if e == t {
				return true
			}
		}
		return false
	}
	for _, ch := range sched {
		t := int(ch - '0')
		if t < 0 || t >= len(threads) || !isEnabled(t) {
			continue
		}
		if !s.step(t) {
			return s
		}
	}
	for {
		en := s.enabled()
		if len(en) == 0 {
			break
		}
		if !s.step(en[0]) {
			return s
		}
	}
	for _, th := range threads {
		if th.state != tsDone {
			s.err = fmt.Sprintf("deadlock: thread %s is blocked and no thread can run", th.name)
		}
	}
	return s
}

// ---- op `txnsched <nkeys> <kind>:<key>[,<kind>:<key>] <sched>`: kind = tget | bget | sget | qget

type tsWorld struct {
	sc   *statecache.StateCache
	bc   *statecache.BlockCache
	tc   *statecache.TransactionCache
	keys []string
	old  map[string]string
	new  map[string]string
	pre  string // a key the block cache holds itself (pending own write), not written by the transaction
}

func tsSetup(nKeys int) *tsWorld {
	w := &tsWorld{sc: statecache.NewStateCache(), old: map[string]string{}, new: map[string]string{}}
	a := statecache.NewBlockCache(w.sc, statecache.Block{Hash: "A"})
	for i := 0; i < nKeys; i++ {
		k := fmt.Sprintf("k%d", i+1)
		w.keys = append(w.keys, k)
		w.old[k] = fmt.Sprintf("a%d", i+1)
		w.new[k] = fmt.Sprintf("c%d", i+1)
		a.Set(k, &bval{b: unhx(w.old[k])})
	}
	a.Commit()
	w.bc = statecache.NewBlockCache(w.sc, statecache.Block{Hash: "B", PrevHash: "A"})
	w.pre = "p0"
	w.bc.Set(w.pre, &bval{b: unhx("b0")})
	w.tc = statecache.NewTransactionCache(w.bc)
	for _, k := range w.keys {
		w.tc.Set(k, &bval{b: unhx(w.new[k])})
	}
	return w
}

func tsOut(v statecache.Value, ok bool) string {
	if !ok {
		return "miss"
	}
	return "hit " + scValTok(v)
}

type tsRd struct{ kind, key string }

func tsParseReaders(spec string) []tsRd {
	var rds []tsRd
	for _, p := range strings.Split(spec, ",") {
		kv := strings.SplitN(p, ":", 2)
		if len(kv) != 2 {
			panic("malformed reader: " + spec)
		}
		rds = append(rds, tsRd{kv[0], kv[1]})
	}
	return rds
}

func tsThreads(w *tsWorld, rds []tsRd) []*tsThread {
	threads := []*tsThread{{name: "tcommit", body: func() string { w.tc.Commit(); return "ok" }}}
	for _, r := range rds {
		r := r
		var body func() string
		switch r.kind {
		case "tget":
			body = func() string { return tsOut(w.tc.Get(r.key)) }
		case "bget":
			body = func() string { return tsOut(w.bc.Get(r.key)) }
		case "sget":
			body = func() string { return tsOut(w.sc.Get(r.key, "B")) }
		case "qget":
			body = func() string { return tsOut(statecache.NewQueryBlockCache(w.sc, "B").Get(r.key)) }
		default:
			panic("malformed reader kind: " + r.kind)
		}
		threads = append(threads, &tsThread{name: r.kind + ":" + r.key, body: body})
	}
	return threads
}

// tsDrive runs one schedule on fresh caches. A run that ends in a scheduler error (a wait that timed out) is abandoned —
// its goroutines are leaked — and the schedule is driven again, the last time with all waits raised to 60 s; only an
// error that persists through all attempts is kept (then the code hangs under that schedule).
func tsDrive(nKeys int, rds []tsRd, sched string) (w *tsWorld, threads []*tsThread, s *tsSched, retries int) {
	for attempt := 1; ; attempt++ {
		if attempt == schedAttempts {
			c08SchedTO.Store(int64(60 * time.Second))
		}
		w = tsSetup(nKeys)
		threads = tsThreads(w, rds)
		s = tsRun(threads, sched)
		c08SchedTO.Store(0)
		if s.err == "" {
			return
		}
		if attempt == schedAttempts {
			s.err = fmt.Sprintf("schedule could not be driven: %s, %d attempts", s.err, schedAttempts)
			return
		}
		retries++
	}
}

func runTxnSched(op string, res *CaseResult) string {
	f := strings.Fields(op)
	if len(f) != 4 {
		panic("malformed op: " + op)
	}
	nKeys, _ := strconv.Atoi(f[1])
	rds := tsParseReaders(f[2])
	w, threads, s, retries := tsDrive(nKeys, rds, f[3])
	for i := 0; i < retries; i++ {
		res.Tags = append(res.Tags, "sched_retry")
	}
	fail := func(format string, a ...interface{}) {
		res.Fails = append(res.Fails, fmt.Sprintf("op (%s) [trace %s]: ", op, strings.Join(s.trace, " "))+fmt.Sprintf(format, a...))
	}
	if s.err != "" {
		fail("%s", s.err)
		return "error"
	}
	var outs []string
	for i, r := range rds {
		th := threads[i+1]
		outs = append(outs, th.result)
		nw, written := w.new[r.key]
		switch r.kind {
		case "tget":
			if written && th.result != "hit "+nw {
				fail("the transaction's own lookup of %s, which it wrote (%s) before the schedule began, returned %q (the ancestor holds %s)", r.key, nw, th.result, w.old[r.key])
			}
			if r.key == w.pre && th.result != "hit b0" {
				fail("lookup of the block's pending key %s through its transaction returned %q", r.key, th.result)
			}
		case "bget":
			if written {
				after := th.first > threads[0].last && threads[0].last >= 0
				if th.result != "hit "+nw && (after || th.result != "hit "+w.old[r.key]) {
					fail("lookup of %s through the block cache returned %q (old %s, new %s, started after the commit returned: %v)", r.key, th.result, w.old[r.key], nw, after)
				}
			}
			if r.key == w.pre && th.result != "hit b0" {
				fail("lookup of the block's pending key %s returned %q", r.key, th.result)
			}
		case "sget", "qget":
			if th.result != "miss" {
				fail("state-level lookup of %s at the uncommitted block B returned %q", r.key, th.result)
			}
		}
	}
	// afterwards, sequentially: everything the transaction wrote is in the block, and after the block's commit in the state cache
	for _, k := range w.keys {
		if got := tsOut(w.tc.Get(k)); got != "hit "+w.new[k] {
			fail("after the transaction's Commit returned, its lookup of %s returned %q, want %s", k, got, w.new[k])
		}
		if got := tsOut(w.bc.Get(k)); got != "hit "+w.new[k] {
			fail("after the transaction's Commit returned, the block's lookup of %s returned %q, want %s", k, got, w.new[k])
		}
	}
	w.bc.Commit()
	for _, k := range w.keys {
		if got := tsOut(w.sc.Get(k, "B")); got != "hit "+w.new[k] {
			fail("after the block's Commit, lookup of %s at B returned %q, want %s", k, got, w.new[k])
		}
	}
	sw := 0
	for i := 1; i < len(s.steps); i++ {
		if s.steps[i].chosen != s.steps[i-1].chosen {
			sw++
		}
	}
	res.Tags = append(res.Tags, "txnsched:"+rds[0].kind, "switches:"+strconv.Itoa(min(sw, 6)))
	for _, th := range threads[1:] {
		if th.first >= 0 && threads[0].first >= 0 && th.first > threads[0].first && (threads[0].last < 0 || th.first < threads[0].last) {
			res.Tags = append(res.Tags, "reader-during-txn-commit")
		}
	}
	return strings.Join(outs, " | ")
}

// stateless enumeration of the schedules of one scenario: run a prefix, complete with the default policy, then branch on
// every other thread that was enabled at each later step. (Which waiter gets a released mutex is up to the Go runtime, so
// the enabled sets of two runs of one prefix may differ; the enumeration takes each run as it comes.)
func tsExplore(nKeys int, readers string, budget int, emit func([]string)) int {
	type item struct{ prefix string }
	stack := []item{{""}}
	runs := 0
	seen := map[string]bool{}
	for len(stack) > 0 && runs < budget {
		it := stack[len(stack)-1]
		stack = stack[:len(stack)-1]
		if seen[it.prefix] {
			continue
		}
		seen[it.prefix] = true
		// probe run to learn the enabled sets; the emitted case runs the executed schedule again and is judged
		steps := tsProbe(fmt.Sprintf("txnsched %d %s %s", nKeys, readers, orDash(it.prefix)))
		full := ""
		for _, st := range steps {
			full += strconv.Itoa(st.chosen)
		}
		emit([]string{fmt.Sprintf("txnsched %d %s %s", nKeys, readers, orDash(full))})
		runs++
		for i := len(it.prefix); i < len(steps); i++ {
			alts := append([]int(nil), steps[i].enabled...)
			sort.Sort(sort.Reverse(sort.IntSlice(alts)))
			for _, a := range alts {
				if a != steps[i].chosen {
					stack = append(stack, item{full[:i] + strconv.Itoa(a)})
				}
			}
		}
	}
	return runs
}

func orDash(s string) string {
	if s == "" {
		return "-"
	}
	return s
}

// tsProbe runs the op once (with the retry policy of tsDrive) and returns the decisions taken
func tsProbe(op string) []tsStep {
	f := strings.Fields(op)
	nKeys, _ := strconv.Atoi(f[1])
	sched := ""
	if len(f) > 3 && f[3] != "-" {
		sched = f[3]
	}
	_, _, s, _ := tsDrive(nKeys, tsParseReaders(f[2]), sched)
	return s.steps
}

func exhC08Txn(tier string, emit func([]string)) {
	budget := 60
	keys := []string{"k1", "k3"}
	if tier == "thorough" {
		budget = 400
		keys = []string{"k1", "k2", "k3", "k4"}
	}
	for _, k := range keys {
		tsExplore(4, "tget:"+k, budget, emit)
		tsExplore(4, "bget:"+k, budget/2, emit)
	}
	tsExplore(4, "sget:k1", budget/4, emit)
	tsExplore(4, "tget:p0", budget/4, emit)
	// a second reader parked inside the block cache's lock (hit on the block's own pending key) holds the committer in
	// the middle of the transaction commit
	tsExplore(4, "tget:k2,bget:p0", budget, emit)
	if tier == "thorough" {
		tsExplore(4, "tget:k4,tget:k1", budget, emit)
		tsExplore(4, "bget:k2,qget:k2", budget, emit)
	}
}
