package main

// Suite c15wmpt — weighted-trie decoders reject malformed bytes without crashing (the wmpt half of C15).
//
//	dnode <hex> <desc>         wmpt.DeserializeNode(bytes); accepted nodes are serialized again
//	                                                  -> ok <desc of the re-serialization> | err | panic
//	vproof <b> <hex> <desc>    New(nil,nil).VerifyBlockProof(b, bytes)          -> ok <root> <value|-> | err | panic
//	dtrie <hex> <desc>         New(nil,nil).Deserialize(bytes), then Root(), Weight(), GetRoot().Serialize()
//	                                                  -> ok <root> <weight> <desc> | err | panic
//
// <desc> is what the CBOR layer (fxamacker/cbor, an external library: trusted base) makes of the bytes, computed by
// this harness with the same library and options: `E` = rejected, otherwise the decoded PersistNodeBase
// (`B:<hash>:<child,child,…>` `V:<value>:<hash>:<weight>` `S:<key>:<hash>:<value>` `N` `H:<hash>:<weight>` joined by
// `;`, `0` = no field set, `-` = empty byte string) resp. the decoded pair list (`X` = envelope rejected, otherwise `/`-joined: `n` = null pair, `E`,
// or a node description; `Z` = no pairs). The Lean model runs deserializeNode / verifyProof / deserializeTrie on that
// description, so the correspondence ties exactly the code that the theorems of Props/C15Wmpt are about; where the
// bytes are a canonical encoding the model's own CBOR decoder must reproduce the description as well.
//
// Oracle: no panic, every call returns within 10 s (inputs are a few hundred bytes; the limit is generous so that a loaded
// machine does not produce false alarms), accepted inputs re-serialize without panic.

import (
	"bytes"
	"encoding/binary"
	"fmt"
	"math/rand"
	"runtime"
	"strings"
	"time"

	"github.com/0chain/common/core/util/wmpt"
	"github.com/fxamacker/cbor/v2"
)

func descBytes(b []byte) string {
	if len(b) == 0 {
		return "-"
	}
	return hx(b)
}

func descBase(p *wmpt.PersistNodeBase) string {
	var parts []string
	if p.Branch != nil {
		cs := make([]string, len(p.Branch.Children))
		for i, c := range p.Branch.Children {
			cs[i] = descBytes(c)
		}
		parts = append(parts, "B:"+descBytes(p.Branch.Hash)+":"+strings.Join(cs, ","))
	}
	if p.Value != nil {
		parts = append(parts, fmt.Sprintf("V:%s:%s:%d", descBytes(p.Value.Value), descBytes(p.Value.Hash), p.Value.Weight))
	}
	if p.Short != nil {
		parts = append(parts, fmt.Sprintf("S:%s:%s:%s", descBytes(p.Short.Key), descBytes(p.Short.Hash), descBytes(p.Short.Value)))
	}
	if p.NilNode != nil {
		parts = append(parts, "N")
	}
	if p.HashNode != nil {
		parts = append(parts, fmt.Sprintf("H:%s:%d", descBytes(p.HashNode.Hash), p.HashNode.Weight))
	}
	if len(parts) == 0 {
		return "0"
	}
	return strings.Join(parts, ";")
}

func descNodeBytes(data []byte) (s string) {
	defer func() {
		if r := recover(); r != nil {
			s = "P"
		}
	}()
	p := &wmpt.PersistNodeBase{}
	if err := cbor.Unmarshal(data, p); err != nil {
		return "E"
	}
	return descBase(p)
}

func descTrieBytes(data []byte) (s string) {
	defer func() {
		if r := recover(); r != nil {
			s = "P"
		}
	}()
	dm, _ := cbor.DecOptions{MaxArrayElements: 1342177280, MaxMapPairs: 1342177280}.DecMode()
	pt := &wmpt.PersistTrie{}
	if err := dm.Unmarshal(data, pt); err != nil {
		return "X"
	}
	if len(pt.Pairs) == 0 {
		return "Z"
	}
	parts := make([]string, len(pt.Pairs))
	for i, p := range pt.Pairs {
		if p == nil {
			parts[i] = "n"
		} else {
			parts[i] = descNodeBytes(p.Value)
		}
	}
	return strings.Join(parts, "/")
}

// promptBound: a decode has to finish within max(50 ms, 1 s per 100 kB of input)
func promptBound(inputLen int) time.Duration {
	b := time.Duration(inputLen) * time.Second / 100000
	if b < 50*time.Millisecond {
		b = 50 * time.Millisecond
	}
	return b
}

// timed runs one decode under guard. Oracles: no panic; an absolute limit of 10 s; and promptness — the wall time, taken as
// the minimum of two runs when the first one exceeds the bound (machine load), stays within promptBound(inputLen). A case
// with a promptness failure is run again alone by the harness before it counts (main.go).
func timed(i int, x *CaseResult, what string, inputLen int, f func() string) string {
	start := time.Now()
	out := guard(f)
	d := time.Since(start)
	if d > 10*time.Second {
		x.Fails = append(x.Fails, fmt.Sprintf("op %d: %s took %s", i, what, d))
	} else if bound := promptBound(inputLen); d > bound {
		start = time.Now()
		guard(f)
		if d2 := time.Since(start); d2 < d {
			d = d2
		}
		if d > bound {
			x.Fails = append(x.Fails, fmt.Sprintf("op %d: %s did not terminate promptly: %s for %d bytes of input (bound %s)", i, what, d.Round(time.Millisecond), inputLen, bound))
		}
	}
	if out == "panic" {
		x.Fails = append(x.Fails, fmt.Sprintf("op %d: %s panicked", i, what))
	}
	return out
}

// panicSite: the innermost function of core/util/wmpt on the stack of the panic being recovered
func panicSite() string {
	pcs := make([]uintptr, 40)
	n := runtime.Callers(3, pcs)
	frames := runtime.CallersFrames(pcs[:n])
	for {
		fr, more := frames.Next()
		if strings.Contains(fr.File, "/util/wmpt/") {
			return fr.Function[strings.LastIndex(fr.Function, "/")+1:]
		}
		if !more {
			return "?"
		}
	}
}

// followUps: whatever a decoder ACCEPTED has to be usable: the operations a caller runs next on the loaded trie — proofs
// for the first and the last block, path exports, an update, deletes, root — must not panic (errors are fine). The
// results are not part of the op's output (oracle only).
func followUps(i int, x *CaseResult, what string, t *wmpt.WeightedMerkleTrie, input []byte) {
	h := sha3sum(input)
	k1 := append([]byte(nil), h...)
	k3 := bytes.Repeat([]byte{0x11}, 32)
	var k2 []byte
	stop := false // after an unexpected panic nothing else is tried (a panic inside GetPath's goroutines cannot be recovered)
	step := func(name string, f func()) {
		if stop {
			return
		}
		start := time.Now()
		var pv interface{}
		site := ""
		func() {
			defer func() {
				if pv = recover(); pv != nil {
					site = panicSite()
				}
			}()
			f()
		}()
		if pv != nil {
			x.Fails = append(x.Fails, fmt.Sprintf("op %d: %s accepted the input, then %s panicked on the loaded trie: %v (in %s)", i, what, name, pv, site))
			stop = true
		}
		if d := time.Since(start); d > 10*time.Second {
			x.Fails = append(x.Fails, fmt.Sprintf("op %d: %s accepted the input, then %s took %s", i, what, name, d))
		}
	}
	var w uint64
	step("Root/Weight", func() { _ = t.Root(); w = t.Weight() })
	step("GetBlockProof(1)", func() {
		if key, _, err := t.GetBlockProof(1); err == nil && len(key) == 32 {
			k2 = key
		}
	})
	if k2 == nil {
		k2 = bytes.Repeat([]byte{0x22}, 32)
	}
	step("GetBlockProof(weight)", func() { _, _, _ = t.GetBlockProof(w) })
	step("GetPath(1 key)", func() { _, _ = t.GetPath([][]byte{k2}) })
	step("GetPath(3 keys)", func() { _, _ = t.GetPath([][]byte{k1, k2, k3}) })
	// sixteen keys, one per first nibble: first each alone, then ten together (sequential strategy), then twelve of
	// the same keys through the parallel one — a panic inside its goroutines could not be recovered, the sequential walks
	// of the same keys find it first
	all := make([][]byte, 16)
	for j := range all {
		all[j] = sha3sum(append([]byte{byte(j)}, h...))
		all[j][0] = byte(j)<<4 | all[j][0]&15
	}
	for j := range all {
		key := all[j]
		step("GetPath(1 of 16 keys)", func() { _, _ = t.GetPath([][]byte{key}) }) // one by one: a call stops at its first error
	}
	step("GetPath(10 keys)", func() { _, _ = t.GetPath(all[:10]) })
	step("GetPath(12 keys)", func() { _, _ = t.GetPath(all[2:14]) })
	step("Update", func() { _ = t.Update(append([]byte(nil), k1...), []byte{1, 2, 3}, 3) })
	step("Update(owner of block 1)", func() { _ = t.Update(append([]byte(nil), k2...), []byte{4, 5}, 2) })
	step("Delete", func() { _, _ = t.Delete(append([]byte(nil), k2...)) })
	step("Update(nil)", func() { _ = t.Update(append([]byte(nil), k3...), nil, 0) })
	step("Root after the changes", func() { _ = t.Root() })
	step("GetPath after the changes", func() { _, _ = t.GetPath([][]byte{k1, k2}) })
}

func runC15Wmpt(ops []string) CaseResult {
	res := CaseResult{}
	tags := map[string]bool{}
	for i, op := range ops {
		f := strings.Fields(op)
		var out string
		switch f[0] {
		case "dnode":
			data := unhx(f[1])
			if d := descNodeBytes(data); d != f[2] {
				res.Fails = append(res.Fails, fmt.Sprintf("harness: op %d carries description %q, the CBOR library now yields %q", i, wmClip(f[2], 80), wmClip(d, 80)))
			}
			out = timed(i, &res, "DeserializeNode", len(data), func() string {
				n, err := wmpt.DeserializeNode(append([]byte(nil), data...))
				if err != nil {
					return "err"
				}
				ser, err := n.Serialize()
				if err != nil {
					return "ok sererr"
				}
				return "ok " + descNodeBytes(ser)
			})
		case "vproof":
			data := unhx(f[2])
			if d := descTrieBytes(data); d != f[3] {
				res.Fails = append(res.Fails, fmt.Sprintf("harness: op %d carries description %q, the CBOR library now yields %q", i, wmClip(f[3], 80), wmClip(d, 80)))
			}
			var loaded *wmpt.WeightedMerkleTrie
			out = timed(i, &res, "VerifyBlockProof", len(data), func() string {
				t := wmpt.New(nil, nil)
				h, v, err := t.VerifyBlockProof(u64(f[1]), append([]byte(nil), data...))
				if err != nil {
					return "err"
				}
				loaded = t
				return "ok " + hx(h) + " " + hxOrDash(v)
			})
			if loaded != nil && strings.HasPrefix(out, "ok") {
				followUps(i, &res, "VerifyBlockProof", loaded, data)
			}
		case "dtrie":
			data := unhx(f[1])
			if d := descTrieBytes(data); d != f[2] {
				res.Fails = append(res.Fails, fmt.Sprintf("harness: op %d carries description %q, the CBOR library now yields %q", i, wmClip(f[2], 80), wmClip(d, 80)))
			}
			var loaded *wmpt.WeightedMerkleTrie
			out = timed(i, &res, "Deserialize", len(data), func() string {
				t := wmpt.New(nil, nil)
				if err := t.Deserialize(append([]byte(nil), data...)); err != nil {
					return "err"
				}
				ser, err := t.GetRoot().Serialize()
				if err != nil {
					return "ok sererr"
				}
				loaded = t
				return fmt.Sprintf("ok %x %d %s", t.Root(), t.Weight(), descNodeBytes(ser))
			})
			if loaded != nil && strings.HasPrefix(out, "ok") && loaded.GetRoot() != nil {
				followUps(i, &res, "Deserialize", loaded, data)
			}
		default:
			panic("unknown op " + op)
		}
		tags[f[0]+":"+strings.SplitN(out, " ", 2)[0]] = true
		res.Outs = append(res.Outs, out)
	}
	for t := range tags {
		res.Tags = append(res.Tags, t)
	}
	res.Nontrivial = len(ops) > 0
	return res
}

// ---- generator ------------------------------------------------------------------------------------------

// c15Sources builds a small trie and returns real encodings: stored nodes, a proof (with its block), a path export.
func c15Sources(r *rand.Rand, comb bool) (nodes [][]byte, proof []byte, block uint64, export []byte) {
	st := newMemStore()
	t := wmpt.New(nil, st)
	pool := wkeyPool(r, 2+r.Intn(6))
	if comb {
		pool = wcombPool(r, 60+r.Intn(4)) // the longest proof / export paths: key 0 has a sibling at every nibble depth
	}
	var total uint64
	content := wcontent{}
	for i, k := range pool {
		v := wgenValue(r, i, false)
		_ = t.Update([]byte(k), v, wvalWeight(v))
		total += wvalWeight(v)
		content[k] = went{v, wvalWeight(v)}
	}
	b, _ := t.Commit(r.Intn(5) - 1)
	_ = b.Commit(true)
	for _, v := range st.m {
		nodes = append(nodes, v)
	}
	// deterministic order
	for i := range nodes {
		for j := i + 1; j < len(nodes); j++ {
			if bytes.Compare(nodes[j], nodes[i]) < 0 {
				nodes[i], nodes[j] = nodes[j], nodes[i]
			}
		}
	}
	block = 1 + uint64(r.Intn(int(total)))
	nk := r.Intn(3)
	var keys [][]byte
	for i := 0; i < nk; i++ {
		keys = append(keys, []byte(pool[r.Intn(len(pool))]))
	}
	if comb {
		// the first block of key 0, and key 0 among the exported paths
		var cum uint64
		for _, k := range content.sortedKeys() {
			if k == pool[0] {
				block = cum + 1
			}
			cum += content[k].w
		}
		keys = append(keys, []byte(pool[0]))
	}
	_, proof, _ = t.GetBlockProof(block)
	export, _ = t.GetPath(keys)
	hn, _ := wmpt.NewHashNode(sha3sum([]byte("x")), 7).Serialize()
	nn, _ := wmpt.New(nil, nil).GetRoot().Serialize()
	nodes = append(nodes, hn, nn)
	return
}

func marshalBase(p *wmpt.PersistNodeBase) []byte {
	b, err := cbor.Marshal(p)
	if err != nil {
		panic(err)
	}
	return b
}

// mutateBytes returns structurally interesting corruptions of one encoding.
func mutateBytes(r *rand.Rand, b []byte, all bool) [][]byte {
	var out [][]byte
	// truncations: every length for short inputs, a sample otherwise
	if all || len(b) <= 48 {
		for n := 0; n < len(b); n++ {
			out = append(out, append([]byte(nil), b[:n]...))
		}
	} else {
		for k := 0; k < 12; k++ {
			out = append(out, append([]byte(nil), b[:r.Intn(len(b))]...))
		}
		out = append(out, b[:1], b[:2], b[:3], b[:len(b)-1])
	}
	// CBOR head inflation / deflation: find heads and change their argument
	for k := 0; k < 10; k++ {
		m := append([]byte(nil), b...)
		i := r.Intn(len(m))
		major := m[i] >> 5
		switch r.Intn(6) {
		case 0:
			m[i] = major<<5 | 24 // one-byte argument follows
		case 1:
			m[i] = major<<5 | 27 // eight-byte argument follows
		case 2:
			m[i] = major<<5 | 31 // indefinite length
		case 3:
			m[i] = m[i] + 1
		case 4:
			m[i] = m[i] - 1
		default:
			m[i] = byte(r.Intn(8))<<5 | m[i]&31 // other major type, same argument
		}
		out = append(out, m)
	}
	// huge declared lengths
	for _, pre := range [][]byte{{0x9b, 0, 0, 0, 0, 0x4f, 0xff, 0xff, 0xff}, {0x5b, 0, 0, 0, 0, 0x7f, 0xff, 0xff, 0xff}, {0xbb, 0, 0, 0, 0, 0x4f, 0xff, 0xff, 0xff}, {0x9a, 0x50, 0, 0, 0}} {
		i := r.Intn(len(b))
		out = append(out, append(append(append([]byte(nil), b[:i]...), pre...), b[i:]...))
	}
	// type-key changes (splices between node kinds): a1 0a.. -> a1 0b.. etc.
	if len(b) > 2 && b[0] == 0xa1 {
		for k := byte(9); k <= 15; k++ {
			m := append([]byte(nil), b...)
			m[1] = k
			out = append(out, m)
		}
	}
	// random byte changes
	for k := 0; k < 8; k++ {
		m := append([]byte(nil), b...)
		m[r.Intn(len(m))] = byte(r.Intn(256))
		out = append(out, m)
	}
	// insert / delete a byte
	for k := 0; k < 4; k++ {
		i := r.Intn(len(b))
		out = append(out, append(append(append([]byte(nil), b[:i]...), byte(r.Intn(256))), b[i:]...))
		out = append(out, append(append([]byte(nil), b[:i]...), b[i+1:]...))
	}
	return out
}

func randBytes(r *rand.Rand, n int) []byte {
	b := make([]byte, n)
	r.Read(b)
	return b
}

// structuralNodes: valid CBOR, arbitrary field contents and lengths
func structuralNodes(r *rand.Rand, idx int) [][]byte {
	var out [][]byte
	h := randBytes(r, 32)
	// a branch with one child entry of every length 0..80 (two lengths per case index, all lengths over 41 cases)
	for _, l := range []int{(2 * idx) % 82, (2*idx + 1) % 82, 39 + r.Intn(36)} {
		ch := make([][]byte, 16)
		ch[r.Intn(16)] = randBytes(r, l)
		ch[r.Intn(16)] = append(randBytes(r, 32), be64(uint64(r.Intn(9)))...)
		out = append(out, marshalBase(&wmpt.PersistNodeBase{Branch: &wmpt.PersistNodeBranch{Hash: h, Children: ch}}))
	}
	// more (or fewer) than 16 children
	for _, n := range []int{0, 1, 15, 17, 18, 24, 33, 100}[idx%8:][:1] {
		ch := make([][]byte, n)
		for i := range ch {
			if r.Intn(2) == 0 {
				ch[i] = append(randBytes(r, 32), be64(uint64(r.Intn(5)))...)
			}
		}
		out = append(out, marshalBase(&wmpt.PersistNodeBase{Branch: &wmpt.PersistNodeBranch{Hash: h, Children: ch}}))
	}
	// short nodes with value fields of every length around 40
	for _, l := range []int{idx % 45, 40, 39, 41} {
		out = append(out, marshalBase(&wmpt.PersistNodeBase{Short: &wmpt.PersistNodeShort{Key: randBytes(r, r.Intn(70)), Hash: randBytes(r, r.Intn(34)), Value: randBytes(r, l)}}))
	}
	// huge weights, empty fields, several kinds in one map, nothing at all
	w := uint64(1)<<63 + uint64(r.Int63())
	out = append(out,
		marshalBase(&wmpt.PersistNodeBase{Value: &wmpt.PersistNodeValue{Value: nil, Hash: nil, Weight: w}}),
		marshalBase(&wmpt.PersistNodeBase{HashNode: &wmpt.PersistHashNode{Hash: randBytes(r, r.Intn(40)), Weight: w}}),
		marshalBase(&wmpt.PersistNodeBase{Value: &wmpt.PersistNodeValue{Value: randBytes(r, 3), Hash: h, Weight: 2}, Short: &wmpt.PersistNodeShort{Key: []byte{1}, Hash: h, Value: randBytes(r, 40)}}),
		marshalBase(&wmpt.PersistNodeBase{Branch: &wmpt.PersistNodeBranch{}, NilNode: &wmpt.PersistNilNode{}, HashNode: &wmpt.PersistHashNode{}}),
		marshalBase(&wmpt.PersistNodeBase{}),
	)
	// overflowing child weights
	big := make([]byte, 8)
	binary.BigEndian.PutUint64(big, ^uint64(0)-uint64(r.Intn(3)))
	ch := make([][]byte, 16)
	ch[3] = append(randBytes(r, 32), big...)
	ch[9] = append(randBytes(r, 32), big...)
	out = append(out, marshalBase(&wmpt.PersistNodeBase{Branch: &wmpt.PersistNodeBranch{Hash: h, Children: ch}}))
	return out
}

// ---- crafted, hash-consistent structures the trie's own operations never build --------------------------------
//
// Deserialize checks an export through the hashes claimed inside the pairs and recomputes the root's: anything built
// with the right hash formulas is accepted, whatever its shape. cval / cshort / cbranch return the pairs of a subtree in
// export order (pre-order), its hash and its weight.

type csub struct {
	pairs [][]byte
	hash  []byte
	w     uint64
}

func cval(val []byte, w uint64) csub {
	h := sha3sum(append(be64(w), val...))
	return csub{[][]byte{marshalBase(&wmpt.PersistNodeBase{Value: &wmpt.PersistNodeValue{Value: val, Hash: h, Weight: w}})}, h, w}
}

func cshort(key []byte, c csub) csub {
	h := sha3sum(append(append([]byte(nil), key...), c.hash...))
	p := marshalBase(&wmpt.PersistNodeBase{Short: &wmpt.PersistNodeShort{Key: key, Hash: h, Value: append(append([]byte(nil), c.hash...), be64(c.w)...)}})
	return csub{append([][]byte{p}, c.pairs...), h, c.w}
}

func cbranch(kids map[int]csub) csub {
	ch := make([][]byte, 16)
	var total uint64
	var body []byte
	var pairs [][]byte
	for i := 0; i < 16; i++ {
		k, ok := kids[i]
		if !ok {
			body = append(body, emptyHashW...)
			continue
		}
		ch[i] = append(append([]byte(nil), k.hash...), be64(k.w)...)
		total += k.w
		body = append(body, k.hash...)
		pairs = append(pairs, k.pairs...)
	}
	h := sha3sum(append(be64(total), body...))
	p := marshalBase(&wmpt.PersistNodeBase{Branch: &wmpt.PersistNodeBranch{Hash: h, Children: ch}})
	return csub{append([][]byte{p}, pairs...), h, total}
}

// cchain: `depth` single-child nodes above a value node: branches (kind 0), one-nibble short nodes (kind 1) or both
// alternating (kind 2) — some 80 bytes per level, hash-consistent
func cchain(r *rand.Rand, depth, kind int) csub {
	c := cval([]byte{0xc0, byte(depth), byte(kind)}, 1+uint64(r.Intn(5)))
	for d := 0; d < depth; d++ {
		if kind == 0 || kind == 2 && d%2 == 0 {
			c = cbranch(map[int]csub{r.Intn(16): c})
		} else {
			c = cshort([]byte{byte(r.Intn(16))}, c)
		}
	}
	return c
}

// craftedExports: hash-consistent exports of shapes the trie's own operations never build — short-node keys of every
// length around and beyond the 64 nibbles of a key (1, 2, 63, 64, 65, 70, 200), value nodes above the full depth, keys
// holding bytes that are not nibbles (rejected since fix f270208), short nodes under short nodes, small single-child
// chains. The importers accept the others (they check hashes, not shapes); whatever runs next on the loaded trie must cope.
func craftedExports(r *rand.Rand, idx int) []csub {
	nibs := func(n int) []byte {
		k := make([]byte, n)
		for j := range k {
			k[j] = byte(r.Intn(16))
		}
		return k
	}
	ls := []int{1, 2, 63, 64, 65, 70, 200}
	l := ls[idx%len(ls)]
	v := func() csub { return cval(randBytes(r, 1+r.Intn(4)), 1+uint64(r.Intn(4))) }
	out := []csub{
		cshort(nibs(l), v()),
		cshort(nibs(ls[r.Intn(len(ls))]), cshort(nibs(1+r.Intn(3)), v())),
		cbranch(map[int]csub{r.Intn(8): cshort(nibs(l), v()), 8 + r.Intn(8): v()}),
		cshort(nibs(2), cbranch(map[int]csub{3: v(), 9: cshort(nibs(l-1), v())})),
		cchain(r, 3+r.Intn(12), idx%3), // (deep ones: suite c15deep; the model re-hashes quadratically)
	}
	bad := nibs(l)
	bad[r.Intn(len(bad))] = byte(16 + r.Intn(240))
	out = append(out, cshort(bad, v()))
	return out
}

func marshalPairs(vals [][]byte, nilAt int) []byte {
	pt := &wmpt.PersistTrie{}
	for i, v := range vals {
		if i == nilAt {
			pt.Pairs = append(pt.Pairs, nil)
		}
		pt.Pairs = append(pt.Pairs, &wmpt.PersistTriePair{Value: v})
	}
	if nilAt >= len(vals) {
		pt.Pairs = append(pt.Pairs, nil)
	}
	b, err := cbor.Marshal(pt)
	if err != nil {
		panic(err)
	}
	return b
}

func pairValues(data []byte) [][]byte {
	pt := &wmpt.PersistTrie{}
	if err := cbor.Unmarshal(data, pt); err != nil {
		return nil
	}
	var vs [][]byte
	for _, p := range pt.Pairs {
		if p != nil {
			vs = append(vs, p.Value)
		}
	}
	return vs
}

// substituteKinds: pair i of a proof / export replaced by a well-formed node of every OTHER kind (hash node, value
// node, branch, short node, nil node) whose claimed Hash field — and weight — are those of the node it replaces, i.e. the
// hash the parent expects, everything else intact. Truncations, byte changes and kind-key changes never produce these:
// they pass the "child hash mismatch" test of the importer and reach whatever it does with the accepted child next
// (e.g. a type assertion on the kind the parent's entry announced).
func substituteKinds(r *rand.Rand, vals [][]byte, i int) [][]byte {
	var h []byte
	var w uint64
	kind := ""
	func() {
		defer func() { _ = recover() }()
		n, err := wmpt.DeserializeNode(append([]byte(nil), vals[i]...))
		if err != nil || n == nil {
			return
		}
		h, w = append([]byte(nil), n.Hash()...), n.Weight()
		if d := descNodeBytes(vals[i]); len(d) > 0 {
			kind = d[:1]
		}
	}()
	if kind == "" {
		return nil
	}
	if len(h) == 0 {
		h = randBytes(r, 32)
	}
	entry := func(w uint64) []byte { return append(randBytes(r, 32), be64(w)...) }
	nibbles := func(n int) []byte {
		k := make([]byte, n)
		for j := range k {
			k[j] = byte(r.Intn(16))
		}
		return k
	}
	var subs [][]byte
	if kind != "H" {
		subs = append(subs, marshalBase(&wmpt.PersistNodeBase{HashNode: &wmpt.PersistHashNode{Hash: h, Weight: w}}))
	}
	if kind != "V" {
		subs = append(subs, marshalBase(&wmpt.PersistNodeBase{Value: &wmpt.PersistNodeValue{Value: randBytes(r, 1+r.Intn(4)), Hash: h, Weight: w}}))
	}
	if kind != "B" {
		ch := make([][]byte, 16)
		a := r.Intn(16)
		b := (a + 1 + r.Intn(15)) % 16
		w1 := uint64(0)
		if w > 1 {
			w1 = 1 + uint64(r.Int63())%(w-1)
		}
		ch[a] = entry(w - w1)
		switch r.Intn(3) {
		case 0: // a second plain entry
			ch[b] = entry(w1)
		case 1: // an entry that embeds a short child (hash, weight, value hash, key)
			ch[b] = append(append(entry(w1), randBytes(r, 32)...), nibbles(1+r.Intn(5))...)
		}
		subs = append(subs, marshalBase(&wmpt.PersistNodeBase{Branch: &wmpt.PersistNodeBranch{Hash: h, Children: ch}}))
	}
	if kind != "S" {
		subs = append(subs, marshalBase(&wmpt.PersistNodeBase{Short: &wmpt.PersistNodeShort{Key: nibbles(1 + r.Intn(6)), Hash: h, Value: entry(w)}}))
	}
	if kind != "N" {
		subs = append(subs, marshalBase(&wmpt.PersistNodeBase{NilNode: &wmpt.PersistNilNode{}}))
	}
	var out [][]byte
	for _, sb := range subs {
		v2 := append([][]byte(nil), vals...)
		v2[i] = sb
		out = append(out, marshalPairs(v2, -1))
	}
	return out
}

// substitutePositions: every position of a short pair list, a sample of 8 otherwise
func substitutePositions(r *rand.Rand, n int) []int {
	if n <= 8 {
		ps := make([]int, n)
		for i := range ps {
			ps[i] = i
		}
		return ps
	}
	return r.Perm(n)[:8]
}

func genC15Wmpt(r *rand.Rand, tier string, idx int) []string {
	comb := idx%100 == 19
	nodes, proof, block, export := c15Sources(r, comb)
	var ops []string
	dnode := func(b []byte) { ops = append(ops, fmt.Sprintf("dnode %s %s", hxOrDash(b), descNodeBytes(b))) }
	vproof := func(blk uint64, b []byte) {
		ops = append(ops, fmt.Sprintf("vproof %d %s %s", blk, hxOrDash(b), descTrieBytes(b)))
	}
	dtrie := func(b []byte) { ops = append(ops, fmt.Sprintf("dtrie %s %s", hxOrDash(b), descTrieBytes(b))) }

	if comb {
		// proofs and exports of maximal depth (up to 65 elements): the honest ones, a few corruptions of each, a null pair,
		// prefixes, kind substitution at the two ends and in the middle (the encodings are some 10 kB: fewer variants)
		vproof(block, proof)
		dtrie(export)
		dtrie(proof)
		vproof(block, export)
		for k, m := range mutateBytes(r, proof, false) {
			if k%6 == 0 {
				vproof(block, m)
			}
		}
		for k, m := range mutateBytes(r, export, false) {
			if k%6 == 0 {
				dtrie(m)
			}
		}
		pv, ev := pairValues(proof), pairValues(export)
		for _, k := range []int{0, 1, len(pv) / 2, len(pv) - 1, len(pv)} {
			vproof(block, marshalPairs(pv, k))
			vproof(block, marshalPairs(pv[:k], -1))
		}
		for _, k := range []int{0, len(ev) / 2, len(ev)} {
			dtrie(marshalPairs(ev, k))
			dtrie(marshalPairs(ev[:k], -1))
		}
		for _, j := range []int{0, len(pv) / 2, len(pv) - 2, len(pv) - 1} {
			if j >= 0 && j < len(pv) {
				for _, m := range substituteKinds(r, pv, j) {
					vproof(block, m)
				}
			}
		}
		for _, j := range []int{0, len(ev) / 2, len(ev) - 1} {
			if j >= 0 && j < len(ev) {
				for _, m := range substituteKinds(r, ev, j) {
					dtrie(m)
				}
			}
		}
		return ops
	}
	switch idx % 4 {
	case 0: // single nodes: real encodings and their corruptions
		n := nodes[r.Intn(len(nodes))]
		dnode(n)
		for _, m := range mutateBytes(r, n, idx%40 == 0) {
			dnode(m)
		}
		dnode(nil)
	case 1: // valid CBOR with arbitrary field contents
		for _, m := range structuralNodes(r, idx/4) {
			dnode(m)
		}
		// hash-consistent exports of shapes the trie never builds: accepted by the importers
		for _, c := range craftedExports(r, idx/4) {
			b := marshalPairs(c.pairs, -1)
			dtrie(b)
			vproof(1+uint64(r.Intn(int(c.w))), b)
		}
		// the same structures as elements of proofs and exports
		sn := structuralNodes(r, idx/4)
		vals := pairValues(proof)
		for k := 0; k < 4 && len(vals) > 0; k++ {
			v2 := append([][]byte(nil), vals...)
			v2[r.Intn(len(v2))] = sn[r.Intn(len(sn))]
			vproof(block, marshalPairs(v2, -1))
			dtrie(marshalPairs(v2, -1))
		}
	case 2: // proofs
		vproof(block, proof)
		vproof(0, proof)
		vproof(^uint64(0), proof)
		for _, m := range mutateBytes(r, proof, false) {
			vproof(block, m)
		}
		vals := pairValues(proof)
		for k := 0; k <= len(vals); k++ {
			vproof(block, marshalPairs(vals, k)) // a null pair at every position
			vproof(block, marshalPairs(vals[:k], -1))
		}
		// corrupt one element, keep the envelope valid
		for k := 0; k < 10 && len(vals) > 0; k++ {
			v2 := append([][]byte(nil), vals...)
			j := r.Intn(len(v2))
			ms := mutateBytes(r, v2[j], false)
			v2[j] = ms[r.Intn(len(ms))]
			vproof(block, marshalPairs(v2, -1))
		}
		// elements of other kinds spliced in
		for k := 0; k < 4 && len(vals) > 0; k++ {
			v2 := append([][]byte(nil), vals...)
			v2[r.Intn(len(v2))] = nodes[r.Intn(len(nodes))]
			vproof(block, marshalPairs(v2, -1))
		}
		// a node of another kind carrying the hash (and weight) the parent expects, at every position
		for _, j := range substitutePositions(r, len(vals)) {
			for _, m := range substituteKinds(r, vals, j) {
				vproof(block, m)
				if j%3 == 0 {
					dtrie(m)
				}
			}
		}
		vproof(block, nil)
	default: // path exports
		dtrie(export)
		for _, m := range mutateBytes(r, export, false) {
			dtrie(m)
		}
		vals := pairValues(export)
		for k := 0; k <= len(vals) && k < 12; k++ {
			dtrie(marshalPairs(vals, k))
			dtrie(marshalPairs(vals[:k], -1))
		}
		for k := 0; k < 10 && len(vals) > 0; k++ {
			v2 := append([][]byte(nil), vals...)
			j := r.Intn(len(v2))
			ms := mutateBytes(r, v2[j], false)
			v2[j] = ms[r.Intn(len(ms))]
			dtrie(marshalPairs(v2, -1))
		}
		for k := 0; k < 4 && len(vals) > 1; k++ { // reorder / duplicate / splice
			v2 := append([][]byte(nil), vals...)
			a, b := r.Intn(len(v2)), r.Intn(len(v2))
			switch k {
			case 0:
				v2[a], v2[b] = v2[b], v2[a]
			case 1:
				v2 = append(v2[:a+1], v2[a:]...)
			case 2:
				v2[a] = nodes[r.Intn(len(nodes))]
			default:
				v2 = append(v2[:a], v2[a+1:]...)
			}
			dtrie(marshalPairs(v2, -1))
		}
		for _, j := range substitutePositions(r, len(vals)) {
			for _, m := range substituteKinds(r, vals, j) {
				dtrie(m)
				if j%3 == 0 {
					vproof(block, m)
				}
			}
		}
		dtrie(nil)
		// the export taken as a proof and vice versa
		vproof(block, export)
		dtrie(proof)
	}
	return ops
}

func init() {
	register(&Suite{
		Name:        "c15wmpt",
		Rule:        "malformed-input stream for wmpt.DeserializeNode / Deserialize / VerifyBlockProof: real node, proof and export encodings of generated tries and their corruptions (every truncation, CBOR head inflation/deflation, indefinite and huge lengths, type-key changes, byte changes/insertions/deletions), valid CBOR with arbitrary fields (child entries of every length 0..81, 0..100 children, short value fields of every length, overflowing weights, several kinds in one map), null pairs at every position, elements of other kinds spliced into proofs and exports, every pair replaced by a well-formed node of each other kind that carries the hash and weight its parent expects; hash-consistent exports of shapes the trie never builds (short keys of 1..200 nibbles, values above the key depth, non-nibble key bytes, short under short, single-child chains) — for every input a decoder ACCEPTS the follow-up operations on the loaded trie (proofs of the first / last block, path exports of 1 / 3 / 12 keys, updates, deletes, root) must not panic, and every decode must terminate promptly (max(50 ms, 1 s per 100 kB)); every 100th case: proofs and exports of maximal depth (comb-shaped tries: a branch at every nibble depth, up to 65 elements) and their corruptions; non-trivial = every case",
		Gen:         genC15Wmpt,
		Run:         runC15Wmpt,
		CaseTimeout: 3 * time.Minute,
		DefaultN: func(tier string) int {
			if tier == "thorough" {
				return 40000
			}
			return 1200
		},
	})
}
