//go:build !verif_nohook

package main

// The only file of the harness that references statecache.VerifYield (the `verif`-tagged yield hook of DESIGN §8,
// core/statecache/verif_yield.go). bin/check adds the build tag `verif_nohook` when the tree under test does not
// contain the hook; suite c08 then reports that schedules cannot be driven, every other suite is unaffected.

import (
	"fmt"
	"sort"
	"sync/atomic"
	"time"

	"github.com/0chain/common/core/statecache"
)

type c08Evt struct {
	t     int
	point string
	done  bool
}

type c08Ctl struct {
	cur    int // thread currently released (exactly one runs at a time)
	resume []chan struct{}
	events chan c08Evt
	cstep  int // steps executed by the committer (thread 0)
	clones []c08Clone
}

type c08Clone struct {
	cstep int
	tok   string
}

var c08Active atomic.Pointer[c08Ctl]

func init() {
	statecache.VerifYield = func(point string) {
		ctl := c08Active.Load()
		if ctl == nil {
			return
		}
		t := ctl.cur
		ctl.events <- c08Evt{t: t, point: point}
		<-ctl.resume[t]
	}
	c08RunConc = c08RunConcHook
}

func c08RunConcHook(w *scWorld, b *scBH, readers []c08Reader, sched string) (results []string, trace []string, order []string, errs string) {
	n := 1 + len(readers)
	ctl := &c08Ctl{resume: make([]chan struct{}, n), events: make(chan c08Evt)}
	for i := range ctl.resume {
		ctl.resume[i] = make(chan struct{})
	}
	results = make([]string, n)
	parked := make([]string, n)
	finished := make([]bool, n)
	onClone := func(v *bval) {
		if c := c08Active.Load(); c != nil && c.cur == 0 {
			c.clones = append(c.clones, c08Clone{c.cstep, hx(v.b)})
		}
	}
	c08Active.Store(ctl)
	bvalOnClone.Store(&onClone)
	defer func() {
		bvalOnClone.Store(nil)
		c08Active.Store(nil)
	}()
	wait := func() bool {
		select {
		case e := <-ctl.events:
			if e.done {
				finished[e.t] = true
			} else {
				parked[e.t] = e.point
			}
			return true
		case <-time.After(10 * time.Second):
			errs = fmt.Sprintf("thread %d did not reach a yield point or its end within 10s (parked: %v)", ctl.cur, parked)
			return false
		}
	}
	launch := func(t int, body func() string) bool {
		ctl.cur = t
		go func() {
			r := guard(body)
			results[t] = r
			ctl.events <- c08Evt{t: t, done: true}
		}()
		return wait()
	}
	if !launch(0, func() string { b.bc.Commit(); return "ok" }) {
		return
	}
	for i, r := range readers {
		r := r
		if !launch(i+1, func() string { return w.outGet(w.sc.Get(r.key, r.hash)) }) {
			return
		}
	}
	step := func(t int) bool {
		ctl.cur = t
		if t == 0 {
			ctl.cstep++
		}
		trace = append(trace, fmt.Sprintf("%d:%s", t, parked[t]))
		ctl.resume[t] <- struct{}{}
		return wait()
	}
	for _, ch := range sched {
		t := int(ch - '0')
		if t < 0 || t >= n || finished[t] {
			continue
		}
		if !step(t) {
			return
		}
	}
	for t := 0; t < n; t++ {
		for !finished[t] {
			if !step(t) {
				return
			}
		}
	}
	// order in which commit() visited the block's keys: key i is fetched (and its value cloned) in committer step 2+3i
	type kp struct {
		key string
		pos int
	}
	var kps []kp
	used := map[int]bool{}
	var tombs []string
	for k, e := range b.pending {
		if e.tomb {
			tombs = append(tombs, k)
			continue
		}
		pos := -1
		for _, c := range ctl.clones {
			if c.tok == e.val && (c.cstep-2)%3 == 0 {
				pos = (c.cstep - 2) / 3
			}
		}
		kps = append(kps, kp{k, pos})
		used[pos] = true
	}
	sort.Strings(tombs)
	for _, k := range tombs {
		p := 0
		for used[p] {
			p++
		}
		used[p] = true
		kps = append(kps, kp{k, p})
	}
	sort.Slice(kps, func(i, j int) bool { return kps[i].pos < kps[j].pos })
	for _, x := range kps {
		order = append(order, x.key)
	}
	return
}
