//go:build !verif_nohook

package main

// The only file of the harness that references statecache.VerifYield (the `verif`-tagged yield hook of DESIGN §8,
// core/statecache/verif_yield.go). bin/check adds the build tag `verif_nohook` when the tree under test does not
// contain the hook; suite c08 then reports that schedules cannot be driven, every other suite is unaffected.

import (
	"fmt"
	"sync"
	"runtime"
	"sync/atomic"
	"time"

	"github.com/0chain/common/core/statecache"
)

type c08Evt struct {
	t     int
	point string
	done  bool
}

type c08Ctl struct {
	cur    int      // thread currently released (for the clone log of committer 0)
	tids   sync.Map // goroutine id -> thread id: a thread that reaches a yield point is identified by its goroutine
	resume []chan struct{}
	events chan c08Evt
	cstep  int // steps executed by the committer (thread 0)
	clones []c08Clone
}

var c08Active atomic.Pointer[c08Ctl]

func init() {
	statecache.VerifYield = func(point string) {
		ctl := c08Active.Load()
		if ctl == nil {
			return
		}
		v, ok := ctl.tids.Load(c08Goid())
		if !ok {
			return
		}
		t := v.(int)
		ctl.events <- c08Evt{t: t, point: point}
		<-ctl.resume[t]
	}
	c08RunConc = c08RunConcHook
}

func c08RunConcHook(w *scWorld, bs []*scBH, threads []c08Thread, sched string) (results []string, trace []string, clones []c08Clone, errs string) {
	b := bs[0]
	m := len(bs)
	n := m + len(threads)
	lockWaiting := make([]bool, n) // committer blocked inside sc.lock.Lock(): proceeds to its first yield point by itself
	ctl := &c08Ctl{resume: make([]chan struct{}, n), events: make(chan c08Evt, n)}
	for i := range ctl.resume {
		ctl.resume[i] = make(chan struct{})
	}
	results = make([]string, n)
	parked := make([]string, n)
	finished := make([]bool, n)
	launched := make([]bool, n)
	waiting := make([]bool, n) // writer blocked on the block cache's mutex: completes when the commit returns
	onClone := func(v *bval) {
		if c := c08Active.Load(); c != nil && c.cur == 0 {
			c.clones = append(c.clones, c08Clone{c.cstep, hx(v.b)})
		}
	}
	c08Active.Store(ctl)
	bvalOnClone.Store(&onClone)
	defer func() {
		bvalOnClone.Store(nil)
		c08Active.Store(nil)
	}()
	note := func(e c08Evt) {
		if e.done {
			finished[e.t] = true
			waiting[e.t] = false
		} else {
			parked[e.t] = e.point
		}
	}
	// waitFor blocks until an event of thread t arrives (events of other threads — a writer released by the end of
	// the commit — are recorded on the way)
	waitFor := func(t int) bool {
		for {
			select {
			case e := <-ctl.events:
				note(e)
				if e.t == t {
					return true
				}
			case <-time.After(schedTO()):
				errs = fmt.Sprintf("thread %d did not reach a yield point or its end within %s (parked: %v)", t, schedTO(), parked)
				return false
			}
		}
	}
	// launch starts the thread's goroutine and waits until it is parked at its first yield point — or, for a committer,
	// blocked inside sc.lock.Lock() because another commit is in flight
	launch := func(t int, body func() string, mayBlock bool) bool {
		ctl.cur = t
		launched[t] = true
		idCh := make(chan string, 1)
		go func() {
			id := c08Goid()
			ctl.tids.Store(id, t)
			idCh <- id
			r := guard(body)
			results[t] = r
			ctl.events <- c08Evt{t: t, done: true}
		}()
		var id string
		select {
		case id = <-idCh:
		case <-time.After(schedTO()):
			errs = fmt.Sprintf("the goroutine of thread %d did not start", t)
			return false
		}
		if !mayBlock {
			return waitFor(t)
		}
		deadline := time.Now().Add(schedTO() / 4)
		for i := 0; ; i++ {
			select {
			case e := <-ctl.events:
				note(e)
				if e.t == t {
					return true
				}
			default:
			}
			if i%8 == 7 && c08BlockedOnMutex(id) {
				lockWaiting[t] = true
				return true
			}
			if time.Now().After(deadline) {
				errs = fmt.Sprintf("committer thread %d neither reached a yield point nor blocked on a mutex within %s", t, schedTO()/4)
				return false
			}
			runtime.Gosched()
			if i > 64 {
				time.Sleep(20 * time.Microsecond)
			}
		}
	}
	for i := range bs {
		bi := bs[i]
		if !launch(i, func() string { bi.bc.Commit(); return "ok" }, i > 0) {
			return
		}
	}
	for i, th := range threads {
		th := th
		if th.kind == "get" {
			if !launch(i+m, func() string { return w.outGet(w.sc.Get(th.key, th.hash)) }, false) {
				return
			}
		}
	}
	// a writer has a single step: the whole call. It never reaches a yield point; it either returns or blocks on the
	// block cache's mutex until the commit returns.
	stepWriter := func(t int) bool {
		th := threads[t-m]
		launched[t] = true
		trace = append(trace, fmt.Sprintf("%d:write", t))
		idCh := make(chan string, 1)
		go func() {
			idCh <- c08Goid()
			r := guard(func() string {
				switch th.kind {
				case "set":
					b.bc.Set(th.key, scMkValue(th.val, w.node))
				case "tcommit":
					w.th[th.tid].tc.Commit()
				}
				return "ok"
			})
			results[t] = r
			ctl.events <- c08Evt{t: t, done: true}
		}()
		var id string
		select {
		case id = <-idCh:
		case <-time.After(schedTO()):
			errs = fmt.Sprintf("the goroutine of writer thread %d did not start", t)
			return false
		}
		deadline := time.Now().Add(schedTO() / 4)
		for i := 0; ; i++ {
			select {
			case e := <-ctl.events:
				note(e)
				if e.t == t {
					return true
				}
			default:
			}
			if i%8 == 7 && c08BlockedOnMutex(id) {
				waiting[t] = true
				return true
			}
			if time.Now().After(deadline) {
				errs = fmt.Sprintf("writer thread %d neither returned nor blocked on a mutex within %s", t, schedTO()/4)
				return false
			}
			runtime.Gosched()
			if i > 64 {
				time.Sleep(20 * time.Microsecond)
			}
		}
	}
	collectWaiting := func() bool {
		for t := 1; t < n; t++ {
			if waiting[t] && !waitFor(t) {
				return false
			}
		}
		return true
	}
	collectLockWaiting := func() bool {
		for t := 1; t < m; t++ {
			if lockWaiting[t] {
				// sc.lock has been released: the blocked committer takes it and runs to its first yield point
				if !waitFor(t) {
					return false
				}
				lockWaiting[t] = false
				return true // only one of them can have got the lock
			}
		}
		return true
	}
	step := func(t int) bool {
		if t >= m && threads[t-m].kind != "get" {
			return stepWriter(t)
		}
		ctl.cur = t
		if t == 0 {
			ctl.cstep++
		}
		trace = append(trace, fmt.Sprintf("%d:%s", t, parked[t]))
		select {
		case ctl.resume[t] <- struct{}{}:
		case <-time.After(schedTO()):
			errs = fmt.Sprintf("thread %d was taken to be parked at %s but does not accept its release (parked: %v)", t, parked[t], parked)
			return false
		}
		if !waitFor(t) {
			return false
		}
		if t == 0 && finished[0] {
			// the commit returned: writers that were blocked on the block cache's mutex run now
			if !collectWaiting() {
				return false
			}
		}
		if t < m && finished[t] {
			return collectLockWaiting()
		}
		return true
	}
	runnable := func(t int) bool {
		if finished[t] || waiting[t] || lockWaiting[t] {
			return false
		}
		if t >= m && threads[t-m].kind != "get" && launched[t] {
			return false
		}
		return true
	}
	for _, ch := range sched {
		t := int(ch - '0')
		if t < 0 || t >= n || !runnable(t) {
			continue
		}
		if !step(t) {
			return
		}
	}
	for t := 0; t < n; t++ {
		for runnable(t) {
			if !step(t) {
				return
			}
		}
	}
	if !collectWaiting() {
		return
	}
	clones = ctl.clones
	return
}
