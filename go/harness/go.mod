module verifharness

go 1.21

require (
	github.com/0chain/common v0.0.0
	github.com/anishathalye/porcupine v1.3.0
	github.com/cockroachdb/pebble v1.1.2
	github.com/fxamacker/cbor/v2 v2.7.0
	github.com/linxGnu/grocksdb v1.8.0
	github.com/shopspring/decimal v1.3.1
	github.com/tinylib/msgp v1.1.6
	go.uber.org/zap v1.21.0
	golang.org/x/crypto v0.7.0
)

require (
	github.com/DataDog/zstd v1.4.5 // indirect
	github.com/beorn7/perks v1.0.1 // indirect
	github.com/cespare/xxhash/v2 v2.2.0 // indirect
	github.com/cockroachdb/errors v1.11.3 // indirect
	github.com/cockroachdb/fifo v0.0.0-20240606204812-0bbfbd93a7ce // indirect
	github.com/cockroachdb/logtags v0.0.0-20230118201751-21c54148d20b // indirect
	github.com/cockroachdb/redact v1.1.5 // indirect
	github.com/cockroachdb/tokenbucket v0.0.0-20230807174530-cc333fc44b06 // indirect
	github.com/fsnotify/fsnotify v1.5.4 // indirect
	github.com/getsentry/sentry-go v0.27.0 // indirect
	github.com/gogo/protobuf v1.3.2 // indirect
	github.com/golang/protobuf v1.5.3 // indirect
	github.com/golang/snappy v0.0.4 // indirect
	github.com/hashicorp/golang-lru v0.5.4 // indirect
	github.com/hashicorp/hcl v1.0.0 // indirect
	github.com/kr/pretty v0.3.1 // indirect
	github.com/kr/text v0.2.0 // indirect
	github.com/magiconair/properties v1.8.6 // indirect
	github.com/matttproud/golang_protobuf_extensions v1.0.2-0.20181231171920-c182affec369 // indirect
	github.com/mitchellh/mapstructure v1.5.0 // indirect
	github.com/pelletier/go-toml/v2 v2.0.5 // indirect
	github.com/philhofer/fwd v1.1.2-0.20210722190033-5c56ac6d0bb9 // indirect
	github.com/pkg/errors v0.9.1 // indirect
	github.com/prometheus/client_golang v1.12.0 // indirect
	github.com/prometheus/client_model v0.2.1-0.20210607210712-147c58e9608a // indirect
	github.com/prometheus/common v0.32.1 // indirect
	github.com/prometheus/procfs v0.7.3 // indirect
	github.com/rogpeppe/go-internal v1.9.0 // indirect
	github.com/spf13/afero v1.8.2 // indirect
	github.com/spf13/cast v1.5.0 // indirect
	github.com/spf13/jwalterweatherman v1.1.0 // indirect
	github.com/spf13/pflag v1.0.5 // indirect
	github.com/spf13/viper v1.12.0 // indirect
	github.com/subosito/gotenv v1.3.0 // indirect
	github.com/x448/float16 v0.8.4 // indirect
	go.uber.org/atomic v1.7.0 // indirect
	go.uber.org/multierr v1.6.0 // indirect
	golang.org/x/exp v0.0.0-20230626212559-97b1e661b5df // indirect
	golang.org/x/sync v0.7.0 // indirect
	golang.org/x/sys v0.18.0 // indirect
	golang.org/x/text v0.14.0 // indirect
	google.golang.org/protobuf v1.33.0 // indirect
	gopkg.in/ini.v1 v1.67.0 // indirect
	gopkg.in/natefinch/lumberjack.v2 v2.0.0 // indirect
	gopkg.in/yaml.v3 v3.0.1 // indirect
)

replace github.com/0chain/common => /repo

replace github.com/linxGnu/grocksdb => ../grocksdbfake

replace github.com/tinylib/msgp => github.com/0chain/msgp v1.1.62
