module verifharness

go 1.21

require (
	github.com/0chain/common v0.0.0
	github.com/anishathalye/porcupine v1.3.0
	github.com/fxamacker/cbor/v2 v2.7.0
	github.com/linxGnu/grocksdb v1.8.0
	github.com/shopspring/decimal v1.3.1
	github.com/tinylib/msgp v1.1.6
	go.uber.org/zap v1.21.0
	golang.org/x/crypto v0.7.0
)

require (
	github.com/fsnotify/fsnotify v1.5.4 // indirect
	github.com/hashicorp/golang-lru v0.5.4 // indirect
	github.com/hashicorp/hcl v1.0.0 // indirect
	github.com/magiconair/properties v1.8.6 // indirect
	github.com/mitchellh/mapstructure v1.5.0 // indirect
	github.com/pelletier/go-toml/v2 v2.0.5 // indirect
	github.com/philhofer/fwd v1.1.2-0.20210722190033-5c56ac6d0bb9 // indirect
	github.com/spf13/afero v1.8.2 // indirect
	github.com/spf13/cast v1.5.0 // indirect
	github.com/spf13/jwalterweatherman v1.1.0 // indirect
	github.com/spf13/pflag v1.0.5 // indirect
	github.com/spf13/viper v1.12.0 // indirect
	github.com/subosito/gotenv v1.3.0 // indirect
	github.com/x448/float16 v0.8.4 // indirect
	go.uber.org/atomic v1.7.0 // indirect
	go.uber.org/multierr v1.6.0 // indirect
	golang.org/x/sync v0.7.0 // indirect
	golang.org/x/sys v0.18.0 // indirect
	golang.org/x/text v0.14.0 // indirect
	gopkg.in/ini.v1 v1.67.0 // indirect
	gopkg.in/natefinch/lumberjack.v2 v2.0.0 // indirect
	gopkg.in/yaml.v3 v3.0.1 // indirect
)

replace github.com/0chain/common => /repo

replace github.com/linxGnu/grocksdb => ../grocksdbfake

replace github.com/tinylib/msgp => github.com/0chain/msgp v1.1.62
