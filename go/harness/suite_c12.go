package main

// Suite c12 — a partial trie built from a path export evolves like the full trie (op language: wmptrun.go).
//
// Source tries of every root shape (branch / shared-prefix short node / single entry / empty), in memory, committed at
// collapse levels -1..5 and/or reloaded (root is a hash reference); `getpath` with 0..14 requested keys (both sides of
// the parallel-collection threshold of 10), present and absent; `import` into New(nil, nil); then mirrored updates and
// deletes of requested keys on both tries. Oracle: import succeeds with the source's root and weight (= canonical root
// and weight of the content); after every mirrored op both tries give the same result, root and weight.

import (
	"fmt"
	"math/rand"
	"strings"
	"time"
)

// genC12Copy: directed — a small trie (2..4 keys: branches with two children), committed, opened on a CopyRoot(level) copy;
// the path of ONE key is exported and imported, then that key is deleted on both sides: the branch it leaves is reduced,
// and the remaining sibling — a reference in the copy, an embedded short node in the export — has to merge the same way.
func genC12Copy(r *rand.Rand, tier string, idx int) []string {
	pool := wkeyPool(r, 2+r.Intn(3))
	g := &wgen{r: r, pool: pool, live: map[string][]byte{}, commitd: map[string][]byte{}}
	for k := range pool {
		g.upd(k, wgenValue(r, k, false))
	}
	g.commit()
	g.emit("recopy %d", r.Intn(5)-1)
	victim := r.Intn(len(pool))
	g.emit("getpath %x", pool[victim])
	g.emit("import")
	if r.Intn(2) == 0 {
		g.emit("mdel %x", pool[victim])
	} else {
		g.emit("mupdel %x", pool[victim])
	}
	delete(g.live, pool[victim])
	v := wgenValue(r, victim, false)
	g.emit("mupd %x %x %d", pool[victim], v, wvalWeight(v))
	g.emit("mdel %x", pool[victim])
	g.emit("owners")
	return g.ops
}

func genC12(r *rand.Rand, tier string, idx int) []string {
	if idx%10 == 3 {
		return genC12Copy(r, tier, idx)
	}
	shape := idx % 5 // 0,1: branch root; 2: shared-prefix root; 3: single entry; 4: empty
	npool := 4 + r.Intn(14)
	var pool []string
	switch shape {
	case 2:
		// all keys share at least the first nibbles
		for len(pool) < npool {
			pool = wkeyPool(r, npool)
			share := 1 + r.Intn(5)
			base := nibblesOf(pool[0])
			for i, k := range pool {
				nb := nibblesOf(k)
				copy(nb[:share], base[:share])
				b := make([]byte, 32)
				for j := range b {
					b[j] = nb[2*j]<<4 | nb[2*j+1]
				}
				pool[i] = string(b)
			}
			seen := map[string]bool{}
			for _, k := range pool {
				seen[k] = true
			}
			if len(seen) != len(pool) {
				pool = nil
			}
		}
	default:
		pool = wkeyPool(r, npool)
	}
	comb := idx%100 == 11
	if comb {
		// the longest export paths: key 0 has a sibling at every nibble depth (wcombPool); all keys live
		pool = wcombPool(r, 60+r.Intn(4))
		npool = len(pool)
		shape = 0
	}
	g := &wgen{r: r, pool: pool, live: map[string][]byte{}, commitd: map[string][]byte{}}
	var nlive int
	switch shape {
	case 3:
		nlive = 1
	case 4:
		nlive = 0
	default:
		nlive = 2 + r.Intn(npool-2)
	}
	if comb {
		nlive = npool
	}
	for k := 0; k < nlive; k++ {
		g.upd(k, wgenValue(r, k, false))
		if r.Intn(8) == 0 {
			g.commit()
		}
	}
	for k := 0; k < nlive/4 && !comb; k++ {
		g.mutate()
	}
	switch r.Intn(4) {
	case 0: // in memory, dirty
	case 1:
		g.commit()
	case 2:
		g.commit()
		if r.Intn(2) == 0 {
			g.reload()
		} else {
			// the source is a trie opened on a COPY of the committed root: New(t.CopyRoot(level), storage) — short nodes and
			// branches at the copy level are references in it
			g.emit("recopy %d", r.Intn(6)-1)
			g.live = map[string][]byte{}
			for k, v := range g.commitd {
				g.live[k] = v
			}
			g.dirty = false
		}
	default:
		g.commit()
		g.reload()
		for k := r.Intn(3); k > 0; k-- {
			g.mutate()
		}
	}
	// requested keys: 0..14, on both sides of the threshold, present and absent
	nreq := r.Intn(15)
	if idx%6 == 0 {
		nreq = 9 + r.Intn(4) // 9..12: around the threshold
	}
	if nreq > len(pool) {
		nreq = len(pool)
	}
	perm := r.Perm(len(pool))[:nreq]
	if comb && nreq > 0 {
		// key 0 (the path with a branch at every depth) and its deepest sibling are always requested
		full := r.Perm(len(pool))
		front := []int{0}
		if nreq > 1 {
			front = append(front, len(pool)-1)
		}
		for _, p := range full {
			if len(front) < nreq && p != 0 && p != len(pool)-1 {
				front = append(front, p)
			}
		}
		perm = front
	}
	var req []string
	for _, p := range perm {
		req = append(req, fmt.Sprintf("%x", pool[p]))
	}
	if len(req) > 1 && r.Intn(4) == 0 {
		req = append(req, req[r.Intn(len(req))], req[0]) // the same key requested more than once
	}
	if len(req) == 0 {
		g.emit("getpath -")
	} else {
		g.emit("getpath %s", strings.Join(req, ","))
	}
	g.emit("import")
	if nreq > 0 {
		for k := 0; k < 6; k++ {
			p := perm[r.Intn(len(perm))]
			key := pool[p]
			old, present := g.live[key]
			switch x := r.Intn(10); {
			case x < 4 || !present && x < 7:
				v := wgenValue(r, p, false)
				g.emit("mupd %x %x %d", key, v, wvalWeight(v))
				g.live[key] = v
			case x < 5 && present:
				g.emit("mupd %x %x %d", key, old, wvalWeight(old))
			case x < 8:
				g.emit("mdel %x", key)
				delete(g.live, key)
			default:
				g.emit("%s %x", []string{"mupdel", "mupdel0"}[r.Intn(2)], key)
				delete(g.live, key)
			}
		}
	}
	return g.ops
}

func init() {
	register(&Suite{
		Name:        "c12",
		Rule:        "source tries of every root shape (branch, shared-prefix short node, single entry, empty) over pools of 4..17 keys (every 100th case: comb-shaped tries of 62..65 keys in which one requested key has a sibling at every nibble depth — the longest export paths), in memory / committed at collapse levels -1..6 / reloaded / opened on a CopyRoot(level) copy of the committed root (+ further changes); path export of 0..14 requested keys (present and absent, both sides of the threshold of 10); import; 6 mirrored updates / same-value rewrites / deletes (both entry points) of requested keys; non-trivial = at least 2 mutations and a successful import",
		Gen:         genC12,
		Run:         runWmpt,
		CaseTimeout: 3 * time.Minute, // a stalled machine must not look like a hang; a real hang still fails the case
		DefaultN: func(tier string) int {
			if tier == "thorough" {
				return 60000
			}
			return 2000
		},
	})
}
