package main

// Suite c15mpt (state-trie half of C15): CreateNode and the three Decode methods, and the dead-node record decoder
// reached through PNodeDB.PruneBelowVersion, on malformed bytes.
//
//	dec <hex>          CreateNode(bytes) -> "ok <hex of Encode()> <hex of GetHashBytes() | ->" | err | panic | timeout
//	prune <hex> ...    a fresh PNodeDB whose dead_nodes column family holds the given values under rounds 1..n
//	                   (planted with the fake's raw put), then PruneBelowVersion(n+1) -> ok | err | panic | timeout
//	prunex <hex> ...   the same in a child process (the harness re-executes itself), so that an unrecoverable runtime
//	                   failure is observed as outcome `crash` instead of killing the run
//
//	decbig <shape> <n>   CreateNode on a LARGE input built from (shape, n) on both sides (n = 10^5 .. 10^6): leaf / branch /
//	                   extension / value node with an n-byte value, n separators, an n-character path / child field / key,
//	                   no separator at all -> "ok <len of Encode()> <SHA3 of it> <hash|->" | err
//	dnbig <shape> <n>  PruneBelowVersion over ONE large dead-node record: n entries (valid / cut in half / one entry
//	                   damaged at the end), one n-character key, an unknown field of n nested arrays -> "ok left=<1|->"
//	Every decode is timed: it has to finish within max(50 ms, 1 s per MB of input) (minimum of two runs; a case that
//	fails only this is re-run alone by the harness).
//	dnenc <node encodings,..|->   RecordDeadNodes(CreateNode(each), 7) on a fresh PNodeDB; the record bytes are read back
//	                   from the fake's dead_nodes column family -> "ok <hex record>" (deadNodes.MarshalMsg)
//	dndec <hex keys,..|-> <rec>...   plants the listed keys as node entries, the records under rounds 1..n (a record
//	                   written "=<hex>" is an intact encoding made by the harness's own encoder), runs
//	                   PruneBelowVersion(n+1) -> "ok left=<rounds still recorded|-> nodes=<planted keys still stored|->":
//	                   observes deadNodes.UnmarshalMsg + fromHex through what the prune deletes
//
// The malformed stream is derived from REAL encodings: the generator builds the canonical trie of a random content
// with the harness's own encoder (mptcommon.go / codeccommon.go; no code of /repo), takes the stored form of its
// nodes and mutates it: every truncation length, each separator removed / doubled, every type byte 0..15 plus high
// bits, version / origin bytes dropped, splices between node kinds, child hex fields of odd / > 64 length / non-hex /
// upper case, random bytes.
//
// Oracle: never `panic`, never `timeout` (1 s watchdog per decode); whatever is accepted re-encodes without
// panicking, and decoding that re-encoding yields the same encoding and hash again.

import (
	"bytes"
	"context"
	"encoding/binary"
	"encoding/hex"
	"fmt"
	"math/rand"
	"os"
	"os/exec"
	"sort"
	"strconv"
	"strings"
	"time"

	"github.com/0chain/common/core/util"
	"github.com/linxGnu/grocksdb"
)

// guardT runs f under recover with a watchdog.
func guardT(d time.Duration, f func() string) string {
	ch := make(chan string, 1)
	go func() {
		defer func() {
			if r := recover(); r != nil {
				ch <- "panic"
			}
		}()
		ch <- f()
	}()
	select {
	case s := <-ch:
		return s
	case <-time.After(d):
		return "timeout"
	}
}

// checkPrompt: f (one decode of inputLen bytes) has to finish within max(50 ms, 1 s per MB);
// the minimum of up to three runs counts (machine load).
func checkPrompt(inputLen int, f func(), fail func(string, ...interface{})) {
	bound := time.Duration(inputLen) * time.Second / 1000000 // 1 s per MB: a linear decoder needs milliseconds
	if bound < 50*time.Millisecond {
		bound = 50 * time.Millisecond
	}
	best := time.Duration(1 << 62)
	for k := 0; k < 3; k++ {
		start := time.Now()
		guard(func() string { f(); return "" })
		if d := time.Since(start); d < best {
			best = d
		}
		if best <= bound {
			return
		}
	}
	fail("decode did not terminate promptly: %s for %d bytes of input (bound %s)", best.Round(time.Millisecond), inputLen, bound)
}

func patternBytes(n int) []byte {
	b := make([]byte, n)
	for i := range b {
		b[i] = byte((i*7 + 3) % 256)
	}
	return b
}

// bigNodeInput builds a large stored-node input from (shape, n); Driver/Codec.lean builds the same bytes.
func bigNodeInput(shape string, n int) []byte {
	tr := append(append([]byte{}, le64b(1)...), le64b(2)...)
	rep := func(c byte) []byte { return bytes.Repeat([]byte{c}, n) }
	cat := func(t byte, parts ...[]byte) []byte {
		out := append([]byte{t}, tr...)
		for _, p := range parts {
			out = append(out, p...)
		}
		return out
	}
	switch shape {
	case "leafval":
		return cat(2, []byte("ab:cd:"), patternBytes(n))
	case "leafseps":
		return cat(2, []byte("ab:cd:"), rep(':'))
	case "leafpath":
		return cat(2, []byte("ab:"), rep('a'), []byte(":v"))
	case "leafprefix":
		return cat(2, rep('b'), []byte(":cd:v"))
	case "fullval":
		return cat(4, bytes.Repeat([]byte{':'}, 16), patternBytes(n))
	case "fullseps":
		return cat(4, rep(':'))
	case "fullhex":
		return cat(4, rep('a'), bytes.Repeat([]byte{':'}, 16))
	case "extkey":
		return cat(8, []byte("ab:"), patternBytes(n))
	case "extpath":
		return cat(8, rep('a'), []byte(":"), bytes.Repeat([]byte{9}, 32))
	case "nosep":
		return cat(2, rep('a'))
	default: // "val"
		return cat(1, patternBytes(n))
	}
}

func bigKey(i int) string {
	var b [8]byte
	binary.BigEndian.PutUint64(b[:], uint64(i)*2654435761)
	return strings.Repeat(hex.EncodeToString(b[:]), 4)
}

// bigRecord builds a large dead-node record from (shape, n); Driver/Codec.lean builds the same bytes.
func bigRecord(shape string, n int) []byte {
	hdr := func(k int) []byte {
		return append(append([]byte{0x81}, msgpStr("Nodes")...), 0xdf, byte(k>>24), byte(k>>16), byte(k>>8), byte(k))
	}
	entries := func(k int) []byte {
		var b []byte
		for i := 0; i < k; i++ {
			b = append(append(b, 0xd9, 64), bigKey(i)...)
			b = append(b, 0xc3)
		}
		return b
	}
	switch shape {
	case "half":
		e := entries(n)
		return append(hdr(n), e[:len(e)/2]...)
	case "badlast":
		e := entries(n)
		e[len(e)-1] = 0x01
		return append(hdr(n), e...)
	case "longkey":
		b := append(hdr(1), 0xdb, byte(n>>24), byte(n>>16), byte(n>>8), byte(n))
		return append(append(b, bytes.Repeat([]byte{'a'}, n)...), 0xc3)
	case "nested":
		b := append([]byte{0x82, 0xa1, 'x'}, bytes.Repeat([]byte{0x91}, n)...)
		b = append(b, 0xc0)
		return append(append(append(b, msgpStr("Nodes")...), 0x81), append(msgpStr("ab"), 0xc3)...)
	default: // "valid"
		return append(hdr(n), entries(n)...)
	}
}

// decodeOnceBig: as decodeOnce, printing length and SHA3 of the re-encoding instead of the bytes.
func decodeOnceBig(b []byte) string {
	n, err := util.CreateNode(bytes.NewReader(b))
	if err != nil {
		return "err"
	}
	enc := n.Encode()
	h := n.GetHashBytes()
	hs := "-"
	if len(h) > 0 {
		hs = hx(h)
	}
	return fmt.Sprintf("ok %d %s %s", len(enc), hx(sha3sum(enc)), hs)
}

func decodeOnce(b []byte) string {
	n, err := util.CreateNode(bytes.NewReader(b))
	if err != nil {
		return "err"
	}
	enc := n.Encode()
	h := n.GetHashBytes()
	hs := "-"
	if len(h) > 0 {
		hs = hx(h)
	}
	return "ok " + hx(enc) + " " + hs
}

func runC15Mpt(ops []string) CaseResult {
	res := CaseResult{}
	tags := map[string]bool{}
	accepted, rejected := 0, 0
	for i, op := range ops {
		fail := func(f string, a ...interface{}) {
			if len(res.Fails) < 20 {
				res.Fails = append(res.Fails, fmt.Sprintf("op %d (%s): ", i, op)+fmt.Sprintf(f, a...))
			}
		}
		f := strings.Fields(op)
		var out string
		switch f[0] {
		case "decbig":
			n, _ := strconv.Atoi(f[2])
			b := bigNodeInput(f[1], n)
			out = guardT(30*time.Second, func() string { return decodeOnceBig(b) })
			if out == "panic" || out == "timeout" {
				fail("CreateNode / Encode / GetHashBytes on %d bytes (%s): %s", len(b), f[1], out)
			} else {
				checkPrompt(len(b), func() { decodeOnceBig(b) }, fail)
				if out != "err" {
					accepted++
				} else {
					rejected++
				}
			}
			tags["large-input"] = true
		case "dnbig":
			n, _ := strconv.Atoi(f[2])
			rec := bigRecord(f[1], n)
			run := func() string {
				dir := freshDir("c15dnbig")
				defer grocksdb.FakeReset(dir)
				db, err := util.NewPNodeDB(dir, "")
				if err != nil {
					panic(err)
				}
				grocksdb.FakeRawPutCF(dir, "dead_nodes", []byte{0, 0, 0, 0, 0, 0, 0, 1}, rec)
				if err := db.PruneBelowVersion(context.Background(), 2); err != nil {
					return "err"
				}
				if len(grocksdb.FakeSnapshot(dir, "dead_nodes")) == 0 {
					return "ok left=-"
				}
				return "ok left=1"
			}
			out = guardT(30*time.Second, run)
			if !strings.HasPrefix(out, "ok") {
				fail("PruneBelowVersion over a %d-byte dead-node record (%s): %s", len(rec), f[1], out)
			} else {
				checkPrompt(len(rec), func() { run() }, fail)
			}
			tags["large-input"] = true
		case "dec":
			b := unhx(f[1])
			out = guardT(time.Second, func() string { return decodeOnce(append([]byte(nil), b...)) })
			if out != "panic" && out != "timeout" {
				checkPrompt(len(b), func() { decodeOnce(append([]byte(nil), b...)) }, fail)
			}
			switch {
			case out == "panic":
				fail("CreateNode / Encode / GetHashBytes panicked on %d bytes", len(b))
				tags["panic"] = true
			case out == "timeout":
				fail("decoding %d bytes did not terminate within 1 s", len(b))
			case out == "err":
				rejected++
			default:
				accepted++
				w := strings.Fields(out)
				again := guardT(time.Second, func() string { return decodeOnce(unhx(w[1])) })
				if again != out {
					fail("accepted input re-encodes to %s, which decodes to %q", w[1], again)
				}
				if len(b) > 0 {
					tags[fmt.Sprintf("accepted-type-%d", b[0]&15)] = true
				}
			}
		case "prune":
			dir := freshDir("c15prune")
			out = guardT(5*time.Second, func() string {
				db, err := util.NewPNodeDB(dir, "")
				if err != nil {
					panic(err)
				}
				for j, v := range f[1:] {
					var k [8]byte
					binary.BigEndian.PutUint64(k[:], uint64(j+1))
					grocksdb.FakeRawPutCF(dir, "dead_nodes", k[:], unhx(v))
				}
				if err := db.PruneBelowVersion(context.Background(), int64(len(f))); err != nil {
					return "err"
				}
				return "ok"
			})
			if out == "panic" || out == "timeout" {
				fail("PruneBelowVersion over damaged dead-node records: %s", out)
			}
			left := len(grocksdb.FakeSnapshot(dir, "dead_nodes"))
			if left == 0 {
				tags["prune:all-records-decoded"] = true
			} else {
				tags["prune:record-rejected"] = true
			}
			grocksdb.FakeReset(dir)
		case "dnenc":
			dir := freshDir("c15dnenc")
			var want []string
			out = guardT(5*time.Second, func() string {
				db, err := util.NewPNodeDB(dir, "")
				if err != nil {
					panic(err)
				}
				var nodes []util.Node
				if f[1] != "-" {
					for _, e := range strings.Split(f[1], ",") {
						n, err := util.CreateNode(bytes.NewReader(unhx(e)))
						if err != nil {
							return "err"
						}
						nodes = append(nodes, n)
						want = append(want, hx(n.GetHashBytes()))
					}
				}
				if err := db.RecordDeadNodes(nodes, 7); err != nil {
					return "err"
				}
				recs := grocksdb.FakeSnapshot(dir, "dead_nodes")
				if len(recs) != 1 {
					return fmt.Sprintf("err %d records", len(recs))
				}
				for k, v := range recs {
					if !bytes.Equal([]byte(k), []byte{0, 0, 0, 0, 0, 0, 0, 7}) {
						return "err key " + hx([]byte(k))
					}
					return "ok " + hx(v)
				}
				return "err"
			})
			if strings.HasPrefix(out, "ok ") {
				// independent encoder: sorted distinct keys, all true
				sort.Strings(want)
				var uniq []string
				for j, k := range want {
					if j == 0 || want[j-1] != k {
						uniq = append(uniq, k)
					}
				}
				if exp := hx(deadNodesRecord(uniq)); out != "ok "+exp {
					fail("RecordDeadNodes wrote %s, the record of these %d keys is %s", out[3:], len(uniq), exp)
				}
				tags["dnenc"] = true
			} else {
				fail("RecordDeadNodes: %s", out)
			}
			grocksdb.FakeReset(dir)
		case "dndec":
			dir := freshDir("c15dndec")
			var planted []string
			if f[1] != "-" {
				planted = strings.Split(f[1], ",")
			}
			out = guardT(10*time.Second, func() string {
				db, err := util.NewPNodeDB(dir, "")
				if err != nil {
					panic(err)
				}
				for _, k := range planted {
					grocksdb.FakeRawPut(dir, unhx(k), []byte{1})
				}
				for j, v := range f[2:] {
					var k [8]byte
					binary.BigEndian.PutUint64(k[:], uint64(j+1))
					grocksdb.FakeRawPutCF(dir, "dead_nodes", k[:], unhx(strings.TrimPrefix(v, "=")))
				}
				if err := db.PruneBelowVersion(context.Background(), int64(len(f)-1)); err != nil {
					return "err"
				}
				var left []string
				for k := range grocksdb.FakeSnapshot(dir, "dead_nodes") {
					left = append(left, fmt.Sprintf("%d", binary.BigEndian.Uint64([]byte(k))))
				}
				sort.Slice(left, func(a, b int) bool { return len(left[a]) < len(left[b]) || len(left[a]) == len(left[b]) && left[a] < left[b] })
				var nodes []string
				for k := range grocksdb.FakeSnapshot(dir, "default") {
					nodes = append(nodes, k)
				}
				ls, ns := strings.Join(left, ","), fmtKeys(nodes)
				if ls == "" {
					ls = "-"
				}
				return "ok left=" + ls + " nodes=" + ns
			})
			if !strings.HasPrefix(out, "ok ") {
				fail("PruneBelowVersion over dead-node records: %s", out)
			} else {
				// every intact record must be gone together with the nodes it names
				leftSet := map[string]bool{}
				w := strings.Fields(out)
				for _, l := range strings.Split(strings.TrimPrefix(w[1], "left="), ",") {
					leftSet[l] = true
				}
				stored := map[string]bool{}
				for _, k := range strings.Split(strings.TrimPrefix(w[2], "nodes="), ",") {
					stored[k] = true
				}
				for j, v := range f[2:] {
					if !strings.HasPrefix(v, "=") {
						continue
					}
					tags["dndec:intact-record"] = true
					if leftSet[fmt.Sprintf("%d", j+1)] {
						fail("the intact record of round %d was not pruned", j+1)
					}
					for _, k := range intactRecordKeys(unhx(v[1:])) {
						if stored[k] {
							fail("node %s named by the intact record of round %d is still stored", k, j+1)
						}
					}
				}
				if w[1] != "left=-" {
					tags["dndec:record-skipped"] = true
				}
			}
			grocksdb.FakeReset(dir)
		case "prunex":
			out = pruneInChild(f[1:])
			if out != "ok" && out != "err" {
				fail("PruneBelowVersion over damaged dead-node records ends the process: %s", out)
			}
			tags["prune:child-process"] = true
		default:
			panic("unknown op " + op)
		}
		res.Outs = append(res.Outs, out)
	}
	if accepted > 0 {
		tags["some-accepted"] = true
	}
	if rejected > 0 {
		tags["some-rejected"] = true
	}
	for t := range tags {
		res.Tags = append(res.Tags, t)
	}
	res.Nontrivial = accepted > 0 && rejected > 0
	return res
}

// pruneInChild runs `prune <vals>` in a child process: VERIF_C15_CHILD carries the op line, see init() below.
func pruneInChild(vals []string) string {
	exe, err := os.Executable()
	if err != nil {
		return "crash"
	}
	ctx, cancel := context.WithTimeout(context.Background(), 20*time.Second)
	defer cancel()
	cmd := exec.CommandContext(ctx, exe)
	cmd.Env = append(os.Environ(), "VERIF_C15_CHILD=prune "+strings.Join(vals, " "), "GOMEMLIMIT=2GiB")
	outb, err := cmd.Output()
	o := strings.TrimSpace(string(outb))
	if ctx.Err() != nil {
		return "timeout"
	}
	if err != nil || (o != "ok" && o != "err" && o != "panic" && o != "timeout") {
		return "crash"
	}
	return o
}

// ---- real encodings from the harness's own encoder ---------------------------------------------------------

// canonStored returns the stored form (type, version, origin, body) of every node of the canonical trie of content.
func canonStored(content map[string][]byte, version, origin uint64) [][]byte {
	var out [][]byte
	var rec func(n *cnode, prefix string) []byte
	rec = func(n *cnode, prefix string) []byte {
		rn := &rnode{version: version, origin: origin}
		switch n.kind {
		case 'L':
			rn.kind, rn.prefix, rn.path, rn.val = 'L', []byte(prefix), []byte(n.path), n.val
		case 'E':
			rn.kind, rn.path = 'E', []byte(n.path)
			rn.ckey = rec(n.child, prefix+n.path)
		case 'F':
			rn.kind, rn.val = 'F', n.val
			for i := 0; i < 16; i++ {
				if n.ch[i] != nil {
					rn.ch[i] = rec(n.ch[i], prefix+string("0123456789abcdef"[i]))
				}
			}
		}
		out = append(out, rn.encode())
		return rn.key()
	}
	if t := canonBuild(sortedPairs(content)); t != nil {
		rec(t, "")
	}
	return out
}

func sepIndexes(b []byte) []int {
	var idx []int
	for i := 17; i < len(b); i++ {
		if b[i] == ':' {
			idx = append(idx, i)
		}
	}
	return idx
}

func cut(b []byte, from, to int) []byte {
	return append(append([]byte(nil), b[:from]...), b[to:]...)
}

func insertAt(b []byte, at int, ins []byte) []byte {
	return append(append(append([]byte(nil), b[:at]...), ins...), b[at:]...)
}

func genC15Mpt(r *rand.Rand, tier string, idx int) []string {
	if idx%25 == 24 {
		return genPruneCase(r)
	}
	if idx%8 == 5 {
		return genDeadNodesCase(r)
	}
	if idx%40 == 17 {
		// LARGE inputs (10^5 .. 10^6 bytes), valid and malformed
		sizes := []int{100000, 300000, 1000000}
		nodeShapes := []string{"leafval", "leafseps", "leafpath", "leafprefix", "fullval", "fullseps", "fullhex", "extkey", "extpath", "nosep", "val"}
		recShapes := []string{"valid", "half", "badlast", "longkey", "nested"}
		var ops []string
		for k := 0; k < 5; k++ {
			ops = append(ops, fmt.Sprintf("decbig %s %d", nodeShapes[r.Intn(len(nodeShapes))], sizes[r.Intn(3)]))
		}
		for k := 0; k < 2; k++ {
			sh := recShapes[r.Intn(len(recShapes))]
			n := []int{2000, 5000, 10000}[r.Intn(3)]
			if sh == "longkey" || sh == "nested" {
				n = sizes[r.Intn(3)]
			}
			ops = append(ops, fmt.Sprintf("dnbig %s %d", sh, n))
		}
		return ops
	}
	// a random content
	alpha := pathAlphabets[r.Intn(len(pathAlphabets))]
	content := map[string][]byte{}
	var pool []string
	for k, n := 0, 1+r.Intn(8); k < n; k++ {
		p := genPath(r, alpha, pool)
		pool = append(pool, p)
		content[p] = unhx(genValue14(r))
	}
	version, origin := uint64(r.Intn(5)), uint64(r.Intn(5))
	if r.Intn(4) == 0 {
		version, origin = r.Uint64(), r.Uint64()
	}
	encs := canonStored(content, version, origin)
	var muts [][]byte
	add := func(b []byte) { muts = append(muts, b) }
	thorough := tier == "thorough"
	for ni, e := range encs {
		add(e) // the real encoding itself
		// truncations
		full := thorough || len(e) <= 140 || ni == idx%len(encs)
		for k := 0; k < len(e); k++ {
			if full && (len(e) <= 300 || thorough || k < 40 || k%7 == idx%7) {
				add(e[:k])
			} else if k < 20 {
				add(e[:k])
			}
		}
		seps := sepIndexes(e)
		for _, s := range seps {
			if !thorough && len(seps) > 3 && r.Intn(3) != 0 {
				continue
			}
			add(cut(e, s, s+1))             // separator removed
			add(insertAt(e, s, []byte{':'})) // separator doubled
			add(e[:s])                       // cut right before / after a separator
			add(e[:s+1])
		}
		// type byte
		for t := 0; t < 16; t++ {
			m := append([]byte(nil), e...)
			m[0] = byte(t)
			add(m)
		}
		for _, hb := range []byte{0x10, 0x20, 0x40, 0x80, 0xf0} {
			m := append([]byte(nil), e...)
			m[0] |= hb
			add(m)
			m2 := append([]byte(nil), e...)
			m2[0] = hb | byte(r.Intn(16))
			add(m2)
		}
		// version / origin bytes dropped or inflated
		add(cut(e, 1, 9))
		add(cut(e, 9, 17))
		add(cut(e, 1, 17))
		add(cut(e, 1, 1+1+r.Intn(15)))
		add(insertAt(e, 1, make([]byte, 1+r.Intn(8))))
		// trailing garbage / extra separators
		add(append(append([]byte(nil), e...), ':'))
		add(append(append([]byte(nil), e...), []byte(":00:")...))
		if e[0] == 4 {
			// child hex fields of odd / > 64 length / non-hex / upper case
			for _, s := range seps {
				if s > 17 && e[s-1] != ':' && (thorough || r.Intn(3) == 0) {
					add(insertAt(e, s, []byte("a")))                        // 65
					add(insertAt(e, s, []byte("ab")))                       // 66
					add(insertAt(e, s, bytes.Repeat([]byte("0"), 64)))      // 128
					add(insertAt(e, s, bytes.Repeat([]byte("f"), 1+r.Intn(200))))
					add(cut(e, s-1, s))                                     // 63
					add(cut(e, s-62, s))                                    // 2 hex chars: short key
					add(cut(e, s-63, s))                                    // 1 hex char
					m := append([]byte(nil), e...)
					m[s-1] = 'g'
					add(m)
					m2 := append([]byte(nil), e...)
					copy(m2[s-64:s], bytes.ToUpper(m2[s-64:s]))
					add(m2)
				}
			}
			// a child field in an empty slot
			for _, s := range seps {
				if (s == 17 || e[s-1] == ':') && r.Intn(4) == 0 {
					add(insertAt(e, s, []byte(hex.EncodeToString(sha3sum(e)))))
					add(insertAt(e, s, []byte("abc")))
				}
			}
		}
	}
	// splices between node kinds
	for k := 0; k < 12 && len(encs) > 1; k++ {
		a, b := encs[r.Intn(len(encs))], encs[r.Intn(len(encs))]
		m := append([]byte{a[0]}, b[1:]...) // type of a, rest of b
		add(m)
		ca, cb := 17+r.Intn(len(a)-16), 17+r.Intn(len(b)-16)
		add(append(append([]byte(nil), a[:ca]...), b[cb:]...))
		add(append(append([]byte(nil), a[:17]...), b[17:]...))
	}
	// random bytes
	for k := 0; k < 10; k++ {
		b := make([]byte, r.Intn(90))
		r.Read(b)
		add(b)
		b2 := make([]byte, 17+r.Intn(60))
		r.Read(b2)
		b2[0] = []byte{1, 2, 4, 8}[r.Intn(4)]
		for j := 17; j < len(b2); j++ {
			if r.Intn(5) == 0 {
				b2[j] = ':'
			}
		}
		add(b2)
	}
	add(append([]byte{4}, bytes.Repeat([]byte{':'}, 40)...))
	add(append(append([]byte{4}, make([]byte, 16)...), bytes.Repeat([]byte{':'}, 16)...))
	add(append(append([]byte{2}, make([]byte, 16)...), ':', ':'))
	add(append(append([]byte{8}, make([]byte, 16)...), ':'))
	add(append([]byte{1}, make([]byte, 16)...))
	ops := make([]string, 0, len(muts))
	limit := 400
	if thorough {
		limit = 6000
	}
	if len(muts) > limit {
		r.Shuffle(len(muts), func(i, j int) { muts[i], muts[j] = muts[j], muts[i] })
		muts = muts[:limit]
	}
	for _, m := range muts {
		if len(m) == 0 {
			ops = append(ops, "dec -")
		} else {
			ops = append(ops, "dec "+hx(m))
		}
	}
	return ops
}

// ---- damaged dead-node records -----------------------------------------------------------------------------

func msgpStr(s string) []byte {
	n := len(s)
	switch {
	case n < 32:
		return append([]byte{0xa0 | byte(n)}, s...)
	case n < 256:
		return append([]byte{0xd9, byte(n)}, s...)
	default:
		return append([]byte{0xda, byte(n >> 8), byte(n)}, s...)
	}
}

// deadNodesRecord is the msgp form of util.deadNodes: {"Nodes": {<hex key>: true, ...}}
func deadNodesRecord(keys []string) []byte {
	b := []byte{0x81}
	b = append(b, msgpStr("Nodes")...)
	if len(keys) < 16 {
		b = append(b, 0x80|byte(len(keys)))
	} else {
		b = append(b, 0xde, byte(len(keys)>>8), byte(len(keys)))
	}
	for _, k := range keys {
		b = append(b, msgpStr(k)...)
		b = append(b, 0xc3)
	}
	return b
}

// intactRecordKeys parses a record made by deadNodesRecord (independent of /repo): the hex keys it names.
func intactRecordKeys(rec []byte) []string {
	var keys []string
	i := bytes.Index(rec, []byte("Nodes")) + 5
	switch {
	case rec[i] == 0xde:
		i += 3
	default:
		i++
	}
	for i < len(rec) {
		var n int
		switch {
		case rec[i] == 0xd9:
			n, i = int(rec[i+1]), i+2
		case rec[i] == 0xda:
			n, i = int(rec[i+1])<<8|int(rec[i+2]), i+3
		default:
			n, i = int(rec[i]&0x1f), i+1
		}
		keys = append(keys, string(rec[i:i+n]))
		i += n + 1
	}
	return keys
}

func msgpAny(r *rand.Rand, depth int) []byte {
	switch r.Intn(14) {
	case 0:
		return []byte{0xc0}
	case 1:
		return []byte{byte(r.Intn(0x80))}
	case 2:
		return []byte{0xe0 | byte(r.Intn(32))}
	case 3:
		return append([]byte{0xcd}, 1, 2)
	case 4:
		return append([]byte{0xcb}, make([]byte, 8)...)
	case 5:
		return append([]byte{0xc4, 3}, 1, 2, 3)
	case 6:
		return append([]byte{0xd6, 7}, 1, 2, 3, 4) // fixext4
	case 7:
		return append([]byte{0xc7, 2, 9}, 1, 2) // ext8
	case 8:
		return msgpStr("some text")
	case 9:
		if depth > 3 {
			return []byte{0x90}
		}
		n := r.Intn(4)
		b := []byte{0x90 | byte(n)}
		for j := 0; j < n; j++ {
			b = append(b, msgpAny(r, depth+1)...)
		}
		return b
	case 10:
		if depth > 3 {
			return []byte{0x80}
		}
		n := r.Intn(3)
		b := []byte{0xde, 0, byte(n)}
		for j := 0; j < 2*n; j++ {
			b = append(b, msgpAny(r, depth+1)...)
		}
		return b
	case 11:
		return []byte{0xc1} // never used
	case 12:
		return []byte{0xd3, 1, 2, 3} // int64 cut short
	default:
		return []byte{0xc2}
	}
}

// genDeadNodesCase: real records through RecordDeadNodes (dnenc) and the decoder observed through the prune (dndec).
func genDeadNodesCase(r *rand.Rand) []string {
	var ops []string
	// dnenc: the stored form of the nodes of a random canonical trie (+ value nodes, whose hash may be nil)
	content := map[string][]byte{}
	var pool []string
	for k, n := 0, r.Intn(12); k < n; k++ {
		p := genPath(r, "ab0", pool)
		pool = append(pool, p)
		content[p] = unhx(genValue14(r))
	}
	encs := canonStored(content, uint64(r.Intn(5)), uint64(r.Intn(5)))
	var es []string
	for _, e := range encs {
		es = append(es, hx(e))
	}
	if r.Intn(3) == 0 {
		es = append(es, hx(append([]byte{1}, make([]byte, 16)...)), hx(append(append([]byte{1}, make([]byte, 16)...), 0x41)))
	}
	if len(es) > 0 && r.Intn(3) == 0 {
		es = append(es, es[0]) // the same node twice
	}
	if len(es) == 0 {
		ops = append(ops, "dnenc -")
	} else {
		ops = append(ops, "dnenc "+strings.Join(es, ","))
	}
	// dndec
	for c := 0; c < 8; c++ {
		var planted []string
		op := ""
		for k, n := 0, 1+r.Intn(4); k < n; k++ {
			var keys []string
			for j, m := 0, r.Intn(20); j < m; j++ {
				h := make([]byte, 1+r.Intn(40))
				if r.Intn(3) != 0 {
					h = make([]byte, 32)
				}
				r.Read(h)
				keys = append(keys, hex.EncodeToString(h))
			}
			sort.Strings(keys)
			planted = append(planted, keys...)
			rec := deadNodesRecord(keys)
			intact := false
			nodesAt := bytes.Index(rec, []byte("Nodes")) + 5
			switch r.Intn(20) {
			case 0, 1, 2:
				intact = true
			case 3:
				rec = rec[:r.Intn(len(rec)+1)]
			case 4: // non-hex / odd-length / upper-case / empty key
				rec = deadNodesRecord(append(keys, [][]string{{"zz"}, {"abc"}, {"ABCDEF"}, {""}}[r.Intn(4)]...))
			case 5: // inner count one too many / one too few / far too many
				if rec[nodesAt]&0xf0 == 0x80 {
					rec = append([]byte(nil), rec...)
					rec[nodesAt] = 0x80 | byte((int(rec[nodesAt]&0x0f)+[]int{1, 15, 14}[r.Intn(3)])%16)
				} else {
					rec = append(append(append([]byte(nil), rec[:nodesAt]...), 0xdf, 0, byte(r.Intn(16)), 0xff, 0xff), rec[nodesAt+3:]...)
				}
			case 6: // count exactly at the guard's boundary: as many entries announced as bytes are left
				body := rec[nodesAt+1:]
				if rec[nodesAt] == 0xde {
					body = rec[nodesAt+3:]
				}
				for _, d := range []int{0, 1, -1}[r.Intn(3):][:1] {
					n := len(body) + d
					if n < 0 {
						n = 0
					}
					rec = append(append(append([]byte(nil), rec[:nodesAt]...), 0xdf, byte(n>>24), byte(n>>16), byte(n>>8), byte(n)), body...)
				}
			case 7: // unknown fields of every kind before / after "Nodes" (msgp.Skip)
				f1, f2 := msgpAny(r, 0), msgpAny(r, 0)
				rec = append(append(append(append([]byte{0x83}, msgpStr("x")...), f1...), rec[1:]...), append(msgpStr("yy"), f2...)...)
			case 8: // deep nesting in a skipped field
				nest := bytes.Repeat([]byte{0x91}, 1+r.Intn(3000))
				rec = append(append([]byte{0x82}, msgpStr("x")...), append(append(nest, 0xc0), rec[1:]...)...)
			case 9: // values false / of the wrong type
				rec = bytes.ReplaceAll(rec, []byte{0xc3}, [][]byte{{0xc2}, {0x01}, {0xc0}}[r.Intn(3)])
			case 10: // "Nodes" twice: the second map replaces the first
				second := deadNodesRecord(keys[:len(keys)/2])
				rec = append(append([]byte{0x82}, rec[1:]...), second[1:]...)
			case 11: // field name as bin8 / with a different name
				if r.Intn(2) == 0 {
					rec = append([]byte{0x81, 0xc4, 5}, rec[2:]...)
				} else {
					rec = append([]byte{0x81, 0xa5, 'n'}, rec[3:]...)
				}
			case 12: // keys as str16 / str32 / bin
				if len(keys) > 0 {
					k0 := keys[0]
					enc := [][]byte{append([]byte{0xda, 0, byte(len(k0))}, k0...), append([]byte{0xdb, 0, 0, 0, byte(len(k0))}, k0...), append([]byte{0xc4, byte(len(k0))}, k0...)}[r.Intn(3)]
					rec = bytes.Replace(rec, msgpStr(k0), enc, 1)
				}
			case 13: // the same key twice
				if len(keys) > 0 && len(keys) < 15 {
					rec = deadNodesRecord(append(append([]string(nil), keys...), keys[0]))
				}
			case 14:
				b := make([]byte, r.Intn(60))
				r.Read(b)
				rec = b
			case 15: // outer header: empty map, map16, too many fields
				rec = [][]byte{{0x80}, append([]byte{0xde, 0, 1}, rec[1:]...), append([]byte{0x82}, rec[1:]...), nil}[r.Intn(4)]
			case 16: // bit flips
				rec = append([]byte(nil), rec...)
				for j := 0; j < 2 && len(rec) > 0; j++ {
					rec[r.Intn(len(rec))] ^= 1 << uint(r.Intn(8))
				}
			case 17: // string length beyond the data
				rec = append(append([]byte{0x81}, msgpStr("Nodes")...), 0x81, 0xdb, 0x7f, 0xff, 0xff, 0xff, 'a')
			case 18: // trailing garbage after a complete record
				rec = append(append([]byte(nil), rec...), msgpAny(r, 0)...)
				intact = false
			default:
				rec = append([]byte(nil), rec...)
			}
			switch {
			case len(rec) == 0:
				op += " -"
			case intact:
				op += " =" + hx(rec)
			default:
				op += " " + hx(rec)
			}
		}
		ks := "-"
		if len(planted) > 0 {
			if r.Intn(2) == 0 {
				extra := make([]byte, 32)
				r.Read(extra)
				planted = append(planted, hx(extra)) // a node no record names
			}
			ks = strings.Join(planted, ",")
		}
		ops = append(ops, "dndec "+ks+op)
	}
	return ops
}

func genPruneCase(r *rand.Rand) []string {
	var ops []string
	for c := 0; c < 6; c++ {
		var vals [][]byte
		for k, n := 0, 1+r.Intn(5); k < n; k++ {
			var keys []string
			for j, m := 0, r.Intn(20); j < m; j++ {
				h := make([]byte, 32)
				r.Read(h)
				keys = append(keys, hex.EncodeToString(h))
			}
			rec := deadNodesRecord(keys)
			switch r.Intn(12) {
			case 0: // intact
			case 1:
				rec = rec[:r.Intn(len(rec)+1)]
			case 2: // non-hex / odd-length key
				rec = deadNodesRecord(append(keys, "zz", "abc"))
			case 3: // inflated inner map header (map16 / map32 with a count far beyond the data)
				i := bytes.Index(rec, []byte("Nodes")) + 5
				hdr := [][]byte{{0xde, 0xff, 0xff}, {0xdf, 0x00, 0x0f, 0xff, 0xff}, {0xdf, 0x00, 0x00, 0x01, 0x00}}[r.Intn(3)]
				skip := 1
				if rec[i] == 0xde {
					skip = 3
				}
				rec = append(append(append([]byte(nil), rec[:i]...), hdr...), rec[i+skip:]...)
			case 4: // inflated outer map header
				rec = append([]byte{0xde, 0x7f, 0xff}, rec[1:]...)
			case 5: // unknown field -> msgp.Skip over nested containers
				nest := bytes.Repeat([]byte{0x91}, 1+r.Intn(3000))
				rec = append(append([]byte{0x82}, msgpStr("x")...), append(append(nest, 0xc0), rec[1:]...)...)
			case 6: // wrong value types
				rec = bytes.ReplaceAll(rec, []byte{0xc3}, []byte{0x01})
			case 7:
				b := make([]byte, r.Intn(60))
				r.Read(b)
				rec = b
			case 8: // string length beyond the data
				rec = append(append([]byte{0x81}, msgpStr("Nodes")...), 0x81, 0xdb, 0x7f, 0xff, 0xff, 0xff, 'a')
			case 9:
				rec = nil
			case 10: // bit flips
				rec = append([]byte(nil), rec...)
				for j := 0; j < 3 && len(rec) > 0; j++ {
					rec[r.Intn(len(rec))] ^= 1 << uint(r.Intn(8))
				}
			default:
				rec = append(rec, rec...)
			}
			vals = append(vals, rec)
		}
		op := "prune"
		if c == 5 {
			// a map32 header announcing up to 2^32-1 entries: run in a child process
			op = "prunex"
			cnt := []uint32{0xffffffff, 0xc0000000, 0x10000000, 0x00200000}[r.Intn(4)]
			rec := append([]byte{0x81}, msgpStr("Nodes")...)
			rec = append(rec, 0xdf, byte(cnt>>24), byte(cnt>>16), byte(cnt>>8), byte(cnt))
			vals[r.Intn(len(vals))] = rec
		}
		for _, v := range vals {
			if len(v) == 0 {
				op += " -"
			} else {
				op += " " + hx(v)
			}
		}
		ops = append(ops, op)
	}
	return ops
}

func init() {
	if op := os.Getenv("VERIF_C15_CHILD"); op != "" {
		os.Unsetenv("VERIF_C15_CHILD")
		r := runC15Mpt([]string{op})
		fmt.Println(r.Outs[0])
		os.Exit(0)
	}
	register(&Suite{
		Name: "c15mpt",
		Rule: "malformed stream over real stored-node encodings of random canonical tries (truncation at every length, separators removed/doubled, all 16 type codes and high bits, version/origin bytes dropped or inflated, splices between node kinds, child hex fields of odd / > 64 / short length, non-hex, upper case, random bytes) through CreateNode+Encode+GetHashBytes; every 25th case plants damaged dead-node records (truncated, inflated map headers, non-hex keys, nested unknown fields, random bytes) and runs PNodeDB.PruneBelowVersion; every 40th case: inputs of 10^5..10^6 bytes (n-byte values, n separators, n-character paths / child fields / keys, dead-node records of 2000..10000 entries, an n-character key, n nested arrays), every decode timed against max(50 ms, 1 s per MB); non-trivial = a case with both accepted and rejected inputs",
		Gen:  genC15Mpt,
		Run:  runC15Mpt,
		Exhaustive: func(tier string, emit func([]string)) {
			// every type byte 0..255 in front of a family of tiny bodies (with and without the 16 tracker bytes)
			bodies := []string{"", ":", "::", ":::", "a:", "a:b", "a:b:", "a:b:c", ":a", "0:", "00:", "000:", strings.Repeat(":", 15),
				strings.Repeat(":", 16), strings.Repeat(":", 17), strings.Repeat(":", 16) + "v", "zz:" + strings.Repeat(":", 15),
				strings.Repeat("a", 64) + ":" + strings.Repeat(":", 15), strings.Repeat("a", 65) + ":" + strings.Repeat(":", 15),
				strings.Repeat("a", 66) + ":" + strings.Repeat(":", 15), strings.Repeat("a", 67) + ":" + strings.Repeat(":", 15)}
			for _, tr := range []int{0, 3, 8, 15, 16} {
				for _, b := range bodies {
					var ops []string
					for t := 0; t < 256; t++ {
						m := append([]byte{byte(t)}, bytes.Repeat([]byte{7}, tr)...)
						m = append(m, b...)
						ops = append(ops, "dec "+hx(m))
					}
					emit(ops)
				}
			}
			if tier == "thorough" {
				// every byte string of length <= 2
				emit([]string{"dec -"})
				for a := 0; a < 256; a++ {
					ops := []string{"dec " + hx([]byte{byte(a)})}
					for b := 0; b < 256; b++ {
						ops = append(ops, "dec "+hx([]byte{byte(a), byte(b)}))
					}
					emit(ops)
				}
			}
		},
		DefaultN: func(tier string) int {
			if tier == "thorough" {
				return 3000
			}
			return 120
		},
	})
}
