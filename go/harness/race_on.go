//go:build race

package main

func init() { c16RaceEnabled = true; raceEnabled = true }
