//go:build race

package main

func init() { raceEnabled = true }
