package main

// Suites c05 (dead-node records and pruning never remove live state) and c05big (rounds with more than 1000 dead
// nodes: the multi-batch path of PruneBelowVersion; oracle only).
// Runner, op language and oracles: mptstore.go; generator: mptstore_gen.go.

import "time"

func init() {
	register(&Suite{
		Name:        "c05",
		Rule:        "multi-round histories (3-6 rounds) with many deletes and explicit delete-then-recreate of identical content within a round and across rounds; rounds that delete / overwrite earlier-round content and then move by MergeDB to a donor built off the state they started from (the replaced nodes are live again); after a save a prune at one of the saved versions (30% with a crash budget, then re-run); every prune is additionally crashed at every write index on a clone and re-run; dead sets are read back from the dead-node records; two large cases per quick run with dead-node records of exactly maxPruneNodes-1 .. 2*maxPruneNodes+1 keys (constants read from the regenerated Constants.lean) pruned in stages with crashes between the delete batches; non-trivial = at least one non-empty dead record and one prune that had something to delete",
		Gen:         genStoreCase(profC05),
		CaseTimeout: 120 * time.Second, // generous: a loaded machine must not turn into an oracle failure
		Run:         func(ops []string) CaseResult { return runStoreCase("C05", ops) },
		DefaultN: func(tier string) int {
			if tier == "thorough" {
				return 100000
			}
			return 1200
		},
	})
	register(&Suite{
		Name: "c05big",
		Rule: "850-1150 random 64-nibble keys inserted in round 1, then 2-4 rounds rewriting/deleting a large fraction through a child trie so that single rounds record more than 1000 dead nodes; prune at a middle version then at the last one; non-trivial = a prune that needed more than one delete batch",
		Gen:  genBigDead,
		Run: func(ops []string) CaseResult {
			r := runStoreCase("C05", ops)
			r.Nontrivial = hasTag(r.Tags, "prune-multibatch")
			return r
		},
		CaseTimeout: 300 * time.Second,
		DefaultN: func(tier string) int {
			if tier == "thorough" {
				return 12
			}
			return 1
		},
	})
}

func hasTag(ts []string, t string) bool {
	for _, x := range ts {
		if x == t {
			return true
		}
	}
	return false
}
