package main

// Suite c19 — Merkle tree (core/util/merkle_tree.go): paths prove exactly their own leaf; export/load round trip.
//
// Op language (one tree per case; hashes are 64-character lowercase hex strings, as in the Go code):
//
//	leaves <n> <tag>        leaf[i] = Hash(tag + "/" + i)  for i < n          -> ok
//	dup <i> <j>             leaf[i] = leaf[j]  (before compute)               -> ok
//	lf <hex|->              append one leaf whose hash STRING is the given bytes (any length, any characters except
//	                        space, comma and control characters; "-" = the empty string)   -> ok
//	offerraw <i> <hex|->    the given string offered with the path of index i -> true | false | split
//	compute                 ComputeTree(leaves)                               -> ok <size> <root> <digest of GetTree()>
//	tree                    GetTree() in full (small trees only)              -> ok h0,h1,...
//	pathidx <i>             GetPathByIndex(i), verified for leaf i            -> ok <leafIndex> <nodes|-> <VerifyPath> <VerifyMerklePath>
//	pathleaf <i>            GetPath(leaf[i]), verified for leaf i             -> same
//	pathmissing <tag>       GetPath(Hash(tag)) of a non-member                -> same (ok 0 - false false)
//	allpaths                digest over GetPathByIndex(i) for every i         -> ok <digest>
//	verifyall               number of i whose own path verifies (both APIs)   -> ok <count>
//	offer <i> <j>           leaf[j] offered with the path of index i          -> true | false | split
//	offerrand <i> <tag>     Hash(tag) offered with the path of index i        -> true | false | split
//	offerall <i>            every leaf j != i offered with the path of i      -> ok <number accepted>
//	vidx <i> <k>            leaf[i] with the path of i but LeafIndex := k     -> true | false
//	settree <m>             new tree; SetTree(m, copy of GetTree())           -> ok <root> <allpaths digest> | err
//	zero                    mt = &util.MerkleTree{} (the zero value, nothing computed)   -> ok
//	root                    GetRoot()                                         -> ok <root|-> | panic
//	pathraw <idx>           GetPathByIndex(idx) for ANY int idx               -> ok <leafIndex> <nodes|-> | panic
//	verifynil <tag>         VerifyPath(Hash(tag), nil)                        -> true | false | panic
//	loadraw <m>             t2.SetTree(m, copy of GetTree()) for ANY int m, then t2.GetRoot(), t2.GetPathByIndex(0)
//	                                                                          -> ok <root|-> <0:nodes|panic> | err
//	(`leaves 0 <tag>` + `compute` is ComputeTree of the empty list.)  Panics are recovered per op.  A panic is an
//	oracle failure only inside the property's domain (tree of >= 1 leaves, 0 <= idx < n, non-nil path); outside it
//	is an observation compared with the checked Lean model (`Verif.Model.MerkleChecked`).
//	badload <m>             mt.SetTree(m, copy of mt.GetTree()) on the SAME populated object with a wrong leaf
//	                        count: must be rejected and must change nothing       -> err | ok
//	reload                  mt.SetTree(n, copy of mt.GetTree()) on the SAME object (must succeed)  -> ok | err
//	load <k>                mt.SetTree(n_k, copy of e_k) on the SAME object: its content is now that of export k -> ok <root> | err
//	loadbad <k> <m>         mt.SetTree(m, copy of e_k) with m != n_k on the SAME object: rejected, nothing changes -> err | ok
//	find <hex|->            GetLeafIndex, GetPath and VerifyPath for an arbitrary hash string on the object as it is
//	                        now: every answer is that of a fresh object built from the current content
//	                                                                          -> ok <index|-1> <leafIndex> <nodes|-> <verdict>
//	export                  e_k := GetTree() (the slice itself, NOT copied), with the root, leaves and paths of
//	                        the tree at this moment recorded                  -> ok <k>
//	recompute <n> <tag>     ComputeTree of n fresh leaves on the SAME MerkleTree object  -> as compute
//	loadcompute <k> <n> <tag>  t2 := new tree; t2.SetTree(n_k, e_k) (the slice itself); t2.ComputeTree(n fresh
//	                        leaves)                                           -> as compute (of t2)
//	checkexport <k>         e_k loaded into a fresh object: root and all paths as recorded at export time, every
//	                        path verifies for the leaves of that time         -> ok <root> <allpaths digest> | err
//
// Oracle (independent of the code under test; own SHA3, levels-based): the tree array is the concatenation of
// the levels (next level = pairs hashed, last node paired with itself on odd levels; a single leaf gets the
// root H(l,l)); the path of i is the sibling (or the node itself when it has none) on every level below the
// root; a path verifies for a hash iff folding it by the bits of the index gives the root; an offered hash
// is accepted iff it equals the leaf's hash; SetTree(m) succeeds iff m = n and then reproduces root and paths.
// An exported array is a value: whatever is computed later on the object it came from, or on an object it was
// loaded into, it still loads to the root and paths it had when exported (ComputeTree allocates its own array).

import (
	"fmt"
	"math/rand"
	"strconv"
	"strings"

	"github.com/0chain/common/core/util"
)

type c19Hashable string

func (h c19Hashable) GetHash() string { return string(h) }

func (h c19Hashable) GetHashBytes() []byte { return []byte(h) }

func c19Hash(s string) string { return hx(sha3sum([]byte(s))) }

// c19Digest: FNV-1a 64 of a long canonical text (tree array, all paths) — a cheap fingerprint for the comparison
// with the model; hashes inside the tree are always real SHA3
func c19Digest(s string) string {
	h := uint64(0xcbf29ce484222325)
	for i := 0; i < len(s); i++ {
		h ^= uint64(s[i])
		h *= 0x100000001b3
	}
	return fmt.Sprintf("%016x", h)
}

func c19Leaf(tag string, i int) string { return c19Hash(tag + "/" + strconv.Itoa(i)) }

// c19Levels: the specification of the tree
func c19Levels(leaves []string) [][]string {
	if len(leaves) == 1 {
		return [][]string{leaves, {c19Hash(leaves[0] + leaves[0])}}
	}
	lv := [][]string{leaves}
	cur := leaves
	for len(cur) > 1 {
		var nx []string
		for i := 0; i < len(cur); i += 2 {
			if i+1 < len(cur) {
				nx = append(nx, c19Hash(cur[i]+cur[i+1]))
			} else {
				nx = append(nx, c19Hash(cur[i]+cur[i]))
			}
		}
		lv = append(lv, nx)
		cur = nx
	}
	return lv
}

func c19SpecPath(lv [][]string, i int) []string {
	var p []string
	for k := 0; k+1 < len(lv); k++ {
		sib := i ^ 1
		if sib < len(lv[k]) {
			p = append(p, lv[k][sib])
		} else {
			p = append(p, lv[k][i])
		}
		i >>= 1
	}
	return p
}

// c19Fold: the specification of path verification (arithmetic shift = floor division, also for negative indices)
func c19Fold(h string, nodes []string, idx int, root string) bool {
	for _, s := range nodes {
		if idx&1 == 1 {
			h = c19Hash(s + h)
		} else {
			h = c19Hash(h + s)
		}
		idx >>= 1
	}
	return h == root
}

// c19Abbrev: a long hash string shortened in the middle (both ends matter for near-duplicates)
func c19Abbrev(s string) string {
	if len(s) <= 20 {
		return s
	}
	return fmt.Sprintf("%s..%s(%d)", s[:8], s[len(s)-8:], len(s))
}

func c19LenBucket(l int) string {
	switch {
	case l == 0:
		return "0"
	case l == 1:
		return "1"
	case l < 64:
		return "2..63"
	case l <= 66:
		return strconv.Itoa(l)
	case l < 128:
		return "67..127"
	case l <= 129:
		return strconv.Itoa(l)
	default:
		return ">129"
	}
}

func c19Dash(s string) string {
	if s == "" {
		return "-"
	}
	return s
}

func c19Nodes(p []string) string {
	if len(p) == 0 {
		return "-"
	}
	return strings.Join(p, ",")
}

func c19Short(p []string) string {
	var o []string
	for _, h := range p {
		if len(h) > 8 {
			h = h[:8]
		}
		o = append(o, h)
	}
	return "[" + strings.Join(o, " ") + "]"
}

func c19EqStrs(a, b []string) bool {
	if len(a) != len(b) {
		return false
	}
	for i := range a {
		if a[i] != b[i] {
			return false
		}
	}
	return true
}

func c19PathsDigest(n int, get func(i int) *util.MTPath) string {
	var sb strings.Builder
	for i := 0; i < n; i++ {
		p := get(i)
		fmt.Fprintf(&sb, "%d:%s\n", p.LeafIndex, c19Nodes(p.Nodes))
	}
	return c19Digest(sb.String())
}

// c19Export: what GetTree() handed out, and what the tree was at that moment
type c19Export struct {
	arr    []string // the very slice returned by GetTree
	n      int
	leaves []string
	lv     [][]string
	root   string
	digest string // fingerprint of the array at export time
	paths  string // fingerprint of all paths at export time
}

// c19Outside: is this op (after it ran; n = current number of leaves) outside the property's quantifier
// "non-empty list, every leaf position, a path"?  The model driver applies the same rule.
func c19Outside(f []string, n int, exports []*c19Export) bool {
	atoi := func(s string) int { v, _ := strconv.Atoi(s); return v }
	switch f[0] {
	case "leaves", "lf", "dup", "zero", "export":
		return false
	case "verifynil":
		return true
	case "pathraw":
		return n == 0 || atoi(f[1]) < 0 || atoi(f[1]) >= n
	case "checkexport":
		k := atoi(f[1])
		return k < len(exports) && exports[k].n == 0
	case "loadcompute":
		k := atoi(f[1])
		return atoi(f[2]) == 0 || (k < len(exports) && exports[k].n == 0)
	}
	return n == 0
}

func runC19(ops []string) CaseResult {
	res := CaseResult{}
	tags := map[string]bool{}
	var leaves []string
	var mt *util.MerkleTree
	var lv [][]string
	root := ""
	var exports []*c19Export
	firstN := 0
	leavesSet := false
	var fresh *util.MerkleTree
	freshKey := ""
	fail := func(i int, f string, a ...interface{}) {
		if len(res.Fails) < 20 {
			res.Fails = append(res.Fails, fmt.Sprintf("op %d (%s): ", i, ops[i])+fmt.Sprintf(f, a...))
		}
	}
	atoi := func(s string) int { v, _ := strconv.Atoi(s); return v }
	verdicts := func(h string, p *util.MTPath) (bool, bool) {
		return mt.VerifyPath(c19Hashable(h), p), util.VerifyMerklePath(h, p, mt.GetRoot())
	}
	v2s := func(a, b bool) string {
		if a != b {
			return "split"
		}
		return strconv.FormatBool(a)
	}
	// checkPath: oracle for a path handed out for leaf index want
	checkPath := func(i int, p *util.MTPath, want int) {
		if p.LeafIndex != want {
			fail(i, "path has leaf index %d, want %d", p.LeafIndex, want)
		}
		if sp := c19SpecPath(lv, want); !c19EqStrs(p.Nodes, sp) {
			fail(i, "path nodes of index %d (n=%d) differ from the sibling list of the levels: got %s want %s", want, len(leaves), c19Short(p.Nodes), c19Short(sp))
		}
		if !c19Fold(leaves[want], p.Nodes, p.LeafIndex, root) {
			fail(i, "path of index %d (n=%d) does not fold to the root", want, len(leaves))
		}
	}
	// computeOn: ComputeTree(ls) on the given object, compared with the levels oracle
	computeOn := func(i int, target *util.MerkleTree, ls []string) (string, [][]string, string) {
		hs := make([]util.Hashable, len(ls))
		for k, l := range ls {
			hs[k] = c19Hashable(l)
		}
		target.ComputeTree(hs)
		if len(ls) == 0 {
			// outside the property (no leaves): observed only, compared with the model
			tags["obs:empty-list"] = true
			t := target.GetTree()
			return fmt.Sprintf("ok %d %s %s", len(t), c19Dash(target.GetRoot()), c19Digest(strings.Join(t, ","))), nil, ""
		}
		lvs := c19Levels(ls)
		rt := lvs[len(lvs)-1][0]
		var flat []string
		for _, l := range lvs {
			flat = append(flat, l...)
		}
		t := target.GetTree()
		if !c19EqStrs(t, flat) {
			fail(i, "tree array (n=%d, %d entries) is not the concatenation of the levels (%d entries)", len(ls), len(t), len(flat))
		}
		if target.GetRoot() != rt {
			fail(i, "root %s, want %s (n=%d)", target.GetRoot(), rt, len(ls))
		}
		if len(ls)&1 == 1 {
			tags["odd-leaves"] = true
		}
		for _, l := range lvs {
			if len(l) > 1 && len(l)&1 == 1 {
				tags["odd-inner-level"] = true
			}
		}
		return fmt.Sprintf("ok %d %s %s", len(t), c19Dash(target.GetRoot()), c19Digest(strings.Join(t, ","))), lvs, rt
	}
	for i, op := range ops {
		f := strings.Fields(op)
		// malformed cases (shrinker): an op before its tree exists, or an index outside the leaves
		bad := false
		switch f[0] {
		case "leaves":
			bad = len(f) != 3 || atoi(f[1]) < 0 || mt != nil
		case "dup":
			bad = mt != nil || len(f) != 3 || atoi(f[1]) < 0 || atoi(f[1]) >= len(leaves) || atoi(f[2]) < 0 || atoi(f[2]) >= len(leaves)
		case "lf":
			bad = mt != nil || len(f) != 2
		case "offerraw":
			bad = mt == nil || len(f) != 3 || atoi(f[1]) < 0 || atoi(f[1]) >= len(leaves)
		case "compute":
			bad = !leavesSet || mt != nil
		case "zero":
			bad = mt != nil || leavesSet
		case "root":
			bad = mt == nil
		case "pathraw", "loadraw":
			_, e := strconv.Atoi(f[len(f)-1])
			bad = mt == nil || len(f) != 2 || e != nil
		case "verifynil":
			bad = mt == nil || len(f) != 2
		case "badload":
			_, e := strconv.Atoi(f[len(f)-1])
			bad = mt == nil || len(f) != 2 || e != nil || atoi(f[1]) == len(leaves) || len(leaves) == 0
		case "reload":
			bad = mt == nil || len(f) != 1 || len(leaves) == 0
		case "load":
			bad = mt == nil || len(f) != 2 || atoi(f[1]) < 0 || atoi(f[1]) >= len(exports) || exports[atoi(f[1])].n == 0
		case "loadbad":
			bad = mt == nil || len(f) != 3 || atoi(f[1]) < 0 || atoi(f[1]) >= len(exports) || exports[atoi(f[1])].n == atoi(f[2]) || len(leaves) == 0
		case "find":
			bad = mt == nil || len(f) != 2
		case "export":
			bad = mt == nil
		case "recompute":
			bad = mt == nil || len(f) != 3 || atoi(f[1]) < 0
		case "checkexport":
			bad = mt == nil || len(f) != 2 || atoi(f[1]) < 0 || atoi(f[1]) >= len(exports)
		case "loadcompute":
			bad = mt == nil || len(f) != 4 || atoi(f[1]) < 0 || atoi(f[1]) >= len(exports) || atoi(f[2]) < 0
		default:
			bad = mt == nil
			for k := 1; k < len(f) && k < 3 && !bad; k++ {
				if (k == 1 && f[0] != "pathmissing" && f[0] != "settree") || (k == 2 && f[0] == "offer") {
					bad = atoi(f[k]) < 0 || atoi(f[k]) >= len(leaves)
				}
			}
		}
		if bad {
			res.Fails = append(res.Fails, "harness: malformed case at "+op)
			res.Outs = append(res.Outs, "bad-op")
			continue
		}
		out := guard(func() string {
			switch f[0] {
			case "leaves":
				n := atoi(f[1])
				leaves = make([]string, n)
				for k := range leaves {
					leaves[k] = c19Leaf(f[2], k)
				}
				leavesSet = true
				return "ok"
			case "lf":
				leaves = append(leaves, string(unhx(f[1])))
				leavesSet = true
				if l := len(unhx(f[1])); l != 64 {
					tags[fmt.Sprintf("leaf-length-%s", c19LenBucket(l))] = true
				}
				return "ok"
			case "zero":
				mt = &util.MerkleTree{}
				tags["zero-value-tree"] = true
				return "ok"
			case "root":
				r := mt.GetRoot()
				if len(leaves) >= 1 && r != root {
					fail(i, "root %s, want %s", r, root)
				}
				return "ok " + c19Dash(r)
			case "pathraw":
				idx := atoi(f[1])
				out := guard(func() string {
					p := mt.GetPathByIndex(idx)
					return fmt.Sprintf("ok %d %s", p.LeafIndex, c19Nodes(p.Nodes))
				})
				switch {
				case idx >= 0 && idx < len(leaves):
					if out != "panic" {
						checkPath(i, mt.GetPathByIndex(idx), idx)
					}
				case out == "panic" && idx < 0:
					tags["obs:pathraw-negative-panics"] = true
				case out == "panic":
					tags["obs:pathraw-beyond-leaves-panics"] = true
				default:
					tags["obs:pathraw-beyond-leaves-returns-a-path"] = true
				}
				return out
			case "verifynil":
				tags["obs:nil-path"] = true
				return strconv.FormatBool(mt.VerifyPath(c19Hashable(c19Hash(f[1])), nil))
			case "loadraw":
				m := atoi(f[1])
				t2 := &util.MerkleTree{}
				if err := t2.SetTree(m, append([]string(nil), mt.GetTree()...)); err != nil {
					return "err"
				}
				if m < 0 {
					tags["obs:settree-negative-count-accepted"] = true
				}
				return "ok " + c19Dash(t2.GetRoot()) + " " + guard(func() string {
					p := t2.GetPathByIndex(0)
					return fmt.Sprintf("%d:%s", p.LeafIndex, c19Nodes(p.Nodes))
				})
			case "dup":
				leaves[atoi(f[1])] = leaves[atoi(f[2])]
				tags["dup"] = true
				return "ok"
			case "compute":
				mt = &util.MerkleTree{}
				firstN = len(leaves)
				var o string
				o, lv, root = computeOn(i, mt, leaves)
				return o
			case "recompute":
				n := atoi(f[1])
				leaves = make([]string, n)
				for k := range leaves {
					leaves[k] = c19Leaf(f[2], k)
				}
				tags["recompute-same-object"] = true
				var o string
				o, lv, root = computeOn(i, mt, leaves)
				return o
			case "badload":
				m := atoi(f[1])
				before := append([]string(nil), mt.GetTree()...)
				err := mt.SetTree(m, append([]string(nil), before...))
				tags["rejected-load-on-populated-object"] = true
				if err == nil {
					fail(i, "SetTree(%d) accepted the array of a tree of %d leaves", m, len(leaves))
					return "ok"
				}
				// a rejected load changes nothing: array and root here, every path by the sweep that follows
				if !c19EqStrs(mt.GetTree(), before) || mt.GetRoot() != root {
					fail(i, "the rejected SetTree(%d) changed the tree array or the root", m)
				}
				return "err"
			case "reload":
				if err := mt.SetTree(len(leaves), append([]string(nil), mt.GetTree()...)); err != nil {
					fail(i, "SetTree(%d) rejected the object's own array: %v", len(leaves), err)
					return "err"
				}
				tags["reload-same-object"] = true
				return "ok"
			case "load":
				e := exports[atoi(f[1])]
				if err := mt.SetTree(e.n, append([]string(nil), e.arr...)); err != nil {
					fail(i, "SetTree(%d) rejected export %s: %v", e.n, f[1], err)
					return "err"
				}
				leaves, lv, root = append([]string(nil), e.leaves...), e.lv, e.root
				tags["load-other-content-into-used-object"] = true
				if mt.GetRoot() != root {
					fail(i, "after loading export %s the root is %.8s, want %.8s", f[1], mt.GetRoot(), root)
				}
				return "ok " + mt.GetRoot()
			case "loadbad":
				e := exports[atoi(f[1])]
				before := append([]string(nil), mt.GetTree()...)
				if err := mt.SetTree(atoi(f[2]), append([]string(nil), e.arr...)); err == nil {
					fail(i, "SetTree(%s) accepted the array of a tree of %d leaves", f[2], e.n)
					return "ok"
				}
				if !c19EqStrs(mt.GetTree(), before) || mt.GetRoot() != root {
					fail(i, "the rejected SetTree(%s) changed the tree array or the root", f[2])
				}
				return "err"
			case "find":
				h := string(unhx(f[1]))
				want := -1
				for k, l := range leaves {
					if l == h {
						want = k
						break
					}
				}
				gi := mt.GetLeafIndex(c19Hashable(h))
				p := mt.GetPath(c19Hashable(h))
				v := mt.VerifyPath(c19Hashable(h), p)
				if gi != want {
					fail(i, "GetLeafIndex(%q) = %d on the object as it is now (%d leaves), a fresh object built from the same content gives %d", c19Abbrev(h), gi, len(leaves), want)
				}
				if want >= 0 {
					tags["find-present"] = true
					checkPath(i, p, want)
					if !v {
						fail(i, "GetPath(%q) of a current leaf (index %d) does not verify", c19Abbrev(h), want)
					}
				} else {
					tags["find-absent"] = true
					if len(p.Nodes) != 0 || p.LeafIndex != 0 || v {
						fail(i, "GetPath(%q): the hash is not a leaf of the current content, but a path of %d nodes (leaf index %d, verifies=%v) is returned", c19Abbrev(h), len(p.Nodes), p.LeafIndex, v)
					}
				}
				if len(leaves) > 0 {
					// the fresh object is rebuilt only when the content has changed since the last find
					if key := strings.Join(leaves, ","); fresh == nil || key != freshKey {
						fresh, freshKey = &util.MerkleTree{}, key
						hs := make([]util.Hashable, len(leaves))
						for k, l := range leaves {
							hs[k] = c19Hashable(l)
						}
						fresh.ComputeTree(hs)
					}
					if fi := fresh.GetLeafIndex(c19Hashable(h)); fi != gi {
						fail(i, "GetLeafIndex(%q) = %d, a fresh object with the same content answers %d", c19Abbrev(h), gi, fi)
					}
				}
				return fmt.Sprintf("ok %d %d %s %v", gi, p.LeafIndex, c19Nodes(p.Nodes), v)
			case "export":
				t := mt.GetTree()
				exports = append(exports, &c19Export{arr: t, n: len(leaves), leaves: append([]string(nil), leaves...), lv: lv, root: root,
					digest: c19Digest(strings.Join(t, ",")), paths: c19PathsDigest(len(leaves), mt.GetPathByIndex)})
				return fmt.Sprintf("ok %d", len(exports)-1)
			case "loadcompute":
				e := exports[atoi(f[1])]
				t2 := &util.MerkleTree{}
				if err := t2.SetTree(e.n, e.arr); err != nil {
					fail(i, "SetTree(%d) rejected export %s: %v", e.n, f[1], err)
					return "err"
				}
				ls := make([]string, atoi(f[2]))
				for k := range ls {
					ls[k] = c19Leaf(f[3], k)
				}
				tags["compute-after-load"] = true
				o, _, _ := computeOn(i, t2, ls)
				return o
			case "checkexport":
				e := exports[atoi(f[1])]
				if d := c19Digest(strings.Join(e.arr, ",")); d != e.digest {
					fail(i, "the array exported by GetTree() (export %s, %d leaves) has changed since it was exported: a later ComputeTree wrote into it", f[1], e.n)
				}
				t2 := &util.MerkleTree{}
				if err := t2.SetTree(e.n, e.arr); err != nil {
					fail(i, "SetTree(%d) rejected export %s: %v", e.n, f[1], err)
					return "err"
				}
				if t2.GetRoot() != e.root {
					fail(i, "export %s (%d leaves) loads to root %.8s, but the tree had root %.8s when it was exported", f[1], e.n, t2.GetRoot(), e.root)
				}
				for k := 0; k < e.n; k++ {
					p := t2.GetPathByIndex(k)
					if sp := c19SpecPath(e.lv, k); !c19EqStrs(p.Nodes, sp) || p.LeafIndex != k {
						fail(i, "export %s loaded back: path of index %d differs from the path at export time", f[1], k)
						break
					}
					if !t2.VerifyPath(c19Hashable(e.leaves[k]), p) {
						fail(i, "export %s loaded back: own path of index %d rejected", f[1], k)
						break
					}
				}
				pd := c19PathsDigest(e.n, t2.GetPathByIndex)
				if pd != e.paths {
					fail(i, "export %s loaded back: the paths differ from those at export time", f[1])
				}
				return "ok " + t2.GetRoot() + " " + pd
			case "tree":
				return "ok " + strings.Join(mt.GetTree(), ",")
			case "pathidx", "pathleaf":
				k := atoi(f[1])
				var p *util.MTPath
				want := k
				if f[0] == "pathidx" {
					p = mt.GetPathByIndex(k)
				} else {
					p = mt.GetPath(c19Hashable(leaves[k]))
					for want = 0; leaves[want] != leaves[k]; want++ {
					}
					if want != k {
						tags["lookup-of-duplicate"] = true
					}
				}
				checkPath(i, p, want)
				a, b := verdicts(leaves[k], p)
				if !a || !b {
					fail(i, "own path rejected: VerifyPath=%v VerifyMerklePath=%v (n=%d, index %d)", a, b, len(leaves), k)
				}
				return fmt.Sprintf("ok %d %s %v %v", p.LeafIndex, c19Nodes(p.Nodes), a, b)
			case "pathmissing":
				h := c19Hash(f[1])
				p := mt.GetPath(c19Hashable(h))
				a, b := verdicts(h, p)
				if len(p.Nodes) != 0 || p.LeafIndex != 0 || a || b {
					fail(i, "lookup of a non-member returned a path (%d nodes) or verified (%v,%v)", len(p.Nodes), a, b)
				}
				return fmt.Sprintf("ok %d %s %v %v", p.LeafIndex, c19Nodes(p.Nodes), a, b)
			case "allpaths":
				for k := range leaves {
					checkPath(i, mt.GetPathByIndex(k), k)
				}
				return "ok " + c19PathsDigest(len(leaves), mt.GetPathByIndex)
			case "verifyall":
				cnt := 0
				for k := range leaves {
					p := mt.GetPathByIndex(k)
					a, b := verdicts(leaves[k], p)
					if a && b {
						cnt++
					} else {
						fail(i, "own path of index %d rejected (n=%d): VerifyPath=%v VerifyMerklePath=%v", k, len(leaves), a, b)
					}
				}
				return fmt.Sprintf("ok %d", cnt)
			case "offer", "offerrand", "offerraw":
				k := atoi(f[1])
				var h string
				switch f[0] {
				case "offer":
					h = leaves[atoi(f[2])]
				case "offerraw":
					h = string(unhx(f[2]))
					tags["offer-near-duplicate"] = true
				default:
					h = c19Hash(f[2])
				}
				p := mt.GetPathByIndex(k)
				a, b := verdicts(h, p)
				want := h == leaves[k]
				if a != want || b != want {
					fail(i, "hash %q offered with the path of index %d (n=%d, leaf %q): VerifyPath=%v VerifyMerklePath=%v, want %v", c19Abbrev(h), k, len(leaves), c19Abbrev(leaves[k]), a, b, want)
				}
				if want {
					tags["offer-equal-hash"] = true
				}
				return v2s(a, b)
			case "offerall":
				k := atoi(f[1])
				p := mt.GetPathByIndex(k)
				cnt := 0
				for j := range leaves {
					if j == k {
						continue
					}
					a, b := verdicts(leaves[j], p)
					want := leaves[j] == leaves[k]
					if a != want || b != want {
						fail(i, "leaf %d offered with the path of index %d (n=%d): VerifyPath=%v VerifyMerklePath=%v, want %v", j, k, len(leaves), a, b, want)
					}
					if a && b {
						cnt++
					}
				}
				return fmt.Sprintf("ok %d", cnt)
			case "vidx":
				k, nk := atoi(f[1]), atoi(f[2])
				p := mt.GetPathByIndex(k)
				q := &util.MTPath{Nodes: append([]string(nil), p.Nodes...), LeafIndex: nk}
				a, b := verdicts(leaves[k], q)
				want := c19Fold(leaves[k], q.Nodes, nk, root)
				if a != want || b != want {
					fail(i, "path of index %d with LeafIndex %d: VerifyPath=%v VerifyMerklePath=%v, independent fold says %v", k, nk, a, b, want)
				}
				return v2s(a, b)
			case "settree":
				m := atoi(f[1])
				t2 := &util.MerkleTree{}
				err := t2.SetTree(m, append([]string(nil), mt.GetTree()...))
				if m != len(leaves) {
					tags["settree-wrong-size"] = true
					if err == nil {
						fail(i, "SetTree(%d) accepted the tree of %d leaves", m, len(leaves))
						return "ok " + t2.GetRoot() + " -"
					}
					return "err"
				}
				if err != nil {
					fail(i, "SetTree(%d) rejected its own export: %v", m, err)
					return "err"
				}
				tags["settree-roundtrip"] = true
				if t2.GetRoot() != root {
					fail(i, "loaded tree has root %s, want %s", t2.GetRoot(), root)
				}
				for k := range leaves {
					p := t2.GetPathByIndex(k)
					if sp := c19SpecPath(lv, k); !c19EqStrs(p.Nodes, sp) || p.LeafIndex != k {
						fail(i, "loaded tree: path of index %d differs from the original tree's", k)
					}
					if !t2.VerifyPath(c19Hashable(leaves[k]), p) {
						fail(i, "loaded tree: own path of index %d rejected", k)
					}
				}
				return "ok " + t2.GetRoot() + " " + c19PathsDigest(len(leaves), t2.GetPathByIndex)
			}
			return "bad-op"
		})
		if out == "panic" {
			// inside the property's domain a panic is a failure; outside it is an observation
			// (the same rule as for the comparison with the model: c19Outside)
			if c19Outside(f, len(leaves), exports) {
				tags["obs:panic:"+f[0]] = true
			} else {
				fail(i, "panic")
			}
		}
		// outside the property's domain (no leaves, index out of range, nil path) the behaviour is observed (tags) but
		// not compared with the model: a rewrite may change it without touching the property
		if c19Outside(f, len(leaves), exports) {
			tags["obs:"+f[0]+":"+strings.SplitN(out, " ", 2)[0]] = true
			out = "obs"
		}
		res.Outs = append(res.Outs, out)
	}
	res.Nontrivial = firstN >= 2 && mt != nil
	if firstN == 1 {
		tags["single-leaf"] = true
	}
	for t := range tags {
		res.Tags = append(res.Tags, t)
	}
	return res
}

// c19Case: the op lines for one tree of n leaves. full = every index individually, offers for every index.
func c19Case(r *rand.Rand, n int, tag string, dups int, tier string) []string {
	ops := []string{fmt.Sprintf("leaves %d %s", n, tag)}
	var dupPairs [][2]int
	for d := 0; d < dups && n >= 2; d++ {
		i, j := r.Intn(n), r.Intn(n)
		if i != j {
			ops = append(ops, fmt.Sprintf("dup %d %d", i, j))
			dupPairs = append(dupPairs, [2]int{i, j})
		}
	}
	orig := make([]string, n)
	for i := range orig {
		orig[i] = c19Leaf(tag, i)
	}
	for _, d := range dupPairs {
		orig[d[0]] = orig[d[1]]
	}
	return c19Body(r, ops, nil, orig, tag, tier)
}

// c19Body: everything done with a tree once the leaf ops (head) are given; extra ops go right after the first checks
func c19Body(r *rand.Rand, head, extra []string, orig []string, tag string, tier string) []string {
	n := len(orig)
	ops := append([]string(nil), head...)
	ops = append(ops, "compute")
	if n <= 12 {
		ops = append(ops, "tree")
	}
	ops = append(ops, "allpaths")
	verifyAllMax, offerAllMax := 300, 24
	if tier == "thorough" {
		verifyAllMax, offerAllMax = 600, 48
	}
	if n <= verifyAllMax {
		ops = append(ops, "verifyall")
	}
	ops = append(ops, extra...)
	// a REJECTED load on the populated object (leaf counts with fewer, equally many and more levels) changes
	// nothing: the full path / verify sweep again, then once more after a successful load on the same object
	sweep := func(full bool) {
		ops = append(ops, "root", "allpaths", fmt.Sprintf("pathidx %d", n-1), fmt.Sprintf("pathidx %d", r.Intn(n)),
			fmt.Sprintf("pathleaf %d", r.Intn(n)), "pathmissing "+tag+"y", fmt.Sprintf("offerrand %d q%d", r.Intn(n), r.Intn(1000)))
		if full && n <= 120 {
			ops = append(ops, "verifyall")
		}
	}
	wrong := []int{2 * n, 1, 0, n + 1, n - 1, 1 << 40, -3, 4*n + 3, (n + 1) / 2}
	first := true
	for _, m := range wrong {
		if m == n {
			continue
		}
		ops = append(ops, fmt.Sprintf("badload %d", m))
		if first || m == 1<<40 || m == 0 {
			sweep(first)
		}
		first = false
	}
	sweep(false)
	ops = append(ops, "reload")
	for _, m := range []int{wrong[r.Intn(len(wrong))], 2*n + 1, 1} {
		if m != n {
			ops = append(ops, fmt.Sprintf("badload %d", m))
		}
	}
	sweep(n <= 60)
	// indices looked at one by one: all of them for small trees, else the ends, the level-boundary ones and a sample
	var idxs []int
	if n <= 40 {
		for i := 0; i < n; i++ {
			idxs = append(idxs, i)
		}
	} else {
		idxs = []int{0, 1, n - 1, n - 2, n - 3, (n - 1) &^ 1, (n - 1) &^ 3, (n - 1) &^ 7, n / 2}
		for k := 0; k < 4; k++ {
			idxs = append(idxs, r.Intn(n))
		}
	}
	for _, i := range idxs {
		ops = append(ops, fmt.Sprintf("pathidx %d", i))
	}
	for k := 0; k < 3; k++ {
		ops = append(ops, fmt.Sprintf("pathleaf %d", idxs[r.Intn(len(idxs))]))
	}
	ops = append(ops, fmt.Sprintf("pathleaf %d", n-1), "pathmissing "+tag+"x")
	for _, i := range idxs {
		if n <= offerAllMax {
			ops = append(ops, fmt.Sprintf("offerall %d", i))
		} else {
			// neighbours, the duplicated last node's position, random others
			for _, j := range []int{i ^ 1, i + 2, n - 1, r.Intn(n), r.Intn(n)} {
				if j >= 0 && j < n && j != i {
					ops = append(ops, fmt.Sprintf("offer %d %d", i, j))
				}
			}
		}
		ops = append(ops, fmt.Sprintf("offerrand %d r%d", i, r.Intn(1000)))
	}
	if n > offerAllMax {
		// every other leaf offered with the path of the last and of a random index (sampled for very large trees)
		for _, i := range []int{n - 1, r.Intn(n)} {
			if n <= 600 {
				ops = append(ops, fmt.Sprintf("offerall %d", i))
			} else {
				for k := 0; k < 24; k++ {
					if j := r.Intn(n); j != i {
						ops = append(ops, fmt.Sprintf("offer %d %d", i, j))
					}
				}
			}
		}
	}
	for k := 0; k < 3; k++ {
		i := idxs[r.Intn(len(idxs))]
		alt := []int{i ^ 1, i + 1, i - 1, i + n, -i, -1 - i, i | 1<<20, i ^ 2, 0}
		ops = append(ops, fmt.Sprintf("vidx %d %d", i, alt[r.Intn(len(alt))]))
	}
	ops = append(ops, fmt.Sprintf("settree %d", n))
	for _, m := range []int{n - 1, n + 1, 0, 2 * n, r.Intn(2*n + 2)} {
		if m >= 0 && m != n {
			ops = append(ops, fmt.Sprintf("settree %d", m))
		}
	}
	// outside the property's quantifier (observations, compared with the checked model): any int index, nil path,
	// any int leaf count for SetTree
	size := c19Size(n)
	ops = append(ops, "root")
	for _, idx := range []int{-1, -2, n, n + 1, size - 1, size, size + 1, n + r.Intn(size-n+1), 1 << 40, -(1 << 40), r.Intn(n)} {
		ops = append(ops, fmt.Sprintf("pathraw %d", idx))
	}
	ops = append(ops, "verifynil "+tag, "loadraw -1", fmt.Sprintf("loadraw %d", n), fmt.Sprintf("loadraw %d", n+1))
	// exports are values: later ComputeTree calls on the same object (equal, smaller, larger leaf counts) and on an
	// object the export was loaded into must leave an earlier export loading to its original root and paths
	sizes := func() int {
		c := []int{n, n, n - 1, (n + 1) / 2, 1, 1 + r.Intn(n), n + 1 + r.Intn(3)}
		m := c[r.Intn(len(c))]
		if m < 1 {
			m = 1
		}
		return m
	}
	n2 := sizes()
	if n2 > n {
		n2 = n // the first recomputation never grows: the array of the first export could be reused
	}
	ops = append(ops, "export", fmt.Sprintf("recompute %d %sb", n2, tag), "checkexport 0", "allpaths",
		fmt.Sprintf("pathidx %d", n2-1), "export",
		fmt.Sprintf("loadcompute 0 %d %sc", sizes(), tag), "checkexport 0")
	curTag, curN := tag+"b", n2
	if n <= 300 {
		// (large trees: one round is enough; every checkexport re-verifies all paths)
		n3 := sizes()
		ops = append(ops, "checkexport 1",
			fmt.Sprintf("loadcompute 1 %d %sd", n2, tag), "checkexport 1",
			fmt.Sprintf("recompute %d %se", n3, tag), "checkexport 1", "checkexport 0", "allpaths")
		curTag, curN = tag+"e", n3
	}
	// ONE object through computes, lookups, loads of other contents (same and other sizes, accepted and rejected) and
	// computes again: after each step every lookup answers for the CURRENT content only (nothing cached from before).
	// export 0 = the original leaves (n), export 1 = <tag>b (n2); the object now holds <curTag> (curN leaves)
	find := func(l string) { ops = append(ops, "find "+c19Tok(l)) }
	lb := func(i int) string { return c19Leaf(tag+"b", i) }
	find(c19Leaf(curTag, curN-1)) // a lookup on the current content first: whatever is cached is cached now
	find(orig[0])                 // a leaf of an earlier content: absent
	ops = append(ops, "load 0")
	find(orig[n-1])
	find(orig[r.Intn(n)])
	find(c19Leaf(curTag, 0)) // a leaf of the content just replaced: must be absent now
	find(lb(n2 - 1))
	ops = append(ops, fmt.Sprintf("pathleaf %d", r.Intn(n)), "allpaths", "root")
	ops = append(ops, fmt.Sprintf("loadbad 1 %d", n2+1), fmt.Sprintf("loadbad 0 %d", 2*n+1))
	find(orig[0])
	find(lb(0)) // the rejected load must not make export 1's leaves appear
	ops = append(ops, "load 1")
	find(lb(n2 - 1))
	find(lb(r.Intn(n2)))
	find(orig[n-1]) // absent again (unless the two contents share it)
	ops = append(ops, "allpaths", fmt.Sprintf("recompute %d %sf", n, tag))
	find(c19Leaf(tag+"f", n-1))
	find(lb(0))
	find(orig[0])
	ops = append(ops, "load 0")
	find(orig[0])
	find(c19Leaf(tag+"f", 0))
	return ops
}

func c19Tok(s string) string {
	if s == "" {
		return "-"
	}
	return hx([]byte(s))
}

var c19Shapes = []string{"len0", "len1", "len63", "len64", "len65", "0x", "len128", "len129", "len200", "mixed", "upper", "nonhex", "neardup-last", "neardup-first", "neardup-0x"}

// c19ShapedLeaf: a leaf hash STRING of the given shape (Hashable.GetHash may return any string)
func c19ShapedLeaf(r *rand.Rand, shape string, i int, tag string) string {
	h := c19Hash(tag + "/" + strconv.Itoa(i))
	long := h + c19Hash(h) + c19Hash(h+"x") + c19Hash(h+"y")
	switch shape {
	case "len0":
		return ""
	case "len1":
		return h[:1]
	case "len63":
		return h[:63]
	case "len64":
		return h
	case "len65":
		return long[:65]
	case "0x":
		return "0x" + h
	case "len128":
		return long[:128]
	case "len129":
		return long[:129]
	case "len200":
		return long[:200]
	case "upper":
		return strings.ToUpper(h)
	case "nonhex":
		return []string{"zz-" + h[:20] + "!~", "leaf#" + strconv.Itoa(i) + "/" + h[:5], "x-éè中-" + h[:9] + "-y", "(" + h + ")", "g" + h[1:]}[i%5]
	default: // mixed
		all := []string{"len1", "len63", "len64", "len65", "0x", "len128", "len129", "len200", "upper", "nonhex", "len0"}
		return c19ShapedLeaf(r, all[r.Intn(len(all))], i, tag)
	}
}

// c19Flip: the string with its character at position pos replaced by another one
func c19Flip(s string, pos int) string {
	if len(s) == 0 {
		return "f"
	}
	b := []byte(s)
	if b[pos] == 'e' {
		b[pos] = 'd'
	} else {
		b[pos] = 'e'
	}
	return string(b)
}

// c19ShapedCase: a tree whose leaf hash strings are not 64-character hex; near-duplicates (differing only in the last
// or only in the first character) are put into the tree and offered with every path
func c19ShapedCase(r *rand.Rand, shape string, n int, tier string) []string {
	tag := "s" + strconv.Itoa(r.Intn(1000))
	leaves := make([]string, n)
	base := shape
	switch shape {
	case "neardup-last", "neardup-first":
		base = []string{"len64", "len65", "len128", "len200", "upper"}[r.Intn(5)]
	case "neardup-0x":
		base = "0x"
	}
	for i := range leaves {
		leaves[i] = c19ShapedLeaf(r, base, i, tag)
	}
	if strings.HasPrefix(shape, "neardup") && n >= 2 {
		// neighbours and far-apart positions that differ in one end character only
		for k := 0; k+1 < n; k += 2 {
			if shape == "neardup-first" {
				leaves[k+1] = c19Flip(leaves[k], 0)
			} else {
				leaves[k+1] = c19Flip(leaves[k], len(leaves[k])-1)
			}
		}
		if n >= 5 {
			leaves[n-1] = c19Flip(leaves[0], len(leaves[0])-1)
			leaves[n-2] = c19Flip(leaves[1], 0)
		}
	}
	var head, extra []string
	for _, l := range leaves {
		head = append(head, "lf "+c19Tok(l))
	}
	idxs := []int{0, 1, n - 1, n - 2, r.Intn(n), r.Intn(n)}
	if n <= 12 {
		idxs = nil
		for i := 0; i < n; i++ {
			idxs = append(idxs, i)
		}
	}
	for _, i := range idxs {
		if i < 0 || i >= n {
			continue
		}
		l := leaves[i]
		cands := []string{c19Flip(l, 0), l + "0", "0" + l, strings.ToUpper(l), strings.ToLower(l)}
		if len(l) > 0 {
			cands = append(cands, c19Flip(l, len(l)-1), l[:len(l)-1], l[1:])
		}
		if len(l) > 64 {
			cands = append(cands, l[:64], l[:64]+c19Flip(l[64:], len(l)-65))
		}
		for _, c := range cands {
			extra = append(extra, fmt.Sprintf("offerraw %d %s", i, c19Tok(c)))
		}
		if n <= 48 {
			extra = append(extra, fmt.Sprintf("offerall %d", i))
		}
	}
	return c19Body(r, head, extra, leaves, tag, tier)
}

// c19Size: array size for n leaves (used only to pick indices around the end of the array)
func c19Size(n int) int {
	if n == 1 {
		return 2
	}
	s := 1
	for ll := n; ll > 1; ll = (ll + 1) / 2 {
		s += ll
	}
	return s
}

// c19Degenerate: the empty list and the zero-value tree (outside the property; observations)
func c19Degenerate() [][]string {
	return [][]string{
		{"leaves 0 e", "compute", "tree", "root", "pathraw 0", "pathraw 1", "pathraw -1", "pathmissing ex", "allpaths", "verifyall",
			"verifynil ex", "loadraw 0", "loadraw -5", "loadraw 1", "settree 0", "export", "recompute 3 eb", "checkexport 0", "allpaths",
			"recompute 0 ec", "root", "pathraw 0", "loadcompute 0 0 ed", "loadcompute 0 2 ee"},
		{"zero", "root", "pathraw 0", "pathraw -1", "pathraw 7", "pathmissing zx", "verifynil zx", "loadraw 0", "allpaths", "verifyall",
			"recompute 2 zb", "root", "pathraw 0", "pathraw 1", "pathraw 2", "pathraw 3", "pathraw 4"},
	}
}

func genC19(r *rand.Rand, tier string, idx int) []string {
	if idx%4 == 3 {
		n := 1 + r.Intn(40)
		if r.Intn(4) == 0 {
			n = 1 + r.Intn(200)
		}
		return c19ShapedCase(r, c19Shapes[r.Intn(len(c19Shapes))], n, tier)
	}
	maxN := 300
	if tier == "thorough" {
		maxN = 3000
	}
	var n int
	switch x := r.Intn(10); {
	case x < 3:
		n = 1 + r.Intn(16)
	case x < 6:
		// around a power of two (all-even and maximally odd level shapes)
		p := 1 << uint(1+r.Intn(9))
		n = p + r.Intn(5) - 2
	case x < 8:
		n = 1 + r.Intn(maxN/4)
	default:
		n = 1 + r.Intn(maxN)
	}
	if n < 1 {
		n = 1
	}
	if n > maxN {
		n = maxN
	}
	dups := 0
	if idx%2 == 0 {
		dups = 1 + r.Intn(4)
		if r.Intn(3) == 0 {
			dups = n // heavy duplication
			if dups > 40 {
				dups = 40
			}
		}
	}
	return c19Case(r, n, fmt.Sprintf("g%d", r.Intn(1000)), dups, tier)
}

func exhC19(tier string, emit func([]string)) {
	maxN := 300
	if tier == "thorough" {
		maxN = 3000
	}
	// every n exactly once, in a scattered order (7919 is coprime to both bounds) so that the contiguous chunks the
	// model run is split into carry similar work
	for _, c := range c19Degenerate() {
		emit(c)
	}
	// leaf hash strings of other shapes than 64 hex characters: every shape with n = 1..9 and a few larger n
	for si, shape := range c19Shapes {
		for _, n := range []int{1, 2, 3, 4, 5, 6, 7, 8, 9, 16, 17, 33} {
			emit(c19ShapedCase(rand.New(rand.NewSource(int64(1000*si+n))), shape, n, tier))
		}
	}
	// (the smallest trees first, so that the first failure reported is a small one)
	for n := 1; n <= 40; n++ {
		emit(c19Case(rand.New(rand.NewSource(int64(n))), n, "e", 0, tier))
	}
	for k := 0; k < maxN; k++ {
		if n := 1 + (k*7919)%maxN; n > 40 {
			emit(c19Case(rand.New(rand.NewSource(int64(n))), n, "e", 0, tier))
		}
	}
}

func init() {
	register(&Suite{
		Name:       "c19",
		Rule:       "one Merkle tree per case: exhaustive leaf counts n = 1..300 (quick) / 1..3000 (thorough) with distinct leaves, plus random n (small, around powers of two, up to the bound) with duplicated leaves; every index's path compared with the levels oracle, verified by both APIs, other leaves and random hashes offered with it, tampered leaf index, SetTree round trip and wrong sizes; non-trivial = tree of at least 2 leaves",
		Gen:        genC19,
		Run:        runC19,
		Exhaustive: exhC19,
		DefaultN: func(tier string) int {
			if tier == "thorough" {
				return 2000
			}
			return 300
		},
	})
}
