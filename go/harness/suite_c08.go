package main

// Suites for C08 — "Cache answers stay correct under concurrent readers and committers" (core/statecache).
//
// c08 (deterministic schedules; needs the `verif` yield hook of DESIGN §8, see suite_c08_hook.go):
//   the sequential op language of sccommon.go plus
//
//	conc <bid> <order> <readers> <sched>
//
//   which runs BlockCache.Commit of handle <bid> (thread 0) concurrently with the lookups <readers> =
//   key@hash[,key@hash] (threads 1, 2: StateCache.Get(key, hash)) under the schedule <sched>: a string of thread
//   digits, each releasing that thread from the yield point it is parked at until its next yield point or its end
//   (one shared-map access per step); digits of finished threads are skipped; when the string ends the unfinished
//   threads run to completion in id order. <order> is the order in which commit() must visit the block's keys
//   (Go's map iteration order is random: the case is re-run until the observed order matches), "-" = any.
//   Output: `c=ok r1=hit:<v>|miss [r2=...] trace=<tid>:<yield point>,...` — the model's small-step run of the same
//   schedule must print the same line. Oracle: every reader hit equals the chain answer over the final tree; the
//   sequential lookups that follow the conc op are judged strictly (visible after commit, nothing overwritten).
//
// c08race (free-running, race detector): `race <seed> <committers> <readers> <blocksPerRun> <keys> <millis>` is
//   executed in a child process of this binary (built with -race): committers grow a block tree and commit
//   concurrently, readers look up random (key, block) pairs at ancestors / in-flight blocks / descendants through
//   StateCache, QueryBlockCache and BlockCache; every hit is compared with the chain answer over the blocks
//   registered so far; after Commit returns the committer must find its own writes. A DATA RACE report or a
//   non-zero exit of the child is an oracle failure.

import (
	"context"
	"bytes"
	"fmt"
	"math/rand"
	"os"
	"os/exec"
	"runtime"
	"sort"
	"strconv"
	"strings"
	"sync"
	"sync/atomic"
	"time"

	"github.com/0chain/common/core/statecache"
)

type c08Reader struct{ key, hash string }

// c08Thread is one concurrent party of a `conc` op besides the committer (thread 0): a lookup (StateCache.Get), or a
// WRITER to the committing block's own handle: `set:<key>:<val>` = BlockCache.Set, `tcommit:<tid>` = Commit of a
// transaction cache that sits on the committing block (its pending sets / removals go through setValue).
type c08Thread struct {
	kind      string // "get", "set", "tcommit"
	key, hash string // get
	val       string // set
	tid       string // tcommit
}

type c08Clone struct {
	cstep int
	tok   string
}

// c08RunConc is provided by suite_c08_hook.go when the tree under test has the yield hook.
var c08RunConc func(w *scWorld, bs []*scBH, threads []c08Thread, sched string) (results []string, trace []string, clones []c08Clone, err string)

func c08ParseThreads(spec string) []c08Thread {
	var ts []c08Thread
	if spec == "-" {
		return ts
	}
	for _, s := range strings.Split(spec, ",") {
		switch {
		case strings.HasPrefix(s, "set:"):
			p := strings.Split(s, ":")
			ts = append(ts, c08Thread{kind: "set", key: p[1], val: p[2]})
		case strings.HasPrefix(s, "tcommit:"):
			ts = append(ts, c08Thread{kind: "tcommit", tid: s[len("tcommit:"):]})
		default:
			kv := strings.SplitN(s, "@", 2)
			ts = append(ts, c08Thread{kind: "get", key: kv[0], hash: hashOf(kv[1])})
		}
	}
	return ts
}

func (w *scWorld) stepConc(i int, op string) (out string, retry bool) {
	w.opi, w.op = i, op
	f := strings.Fields(op)
	if len(f) != 5 {
		panic("malformed op: " + op)
	}
	var bs []*scBH
	for _, id := range strings.Split(f[1], "+") {
		x := w.bh[id]
		if x == nil {
			panic("unknown block cache handle in op: " + op)
		}
		bs = append(bs, x)
	}
	b := bs[0] // the writers' target and the only committer whose key order is controlled
	m := len(bs)
	threads := c08ParseThreads(f[3])
	sched := f[4]
	if sched == "-" {
		sched = ""
	}
	if c08RunConc == nil {
		w.fail("the tree under test has no statecache yield hook (core/statecache/verif_yield.go): schedules cannot be driven")
		return "nohook", false
	}
	results, trace, clones, err := c08RunConc(w, bs, threads, sched)
	if err != "" {
		// the run is abandoned (its goroutines are leaked); runC08 drives the case again on fresh caches
		w.schedErr = err
		return "sched-error", true
	}
	// Specification of a write racing with the block's commit: Commit locks the block cache for its whole duration
	// (from before its first shared-map access to its return), so a write issued while the commit is in flight waits
	// and lands in the fresh pre-commit map after the commit returned. Either way the handle must show it afterwards
	// (own writes first).
	applyWrite := func(th c08Thread) {
		switch th.kind {
		case "set":
			b.pending[th.key] = scEntry{val: th.val}
		case "tcommit":
			t := w.th[th.tid]
			for k, e := range t.pending {
				b.pending[k] = e
			}
			t.pending = map[string]scEntry{}
		}
	}
	var late []c08Thread
	for _, t := range trace {
		var tidx int
		fmt.Sscanf(t, "%d:", &tidx)
		if tidx >= m && threads[tidx-m].kind != "get" {
			late = append(late, threads[tidx-m])
		}
	}
	// order in which commit() visited the snapshot's keys: key i is fetched (and its value cloned) in committer step 2+3i
	if f[2] != "-" {
		type kp struct {
			key string
			pos int
		}
		var kps []kp
		used := map[int]bool{}
		var tombs []string
		for k, e := range b.pending {
			if e.tomb {
				tombs = append(tombs, k)
				continue
			}
			pos := -1
			for _, c := range clones {
				if c.tok == e.val && (c.cstep-2)%3 == 0 {
					pos = (c.cstep - 2) / 3
				}
			}
			kps = append(kps, kp{k, pos})
			used[pos] = true
		}
		sort.Strings(tombs)
		for _, k := range tombs {
			p := 0
			for used[p] {
				p++
			}
			used[p] = true
			kps = append(kps, kp{k, p})
		}
		sort.Slice(kps, func(i, j int) bool { return kps[i].pos < kps[j].pos })
		var order, want []string
		for _, x := range kps {
			order = append(order, x.key)
		}
		for _, k := range strings.Split(f[2], ",") {
			if _, ok := b.pending[k]; ok {
				want = append(want, k)
			}
		}
		if _, dup := w.T[b.hash]; !dup && strings.Join(order, ",") != strings.Join(want, ",") {
			return "", true
		}
	}
	// the commits take effect in the order in which the committers got sc.lock = the order of their first steps
	var corder []int
	seenC := map[int]bool{}
	for _, t := range trace {
		var tidx int
		fmt.Sscanf(t, "%d:", &tidx)
		if tidx < m && !seenC[tidx] {
			seenC[tidx] = true
			corder = append(corder, tidx)
		}
	}
	for i := 0; i < m; i++ {
		if !seenC[i] {
			corder = append(corder, i)
		}
	}
	for _, i := range corder {
		w.recordCommit(bs[i])
		if i == 0 {
			for _, th := range late {
				applyWrite(th)
			}
		}
	}
	parts := []string{"c=" + results[0]}
	for i := 1; i < m; i++ {
		parts = append(parts, fmt.Sprintf("c%d=%s", i+1, results[i]))
		if results[i] != "ok" {
			w.fail("commit %d returned %s", i+1, results[i])
		}
	}
	if m > 1 {
		w.tags[fmt.Sprintf("conc:committers=%d", m)] = true
	}
	strict := w.strict
	w.strict = false // a concurrent lookup may miss; only hits are judged
	nget := 0
	for j, th := range threads {
		res := results[j+m]
		if th.kind != "get" {
			parts = append(parts, fmt.Sprintf("w%d=%s", j+m, res))
			if res != "ok" {
				w.fail("writer %d returned %s", j+m, res)
			}
			w.tags["conc:writer:"+th.kind] = true
			continue
		}
		nget++
		parts = append(parts, fmt.Sprintf("r%d=%s", j+m, strings.Replace(res, " ", ":", 1)))
		w.judge(res, w.expectState(th.key, th.hash), th.key, th.hash, true)
	}
	w.strict = strict
	if results[0] != "ok" {
		w.fail("commit returned %s", results[0])
	}
	sw := 0
	for j := 1; j < len(trace); j++ {
		if trace[j][0] != trace[j-1][0] {
			sw++
		}
	}
	if sw >= 2 {
		w.tags["conc:interleaved"] = true
	}
	w.tags[fmt.Sprintf("conc:readers=%d", nget)] = true
	w.mutations += sw
	return strings.Join(parts, " ") + " trace=" + strings.Join(trace, ","), false
}

func runC08(ops []string) CaseResult {
	schedErrs := 0
	defer c08SchedTO.Store(0)
	for try := 0; try < 200; try++ {
		res := CaseResult{}
		w := newSCWorld(&res)
		w.strict = true
		retry := false
		if schedErrs == schedAttempts-1 {
			c08SchedTO.Store(int64(60 * time.Second)) // last attempt: every wait of the scheduler raised to 60 s
		}
		for i, op := range ops {
			if strings.HasPrefix(op, "conc ") {
				out, again := w.stepConc(i, op)
				if again {
					retry = true
					break
				}
				res.Outs = append(res.Outs, out)
			} else {
				res.Outs = append(res.Outs, w.step(i, op))
			}
		}
		if w.schedErr != "" {
			// a scheduler wait timed out: transient on a loaded machine, persistent if the code hangs under this schedule
			schedErrs++
			if schedErrs < schedAttempts {
				continue
			}
			outs := make([]string, len(ops))
			for i := range outs {
				outs[i] = "sched-error"
			}
			return CaseResult{Outs: outs, Fails: []string{fmt.Sprintf("schedule could not be driven: %s, %d attempts (%s)", w.schedErr, schedAttempts, strings.Join(ops, " | "))}}
		}
		if retry {
			continue
		}
		for i := 0; i < schedErrs; i++ {
			res.Tags = append(res.Tags, "sched_retry")
		}
		for _, i := range c08Truncated {
			w.tags[fmt.Sprintf("exhaustive-truncated:two-reader-scenario-%d", i)] = true
		}
		for _, l := range c08ExplTruncHard {
			w.tags["exhaustive-truncated:"+l] = true
		}
		if c08ExplPruned+c08ExplRerunOK+c08ExplNoTrace > 0 {
			w.tags[fmt.Sprintf("explore:pruned-not-enabled=%d,driven-on-rerun=%d,no-trace=%d", c08ExplPruned, c08ExplRerunOK, c08ExplNoTrace)] = true
		}
		if len(c08ExplTruncHard) > 0 && !c08Exploring {
			c08ExplOnce.Do(func() {
				w.fail("the enumeration of scenario(s) %v, claimed exhaustive, hit its budget of %d schedules: the code has more yield points / steps than the scenario was sized for and the enumeration is only a prefix", c08ExplTruncHard, c08Budget)
			})
		}
		if try > 20 && os.Getenv("VERIF_DEBUG") != "" {
			fmt.Fprintf(os.Stderr, "c08: %d tries for the key order: %s\n", try, strings.Join(ops, " | "))
		}
		w.finish()
		res.Nontrivial = w.tags["conc:interleaved"]
		return res
	}
	outs := make([]string, len(ops))
	for i := range outs {
		outs[i] = "order-not-reached"
	}
	return CaseResult{Outs: outs, Fails: []string{"harness: the requested commit key order was not produced by Go's map iteration in 200 runs"}}
}

// ---- scenarios ------------------------------------------------------------------------------------------------

type c08Scn struct {
	aKeys    []string // keys written by the committed ancestor A
	bKeys    []string // keys written by the committing block B (child of A), in the order commit() must visit them
	bTomb    string   // key that B removes instead of writing ("" = none)
	dWrites  bool     // the descendant D (child of B, committed before B) writes k2
	deep     bool     // A <- A2 <- B <- D <- D2 instead of A <- B <- D
	preLook  []string // sequential lookups before the concurrent phase (create memos)
	readers  []c08Reader
	extraOps []string
	// a writer to the committing block's own handle, concurrent with its commit: "set:<k>:<v>" (BlockCache.Set),
	// "tset:<k>:<v>" / "trem:<k>" (a transaction cache on the block holding that write is committed concurrently)
	writer string
	wFirst bool // a key added by the writer is visited first by commit()
	// a SECOND committing block C, committed concurrently with B by another goroutine (serialised by sc.lock):
	// "sibling" = child of B's parent, "child" = child of B; it writes secondKey
	second      string
	secondKey   string
	secondFirst bool // C's committer is thread 0 (gets the lock first), B's is thread 1
}

func (s c08Scn) ops(sched string) []string {
	var o []string
	o = append(o, "blk a A -")
	for i, k := range s.aKeys {
		o = append(o, fmt.Sprintf("bset a %s a%d", k, i+1))
	}
	o = append(o, "bcommit a")
	parent := "A"
	if s.deep {
		o = append(o, "blk a2 A2 A", "bcommit a2")
		parent = "A2"
	}
	o = append(o, "blk d D B")
	if s.dWrites {
		o = append(o, "bset d k2 d2")
	}
	o = append(o, "bcommit d")
	if s.deep {
		o = append(o, "blk d2 D2 D", "bcommit d2")
	}
	o = append(o, "blk bb B "+parent)
	for i, k := range s.bKeys {
		if k == s.bTomb {
			o = append(o, "txn tb bb", "trem tb "+k, "tcommit tb")
		} else {
			o = append(o, fmt.Sprintf("bset bb %s b%d", k, i+1))
		}
	}
	if s.second != "" {
		cp := parent
		if s.second == "child" {
			cp = "B"
		}
		o = append(o, "blk cc C "+cp, fmt.Sprintf("bset cc %s c9", s.secondKey))
	}
	o = append(o, s.preLook...)
	okeys := append([]string(nil), s.bKeys...)
	var rs []string
	for _, r := range s.readers {
		rs = append(rs, r.key+"@"+r.hash)
	}
	if s.writer != "" {
		p := strings.Split(s.writer, ":")
		switch p[0] {
		case "set":
			rs = append(rs, s.writer)
		case "tset":
			o = append(o, "txn tw bb", fmt.Sprintf("tset tw %s %s", p[1], p[2]))
			rs = append(rs, "tcommit:tw")
		case "trem":
			o = append(o, "txn tw bb", "trem tw "+p[1])
			rs = append(rs, "tcommit:tw")
		}
		known := false
		for _, k := range okeys {
			if k == p[1] {
				known = true
			}
		}
		if !known {
			if s.wFirst {
				okeys = append([]string{p[1]}, okeys...)
			} else {
				okeys = append(okeys, p[1])
			}
		}
	}
	order := "-"
	if len(okeys) > 1 {
		order = strings.Join(okeys, ",")
	}
	rd := "-"
	if len(rs) > 0 {
		rd = strings.Join(rs, ",")
	}
	if sched == "" {
		sched = "-"
	}
	bidspec := "bb"
	if s.second != "" {
		bidspec = "bb+cc"
		if s.secondFirst {
			bidspec = "cc+bb"
		}
		order = "-"
	}
	o = append(o, fmt.Sprintf("conc %s %s %s %s", bidspec, order, rd, sched))
	// observe the final state strictly: through the committed block's own handle (own writes first — also the writes
	// that raced with the commit), then every key at every block, twice (the second read sees the memos of the first)
	if s.writer != "" {
		o = append(o, "bget bb k1", "bget bb k2", "txn tz bb", "tget tz k1", "tget tz k2")
	}
	blocks := []string{"B", "D", "A"}
	if s.deep {
		blocks = []string{"B", "D2", "D", "A2", "A"}
	}
	if s.second != "" {
		o = append(o, "bget cc k1", "bget cc k2", "bget bb k1", "bget bb k2")
		blocks = append([]string{"C"}, blocks...)
	}
	for rep := 0; rep < 2; rep++ {
		for _, k := range []string{"k1", "k2"} {
			for _, b := range blocks {
				o = append(o, fmt.Sprintf("sget %s %s", k, b))
			}
		}
	}
	return o
}

// traceOf extracts the executed thread sequence from the conc output line
func c08TraceTids(out string) string {
	i := strings.Index(out, "trace=")
	if i < 0 {
		return ""
	}
	var sb strings.Builder
	for _, st := range strings.Split(out[i+6:], ",") {
		if st != "" {
			sb.WriteByte(st[0])
		}
	}
	return sb.String()
}

// c08Explore enumerates every complete schedule of a scenario exactly once by running the real code:
// run(prefix + default policy) gives the executed thread sequence; every position at or after len(prefix) where another
// thread was still unfinished spawns the child prefix.
// schedules per scenario that is claimed exhaustive (VERIF_C08_BUDGET: self-test of the truncation report)
var c08Budget = func() int {
	if n, err := strconv.Atoi(os.Getenv("VERIF_C08_BUDGET")); err == nil && n > 0 {
		return n
	}
	return 20000
}()

// what the enumeration left out (reported as tags on every case of the run; a truncated enumeration of a scenario that is
// claimed exhaustive is a failure of the first case)
var (
	c08ExplPruned    int      // prefixes whose last choice was not enabled (duplicates of other schedules), after one re-run
	c08ExplRerunOK   int      // prefixes that looked not enabled once and were driven on the second run (wait state mis-detected)
	c08ExplNoTrace   int      // probes that ended without a trace (scheduler error through all attempts / no hook)
	c08ExplTruncHard []string // scenarios claimed exhaustive whose enumeration hit the budget
	c08ExplOnce      sync.Once
	c08Exploring     bool // probe runs of the enumeration (their results are discarded)
)

func c08Explore(s c08Scn, budget int, emit func(ops []string)) (n int, truncated bool) {
	var rec func(prefix string)
	rec = func(prefix string) {
		if n >= budget {
			truncated = true
			return
		}
		ops := s.ops(prefix)
		r := runC08(ops)
		ci := -1
		for i, op := range ops {
			if strings.HasPrefix(op, "conc ") {
				ci = i
			}
		}
		tr := c08TraceTids(r.Outs[ci])
		if tr == "" {
			// hook missing or scheduler error: emit the case once so that the failure is reported
			emit(ops)
			n++
			truncated = true
			c08ExplNoTrace++
			return
		}
		if !strings.HasPrefix(tr, prefix) {
			// the last choice of the prefix was not enabled at that point (a committer waiting for sc.lock, a writer
			// already issued): the scheduler skipped it and the run duplicates another schedule. Unless the wait state
			// was merely mis-detected in this run: drive the prefix once more before dropping it.
			r2 := runC08(ops)
			if tr2 := c08TraceTids(r2.Outs[ci]); tr2 != "" && strings.HasPrefix(tr2, prefix) {
				tr = tr2
				c08ExplRerunOK++
			} else {
				c08ExplPruned++
				return
			}
		}
		emit(s.ops(tr))
		n++
		for i := len(prefix); i < len(tr); i++ {
			alive := map[byte]bool{}
			for j := i; j < len(tr); j++ {
				alive[tr[j]] = true
			}
			var ts []int
			for t := range alive {
				ts = append(ts, int(t))
			}
			sort.Ints(ts)
			for _, t := range ts {
				if byte(t) != tr[i] {
					rec(tr[:i] + string(rune(t)))
				}
			}
		}
	}
	rec("")
	return
}

func c08Scenarios1() []c08Scn {
	var out []c08Scn
	type v struct {
		a, b []string
		tomb string
		d    bool
	}
	vs := []v{
		{[]string{"k1"}, []string{"k1"}, "", false},
		{[]string{"k1"}, nil, "", false},
		{[]string{"k1"}, []string{"k1"}, "k1", false},
		{[]string{"k1", "k2"}, []string{"k1", "k2"}, "", false},
		{[]string{"k1", "k2"}, []string{"k2", "k1"}, "", true},
		{[]string{"k1"}, []string{"k1", "k2"}, "", false}, // k2's version map is created by this commit
		{[]string{"k1"}, []string{"k2", "k1"}, "", false},
		{nil, []string{"k1"}, "", false}, // no version map for k1 before the commit
	}
	for _, x := range vs {
		keys := []string{"k1"}
		if len(x.b) > 1 || len(x.a) > 1 {
			keys = append(keys, "k2")
		}
		for _, k := range keys {
			for _, h := range []string{"A", "B", "D"} {
				out = append(out, c08Scn{aKeys: x.a, bKeys: x.b, bTomb: x.tomb, dWrites: x.d, readers: []c08Reader{{k, h}}})
			}
		}
	}
	return out
}

// one committing block with a concurrent WRITER to its own handle (and optionally one lookup)
func c08ScenariosW(withReaders bool) []c08Scn {
	var out []c08Scn
	type wv struct {
		w      string
		wFirst bool
	}
	ws := []wv{{"set:k1:c1", false}, {"set:k2:c2", false}, {"set:k2:c2", true}, {"tset:k2:c2", false}, {"trem:k1", false}, {"tset:k1:c1", false}}
	for _, x := range ws {
		for _, a := range [][]string{{"k1"}, {"k1", "k2"}} {
			base := c08Scn{aKeys: a, bKeys: []string{"k1"}, writer: x.w, wFirst: x.wFirst}
			out = append(out, base)
			if withReaders {
				wk := strings.Split(x.w, ":")[1]
				for _, h := range []string{"B", "D"} {
					sc := base
					sc.readers = []c08Reader{{wk, h}}
					out = append(out, sc)
				}
			}
		}
	}
	// a block that writes nothing itself
	out = append(out, c08Scn{aKeys: []string{"k1"}, bKeys: nil, writer: "set:k1:c1"})
	return out
}

// TWO committing blocks on two goroutines (the second blocks on sc.lock until the first has returned), with 0..1 lookups
func c08ScenariosCC(withReaders bool) []c08Scn {
	var out []c08Scn
	for _, kind := range []string{"sibling", "child"} {
		for _, first := range []bool{false, true} {
			// both write the fresh key k2 (its version map is created by whichever commit comes first); B also writes k1
			base := c08Scn{aKeys: []string{"k1"}, bKeys: []string{"k2"}, second: kind, secondKey: "k2", secondFirst: first}
			out = append(out, base)
			b2 := c08Scn{aKeys: []string{"k1"}, bKeys: []string{"k1"}, second: kind, secondKey: "k1", secondFirst: first}
			out = append(out, b2)
			if withReaders {
				for _, h := range []string{"B", "C", "D"} {
					sc := base
					sc.readers = []c08Reader{{"k2", h}}
					out = append(out, sc)
				}
			}
		}
	}
	return out
}

func c08Scenarios2() []c08Scn {
	var out []c08Scn
	hs := []string{"A", "B", "D"}
	for i, h1 := range hs {
		for _, h2 := range hs[i:] {
			out = append(out, c08Scn{aKeys: []string{"k1"}, bKeys: []string{"k1"}, readers: []c08Reader{{"k1", h1}, {"k1", h2}}})
		}
	}
	out = append(out, c08Scn{aKeys: []string{"k1"}, bKeys: nil, readers: []c08Reader{{"k1", "B"}, {"k1", "D"}}})
	out = append(out, c08Scn{aKeys: nil, bKeys: []string{"k1"}, readers: []c08Reader{{"k1", "B"}, {"k1", "D"}}})
	return out
}

// two-reader scenarios whose exhaustive enumeration hit the budget (reported as a tag on the corpus/first case)
var c08Truncated []int

func exhC08(tier string, emit func([]string)) {
	c08Exploring = true
	defer func() { c08Exploring = false }()
	if c08RunConc == nil {
		emit(c08Scenarios1()[0].ops(""))
		return
	}
	for i, s := range c08Scenarios1() {
		if n, trunc := c08Explore(s, c08Budget, emit); trunc && n >= c08Budget {
			c08ExplTruncHard = append(c08ExplTruncHard, fmt.Sprintf("one-reader-%d", i))
		}
	}
	for i, s := range c08ScenariosW(tier == "thorough") {
		if n, trunc := c08Explore(s, c08Budget, emit); trunc && n >= c08Budget {
			c08ExplTruncHard = append(c08ExplTruncHard, fmt.Sprintf("writer-%d", i))
		}
	}
	ccs := c08ScenariosCC(tier == "thorough")
	if tier != "thorough" {
		// quick: every two-committer scenario without a lookup, plus two with one (siblings / parent+child)
		all := c08ScenariosCC(true)
		ccs = append(ccs, all[2], all[len(all)-3])
	}
	for i, s := range ccs {
		t0 := time.Now()
		n, trunc := c08Explore(s, c08Budget, emit)
		if trunc && n >= c08Budget {
			c08ExplTruncHard = append(c08ExplTruncHard, fmt.Sprintf("two-committer-%d", i))
		}
		if os.Getenv("VERIF_DEBUG") != "" {
			fmt.Fprintf(os.Stderr, "c08 two-committer scenario %d: %d schedules truncated=%v %.1fs\n", i, n, trunc, time.Since(t0).Seconds())
		}
	}
	if tier == "thorough" {
		for i, s := range c08Scenarios2() {
			n, trunc := c08Explore(s, 150000, emit)
			if os.Getenv("VERIF_DEBUG") != "" {
				fmt.Fprintf(os.Stderr, "c08 two-reader scenario %d: %d schedules truncated=%v\n", i, n, trunc)
			}
			if trunc {
				c08Truncated = append(c08Truncated, i)
			}
		}
	}
}

func genC08(r *rand.Rand, tier string, idx int) []string {
	s := c08Scn{}
	s.deep = r.Intn(2) == 0
	switch r.Intn(4) {
	case 0:
		s.aKeys = []string{"k1"}
	case 1:
		s.aKeys = nil
	default:
		s.aKeys = []string{"k1", "k2"}
	}
	switch r.Intn(6) {
	case 0:
		s.bKeys = nil
	case 1:
		s.bKeys = []string{"k1"}
	case 2:
		s.bKeys = []string{"k2"}
	case 3:
		s.bKeys = []string{"k2", "k1"}
	default:
		s.bKeys = []string{"k1", "k2"}
	}
	if len(s.bKeys) > 0 && r.Intn(4) == 0 {
		s.bTomb = s.bKeys[r.Intn(len(s.bKeys))]
	}
	s.dWrites = r.Intn(3) == 0
	blocks := []string{"A", "B", "D"}
	if s.deep {
		blocks = []string{"A", "A2", "B", "D", "D2"}
	}
	for i, n := 0, r.Intn(3); i < n; i++ {
		s.preLook = append(s.preLook, fmt.Sprintf("sget k%d %s", 1+r.Intn(2), blocks[r.Intn(len(blocks))]))
	}
	for i, n := 0, 1+r.Intn(2); i < n; i++ {
		s.readers = append(s.readers, c08Reader{fmt.Sprintf("k%d", 1+r.Intn(2)), blocks[r.Intn(len(blocks))]})
	}
	if r.Intn(3) == 0 {
		wk := fmt.Sprintf("k%d", 1+r.Intn(2))
		s.writer = []string{"set:" + wk + ":c7", "tset:" + wk + ":c8", "trem:" + wk}[r.Intn(3)]
		s.wFirst = r.Intn(2) == 0
		if len(s.readers) > 1 {
			s.readers = s.readers[:1]
		}
	}
	var sb strings.Builder
	// bursty random schedule
	for sb.Len() < 48 {
		nt := len(s.readers) + 1
		if s.writer != "" {
			nt++
		}
		t := r.Intn(nt)
		for j, m := 0, 1+r.Intn(3); j < m; j++ {
			sb.WriteByte(byte('0' + t))
		}
	}
	return s.ops(sb.String())
}

// ---- free-running part --------------------------------------------------------------------------------------

var raceEnabled = false // set by race_on.go (build tag race)

func runC08Race(ops []string) CaseResult { return runC08Child(ops, true) }

// runC08Free runs the same free-running workload without the race detector (an order of magnitude more interleavings
// per second): only the semantic oracles apply (every hit = chain answer, own writes found after Commit, final sweep).
func runC08Free(ops []string) CaseResult {
	if len(ops) > 0 && strings.HasPrefix(ops[0], "txnsched ") {
		res := CaseResult{}
		for _, op := range ops {
			res.Outs = append(res.Outs, runTxnSched(op, &res))
		}
		for _, t := range res.Tags {
			if t == "reader-during-txn-commit" {
				res.Nontrivial = true
			}
		}
		return res
	}
	return runC08Child(ops, false)
}

func runC08Child(ops []string, needRace bool) CaseResult {
	res := CaseResult{}
	for i, op := range ops {
		f := strings.Fields(op)
		if f[0] != "race" || (len(f) != 7 && len(f) != 8) {
			panic("malformed op: " + op)
		}
		exe, err := os.Executable()
		if err != nil {
			panic(err)
		}
		// the child's work is bounded by its own deadline (f[6] ms; every loop and every wait in it ends when the commits
		// in flight return); a child that is still running a minute later hangs — kill it and report
		ctx, cancel := context.WithTimeout(context.Background(), 60*time.Second)
		cmd := exec.CommandContext(ctx, exe, append([]string{"-child", "c08race"}, f[1:]...)...)
		cmd.Env = append(os.Environ(), "GORACE=halt_on_error=1 exitcode=66")
		var so, se bytes.Buffer
		cmd.Stdout, cmd.Stderr = &so, &se
		err = cmd.Run()
		hung := ctx.Err() != nil
		cancel()
		out := "ok"
		if hung {
			res.Fails = append(res.Fails, fmt.Sprintf("op %d (%s): the free-running child did not finish within 60 s (its own deadline is %s ms): a commit or a lookup hangs", i, op, f[6]))
		}
		for _, l := range strings.Split(so.String(), "\n") {
			if strings.HasPrefix(l, "FAIL ") {
				res.Fails = append(res.Fails, fmt.Sprintf("op %d (%s): %s", i, op, l[5:]))
				out = "fail"
			}
			if strings.HasPrefix(l, "STATS ") {
				for _, t := range strings.Fields(l[6:]) {
					res.Tags = append(res.Tags, t)
				}
			}
		}
		if strings.Contains(se.String(), "DATA RACE") {
			rep := se.String()
			if len(rep) > 1800 {
				rep = rep[:1800]
			}
			res.Fails = append(res.Fails, fmt.Sprintf("op %d (%s): the race detector reported a data race:\n%s", i, op, rep))
			out = "race"
		} else if err != nil {
			tail := se.String()
			if len(tail) > 1200 {
				tail = tail[len(tail)-1200:]
			}
			res.Fails = append(res.Fails, fmt.Sprintf("op %d (%s): child failed: %v\n%s", i, op, err, tail))
			out = "child-error"
		}
		if needRace && !raceEnabled {
			res.Fails = append(res.Fails, "harness: suite c08race must be built with -race (suite config \"race\": true)")
		}
		res.Outs = append(res.Outs, out)
	}
	res.Nontrivial = len(res.Fails) == 0
	return res
}

type c08rBlock struct {
	prev   string
	writes map[string]string // key -> value token ("" = no write)
}

type c08rHandles struct {
	bc *statecache.BlockCache
	tc *statecache.TransactionCache
}

type c08rStore struct {
	mu      sync.RWMutex
	blocks  map[string]*c08rBlock
	order   []string
	done    map[string]bool          // Commit has returned
	handles map[string]*c08rHandles // the block's own block / transaction cache (shared with the readers)
}

func (s *c08rStore) chain(key, hash string) (string, bool) {
	s.mu.RLock()
	defer s.mu.RUnlock()
	cur := hash
	for d := 0; d < 100000; d++ {
		b := s.blocks[cur]
		if b == nil {
			return "", false
		}
		if v, ok := b.writes[key]; ok {
			return v, true
		}
		cur = b.prev
	}
	return "", false
}

func c08RaceChild(args []string) {
	atoi := func(s string) int { n, _ := strconv.Atoi(s); return n }
	seed, nC, nR, perRun, nKeys, millis := int64(atoi(args[0])), atoi(args[1]), atoi(args[2]), atoi(args[3]), atoi(args[4]), atoi(args[5])
	if lim := scCapPerKey * 3 / 5; perRun > lim {
		perRun = lim // stay inside the per-key capacity: evictions are the C06 capacity finding, not a concurrency failure
	}
	deadline := time.Now().Add(time.Duration(millis) * time.Millisecond)
	var failMu sync.Mutex
	fails := 0
	fail := func(f string, a ...interface{}) {
		failMu.Lock()
		if fails < 5 {
			fmt.Printf("FAIL "+f+"\n", a...)
		}
		fails++
		failMu.Unlock()
	}
	var hits, misses, runs, commits, ownChecks int64
	for run := 0; time.Now().Before(deadline); run++ {
		runs++
		if run%3 == 1 {
			// widen every window around a clone site (setValue / commit clone under the locks)
			slow := func(*bval) { runtime.Gosched() }
			bvalOnClone.Store(&slow)
		} else {
			bvalOnClone.Store(nil)
		}
		sc := statecache.NewStateCache()
		st := &c08rStore{blocks: map[string]*c08rBlock{}, done: map[string]bool{}, handles: map[string]*c08rHandles{}}
		// genesis
		st.blocks["g"] = &c08rBlock{prev: "", writes: map[string]string{}}
		st.order = append(st.order, "g")
		gb := statecache.NewBlockCache(sc, statecache.Block{Hash: "g"})
		for k := 0; k < nKeys; k += 2 { // odd keys get their version map from whichever committer writes them first
			key := fmt.Sprintf("k%d", k)
			st.blocks["g"].writes[key] = "67" + fmt.Sprintf("%02x", k)
			gb.Set(key, &bval{b: unhx(st.blocks["g"].writes[key])})
		}
		gb.Commit()
		st.done["g"] = true
		var created int64 = 1
		var wg sync.WaitGroup
		stop := make(chan struct{})
		for c := 0; c < nC; c++ {
			wg.Add(1)
			go func(c int) {
				defer wg.Done()
				r := rand.New(rand.NewSource(seed*131 + int64(run)*17 + int64(c)))
				for {
					n := atomic.AddInt64(&created, 1)
					if int(n) > perRun || time.Now().After(deadline) {
						return
					}
					hash := fmt.Sprintf("b%d_%d", c, n)
					st.mu.RLock()
					// parent: mostly a recent block (possibly still in flight), sometimes an old one
					var prev string
					if r.Intn(4) == 0 {
						prev = st.order[r.Intn(len(st.order))]
					} else {
						lo := len(st.order) - 4
						if lo < 0 {
							lo = 0
						}
						prev = st.order[lo+r.Intn(len(st.order)-lo)]
					}
					st.mu.RUnlock()
					blk := &c08rBlock{prev: prev, writes: map[string]string{}}
					bc := statecache.NewBlockCache(sc, statecache.Block{Hash: hash, PrevHash: prev})
					tc := statecache.NewTransactionCache(bc)
					for j, m := 0, r.Intn(3); j < m; j++ {
						key := fmt.Sprintf("k%d", r.Intn(nKeys))
						if _, dup := blk.writes[key]; dup {
							continue
						}
						val := fmt.Sprintf("%02x%04x%02x", c, n&0xffff, j)
						blk.writes[key] = val
						if r.Intn(2) == 0 {
							tc.Set(key, &bval{b: unhx(val)})
						} else {
							bc.Set(key, &bval{b: unhx(val)})
						}
					}
					if r.Intn(3) == 0 {
						// a wide transaction: every remaining key, so that its Commit applies several writes one after the other
						for k := 0; k < nKeys; k++ {
							key := fmt.Sprintf("k%d", k)
							if _, dup := blk.writes[key]; !dup {
								val := fmt.Sprintf("%02x%04x%02x", c, n&0xffff, 0x80+k)
								blk.writes[key] = val
								tc.Set(key, &bval{b: unhx(val)})
							}
						}
					}
					// the transaction's own reader runs concurrently with its Commit: a key the context wrote is answered with
					// the written value at any time — never with an ancestor's older value, never with a miss
					txnDone := make(chan struct{})
					rdDone := make(chan struct{})
					go func() {
						defer close(rdDone)
						for last := false; ; {
							for k, v := range blk.writes {
								got, ok := tc.Get(k)
								if !ok {
									fail("transaction of block %s: its own lookup of %s, written before, missed while its Commit ran", hash, k)
								} else if scValTok(got) != v {
									fail("transaction of block %s: its own lookup of %s returned %s while its Commit ran, want its own write %s", hash, k, scValTok(got), v)
								}
							}
							if last {
								return
							}
							select {
							case <-txnDone:
								last = true
							default:
							}
						}
					}()
					tc.Commit()
					close(txnDone)
					<-rdDone
					// the block's content and parent are fixed from here on: register before the commit begins
					st.mu.Lock()
					st.blocks[hash] = blk
					st.order = append(st.order, hash)
					st.handles[hash] = &c08rHandles{bc, tc}
					st.mu.Unlock()
					var sbhDone chan struct{}
					if r.Intn(4) == 0 {
						// the miner learns the hash late: SetBlockHash concurrently with lookups through the block's caches and
						// with the block's Commit
						sbhDone = make(chan struct{})
						wg.Add(1)
						go func() { defer wg.Done(); bc.SetBlockHash(hash); close(sbhDone) }()
					}
					if r.Intn(8) == 0 {
						// a second block cache for the same block with the same content commits concurrently
						bc2 := statecache.NewBlockCache(sc, statecache.Block{Hash: hash, PrevHash: prev})
						for k, v := range blk.writes {
							bc2.Set(k, &bval{b: unhx(v)})
						}
						wg.Add(1)
						go func() { defer wg.Done(); bc2.Commit() }()
					}
					_ = sbhDone
					// a WRITER to this block's own handle racing with its Commit: BlockCache.Set, or the Commit of a
					// transaction cache on the block carrying a set. Keys "w…" are private to the block (never looked up
					// through the chain), so the block tree of the chain oracle is unaffected.
					var lateDone chan struct{}
					lateKey, lateVal := "w"+hash, fmt.Sprintf("%02x%04xee", c, n&0xffff)
					if r.Intn(2) == 0 {
						lateDone = make(chan struct{})
						viaTxn := r.Intn(2) == 0
						go func() {
							defer close(lateDone)
							if viaTxn {
								t2 := statecache.NewTransactionCache(bc)
								t2.Set(lateKey, &bval{b: unhx(lateVal)})
								t2.Commit()
							} else {
								bc.Set(lateKey, &bval{b: unhx(lateVal)})
							}
						}()
						if r.Intn(2) == 0 {
							runtime.Gosched()
						}
					}
					bc.Commit()
					atomic.AddInt64(&commits, 1)
					if lateDone != nil {
						<-lateDone
						// every write the handle accepted is visible through the handle (published or pending)
						for _, via := range []string{"block", "txn"} {
							var got statecache.Value
							var ok bool
							if via == "block" {
								got, ok = bc.Get(lateKey)
							} else {
								got, ok = tc.Get(lateKey)
							}
							if !ok {
								fail("a write to block %s's own cache that raced with its Commit is lost: lookup of %s through its %s cache missed", hash, lateKey, via)
							} else if scValTok(got) != lateVal {
								fail("a write to block %s's own cache that raced with its Commit: lookup of %s through its %s cache returned %s, want %s", hash, lateKey, via, scValTok(got), lateVal)
							}
						}
					}
					st.mu.Lock()
					st.done[hash] = true
					st.mu.Unlock()
					// visible after commit: the block's own writes are found at the block
					for k, v := range blk.writes {
						got, ok := sc.Get(k, hash)
						atomic.AddInt64(&ownChecks, 1)
						if !ok {
							fail("after Commit(%s) returned, lookup of its own key %s missed", hash, k)
						} else if scValTok(got) != v {
							fail("after Commit(%s) returned, lookup of its own key %s returned %s, want %s", hash, k, scValTok(got), v)
						}
					}
				}
			}(c)
		}
		for rd := 0; rd < nR; rd++ {
			wg.Add(1)
			go func(rd int) {
				defer wg.Done()
				r := rand.New(rand.NewSource(seed*733 + int64(run)*19 + int64(rd)))
				for {
					select {
					case <-stop:
						return
					default:
					}
					st.mu.RLock()
					var hash string
					if r.Intn(3) == 0 {
						hash = st.order[r.Intn(len(st.order))]
					} else {
						lo := len(st.order) - 6
						if lo < 0 {
							lo = 0
						}
						hash = st.order[lo+r.Intn(len(st.order)-lo)]
					}
					hd := st.handles[hash]
					st.mu.RUnlock()
					key := fmt.Sprintf("k%d", r.Intn(nKeys))
					var got statecache.Value
					var ok bool
					switch v := r.Intn(6); {
					case v >= 3 && hd != nil:
						// through the block's OWN block / transaction cache, possibly while that block is being committed:
						// pending writes first, then the parent's view before / the block's own view after the commit —
						// for a registered block both are the chain answer at the block
						switch v {
						case 3:
							got, ok = hd.bc.Get(key)
						case 4:
							got, ok = hd.tc.Get(key)
						default:
							hd.bc.SetBlockHash(hash)
							got, ok = statecache.NewTransactionCache(hd.bc).Get(key)
						}
					case v%3 == 0:
						got, ok = sc.Get(key, hash)
					case v%3 == 1:
						got, ok = statecache.NewQueryBlockCache(sc, hash).Get(key)
					default:
						// a fresh child context of the block: falls through to StateCache.Get(key, hash)
						got, ok = statecache.NewBlockCache(sc, statecache.Block{Hash: "x" + hash, PrevHash: hash}).Get(key)
					}
					if !ok {
						atomic.AddInt64(&misses, 1)
						continue
					}
					atomic.AddInt64(&hits, 1)
					want, found := st.chain(key, hash)
					if !found {
						fail("lookup(%s,%s) returned %s but the block tree has no value on that chain", key, hash, scValTok(got))
					} else if scValTok(got) != want {
						fail("lookup(%s,%s) returned %s but the block tree determines %s", key, hash, scValTok(got), want)
					}
				}
			}(rd)
		}
		// wait for the committers, then stop the readers
		go func() {
			for atomic.LoadInt64(&created) <= int64(perRun) && time.Now().Before(deadline) {
				time.Sleep(200 * time.Microsecond)
			}
			time.Sleep(300 * time.Microsecond)
			close(stop)
		}()
		wg.Wait()
		// final sequential sweep: every key at every block must hit the chain value (publish, nothing overwritten)
		for _, h := range st.order {
			for k := 0; k < nKeys; k++ {
				key := fmt.Sprintf("k%d", k)
				want, found := st.chain(key, h)
				got, ok := sc.Get(key, h)
				if ok && (!found || scValTok(got) != want) {
					fail("final lookup(%s,%s) returned %s, the block tree determines %q", key, h, scValTok(got), want)
				}
				if !ok && found {
					fail("final lookup(%s,%s) missed, the block tree determines %s (no capacity exceeded)", key, h, want)
				}
			}
		}
	}
	fmt.Printf("STATS runs>=%d hits>=%s commits>=%s\n", bucket10(runs), bucketS(hits), bucketS(commits))
	_ = ownChecks
	_ = misses
	if fails > 0 {
		os.Exit(1)
	}
}

func bucket10(n int64) int64 {
	b := int64(1)
	for b*10 <= n {
		b *= 10
	}
	return b
}

func bucketS(n int64) string { return strconv.FormatInt(bucket10(n), 10) }

func genC08Race(r *rand.Rand, tier string, idx int) []string {
	ms := 350
	if tier == "thorough" {
		ms = 4000
	}
	nC := []int{1, 2, 4, 8}[idx%4]
	nR := []int{8, 4, 8, 2}[idx%4]
	op := fmt.Sprintf("race %d %d %d %d %d %d", r.Intn(1<<30), nC, nR, 60+r.Intn(90), 2+r.Intn(4), ms)
	return []string{op}
}

func init() {
	children["c08race"] = c08RaceChild
	register(&Suite{
		Name: "c08",
		Rule: "one committing block (0..2 keys, optional removal, key's version map present or created by the commit) with 1..2 concurrent StateCache.Get at an ancestor / the block itself / a descendant committed earlier, and/or a SECOND committing block (sibling or child, either committer first; the later one blocks on sc.lock, detected from the goroutine's wait state) and/or a concurrent WRITER to the committing block's own handle (BlockCache.Set, or TransactionCache.Commit carrying a set / removal) that either lands before commit's snapshot or waits on the block cache's mutex until the commit returns; schedules driven through the verif yield hook at every shared-map access; exhaustive enumeration of all schedules for every 1-reader scenario (thorough: 2-reader scenarios), random bursty schedules over deeper trees with pre-existing memos; reader hits judged against the chain oracle over the final tree, sequential lookups afterwards judged strictly (visible after commit); non-trivial = at least two context switches",
		Gen:  genC08,
		Run:  runC08,
		Exhaustive: exhC08,
		Serial:     true,
		CaseTimeout: 150 * time.Second, // three attempts to drive a schedule: waits of 10 s, 10 s, 60 s
		DefaultN: func(tier string) int {
			if tier == "thorough" {
				return 20000
			}
			return 1500
		},
	})
	register(&Suite{
		Name: "c08free",
		Rule: "the free-running workload of c08race in a child process WITHOUT the race detector (many more interleavings per second; mostly 4..8 committers racing to create the version maps of fresh keys): semantic oracles only — every hit equals the chain answer, a block's own writes are found after its Commit returned, full sweep at the end; the transaction's own reader runs during every TransactionCache.Commit (own writes at any time); every third run yields at every Clone. PLUS deterministic schedules without a repository hook (op txnsched): every Clone of a harness value by a scheduled goroutine is a yield point, blocked threads are recognised from their wait state; a transaction commit into its block with lookups through the same transaction / the block cache / the state cache at that block, all schedules up to a budget; non-trivial = child completed or a reader ran during the commit",
		Gen: func(r *rand.Rand, tier string, idx int) []string {
			ms := 300
			if tier == "thorough" {
				ms = 3000
			}
			return []string{fmt.Sprintf("race %d %d %d %d %d %d", r.Intn(1<<30), []int{8, 4, 8, 6}[idx%4], []int{2, 4, 8, 1}[idx%4], 40+r.Intn(110), 2+r.Intn(6), ms)}
		},
		Run:         runC08Free,
		Exhaustive:  exhC08Txn,
		Serial:      true,
		CaseTimeout: 150 * time.Second,
		DefaultN: func(tier string) int {
			if tier == "thorough" {
				return 16
			}
			return 8
		},
	})
	register(&Suite{
		Name: "c08race",
		Rule: "free-running child process under the race detector: 1..8 committers growing a forked block tree (parents in flight, duplicate concurrent commits of one block, keys whose version map is created by racing committers, SetBlockHash concurrent with lookups) and 2..8 readers looking up random keys at old, recent and in-flight blocks through StateCache / QueryBlockCache / fresh child BlockCaches and through the committing block's OWN BlockCache / TransactionCache handles; every hit compared with the chain oracle, own writes looked up after Commit returns, full sweep at the end; DATA RACE report = failure; non-trivial = child completed",
		Gen:  genC08Race,
		Run:  runC08Race,
		Serial:      true,
		CaseTimeout: 120 * time.Second,
		DefaultN: func(tier string) int {
			if tier == "thorough" {
				return 24
			}
			return 12
		},
	})
}
