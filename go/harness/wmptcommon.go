package main

// Helpers shared by the weighted-trie suites (c09–c13, c15wmpt): a recording in-memory storage.StorageAdapter with
// atomic batches, the canonical outcome enum, key/value generators and the independent oracles (total weight,
// block owner, canonical root computed from the live (key, value, weight) set — written from the hash format,
// sharing no code with core/util/wmpt).

import (
	"bytes"
	"encoding/binary"
	"errors"
	"fmt"
	"math/rand"
	"sort"
	"strings"
	"sync"

	"github.com/0chain/common/core/util/storage"
	"github.com/0chain/common/core/util/wmpt"
)

// ---------------------------------------------------------------------------------------------------------
// storage adapter

type kvOp struct {
	del bool
	k   string
	v   []byte
}

// logEntry is one atomic storage operation: a single Put/Delete or a whole committed batch.
type logEntry struct {
	ops   []kvOp
	batch bool
}

type memStore struct {
	mu  sync.Mutex
	m   map[string][]byte
	log []logEntry

	// one-shot fault injection: the k-th next call of the armed class fails with errInjected
	faultClass string // "get", "put", "del", "bput", "bdel", "bcommit"; "" = none armed
	faultLeft  int
	faultFired int  // number of faults that have fired so far
	suspended  bool // the harness's own reads (reopen oracle) do not count and do not fail

	// optional real adapter behind the recording store (suite c11pebble): every write goes to both, every read is answered
	// by the real adapter and compared with the reference map
	inner        storage.StorageAdapter
	reopenFn     func() (storage.StorageAdapter, error) // Close + open the same directory again
	mismatches   []string
	nfTranslated int
}

// isKVNotFound: the not-found class as the trie's code tests for it (identity or message of wmpt.ErrKVNotFound)
func isKVNotFound(err error) bool {
	return err != nil && (errors.Is(err, wmpt.ErrKVNotFound) || err.Error() == wmpt.ErrKVNotFound.Error())
}

func (s *memStore) noteMismatch(f string, a ...interface{}) {
	if len(s.mismatches) < 8 {
		s.mismatches = append(s.mismatches, fmt.Sprintf(f, a...))
	}
}

// reopen closes the real adapter and opens its directory again (a process restart as far as the storage is concerned)
func (s *memStore) reopen() error {
	s.mu.Lock()
	defer s.mu.Unlock()
	if s.inner == nil || s.reopenFn == nil {
		return nil
	}
	in, err := s.reopenFn()
	if err != nil {
		return err
	}
	s.inner = in
	return nil
}

var errInjected = errors.New("injected storage failure")

func newMemStore() *memStore { return &memStore{m: map[string][]byte{}} }

// arm makes the k-th next call (k >= 1) of the given class fail once.
func (s *memStore) arm(class string, k int) {
	s.mu.Lock()
	defer s.mu.Unlock()
	s.faultClass, s.faultLeft = class, k
}

func (s *memStore) disarm() {
	s.mu.Lock()
	defer s.mu.Unlock()
	s.faultClass, s.faultLeft = "", 0
}

func (s *memStore) fired() int {
	s.mu.Lock()
	defer s.mu.Unlock()
	return s.faultFired
}

// hitLocked reports whether this call of the class is the one that has to fail.
func (s *memStore) hitLocked(class string) bool {
	if s.suspended || s.faultClass != class {
		return false
	}
	s.faultLeft--
	if s.faultLeft > 0 {
		return false
	}
	s.faultClass = ""
	s.faultFired++
	return true
}

func (s *memStore) hit(class string) bool {
	s.mu.Lock()
	defer s.mu.Unlock()
	return s.hitLocked(class)
}

func (s *memStore) Get(k []byte) ([]byte, error) {
	s.mu.Lock()
	defer s.mu.Unlock()
	if s.hitLocked("get") {
		return nil, errInjected
	}
	v, ok := s.m[string(k)]
	if s.inner != nil {
		rv, err := s.inner.Get(k)
		switch {
		case err != nil && !isKVNotFound(err):
			s.noteMismatch("real adapter: Get(%x) failed: %v", k, err)
		case err != nil && ok:
			s.noteMismatch("real adapter: Get(%x) = not found, the reference holds %d bytes", k, len(v))
		case err == nil && !ok:
			s.noteMismatch("real adapter: Get(%x) = %d bytes, the reference has no such key", k, len(rv))
		case err == nil && !bytes.Equal(rv, v):
			s.noteMismatch("real adapter: Get(%x) = %x…, the reference holds %x…", k, rv[:min(len(rv), 12)], v[:min(len(v), 12)])
		}
		if isKVNotFound(err) {
			// pebble.ErrNotFound has the MESSAGE of wmpt.ErrKVNotFound, not its identity, and three places of wmpt (path.go 45
			// and 64, proof.go 19) map a missing node to ErrNotFound with errors.Is only: over the real adapter they return the
			// raw pebble error (reported; notes/C11.md). The histories are about the trie over a working storage, so the
			// recording store hands out the sentinel; the adapter's own not-found class is checked by c11pebblekv.
			s.nfTranslated++
			err = wmpt.ErrKVNotFound
		}
		return rv, err
	}
	if !ok {
		return nil, wmpt.ErrKVNotFound
	}
	return append([]byte(nil), v...), nil
}

func (s *memStore) applyLocked(e logEntry) {
	for _, o := range e.ops {
		if o.del {
			delete(s.m, o.k)
		} else {
			s.m[o.k] = o.v
		}
	}
	s.log = append(s.log, e)
}

func (s *memStore) Put(k, v []byte) error {
	s.mu.Lock()
	defer s.mu.Unlock()
	if s.hitLocked("put") {
		return errInjected
	}
	if s.inner != nil {
		if err := s.inner.Put(k, v); err != nil {
			return err
		}
	}
	s.applyLocked(logEntry{ops: []kvOp{{k: string(k), v: append([]byte(nil), v...)}}})
	return nil
}

func (s *memStore) Delete(k []byte) error {
	s.mu.Lock()
	defer s.mu.Unlock()
	if s.hitLocked("del") {
		return errInjected
	}
	if s.inner != nil {
		if err := s.inner.Delete(k); err != nil {
			return err
		}
	}
	s.applyLocked(logEntry{ops: []kvOp{{del: true, k: string(k)}}})
	return nil
}

func (s *memStore) Close() {}

func (s *memStore) NewBatch() storage.Batcher {
	b := &memBatch{s: s}
	s.mu.Lock()
	if s.inner != nil {
		b.in = s.inner.NewBatch()
	}
	s.mu.Unlock()
	return b
}

func (s *memStore) keys() map[string]bool {
	s.mu.Lock()
	defer s.mu.Unlock()
	r := make(map[string]bool, len(s.m))
	for k := range s.m {
		r[k] = true
	}
	return r
}

func (s *memStore) logLen() int {
	s.mu.Lock()
	defer s.mu.Unlock()
	return len(s.log)
}

// replayStore rebuilds the storage state after the first n log entries (a crash after the n-th atomic operation).
func replayStore(log []logEntry, n int) *memStore {
	s := newMemStore()
	for _, e := range log[:n] {
		s.applyLocked(e)
	}
	s.log = nil
	return s
}

type memBatch struct {
	mu  sync.Mutex // Commit() of the trie writes from several goroutines
	s   *memStore
	ops []kvOp
	in  storage.Batcher // the real adapter's batch, fed with the caller's own buffers
}

func (b *memBatch) Put(k, v []byte) error {
	b.mu.Lock()
	defer b.mu.Unlock()
	if b.s.hit("bput") {
		return errInjected
	}
	b.ops = append(b.ops, kvOp{k: string(k), v: append([]byte(nil), v...)})
	if b.in != nil {
		return b.in.Put(k, v)
	}
	return nil
}

func (b *memBatch) Delete(k []byte) error {
	b.mu.Lock()
	defer b.mu.Unlock()
	if b.s.hit("bdel") {
		return errInjected
	}
	b.ops = append(b.ops, kvOp{del: true, k: string(k)})
	if b.in != nil {
		return b.in.Delete(k)
	}
	return nil
}

func (b *memBatch) Commit(sync bool) error {
	b.mu.Lock()
	defer b.mu.Unlock()
	b.s.mu.Lock()
	defer b.s.mu.Unlock()
	if b.s.hitLocked("bcommit") {
		return errInjected // atomic: nothing of the batch is applied; the batch can be committed again
	}
	if b.in != nil {
		if err := b.in.Commit(sync); err != nil {
			return err
		}
	}
	b.s.applyLocked(logEntry{ops: b.ops, batch: true})
	b.ops = nil
	return nil
}

// fmtEntry renders one atomic storage operation canonically: puts and deletes as sorted sets (the trie's commit
// runs goroutines and its GC iterates a map, so the order inside a batch is not an observable).
//
//	p=<n>:<key8,key8,...>:<digest of the sorted (key,value) pairs> d=<sorted full keys>
func fmtEntry(e logEntry) string {
	puts := map[string][]byte{}
	dels := map[string]bool{}
	for _, o := range e.ops {
		if o.del {
			dels[o.k] = true
			delete(puts, o.k)
		} else {
			puts[o.k] = o.v
			delete(dels, o.k)
		}
	}
	pk := make([]string, 0, len(puts))
	for k := range puts {
		pk = append(pk, k)
	}
	sort.Strings(pk)
	var dig bytes.Buffer
	short := make([]string, len(pk))
	for i, k := range pk {
		dig.WriteString(k)
		var l [8]byte
		binary.BigEndian.PutUint64(l[:], uint64(len(puts[k])))
		dig.Write(l[:])
		dig.Write(puts[k])
		short[i] = hx([]byte(k))
		if len(short[i]) > 12 {
			short[i] = short[i][:12]
		}
	}
	dk := make([]string, 0, len(dels))
	for k := range dels {
		dk = append(dk, hx([]byte(k)))
	}
	sort.Strings(dk)
	return fmt.Sprintf("p=%d:%s:%s d=%d:%s", len(pk), strings.Join(short, ","), hx(sha3sum(dig.Bytes()))[:16], len(dk), strings.Join(dk, ","))
}

func wmFmtEntries(es []logEntry) string {
	if len(es) == 0 {
		return "none"
	}
	var parts []string
	for _, e := range es {
		parts = append(parts, fmtEntry(e))
	}
	return strings.Join(parts, " | ")
}

// ---------------------------------------------------------------------------------------------------------
// outcome enum

func werr(err error) string {
	switch {
	case err == nil:
		return "ok"
	case errors.Is(err, wmpt.ErrNotFound):
		return "notfound"
	case errors.Is(err, wmpt.ErrWeightNotInRange):
		return "range"
	case errors.Is(err, wmpt.ErrInvalidKey):
		return "invalidkey"
	case errors.Is(err, wmpt.ErrKVNotFound):
		return "kvnotfound"
	case strings.Contains(err.Error(), "database is not set"):
		return "nodb"
	default:
		return "err"
	}
}

// ---------------------------------------------------------------------------------------------------------
// oracle: content, weight, owner, canonical root

type went struct {
	val []byte
	w   uint64
}

type wcontent map[string]went // key bytes (as string) -> value, weight

func (c wcontent) clone() wcontent {
	r := make(wcontent, len(c))
	for k, v := range c {
		r[k] = v
	}
	return r
}

func (c wcontent) total() uint64 {
	var s uint64
	for _, e := range c {
		s += e.w
	}
	return s
}

func (c wcontent) sortedKeys() []string {
	ks := make([]string, 0, len(c))
	for k := range c {
		ks = append(ks, k)
	}
	sort.Strings(ks)
	return ks
}

// owner returns the key whose cumulative-weight interval (in key order) contains block b, 1 <= b <= total.
func (c wcontent) owner(b uint64) (string, bool) {
	if b == 0 {
		return "", false
	}
	var cum uint64
	for _, k := range c.sortedKeys() {
		cum += c[k].w
		if b <= cum {
			return k, true
		}
	}
	return "", false
}

// enumLimit: totals up to this many blocks are checked block by block, larger ones at the interval boundaries only.
const enumLimit = 1 << 12

// boundaryBlocks: the first and the last block of every key's cumulative-weight interval, ascending (block 1 and block
// total among them). Assumes total < 2^64 (the no-overflow side condition of C09).
func (c wcontent) boundaryBlocks() []uint64 {
	var bs []uint64
	var cum uint64
	for _, k := range c.sortedKeys() {
		w := c[k].w
		if w == 0 {
			continue
		}
		bs = append(bs, cum+1)
		if w > 1 {
			bs = append(bs, cum+w)
		}
		cum += w
	}
	return bs
}

// blocksToCheck: every block for small totals and key sets, the interval boundaries otherwise
func (c wcontent) blocksToCheck() []uint64 {
	total := c.total()
	if total > enumLimit {
		return c.boundaryBlocks()
	}
	if len(c) > 32 {
		// many keys (the comb-shaped tries with paths of maximal depth): the first block of every key
		var bs []uint64
		var cum uint64
		for _, k := range c.sortedKeys() {
			if c[k].w > 0 {
				bs = append(bs, cum+1)
			}
			cum += c[k].w
		}
		return append(bs, total)
	}
	bs := make([]uint64, 0, total)
	for b := uint64(1); b <= total; b++ {
		bs = append(bs, b)
	}
	return bs
}

// rootIsBranch: two live keys differ in their first nibble (the root of the trie is a branch node)
func (c wcontent) rootIsBranch() bool {
	first := -1
	for k := range c {
		n := int(k[0] >> 4)
		if first >= 0 && n != first {
			return true
		}
		first = n
	}
	return false
}

// hasEqualPair reports whether two different keys carry byte-equal (value, weight): their value nodes (and, with an
// equal key suffix, their short nodes) have the same hash and share one storage entry (matcher of finding C11-F2).
func (c wcontent) hasEqualPair() bool {
	seen := map[string]bool{}
	for _, e := range c {
		id := fmt.Sprintf("%d|%x", e.w, e.val)
		if seen[id] {
			return true
		}
		seen[id] = true
	}
	return false
}

var emptyHashW = sha3sum(nil)

func be64(x uint64) []byte {
	var b [8]byte
	binary.BigEndian.PutUint64(b[:], x)
	return b[:]
}

func nibblesOf(key string) []byte {
	n := make([]byte, 0, 2*len(key))
	for i := 0; i < len(key); i++ {
		n = append(n, key[i]>>4, key[i]&15)
	}
	return n
}

type wleaf struct {
	path []byte // remaining nibbles
	e    went
}

// wcanon computes (hash, weight) of the canonical weighted trie over the leaves (paths relative to the current
// position) and records every node hash in `nodes`:
//
//	no leaf                   -> absent
//	one leaf                  -> short(rest, value)            (the bare value when rest is empty)
//	common prefix p non-empty -> short(p, branch)
//	otherwise                 -> branch over the next nibble
//	value  hash = H(be64 w ++ value);  short hash = H(key nibbles ++ child hash);
//	branch hash = H(be64 (sum of child weights) ++ 16 child hashes, H("") for an absent child)
func wcanon(ls []wleaf, nodes map[string]bool) ([]byte, uint64) {
	if len(ls) == 0 {
		return nil, 0
	}
	note := func(h []byte) []byte {
		if nodes != nil {
			nodes[string(h)] = true
		}
		return h
	}
	if len(ls) == 1 {
		vh := note(sha3sum(append(be64(ls[0].e.w), ls[0].e.val...)))
		if len(ls[0].path) == 0 {
			return vh, ls[0].e.w
		}
		return note(sha3sum(append(append([]byte(nil), ls[0].path...), vh...))), ls[0].e.w
	}
	cp := len(ls[0].path)
	for _, l := range ls[1:] {
		i := 0
		for i < cp && i < len(l.path) && l.path[i] == ls[0].path[i] {
			i++
		}
		cp = i
	}
	if cp > 0 {
		rest := make([]wleaf, len(ls))
		for i, l := range ls {
			rest[i] = wleaf{l.path[cp:], l.e}
		}
		ch, w := wcanon(rest, nodes)
		return note(sha3sum(append(append([]byte(nil), ls[0].path[:cp]...), ch...))), w
	}
	var groups [16][]wleaf
	for _, l := range ls {
		groups[l.path[0]] = append(groups[l.path[0]], wleaf{l.path[1:], l.e})
	}
	var total uint64
	var body []byte
	for i := 0; i < 16; i++ {
		h, w := wcanon(groups[i], nodes)
		if h == nil {
			h = emptyHashW
		}
		total += w
		body = append(body, h...)
	}
	return note(sha3sum(append(be64(total), body...))), total
}

// canonRootW is the root hash of the canonical weighted trie holding c (H("") for the empty trie); nodes (optional)
// receives the hash of every node of that trie.
func canonRootW(c wcontent, nodes map[string]bool) []byte {
	var ls []wleaf
	for _, k := range c.sortedKeys() {
		ls = append(ls, wleaf{nibblesOf(k), c[k]})
	}
	h, _ := wcanon(ls, nodes)
	if h == nil {
		return emptyHashW
	}
	return h
}

// ---------------------------------------------------------------------------------------------------------
// reopen check: a trie opened from (root, weight) on the given storage must show exactly `c`

func openTrie(st storage.StorageAdapter, root []byte, weight uint64) *wmpt.WeightedMerkleTrie {
	if weight == 0 {
		return wmpt.New(nil, st)
	}
	return wmpt.New(wmpt.NewHashNode(append([]byte(nil), root...), weight), st)
}

// checkReopen opens (root, weight) on st and compares total weight, the owner of every block (totals beyond enumLimit:
// of the first and last block of every interval), every value and the verification of every block proof with the
// oracle content c. Returns the list of discrepancies.
func checkReopen(what string, st storage.StorageAdapter, root []byte, weight uint64, c wcontent) (fails []string) {
	if ms, ok := st.(*memStore); ok {
		ms.mu.Lock()
		was := ms.suspended
		ms.suspended = true
		ms.mu.Unlock()
		defer func() {
			ms.mu.Lock()
			ms.suspended = was
			ms.mu.Unlock()
		}()
	}
	defer func() {
		if r := recover(); r != nil {
			fails = append(fails, fmt.Sprintf("%s: panic while reading the reopened trie: %v", what, r))
		}
	}()
	if weight != c.total() {
		fails = append(fails, fmt.Sprintf("%s: recorded weight %d, content weight %d", what, weight, c.total()))
		return
	}
	if weight == 0 {
		if !bytes.Equal(root, emptyHashW) {
			fails = append(fails, fmt.Sprintf("%s: empty content but root %x", what, root))
		}
		return
	}
	if want := canonRootW(c, nil); !bytes.Equal(root, want) {
		fails = append(fails, fmt.Sprintf("%s: root %x differs from the canonical root %x of the content", what, root, want))
		return
	}
	t := openTrie(st, root, weight)
	if t.Weight() != weight {
		fails = append(fails, fmt.Sprintf("%s: reopened weight %d, want %d", what, t.Weight(), weight))
	}
	for _, b := range c.blocksToCheck() {
		wantKey, _ := c.owner(b)
		key, proof, err := t.GetBlockProof(b)
		if err != nil {
			fails = append(fails, fmt.Sprintf("%s: reopened trie cannot produce the proof of block %d (owner %x): %s", what, b, wantKey, werr(err)))
			return
		}
		if string(key) != wantKey {
			fails = append(fails, fmt.Sprintf("%s: reopened trie says block %d is owned by %x, want %x", what, b, key, wantKey))
			return
		}
		h, v, err := wmpt.New(nil, nil).VerifyBlockProof(b, proof)
		if err != nil || !bytes.Equal(h, root) || !bytes.Equal(v, c[wantKey].val) {
			fails = append(fails, fmt.Sprintf("%s: proof of block %d from the reopened trie verifies to (%x, %x, %s), want (%x, %x)", what, b, h, v, werr(err), root, c[wantKey].val))
			return
		}
	}
	return
}

// ---------------------------------------------------------------------------------------------------------
// generators: 32-byte keys with shared prefixes of every length; weight determined by the value

// wkeyPool builds n keys; each new key shares a prefix of a random number of nibbles (0..63) with an earlier one.
func wkeyPool(r *rand.Rand, n int) []string {
	var pool []string
	for len(pool) < n {
		k := make([]byte, 32)
		r.Read(k)
		if len(pool) > 0 && r.Intn(100) < 85 {
			base := []byte(pool[r.Intn(len(pool))])
			var share int
			switch x := r.Intn(10); {
			case x < 3:
				share = r.Intn(4) // short shared prefix: branches near the root
			case x < 5:
				share = 60 + r.Intn(4) // long shared prefix: branch near / at the last nibble
			default:
				share = r.Intn(64)
			}
			nb := nibblesOf(string(base))
			nk := nibblesOf(string(k))
			copy(nk, nb[:share])
			if nk[share] == nb[share] {
				nk[share] = (nb[share] + 1 + byte(r.Intn(15))) % 16
			}
			for i := range k {
				k[i] = nk[2*i]<<4 | nk[2*i+1]
			}
		}
		dup := false
		for _, p := range pool {
			if p == string(k) {
				dup = true
			}
		}
		if !dup {
			pool = append(pool, string(k))
		}
	}
	return pool
}

// wcombPool: key 0 plus, for i = 0..depth (depth <= 63), a key that shares exactly the first i nibbles with key 0: key 0
// has a sibling at every nibble depth 0..depth, so its path holds a branch at every depth — the longest paths a proof or
// an export can have (depth 63: 64 branches + the value node = 65 elements; depth 62: 63 branches + a one-nibble short
// node + the value node). pool[0] = key 0, pool[1+i] = the sibling at depth i.
func wcombPool(r *rand.Rand, depth int) []string {
	k0 := make([]byte, 32)
	r.Read(k0)
	n0 := nibblesOf(string(k0))
	pool := []string{string(k0)}
	for i := 0; i <= depth && i < 64; i++ {
		nk := make([]byte, 64)
		copy(nk, n0[:i])
		nk[i] = (n0[i] + 1 + byte(r.Intn(15))) % 16
		for j := i + 1; j < 64; j++ {
			nk[j] = byte(r.Intn(16))
		}
		k := make([]byte, 32)
		for j := range k {
			k[j] = nk[2*j]<<4 | nk[2*j+1]
		}
		pool = append(pool, string(k))
	}
	return pool
}

// wvalWeight is the weight of a value: determined by the value (1..4).
func wvalWeight(v []byte) uint64 {
	if len(v) == 0 {
		return 0
	}
	return 1 + uint64(v[0]%4)
}

// wgenValue draws a value; uniq != 0 makes it unique to (key index, serial) so that no two keys ever carry
// byte-equal values (outside finding C11-F2); uniq == 0 draws from a small shared pool.
func wgenValue(r *rand.Rand, keyIdx int, shared bool) []byte {
	if shared {
		return []byte{byte(r.Intn(4)), 0xee}
	}
	n := 1 + r.Intn(5)
	v := make([]byte, 2+n)
	v[0] = byte(r.Intn(256))
	v[1] = byte(keyIdx)
	r.Read(v[2:])
	return v
}
