package main

// Runner shared by the weighted-trie suites c09, c10, c11, c12, c13: one op language, all oracles always on; the
// suites differ in their generators. One recording storage, one live trie, oracle content, checkpoint, proof slots,
// a partial trie imported from a path export.
//
//	upd <key> <val> <w>          Update(key, val, w)                       -> ok | <err> | zeroweight (w = 0 with a value: not executed)
//	updzw <key> <v0> <v> <w>     Update(key, v0, 0); Weight(); Update(key, v, w) in one op      -> ok <weight in between>
//	updel <key>                  Update(key, nil, 0)  (delete)             -> ok | notfound | <err>
//	updel0 <key>                 Update(key, []byte{}, 0): the same delete, "no value" as an empty NON-NIL slice
//	updbad <nil|empty|hex> <v|-> <w>   Update with a key that is not 32 bytes        -> invalidkey
//	delbad <nil|empty|hex>       Delete with a nil / empty / short key               -> notfound
//	del <key>                    Delete(key)                               -> ok <weight> | notfound | <err>
//	commit <lvl>                 Commit(lvl) + batch.Commit(true)          -> ok r=<root> w=<weight> <storage ops>
//	gc                           DeleteNodes()                             -> ok <storage ops>
//	reload                       New(NewHashNode(last committed root, weight), same storage)   -> ok
//	root                         Root()                                    -> ok <hex>
//	weight                       Weight()                                  -> ok <n>
//	owner <b>                    GetBlockProof(b) key                      -> ok <key> | range | notfound
//	owners                       owner of every block 1..Weight()          -> ok <key8>*<n>,... | toobig (> 2^12 blocks)
//	ownersat <b1,b2,…>           owner of the listed blocks (each proof verified by the runner) -> ok <key8|err>@<b>,...
//	proof <b> <slot>             GetBlockProof(b), VerifyBlockProof on a fresh trie; kept in <slot>
//	                                                                       -> ok <key> n=<len> d=<digest> r=<root> v=<val>
//	tamper <slot> <b> <class> …  tamper with the proof in <slot>, verify for block b   -> ok <root> <val> | err | skip
//	saveroot <lvl>               SaveRoot(); checkpoint copy = CopyRoot(lvl) (lvl = -2: NewHashNode(root, weight), nil when empty;
//	                             -3: NewHashNode(root, weight) also when empty)
//	cproot <lvl>                 the checkpoint copy alone, without SaveRoot()             -> ok
//	recopy <lvl>                 New(t.CopyRoot(lvl), same storage)                          -> ok
//	rollback                     Rollback()                                -> ok r=<root> w=<weight> <storage ops>
//	rollbacktrie                 RollbackTrie(checkpoint copy)             -> ok r=<root> w=<weight> <storage ops>
//	getpath <k1,k2,…|->          GetPath(keys)                             -> ok n=<len> d=<digest> | <err>
//	import                       New(nil, nil).Deserialize(export)         -> ok r=<root> w=<weight> | err
//	mupd <key> <val> <w>         Update on the source and on the imported trie -> <res> <res> <root> <w> <root> <w>
//	mdel <key> / mupdel <key>    Delete / Update(nil) on both
//
//	commitb <lvl> / wbatch       Commit(lvl) returning its batch, kept unwritten / the batch written later (GC passes in between)
//	commit2 <lvl>                Commit(lvl), then a second Commit(lvl) on the now clean root (a periodic flush with nothing
//	                             to write), then both batches committed in call order      -> like commit
//	fault <class> <k>            arm the storage: the k-th next call of <class> (get | bput | bdel | bcommit) fails once -> ok
//	nofault                      disarm                                                        -> ok
//
// <storage ops> = the atomic storage operations the call produced (wmFmtEntries).
//
// Injected storage failures (suite wfault; no Lean model follows them). An operation during which the armed failure fired
// and that returned an error is RETRIED once by the runner (the failure is one-shot); the retry must succeed and all
// oracles apply to the state after it, and to every later operation: an operation that reports an error has to leave the
// trie in a state from which the history continues correctly. A failed batch Commit is retried on the same batch. An
// operation that swallowed the failure and reported success is held to the ordinary oracles. What the code at HEAD does
// NOT satisfy is matched as an observation (tag obs:…), the case stops there (notes/C11.md, "storage failures").

import (
	"bytes"
	"errors"
	"fmt"
	"sort"
	"strconv"
	"strings"

	"github.com/0chain/common/core/util/storage"
	"github.com/0chain/common/core/util/wmpt"
)

const (
	findF2    = "C11-F2-equal-content-shares-node"
	findC10W  = "C10-forged-child-weights"
	findC10K  = "C10-node-kind-confusion"
	findGCGap = "C11-gc-between-commit-and-batch-write"
)

type wcheckpoint struct {
	root     []byte
	weight   uint64
	content  wcontent
	node     wmpt.Node
	nodes    map[string]bool // node hashes of the canonical trie of content
	keysThen map[string]bool // storage keys when the checkpoint was taken
}

type wslot struct {
	proof   []byte
	block   uint64
	root    []byte // trusted root (independent computation from the content at that time)
	content wcontent
}

type wrun struct {
	ops   []string
	res   CaseResult
	tags  map[string]bool
	cover string // id of the open finding whose matcher condition currently holds ("" = none)
	uncov bool   // an oracle failure occurred while no matcher condition held

	st          *memStore
	t           *wmpt.WeightedMerkleTrie
	live        wcontent
	committed   wcontent
	croot       []byte
	cweight     uint64
	dirty       bool
	hashedDirty bool
	muts        int
	commits     int

	f2seen   bool     // two live keys carried byte-equal (value, weight) at some time
	f2Pend   []*f2rec // … and one of two such twins was deleted / overwritten (one record per removal)
	f2Armed  bool     // two passes ran: the shared node is gone
	cp       *wcheckpoint
	lastPuts map[string]bool // keys written by the most recent commit batch since the checkpoint
	durable  []wdurable

	slots map[int]*wslot

	export []byte
	part   *wmpt.WeightedMerkleTrie

	// fault injection
	fired0           int      // number of fired failures when the current op started
	quiet            bool     // oracle failures are held back while an armed storage failure may fire
	held             []string // … here
	heldUncov        bool
	retrying         bool // the current op is the retry of an op that failed through an injected storage failure
	faultInOp        bool // the armed failure fired during the current op
	abandoned        bool // an observation matched: the rest of the case is skipped
	faultClass       string
	pbatch           storage.Batcher // the batch of a Commit that has not been written yet (ops commitb / wbatch)
	pLvl             int
	gcSinceCommitB   int    // GC passes since that Commit
	gcGap            bool   // two passes ran between a Commit and the write of its batch
	fired            string // id of the open finding whose fingerprint has matched a failure of this case: nothing is judged afterwards
	faultK           int
	commitReadFailed bool            // a Get failed inside the last Commit: its "created" list may miss nodes (fix 955fb55: leak, not loss)
	changed          map[string]bool // keys changed since the last commit / reload / rollback
}

type f2rec struct {
	committed bool
	gcs       int
}

type wdurable struct {
	n       int // log length after which this state is the last durably committed one
	root    []byte
	weight  uint64
	content wcontent
}

func newWrun(ops []string) *wrun {
	st := newMemStore()
	return &wrun{ops: ops, tags: map[string]bool{}, st: st, t: wmpt.New(nil, st), live: wcontent{}, committed: wcontent{},
		croot: emptyHashW, slots: map[int]*wslot{}, lastPuts: map[string]bool{}}
}

func (x *wrun) fail(i int, f string, a ...interface{}) {
	x.failIn("", i, f, a...)
}

// ---- matcher of finding C11-F2 (equal content under two keys shares one storage entry; GC has no reference counts) ----
//
// The finding's fingerprint, not its precondition: a failure is covered only if
//   - it is of the not-found class (a node is missing from storage): "notfound" / "kvnotfound" in its text,
//   - it comes from a read that resolves nodes — the reopen oracle after a commit / GC pass / rollback, the crash
//     enumeration, owner / owners / ownersat, an honest proof — or, once such a failure has been recorded (the storage is
//     damaged from there on), from any later operation,
//   - and the history has removed the shared node: a key whose (value, weight) another live key also carries was deleted or
//     overwritten, that change was committed, and two GC passes ran afterwards.
//
// Everything else in such a case — Weight, Root, wrong owner, mirror mismatch, any failure before the second pass — is
// judged like in any other case. Once the fingerprint has matched a failure (x.fired), storage and trie are corrupt: the
// rest of the case is not judged.
var f2Sites = []string{"reopened trie cannot produce the proof", "live trie cannot answer the owner", "owner of block", "honest proof of block",
	"proof of block", "checkpoint not intact", "crash after storage operation"}

func (x *wrun) f2Covers(msg string) bool {
	if !x.f2Armed || !strings.Contains(msg, "notfound") {
		return false
	}
	for _, s := range f2Sites {
		if strings.Contains(msg, s) {
			return true
		}
	}
	return false
}

// f2Note follows the history: `before` / `after` = the entry of `key` before / after a content change
func (x *wrun) f2Change(key string, before went, had bool) {
	if !had {
		return
	}
	now, still := x.live[key]
	if still && now.w == before.w && bytes.Equal(now.val, before.val) {
		return
	}
	for k, e := range x.live {
		if k != key && e.w == before.w && bytes.Equal(e.val, before.val) {
			// one of two twins is gone: its nodes are queued although the other twin still needs them
			x.f2Pend = append(x.f2Pend, &f2rec{})
			x.tags["finding:F2-twin-removed"] = true
			return
		}
	}
}

// failIn records an oracle failure; cover is the finding whose matcher accepts it ("" = none).
func (x *wrun) failIn(cover string, i int, f string, a ...interface{}) {
	msg := fmt.Sprintf("op %d (%s): ", i, wmClip(x.ops[i], 120)) + fmt.Sprintf(f, a...)
	if x.quiet {
		x.held = append(x.held, msg)
		return
	}
	if x.pbatch != nil && strings.Contains(msg, "notfound") &&
		(strings.Contains(msg, "live trie cannot answer") || strings.Contains(msg, "owner of block") || strings.Contains(msg, "honest proof of block") || strings.Contains(msg, "the live trie answers")) {
		// a read of the LIVE trie between a Commit and the write of its batch: what the Commit collapsed to references exists
		// only in the unwritten batch — the caller writes the batch before using the trie again (notes/C11.md); not judged
		x.tags["obs:read-between-commit-and-batch-write"] = true
		return
	}
	if cover == "" && x.fired != "" {
		// an open finding has fired in this case (its full fingerprint matched a failure): storage and trie are corrupt from
		// there on, nothing after it is judged
		cover = x.fired
	}
	if cover == "" && x.gcGap && strings.Contains(msg, "notfound") {
		// finding C11-gc-between-commit-and-batch-write: a read that resolves nodes does not find one
		for _, s := range f2Sites {
			if strings.Contains(msg, s) {
				cover, x.fired = findGCGap, findGCGap
				x.tags["finding-fired:gc-gap"] = true
				break
			}
		}
	}
	if cover == "" && x.f2Covers(msg) {
		cover, x.fired = findF2, findF2
		x.tags["finding-fired:F2"] = true
	}
	if cover != "" {
		msg = "[" + cover + "] " + msg
		if x.res.Finding == "" {
			x.res.Finding = cover
		}
	} else {
		x.uncov = true
	}
	if len(x.res.Fails) < 12 {
		x.res.Fails = append(x.res.Fails, msg)
	}
}

func wmClip(s string, n int) string {
	if len(s) > n {
		return s[:n] + "…"
	}
	return s
}

func (x *wrun) newEntries(from int) []logEntry {
	x.st.mu.Lock()
	defer x.st.mu.Unlock()
	return append([]logEntry(nil), x.st.log[from:]...)
}

func (x *wrun) noteChanged(key string) {
	if x.changed == nil {
		x.changed = map[string]bool{}
	}
	x.changed[key] = true
}

func (x *wrun) noteContent() {
	if !x.f2seen && x.live.hasEqualPair() {
		x.f2seen = true
		x.tags["finding:F2-condition"] = true
	}
}

func (x *wrun) hashRead() {
	if x.dirty {
		x.hashedDirty = true
	}
}

func u64(s string) uint64 {
	v, err := strconv.ParseUint(s, 10, 64)
	if err != nil {
		panic("bad number in op line: " + s)
	}
	return v
}

func atoi(s string) int {
	v, err := strconv.Atoi(s)
	if err != nil {
		panic("bad number in op line: " + s)
	}
	return v
}

func runWmpt(ops []string) CaseResult {
	return runWmptOn(newWrun(ops))
}

func runWmptOn(x *wrun) CaseResult {
	ops := x.ops
	for i, op := range ops {
		f := strings.Fields(op)
		out := x.step(i, f)
		x.res.Outs = append(x.res.Outs, out)
		if out == "panic" {
			x.tags["panic"] = true
		}
	}
	if !x.abandoned {
		x.crashEnumeration(len(ops) - 1)
	}
	for _, m := range x.st.mismatches {
		x.uncov = true
		x.res.Fails = append(x.res.Fails, m)
	}
	for t := range x.tags {
		x.res.Tags = append(x.res.Tags, t)
	}
	if x.uncov {
		x.res.Finding = "" // at least one failure is outside every open finding: report the case
	}
	x.res.Nontrivial = x.muts >= 2 && (x.commits >= 1 || len(x.slots) > 0 || x.part != nil)
	return x.res
}

// step runs one op; with an armed storage failure it applies the retry protocol described at the top of the file.
func (x *wrun) step(i int, f []string) string {
	if x.abandoned {
		return "skip"
	}
	x.fired0 = x.st.fired()
	switch f[0] {
	case "fault":
		x.st.arm(f[1], atoi(f[2]))
		x.faultClass, x.faultK = f[1], atoi(f[2])
		x.tags["fault-armed:"+f[1]] = true
		return "ok"
	case "nofault":
		x.st.disarm()
		return "ok"
	}
	x.st.mu.Lock()
	armed := x.st.faultClass != ""
	x.st.mu.Unlock()
	if !armed {
		return x.step1(i, f)
	}
	fired0 := x.st.fired()
	x.quiet, x.held = true, nil
	out := x.step1(i, f)
	x.quiet = false
	held := x.held
	x.held = nil
	if x.st.fired() == fired0 {
		for _, m := range held { // the failure did not fire during this op: its oracle failures are real
			x.failMsg(m)
		}
		return out
	}
	x.tags["fault-hit:"+x.faultClass+":"+f[0]] = true
	if strings.HasPrefix(out, "ok") || out == "skip" || out == "notfound" || out == "range" {
		// the failure was swallowed (or hit a call whose result is not part of the answer): ordinary oracles
		x.tags["fault-swallowed:"+x.faultClass+":"+f[0]] = true
		if x.faultClass == "get" && strings.HasPrefix(f[0], "commit") {
			x.commitReadFailed = true
		}
		for _, m := range held {
			x.failMsg(m)
		}
		return "fault-swallowed " + out
	}
	if out == "panic" {
		x.failMsg(fmt.Sprintf("op %d (%s): panic after an injected %s failure", i, wmClip(x.ops[i], 120), x.faultClass))
		return "fault panic"
	}
	// the op reported the error: retry once, everything has to be right afterwards
	lenient := ""
	if (f[0] == "commit" || f[0] == "commit2") && x.faultClass == "bput" && !(x.faultK == 1 && !x.live.rootIsBranch()) {
		// Commit hands the batch to the caller only on success: nodes it saved (and flagged clean) before the failing Put —
		// or concurrently with it, in the goroutines that commit the other children of a branch root — are in a batch nobody
		// gets, and the retry does not write them again. HEAD recovers when the failing Put is the very first one and the
		// root is not a branch (the walk is sequential then, leaves first): that case is held to the full oracle.
		lenient = "commit-retry-after-a-failed-batch-put-loses-the-nodes-saved-before-it"
	}
	logBefore := x.st.logLen()
	x.retrying = true
	x.quiet, x.held = lenient != "", nil
	out2 := x.step1(i, f)
	x.retrying = false
	if !x.abandoned {
		x.fullCheck(i)
	}
	x.quiet = false
	if out2 == "panic" {
		x.failMsg(fmt.Sprintf("op %d (%s): the retry after an injected %s failure panicked", i, wmClip(x.ops[i], 120), x.faultClass))
	}
	if len(x.held) > 0 {
		// the observation's fingerprint: nodes the failed attempt had saved are missing from storage — the reopen oracle of the
		// retried commit cannot resolve a block (not-found class). Anything else the retry got wrong is a failure.
		seen := false
		for _, m := range x.held {
			if strings.Contains(m, "notfound") && (strings.Contains(m, "after the commit batch: reopened trie cannot produce the proof") ||
				strings.Contains(m, "the live trie answers")) {
				seen = true
			} else {
				x.failMsg(m)
			}
		}
		x.held = nil
		if seen {
			x.crashEnumerationUpTo(i, logBefore) // the states committed before the failed commit must still be recoverable
			x.observe(lenient)
		}
	}
	if x.abandoned {
		return "fault " + out + " retry " + out2 + " (observation)"
	}
	return "fault " + out + " retry " + out2
}

func (x *wrun) failMsg(msg string) {
	cover := x.fired
	if cover == "" && x.f2Covers(msg) {
		cover, x.fired = findF2, findF2
	}
	if cover != "" {
		msg = "[" + cover + "] " + msg
		if x.res.Finding == "" {
			x.res.Finding = cover
		}
	} else {
		x.uncov = true
	}
	if len(x.res.Fails) < 12 {
		x.res.Fails = append(x.res.Fails, msg)
	}
}

// observe records that the code at HEAD does not satisfy the fault oracle in a known way; the case stops here.
func (x *wrun) observe(what string) {
	x.tags["obs:"+what] = true
	x.abandoned = true
}

// fullCheck: the live trie against the oracle content — total weight, root, owner of the blocks to check.
func (x *wrun) fullCheck(i int) {
	x.checkWeight(i)
	x.hashRead()
	if got, want := guard2(func() []byte { return x.t.Root() }), canonRootW(x.live, nil); !bytes.Equal(got, want) {
		x.fail(i, "Root() = %x, canonical root of the live content = %x", got, want)
	}
	for _, b := range x.live.blocksToCheck() {
		want, _ := x.live.owner(b)
		out := guard(func() string {
			key, _, err := x.t.GetBlockProof(b)
			if err != nil {
				return werr(err)
			}
			return string(key)
		})
		if out != want {
			if len(out) != 32 {
				x.fail(i, "owner of block %d: the live trie answers %q, want %x", b, out, want)
			} else {
				x.fail(i, "owner of block %d is %x, want %x", b, out, want)
			}
			return
		}
	}
}

func (x *wrun) step1(i int, f []string) string {
	switch f[0] {
	case "updzw":
		// updzw <key> <v0> <v> <w>: Update(key, v0, 0) — a value with weight 0: present, weighs nothing, owns no block — then
		// Weight(), then at once Update(key, v, w) with another value and a positive weight. One op, so that no commit, reload
		// or checkpoint can fall between the two: a trie of total weight 0 that is not empty is outside the domain (positive
		// weights; it reopens as the empty trie).
		key, v0, val, w := unhx(f[1]), unhx(f[2]), unhx(f[3]), u64(f[4])
		before, had := x.live[string(key)]
		var mid uint64
		out := guard(func() string {
			if err := x.t.Update(append([]byte(nil), key...), append([]byte(nil), v0...), 0); err != nil {
				return werr(err)
			}
			mid = x.t.Weight()
			return werr(x.t.Update(append([]byte(nil), key...), append([]byte(nil), val...), w))
		})
		if out != "ok" {
			x.fail(i, "update failed: %s", out)
			return out
		}
		want := x.live.total()
		if had && !bytes.Equal(before.val, v0) {
			want -= before.w // (a same-value rewrite keeps the old weight)
		}
		if mid != want {
			x.fail(i, "Weight() after the zero-weight update = %d, want %d", mid, want)
		}
		if had && bytes.Equal(before.val, v0) && bytes.Equal(v0, val) {
			w = before.w
		}
		x.live[string(key)] = went{val, w}
		x.f2Change(string(key), before, had)
		x.noteChanged(string(key))
		x.dirty = true
		x.muts++
		x.noteContent()
		x.checkWeight(i)
		x.tags["zero-weight-update"] = true
		return fmt.Sprintf("ok %d", mid)
	case "upd":
		key, val, w := unhx(f[1]), unhx(f[2]), u64(f[3])
		if w == 0 && len(val) > 0 {
			return "zeroweight" // outside the domain (positive weights): not executed, the same token on the model side
		}
		out := guard(func() string { return werr(x.t.Update(append([]byte(nil), key...), append([]byte(nil), val...), w)) })
		if out != "ok" {
			x.fail(i, "update failed: %s", out)
		} else {
			if old, ok := x.live[string(key)]; ok {
				x.tags["overwrite"] = true
				if bytes.Equal(old.val, val) {
					x.tags["rewrite-same"] = true
				}
			}
			before, had := x.live[string(key)]
			if had && bytes.Equal(before.val, val) {
				w = before.w // a same-value rewrite is a no-op: the entry keeps its weight (trie.go insert, bytes.Equal case)
			}
			x.live[string(key)] = went{val, w}
			x.f2Change(string(key), before, had)
			x.noteChanged(string(key))
			x.dirty = true
			x.muts++
			x.noteContent()
		}
		x.checkWeight(i)
		return out
	case "updbad":
		// Update with a key that is not 32 bytes: nil, empty, 31 / 33 bytes — ErrInvalidKey, nothing changes
		var key []byte
		switch f[1] {
		case "nil":
		case "empty":
			key = []byte{}
		default:
			key = unhx(f[1])
		}
		var val []byte
		if f[2] != "-" {
			val = unhx(f[2])
		}
		out := guard(func() string { return werr(x.t.Update(key, val, u64(f[3]))) })
		if out != "invalidkey" {
			x.fail(i, "Update with a key of %d bytes returned %q, want invalidkey", len(key), out)
		}
		x.checkWeight(i)
		x.tags["update-bad-key"] = true
		return out
	case "delbad":
		// Delete with a nil / empty / too short key: not found, nothing changes
		var key []byte
		switch f[1] {
		case "nil":
		case "empty":
			key = []byte{}
		default:
			key = unhx(f[1])
		}
		out := guard(func() string {
			ch, err := x.t.Delete(key)
			if err != nil {
				return werr(err)
			}
			return fmt.Sprintf("ok %d", ch)
		})
		if out != "notfound" {
			x.fail(i, "Delete with a key of %d bytes returned %q, want notfound", len(key), out)
		}
		x.checkWeight(i)
		x.tags["delete-bad-key"] = true
		return out
	case "updel", "updel0", "del":
		key := unhx(f[1])
		old, present := x.live[string(key)]
		out := guard(func() string {
			if f[0] == "updel" {
				return werr(x.t.Update(append([]byte(nil), key...), nil, 0))
			}
			if f[0] == "updel0" {
				// "no value" spelled as an empty NON-NIL slice: the same delete
				x.tags["delete-by-empty-non-nil-value"] = true
				return werr(x.t.Update(append([]byte(nil), key...), []byte{}, 0))
			}
			ch, err := x.t.Delete(append([]byte(nil), key...))
			if err != nil {
				return werr(err)
			}
			return fmt.Sprintf("ok %d", ch)
		})
		switch {
		case present && x.retrying && out == "notfound":
			// the first attempt removed the key from its branch and then failed (loading the remaining child for the branch
			// reduction): the ancestors keep their weight and cached hash, the retry does not find the key
			x.observe("delete-applied-halfway-before-the-storage-error")
			return out
		case present:
			want := "ok"
			if f[0] == "del" {
				want = fmt.Sprintf("ok %d", old.w)
			}
			if out != want {
				x.fail(i, "delete of a live key returned %q, want %q", out, want)
			}
			if strings.HasPrefix(out, "ok") {
				delete(x.live, string(key))
				x.f2Change(string(key), old, true)
				x.noteChanged(string(key))
				x.dirty = true
				x.muts++
				x.tags["delete-live"] = true
			}
		default:
			if out != "notfound" {
				x.fail(i, "delete of an absent key returned %q, want notfound", out)
			}
			x.tags["delete-absent"] = true
		}
		x.checkWeight(i)
		return out
	case "commit", "commit2":
		lvl := atoi(f[1])
		from := x.st.logLen()
		out := guard(func() string {
			b, err := x.t.Commit(lvl)
			if err != nil {
				return werr(err)
			}
			var b2 storage.Batcher
			if f[0] == "commit2" {
				// a second Commit with nothing to write, before the first batch is committed
				if b2, err = x.t.Commit(lvl); err != nil {
					return werr(err)
				}
				x.tags["commit-twice"] = true
			}
			for _, bb := range []storage.Batcher{b, b2} {
				if bb == nil {
					continue
				}
				if err := bb.Commit(true); err != nil {
					if !errors.Is(err, errInjected) {
						return "err"
					}
					// the failed operation is the batch commit: it is retried on the same batch
					x.tags["fault-hit:bcommit-retried"] = true
					if err := bb.Commit(true); err != nil {
						return "err"
					}
				}
			}
			return "ok"
		})
		if out != "ok" {
			x.fail(i, "commit failed: %s", out)
			return out
		}
		return x.afterCommit(i, lvl, from)
	case "commitb":
		// Commit(lvl) only: the batch is RETURNED to the caller and kept; nothing is written yet (op wbatch writes it)
		lvl := atoi(f[1])
		if x.pbatch != nil {
			return "skip"
		}
		var b storage.Batcher
		out := guard(func() string {
			var err error
			if b, err = x.t.Commit(lvl); err != nil {
				return werr(err)
			}
			return "ok"
		})
		if out != "ok" {
			x.fail(i, "commit failed: %s", out)
			return out
		}
		x.pbatch, x.pLvl, x.gcSinceCommitB = b, lvl, 0
		for _, p := range x.f2Pend {
			p.committed = true // Commit itself queues what the changes superseded; GC passes count from here
		}
		x.tags["commit-batch-held"] = true
		return out
	case "wbatch":
		if x.pbatch == nil {
			return "skip"
		}
		from := x.st.logLen()
		b := x.pbatch
		x.pbatch = nil
		if out := guard(func() string {
			if err := b.Commit(true); err != nil {
				return "err"
			}
			return "ok"
		}); out != "ok" {
			x.fail(i, "writing the commit batch failed: %s", out)
			return out
		}
		return x.afterCommit(i, x.pLvl, from)
	case "gc":
		from := x.st.logLen()
		out := guard(func() string { return werr(x.t.DeleteNodes()) })
		if out != "ok" {
			x.fail(i, "DeleteNodes failed: %s", out)
			return out
		}
		x.tags["gc"] = true
		if x.pbatch != nil {
			if x.gcSinceCommitB++; x.gcSinceCommitB >= 2 {
				// finding C11-gc-between-commit-and-batch-write: the second pass deletes what the unwritten commit superseded —
				// nodes of the root that is still the last one in storage
				x.gcGap = true
				x.tags["finding:gc-gap-condition"] = true
			}
		}
		for _, p := range x.f2Pend {
			if p.committed {
				if p.gcs++; p.gcs >= 2 && !x.f2Armed {
					x.f2Armed = true // the second pass after the commit deleted what the removed twin had queued: the shared node
					x.tags["finding:F2-armed"] = true
				}
			}
		}
		if x.dirty {
			x.tags["gc-while-dirty"] = true // (the defect fixed by a54b110: such a pass could delete nodes of the committed root)
		}

		for _, m := range checkReopen("after the GC pass", x.st, x.croot, x.cweight, x.committed) {
			x.fail(i, "%s", m)
		}
		return "ok " + wmFmtEntries(x.newEntries(from))
	case "reload":
		if err := x.st.reopen(); err != nil { // (with a real adapter behind the store: close it and open its directory again)
			x.fail(i, "reopening the storage failed: %v", err)
		}
		x.t = openTrie(x.st, x.croot, x.cweight)
		x.live = x.committed.clone()
		x.changed = nil
		x.f2Pend = nil // the queues are gone with the old trie object
		x.dirty, x.hashedDirty = false, false
		x.cp = nil
		x.tags["reload"] = true
		return "ok"
	case "root":
		x.hashRead()
		out := guard(func() string { return "ok " + hx(x.t.Root()) })
		if want := "ok " + hx(canonRootW(x.live, nil)); out != want {
			x.fail(i, "Root() = %s, canonical root of the live content = %s", out, want)
		}
		if x.dirty {
			x.tags["root-while-dirty"] = true
		}
		return out
	case "weight":
		out := guard(func() string { return fmt.Sprintf("ok %d", x.t.Weight()) })
		x.checkWeight(i)
		return out
	case "owner":
		b := u64(f[1])
		x.hashRead()
		out := guard(func() string {
			key, _, err := x.t.GetBlockProof(b)
			if err != nil {
				return werr(err)
			}
			return "ok " + hx(key)
		})
		want := "range"
		if k, ok := x.live.owner(b); ok {
			want = "ok " + hx([]byte(k))
		}
		if b >= 1 && out != want {
			x.fail(i, "owner of block %d: got %q, want %q", b, out, want)
		}
		return out
	case "ownersat":
		x.hashRead()
		var parts []string
		root := canonRootW(x.live, nil)
		for _, bs := range strings.Split(f[1], ",") {
			b := u64(bs)
			var key, proof []byte
			out := guard(func() string {
				var err error
				key, proof, err = x.t.GetBlockProof(b)
				if err != nil {
					return werr(err)
				}
				k8 := hx(key)
				if len(k8) > 8 {
					k8 = k8[:8]
				}
				return k8
			})
			parts = append(parts, out+"@"+bs)
			want, inRange := x.live.owner(b)
			switch {
			case !inRange:
				if b >= 1 && out != "range" {
					x.fail(i, "owner of block %d beyond the total weight %d: got %q, want range", b, x.live.total(), out)
				}
			case key == nil || string(key) != want:
				x.fail(i, "owner of block %d is %q, want %x (total %d)", b, out, want, x.live.total())
			default:
				h, v, err := wmpt.New(nil, nil).VerifyBlockProof(b, append([]byte(nil), proof...))
				if err != nil || !bytes.Equal(h, root) || !bytes.Equal(v, x.live[want].val) {
					x.fail(i, "proof of block %d verifies to (%x, %x, %s), want (%x, %x)", b, h, v, werr(err), root, x.live[want].val)
				}
			}
		}
		x.tags["ownersat"] = true
		return "ok " + strings.Join(parts, ",")
	case "owners":
		x.hashRead()
		total := x.t.Weight()
		if total > enumLimit {
			return "toobig"
		}
		var runs []string
		bad := ""
		out := guard(func() string {
			prev, cnt := "", 0
			for b := uint64(1); b <= total; b++ {
				key, _, err := x.t.GetBlockProof(b)
				if err != nil {
					return werr(err) + fmt.Sprintf("@%d", b)
				}
				if want, _ := x.live.owner(b); bad == "" && want != string(key) {
					bad = fmt.Sprintf("owner of block %d is %x, want %x", b, key, want)
				}
				k8 := hx(key)
				if len(k8) > 8 {
					k8 = k8[:8]
				}
				if k8 != prev && cnt > 0 {
					runs = append(runs, fmt.Sprintf("%s*%d", prev, cnt))
					cnt = 0
				}
				prev = k8
				cnt++
			}
			if cnt > 0 {
				runs = append(runs, fmt.Sprintf("%s*%d", prev, cnt))
			}
			return "ok " + strings.Join(runs, ",")
		})
		if !strings.HasPrefix(out, "ok") {
			x.fail(i, "live trie cannot answer the owner of every block: %s", out)
		} else if bad != "" {
			x.fail(i, "%s", bad)
		}
		x.tags["owners"] = true
		return out
	case "proof":
		return x.opProof(i, u64(f[1]), atoi(f[2]))
	case "tamper":
		return x.opTamper(i, f)
	case "recopy":
		// New(t.CopyRoot(lvl), same storage): a trie opened on a copy of the committed root
		lvl := atoi(f[1])
		out := guard(func() string {
			x.t = wmpt.New(x.t.CopyRoot(lvl), x.st)
			return "ok"
		})
		if out != "ok" {
			x.fail(i, "New(CopyRoot(%d), storage) failed: %s", lvl, out)
		}
		x.live = x.committed.clone()
		x.changed = nil
		x.dirty, x.hashedDirty = false, false
		x.cp = nil
		x.tags["recopy"] = true
		return out
	case "saveroot", "cproot":
		lvl := atoi(f[1])
		out := guard(func() string {
			if f[0] == "saveroot" {
				x.t.SaveRoot()
			} else {
				x.tags["checkpoint-without-saveroot"] = true
			}
			cp := &wcheckpoint{root: x.croot, weight: x.cweight, content: x.committed.clone(), nodes: map[string]bool{}, keysThen: x.st.keys()}
			canonRootW(cp.content, cp.nodes)
			if lvl == -2 {
				if cp.weight > 0 {
					cp.node = wmpt.NewHashNode(append([]byte(nil), cp.root...), cp.weight)
				}
			} else if lvl == -3 {
				cp.node = wmpt.NewHashNode(append([]byte(nil), cp.root...), cp.weight) // also for the empty checkpoint (weight 0)
			} else {
				cp.node = x.t.CopyRoot(lvl)
			}
			x.cp = cp
			return "ok"
		})
		if out != "ok" {
			x.fail(i, "%s failed: %s", f[0], out)
		}
		x.lastPuts = map[string]bool{}
		if x.dirty {
			x.tags["saveroot-while-dirty"] = true
		}
		return out
	case "rollback", "rollbacktrie":
		if x.cp == nil {
			return "skip"
		}
		return x.opRollback(i, f[0])
	case "getpath":
		var keys [][]byte
		if f[1] != "-" {
			for _, k := range strings.Split(f[1], ",") {
				keys = append(keys, unhx(k))
			}
		}
		x.hashRead()
		x.export = nil
		out := guard(func() string {
			data, err := x.t.GetPath(keys)
			if err != nil {
				return werr(err)
			}
			x.export = data
			return fmt.Sprintf("ok n=%d d=%s", len(data), hx(sha3sum(data))[:16])
		})
		if !strings.HasPrefix(out, "ok") {
			x.fail(i, "GetPath failed: %s", out)
		}
		x.tags[fmt.Sprintf("getpath-keys:%02d", len(keys))] = true
		return out
	case "import":
		if x.export == nil {
			return "skip"
		}
		x.part = wmpt.New(nil, nil)
		out := guard(func() string {
			if err := x.part.Deserialize(append([]byte(nil), x.export...)); err != nil {
				return "err"
			}
			return fmt.Sprintf("ok r=%x w=%d", x.part.Root(), x.part.Weight())
		})
		want := fmt.Sprintf("ok r=%x w=%d", canonRootW(x.live, nil), x.live.total())
		if out != want {
			x.fail(i, "import of the path export gives %q, the source trie has %q", out, want)
		}
		if src := guard(func() string { return fmt.Sprintf("ok r=%x w=%d", x.t.Root(), x.t.Weight()) }); src != want {
			x.fail(i, "source trie shows %q, its content has %q", src, want)
		}
		return out
	case "mupd", "mdel", "mupdel", "mupdel0":
		if x.part == nil {
			return "skip"
		}
		return x.opMirror(i, f)
	}
	panic("unknown op " + strings.Join(f, " "))
}

func guard2(f func() []byte) (out []byte) {
	defer func() {
		if r := recover(); r != nil {
			out = []byte("panic")
		}
	}()
	return f()
}

func (x *wrun) checkWeight(i int) {
	if got, want := x.t.Weight(), x.live.total(); got != want {
		x.fail(i, "Weight() = %d, sum of the live weights = %d", got, want)
	}
}

func (x *wrun) opProof(i int, b uint64, slot int) string {
	x.hashRead()
	var key, proof, h, v []byte
	out := guard(func() string {
		var err error
		key, proof, err = x.t.GetBlockProof(b)
		if err != nil {
			return werr(err)
		}
		h, v, err = wmpt.New(nil, nil).VerifyBlockProof(b, append([]byte(nil), proof...))
		if err != nil {
			return fmt.Sprintf("ok %x n=%d d=%s verify-%s", key, len(proof), hx(sha3sum(proof))[:16], werr(err))
		}
		return fmt.Sprintf("ok %x n=%d d=%s r=%x v=%x", key, len(proof), hx(sha3sum(proof))[:16], h, v)
	})
	wantKey, inRange := x.live.owner(b)
	if !inRange {
		if b >= 1 && out != "range" {
			x.fail(i, "proof of block %d beyond the total weight %d: got %q, want range", b, x.live.total(), out)
		}
		return out
	}
	root := canonRootW(x.live, nil)
	if !strings.HasPrefix(out, "ok") || string(key) != wantKey || !bytes.Equal(h, root) || !bytes.Equal(v, x.live[wantKey].val) {
		x.fail(i, "honest proof of block %d: got %q, want owner %x root %x value %x", b, wmClip(out, 300), wantKey, root, x.live[wantKey].val)
	} else {
		x.slots[slot] = &wslot{proof: proof, block: b, root: root, content: x.live.clone()}
		x.tags["proof-ok"] = true
	}
	return out
}

// afterCommit: bookkeeping and oracles once a commit's batch has been written (ops commit / commit2 / wbatch)
func (x *wrun) afterCommit(i int, lvl int, from int) string {
	es := x.newEntries(from)
	if x.dirty && x.hashedDirty {
		x.tags["commit-after-hash-read-on-dirty"] = true // the F1 defect (fixed by 8a63293): such a commit wrote nothing
	}
	x.commits++
	x.tags[fmt.Sprintf("commit-lvl:%d", lvl)] = true
	// keys written by the last commit that wrote anything since the checkpoint: a commit with nothing to write (a periodic
	// flush) keeps the list — Rollback still has to remove the real commit's nodes
	puts := map[string]bool{}
	for _, e := range es {
		for _, o := range e.ops {
			if !o.del {
				puts[o.k] = true
			}
		}
	}
	if len(puts) > 0 {
		x.lastPuts = puts
	}
	root := guard2(func() []byte { return x.t.Root() })
	x.croot, x.cweight = root, x.t.Weight()
	x.committed = x.live.clone()
	x.changed = nil
	for _, p := range x.f2Pend {
		p.committed = true
	}
	if x.st.fired() == x.fired0 && len(es) > 0 && len(es[0].ops) > 0 {
		x.commitReadFailed = false // a later commit that wrote something replaced the list
	}
	x.dirty, x.hashedDirty = false, false
	x.durable = append(x.durable, wdurable{x.st.logLen(), x.croot, x.cweight, x.committed})
	if want := canonRootW(x.live, nil); !bytes.Equal(root, want) {
		x.fail(i, "root after commit %x differs from the canonical root %x of the live content", root, want)
	}
	for _, m := range checkReopen("after the commit batch", x.st, x.croot, x.cweight, x.committed) {
		x.fail(i, "%s", m)
	}
	x.checkWeight(i)
	return fmt.Sprintf("ok r=%x w=%d %s", root, x.cweight, wmFmtEntries(es))
}

func (x *wrun) opRollback(i int, kind string) string {
	cp := x.cp
	from := x.st.logLen()
	cover := ""
	for k := range x.lastPuts {
		if cp.nodes[k] {
			// the commit being rolled back re-wrote a node whose hash belongs to the checkpoint (the defect fixed by b5c797f)
			x.tags["rolled-back-commit-rewrote-checkpoint-node"] = true
			break
		}
	}
	out := guard(func() string {
		if kind == "rollback" {
			x.t.Rollback()
		} else {
			x.t.RollbackTrie(cp.node)
		}
		return "ok"
	})
	if out != "ok" {
		x.failIn(cover, i, "%s failed: %s", kind, out)
		return out
	}
	x.tags[kind] = true
	es := x.newEntries(from)
	root := guard2(func() []byte { return x.t.Root() })
	weight := x.t.Weight()
	if !bytes.Equal(root, cp.root) || weight != cp.weight {
		x.failIn(cover, i, "after %s the trie shows root %x weight %d, the checkpoint was root %x weight %d", kind, root, weight, cp.root, cp.weight)
	}
	for _, m := range checkReopen("after "+kind, x.st, cp.root, cp.weight, cp.content) {
		x.failIn(cover, i, "checkpoint not intact: %s", m)
	}
	now := x.st.keys()
	var left []string
	for k := range x.lastPuts {
		if !cp.keysThen[k] && now[k] {
			left = append(left, k)
		}
	}
	if x.commitReadFailed {
		// a storage read failed inside the rolled-back Commit: since fix 955fb55 a node whose earlier existence could not be
		// established is kept out of the "created" list — the rollback leaves it behind (a leak) instead of risking a node of
		// the checkpoint; the checkpoint itself is held to the full oracle, now and after the following GC passes
		x.tags["rollback-after-commit-read-failure"] = true
		left = nil
		x.commitReadFailed = false
	}
	if x.st.fired() != x.fired0 {
		// the clean-up batch failed (Rollback has no error result): the rolled-back commit's nodes stay behind as orphans;
		// what must still hold is the checkpoint, now and after the following GC passes
		x.tags["rollback-cleanup-failed"] = true
		left = nil
	}
	if len(left) > 0 {
		sort.Strings(left)
		x.failIn(cover, i, "%d node(s) created by the rolled-back commit only are still in storage, e.g. %x", len(left), left[0])
	}
	x.live, x.committed = cp.content.clone(), cp.content.clone()
	x.changed = nil
	x.f2Pend = nil // Rollback clears the queues
	x.croot, x.cweight = cp.root, cp.weight
	x.dirty, x.hashedDirty = false, false
	x.lastPuts = map[string]bool{}
	x.durable = append(x.durable, wdurable{x.st.logLen(), x.croot, x.cweight, x.committed})
	return fmt.Sprintf("ok r=%x w=%d %s", root, weight, wmFmtEntries(es))
}

func (x *wrun) opMirror(i int, f []string) string {
	key := unhx(f[1])
	apply := func(t *wmpt.WeightedMerkleTrie) string {
		return guard(func() string {
			switch f[0] {
			case "mupd":
				return werr(t.Update(append([]byte(nil), key...), unhx(f[2]), u64(f[3])))
			case "mupdel":
				return werr(t.Update(append([]byte(nil), key...), nil, 0))
			case "mupdel0":
				return werr(t.Update(append([]byte(nil), key...), make([]byte, 0, 4), 0))
			default:
				ch, err := t.Delete(append([]byte(nil), key...))
				if err != nil {
					return werr(err)
				}
				return fmt.Sprintf("ok:%d", ch)
			}
		})
	}
	if f[0] == "mupd" && u64(f[3]) == 0 && len(unhx(f[2])) > 0 {
		return "zeroweight"
	}
	rs := apply(x.t)
	if !x.retrying && x.st.fired() != x.fired0 && !strings.HasPrefix(rs, "ok") && rs != "notfound" {
		return rs // an injected storage failure on the source trie: the imported trie is left alone, the op is retried on both
	}
	_, present := x.live[string(key)]
	if x.retrying && f[0] != "mupd" && present && rs == "notfound" {
		x.observe("delete-applied-halfway-before-the-storage-error")
		return rs
	}
	rp := apply(x.part)
	before, had := x.live[string(key)]
	if f[0] == "mupd" {
		if rs == "ok" {
			nw := u64(f[3])
			if had && bytes.Equal(before.val, unhx(f[2])) {
				nw = before.w
			}
			x.live[string(key)] = went{unhx(f[2]), nw}
			x.f2Change(string(key), before, had)
			x.muts++
		}
	} else if strings.HasPrefix(rs, "ok") {
		delete(x.live, string(key))
		x.f2Change(string(key), before, had)
		x.muts++
	}
	x.dirty = true
	x.noteContent()
	state := func(t *wmpt.WeightedMerkleTrie) string {
		return guard(func() string { return fmt.Sprintf("%x %d", t.Root(), t.Weight()) })
	}
	ss, sp := state(x.t), state(x.part)
	if rs == "panic" || rp == "panic" {
		x.fail(i, "the mirrored operation panicked: source %q, imported %q", rs, rp)
	}
	if rs != rp {
		x.fail(i, "the source trie answers %q, the imported trie %q", rs, rp)
	}
	if ss != sp {
		x.fail(i, "after the mirrored operation: source (root weight) = %s, imported = %s", ss, sp)
	}
	if want := fmt.Sprintf("%x %d", canonRootW(x.live, nil), x.live.total()); ss != want {
		x.fail(i, "source trie shows %s, its content has %s", ss, want)
	}
	if f[0] == "mupd" && rs != "ok" {
		x.fail(i, "update on the source trie failed: %s", rs)
	}
	if f[0] != "mupd" && present != strings.HasPrefix(rs, "ok") {
		x.fail(i, "delete on the source trie: key present=%v, result %s", present, rs)
	}
	return rs + " " + rp + " " + ss + " " + sp
}

// crashEnumeration replays every prefix of the storage-operation stream (batches are atomic) onto an empty store and
// requires the last durably committed root of that prefix to be fully resolvable with the content it had.
func (x *wrun) crashEnumeration(i int) {
	x.crashEnumerationUpTo(i, -1)
}

// crashEnumerationUpTo: limit >= 0 restricts the enumeration to the first `limit` storage operations and the states made
// durable within them
func (x *wrun) crashEnumerationUpTo(i int, limit int) {
	if i < 0 || len(x.durable) == 0 {
		return
	}
	log := x.newEntries(0)
	if limit >= 0 && limit < len(log) {
		log = log[:limit]
	}
	for p := 0; p <= len(log); p++ {
		var d *wdurable
		for k := range x.durable {
			if x.durable[k].n <= p {
				d = &x.durable[k]
			}
		}
		if d == nil {
			continue
		}
		st := replayStore(log, p)
		if ms := checkReopen(fmt.Sprintf("crash after storage operation %d of %d", p, len(log)), st, d.root, d.weight, d.content); len(ms) > 0 {
			x.fail(i, "%s", ms[0])
			return
		}
	}
	x.tags["crash-prefixes"] = true
}
