package main

// Generator of multi-round block/transaction/persist/prune histories for the suites c03, c04, c05 (op language:
// mptstore.go). Everything is derived from r.

import (
	"fmt"
	"math"
	"math/rand"
	"os"
	"sort"
	"strings"
)

type storeProfile struct {
	name                 string
	minRounds, maxRounds int
	maxTxns              int
	pDel                 int // % of mutating ops that are deletes
	pPrune               int // % chance of a prune after a save
	pCrashSave           int
	pRecreate            int // % chance of an explicit delete-then-recreate pattern per round
	pObserve             int
	pFork                int // % chance that a saved round is executed again at the same version with other transactions
	pBump                int // % chance of a SetVersion bump of the block trie inside a round
	pSaveFault           int // % chance of a SaveChanges fault-path op before the save
	pSync                int // % chance that a round starts with a MergeDB from a donor store
	pSyncBack            int // % chance that a round, after deleting/overwriting earlier-round content, moves by MergeDB to a donor built off the state it started from
	pReads               int // % chance, at each of the points below, of a sweep of point lookups / an iteration THROUGH the trie objects themselves
	pSnap                int // % chance that a transaction's change set is taken (GetChanges), the transaction writes on, and the earlier set is merged
}

var (
	profC03 = storeProfile{name: "c03", minRounds: 1, maxRounds: 3, maxTxns: 4, pDel: 35, pPrune: 10, pCrashSave: 5, pRecreate: 15, pObserve: 60, pFork: 5, pBump: 8, pSync: 6, pSaveFault: 3, pSyncBack: 4, pSnap: 15, pReads: 45}
	profC04 = storeProfile{name: "c04", minRounds: 2, maxRounds: 5, maxTxns: 3, pDel: 35, pPrune: 15, pCrashSave: 40, pRecreate: 20, pObserve: 25, pFork: 8, pBump: 25, pSync: 20, pSaveFault: 25, pSyncBack: 8, pSnap: 5, pReads: 20}
	profC05 = storeProfile{name: "c05", minRounds: 3, maxRounds: 6, maxTxns: 3, pDel: 45, pPrune: 60, pCrashSave: 10, pRecreate: 50, pObserve: 25, pFork: 25, pBump: 8, pSync: 6, pSaveFault: 3, pSyncBack: 20, pSnap: 4, pReads: 20}
)

// genSaveFail switches the generation of `save-fail` ops on (see round()); on since fix 2aff805.
const genSaveFail = true

type gTrie struct {
	id, parent int
	content    map[string]string
	stale      bool
	noRead     bool // an ancestor was operated on since this trie was opened: its reads go through the ancestor's store and may fail
}

type storeGen struct {
	r                *rand.Rand
	prof             storeProfile
	ops              []string
	keys             []string
	tries            map[int]*gTrie
	nextID           int
	version          int
	saved            []int // versions of the saved rounds
	savedMap         map[string]string
	savedMaps        []map[string]string // content of every saved round (parallel to saved)
	superseded       []bool
	usedVersions     map[int]bool
	saveFailAttempts int
	inFork           bool // the current round re-executes a saved round at the same version (no version bumps there)
	verShapes        bool // version changes while children are open, children filled by MergeDB (on since fix 280766e; VERIF_VERSION_SHAPES=0 switches them off)
	pruned           int
}

var prefixCuts = []int{0, 1, 2, 3, 5, 8, 16, 31, 32, 61, 62, 63}

func genKeyUniverse(r *rand.Rand) []string {
	var keys []string
	n := 3 + r.Intn(7)
	if r.Intn(100) < 45 {
		// production-shaped: 64 nibbles, shared prefixes of many lengths
		const hexd = "0123456789abcdef"
		rnd := func(n int) string {
			b := make([]byte, n)
			for i := range b {
				b[i] = hexd[r.Intn(16)]
			}
			return string(b)
		}
		keys = append(keys, rnd(64))
		for len(keys) < n {
			base := keys[r.Intn(len(keys))]
			cut := prefixCuts[r.Intn(len(prefixCuts))]
			k := base[:cut] + rnd(64-cut)
			if k[cut] == base[cut] { // force a divergence right after the shared prefix
				b := []byte(k)
				b[cut] = hexd[(strings.IndexByte(hexd, base[cut])+1+r.Intn(15))%16]
				k = string(b)
			}
			keys = append(keys, k)
		}
		return keys
	}
	alpha := pathAlphabets[r.Intn(3)]
	seen := map[string]bool{}
	for tries := 0; len(keys) < n && tries < 100; tries++ {
		k := genPath(r, alpha, keys)
		if len(k) > 8 || len(k)%2 == 1 || seen[k] {
			continue
		}
		seen[k] = true
		keys = append(keys, k)
	}
	if len(keys) == 0 {
		keys = []string{"ab"}
	}
	return keys
}

func (g *storeGen) emit(f string, a ...interface{}) { g.ops = append(g.ops, fmt.Sprintf(f, a...)) }

// value: a small fixed set per key so that identical content is re-created often
func (g *storeGen) value(k string) string {
	switch g.r.Intn(10) {
	case 0:
		return genValue(g.r)
	default:
		h := 0
		for _, c := range k {
			h = h*31 + int(c)
		}
		return fmt.Sprintf("%02x%02x", 0x41+g.r.Intn(2), byte(h))
	}
}

func (g *storeGen) presentKey(t *gTrie) (string, bool) {
	if len(t.content) == 0 {
		return "", false
	}
	ks := make([]string, 0, len(t.content))
	for _, k := range g.keys {
		if _, ok := t.content[k]; ok {
			ks = append(ks, k)
		}
	}
	if len(ks) == 0 {
		return "", false
	}
	return ks[g.r.Intn(len(ks))], true
}

func (g *storeGen) mutate(t *gTrie) {
	if g.r.Intn(100) < g.prof.pDel {
		k, ok := g.presentKey(t)
		if !ok || g.r.Intn(100) < 12 {
			k = g.keys[g.r.Intn(len(g.keys))]
		}
		g.emit("del %d %s", t.id, ptok(k))
		g.touch(t.id) // the generator's content view is approximate: the delete may succeed all the same
		if _, ok := t.content[k]; !ok {
			return // fails with notpresent: nothing changes
		}
		delete(t.content, k)
	} else {
		k := g.keys[g.r.Intn(len(g.keys))]
		v := g.value(k)
		g.emit("ins %d %s %s", t.id, ptok(k), v)
		t.content[k] = v
	}
	g.markStale(t.id)
}

// touch: trie id was operated on (own op, accepted merge into it, MergeDB, SetVersion): its open descendants are not read
// through their own objects any more (the root of id may have moved even where the content did not)
func (g *storeGen) touch(id int) {
	for _, t := range g.tries {
		if t.parent == id && t.id != id && !t.noRead {
			t.noRead = true
			g.touch(t.id)
		}
	}
}

func (g *storeGen) markStale(parent int) {
	g.touch(parent)
	for _, t := range g.tries {
		if t.parent == parent && t.id != parent && !t.stale {
			t.stale = true
			g.markStale(t.id)
		}
	}
}

func (g *storeGen) someOps(t *gTrie, max int) {
	n := 1 + g.r.Intn(max)
	for i := 0; i < n; i++ {
		if g.r.Intn(100) < 10 {
			g.emit("get %d %s", t.id, ptok(g.keys[g.r.Intn(len(g.keys))]))
		} else {
			g.mutate(t)
		}
	}
}

func (g *storeGen) open(parent int) *gTrie {
	p := g.tries[parent]
	t := &gTrie{id: g.nextID, parent: parent, content: map[string]string{}}
	g.nextID++
	for k, v := range p.content {
		t.content[k] = v
	}
	g.tries[t.id] = t
	g.emit("child %d %d", t.id, parent)
	return t
}

func (g *storeGen) drop(id int) {
	for _, t := range g.tries {
		if t.parent == id && t.id != id {
			g.drop(t.id)
		}
	}
	delete(g.tries, id)
}

func storeSameContent(a, b map[string]string) bool {
	if len(a) != len(b) {
		return false
	}
	for k, v := range a {
		if w, ok := b[k]; !ok || w != v {
			return false
		}
	}
	return true
}

func (g *storeGen) mergeFlags(keep bool) string {
	fl := ""
	if g.r.Intn(100) < 40 {
		fl += " raw" // through the exported MergeChanges(child.GetChanges())
	}
	if keep {
		fl += " keep"
	}
	return fl
}

func (g *storeGen) merge(t *gTrie) {
	g.reads()
	g.mergeX(t, false)
	g.reads()
}

// mergeX: with keep the child stays open after an accepted merge (it goes on and is merged again)
func (g *storeGen) mergeX(t *gTrie, keep bool) {
	p := g.tries[t.parent]
	g.emit("merge %d%s", t.id, g.mergeFlags(keep))
	g.touch(p.id)
	if !t.stale {
		if !storeSameContent(p.content, t.content) {
			g.markStale(p.id) // the other children of p are stale now
		}
		p.content = map[string]string{}
		for k, v := range t.content {
			p.content[k] = v
		}
		if keep {
			t.stale = true // a second merge of this child starts from the parent's OLD root: rejected
		} else {
			g.drop(t.id)
		}
		return
	}
	// a stale merge is rejected; the trie stays open until discarded; sometimes it is retried
	if g.r.Intn(100) < 30 {
		g.emit("merge %d%s", t.id, g.mergeFlags(false))
	}
}

func (g *storeGen) discard(t *gTrie) {
	g.emit("discard %d", t.id)
	g.drop(t.id)
	g.reads()
}

func (g *storeGen) maybeObserve(id int) {
	if g.r.Intn(100) < g.prof.pObserve {
		g.emit("observe %d", id)
	}
}

// unusedPast returns a version below the block trie's current one at which this store never executed (-1: none)
func (g *storeGen) unusedPast() int {
	for c := g.version - 1; c >= 0 && c >= g.version-5; c-- {
		if !g.usedVersions[c] {
			return c
		}
	}
	return -1
}

// versionShape: before a child is merged: the parent (block trie) is bumped by SetVersion
// while children are open, or the child's own version is changed, or the child is filled by MergeDB from a donor - the
// merged nodes then carry an origin other than the parent's version at merge time
func (g *storeGen) versionShape(c *gTrie) {
	if !g.verShapes || g.r.Intn(100) >= 35 {
		return
	}
	x := g.r.Intn(3)
	if x == 0 && g.inFork {
		x = 1
	}
	switch x {
	case 0:
		g.version += 1 + g.r.Intn(2)
		g.usedVersions[g.version] = true
		g.emit("ver 0 %d", g.version)
	case 1:
		if w := g.unusedPast(); w >= 0 {
			g.usedVersions[w] = true
			g.emit("ver %d %d", c.id, w)
			g.someOps(c, 2)
		}
	default:
		if w := g.unusedPast(); w >= 0 && !c.stale {
			g.usedVersions[w] = true
			c.content = map[string]string{}
			var kvs []string
			for i, n := 0, 1+g.r.Intn(3); i < n; i++ {
				k := g.keys[g.r.Intn(len(g.keys))]
				if _, dup := c.content[k]; dup {
					continue
				}
				v := g.value(k)
				c.content[k] = v
				kvs = append(kvs, ptok(k)+"="+v)
			}
			g.reads()
			g.emit("syncinto %d %d %s", c.id, w, strings.Join(kvs, ","))
			g.markStale(c.id)
			g.reads()
		}
	}
}

// snapMerge: the change set of c is taken now (`snap`), c writes on, then the EARLIER set is merged into the parent
// through the exported MergeChanges (`mergesnap`): the parent must get c's state at snapshot time. c stays open.
func (g *storeGen) snapMerge(c *gTrie, parentMoves bool) {
	p := g.tries[c.parent]
	at := map[string]string{}
	for k, v := range c.content {
		at[k] = v
	}
	g.emit("snap %d", c.id)
	g.someOps(c, 4)
	g.maybeObserve(c.id)
	if parentMoves {
		g.someOps(p, 2) // the change set is stale now: rejected (a stale trie is not operated on any more)
	}
	g.reads()
	g.emit("mergesnap %d", c.id)
	g.touch(p.id)
	c.noRead = true
	if !c.stale {
		if !storeSameContent(p.content, at) {
			g.markStale(p.id)
		}
		p.content = at
		c.stale = true
	}
	g.maybeObserve(p.id)
}

// syncBack: content stored by an earlier round is deleted / overwritten in this round (on the block trie or in a
// transaction that is merged), then - in the same round - the trie moves by MergeDB to the root of a donor that was built
// off the state the round started from (that state plus a few inserts): the donor's store holds the very nodes this round
// reported as replaced, and they are live again. Directly on the block trie, or inside a transaction that is then merged.
func (g *storeGen) syncBack() {
	blk := g.tries[0]
	if len(g.savedMap) == 0 || len(g.tries) != 1 {
		return
	}
	kill := func(t *gTrie) {
		for i, n := 0, 1+g.r.Intn(3); i < n; i++ {
			var ks []string
			for _, k := range g.keys {
				if _, ok := g.savedMap[k]; ok {
					if _, ok := t.content[k]; ok {
						ks = append(ks, k)
					}
				}
			}
			if len(ks) == 0 {
				return
			}
			k := ks[g.r.Intn(len(ks))]
			if g.r.Intn(2) == 0 {
				g.emit("del %d %s", t.id, ptok(k))
				delete(t.content, k)
			} else {
				v := genValue(g.r)
				g.emit("ins %d %s %s", t.id, ptok(k), v)
				t.content[k] = v
			}
			g.markStale(t.id)
		}
	}
	target := blk
	switch g.r.Intn(3) {
	case 0: // the block trie kills and syncs
		kill(blk)
	case 1: // a transaction kills and is merged, the block trie syncs
		c := g.open(0)
		kill(c)
		g.merge(c)
	default: // the block trie (or the transaction itself) kills, a transaction syncs and is merged
		if g.r.Intn(2) == 0 {
			kill(blk)
		}
		target = g.open(0)
		if g.r.Intn(2) == 0 {
			kill(target)
		}
	}
	content := map[string]string{}
	for k, v := range g.savedMap {
		content[k] = v
	}
	kvs := "-"
	w := g.unusedPast()
	if w >= 0 && g.r.Intn(100) < 60 {
		var l []string
		for i, n := 0, 1+g.r.Intn(3); i < n; i++ {
			k := g.keys[g.r.Intn(len(g.keys))]
			v := g.value(k)
			content[k] = v
			l = append(l, ptok(k)+"="+v)
		}
		g.usedVersions[w] = true
		kvs = strings.Join(l, ",")
	} else {
		w = g.version
	}
	g.reads()
	if target.id == 0 {
		g.emit("syncfrom %d %s base", w, kvs)
	} else {
		g.emit("syncinto %d %d %s base", target.id, w, kvs)
	}
	target.content = content
	g.markStale(target.id)
	g.reads()
	g.maybeObserve(target.id)
	if target.id != 0 {
		g.merge(target)
		g.maybeObserve(0)
	}
}

// bulk: a batch of pseudo-random inserts in one op
func (g *storeGen) bulk(t *gTrie) {
	n, seed := 2+g.r.Intn(10), g.r.Uint64()
	g.emit("bulk %d %d %d", t.id, n, seed)
	x := seed
	for i := 0; i < n; i++ {
		var p string
		var v []byte
		x, p, v = bulkNext(x)
		t.content[p] = hx(v)
	}
	g.markStale(t.id)
}

// reads: point lookups (GetNodeValueRaw / GetNodeValue, present and absent paths) and sometimes an iteration through the
// trie OBJECTS themselves - every open trie that is not stale (a stale trie's reads may fail, see the assumptions). Emitted
// before a child is opened / changed and again after merges, MergeDB and discards, so that anything a trie object caches
// per path (or per node) is exercised across the operations of OTHER tries that change what it must answer.
func (g *storeGen) reads() {
	if g.r.Intn(100) >= g.prof.pReads {
		return
	}
	ids := make([]int, 0, len(g.tries))
	for id, t := range g.tries {
		if !t.stale && !t.noRead {
			ids = append(ids, id)
		}
	}
	sort.Ints(ids)
	for _, id := range ids {
		if id != 0 && g.r.Intn(2) == 0 {
			continue
		}
		for _, k := range g.keys {
			if g.r.Intn(100) < 70 {
				op := "get"
				if g.r.Intn(3) == 0 {
					op = "getv"
				}
				g.emit("%s %d %s", op, id, ptok(k))
			}
		}
		if g.r.Intn(4) == 0 {
			g.emit("iter %d", id)
		}
	}
}

func (g *storeGen) txn() {
	g.reads()
	defer g.reads()
	blk := g.tries[0]
	switch x := g.r.Intn(100); {
	case x < 50: // one transaction, optionally with a nested one
		c := g.open(0)
		if g.r.Intn(100) < 1 {
			g.bulk(c)
		}
		g.someOps(c, 4)
		if g.r.Intn(100) < 30 {
			gc := g.open(c.id)
			g.someOps(gc, 3)
			g.maybeObserve(gc.id)
			g.versionShape(gc)
			if g.r.Intn(100) < 65 {
				g.merge(gc)
			} else {
				g.discard(gc)
			}
			if g.r.Intn(100) < 50 {
				g.someOps(c, 2)
			}
		}
		g.versionShape(c)
		g.maybeObserve(c.id)
		g.maybeObserve(0)
		if g.r.Intn(100) < g.prof.pSnap {
			g.snapMerge(c, false)
			if g.r.Intn(2) == 0 {
				g.someOps(c, 2)
			}
			if g.r.Intn(100) < 60 {
				g.mergeX(c, false) // rejected unless the child is back at the parent's state
			}
			if _, open := g.tries[c.id]; open {
				g.discard(c)
			}
			return
		}
		switch y := g.r.Intn(100); {
		case y < 15:
			// the child keeps working after its merge and is merged again (rejected: it started from the old root)
			g.mergeX(c, true)
			if _, open := g.tries[c.id]; open {
				g.someOps(c, 3)
				g.maybeObserve(c.id)
				g.mergeX(c, false)
				g.maybeObserve(0)
				if _, open := g.tries[c.id]; open {
					g.discard(c)
				}
			}
		case y < 70:
			g.merge(c)
		default:
			g.discard(c)
		}
	case x < 80: // concurrent siblings opened at the same parent root
		n := 2 + g.r.Intn(2)
		var cs []*gTrie
		for i := 0; i < n; i++ {
			cs = append(cs, g.open(0))
		}
		for i, m := 0, 2+g.r.Intn(5); i < m; i++ {
			g.someOps(cs[g.r.Intn(n)], 2)
		}
		for _, c := range cs {
			g.maybeObserve(c.id)
		}
		g.versionShape(cs[g.r.Intn(n)])
		g.r.Shuffle(n, func(i, j int) { cs[i], cs[j] = cs[j], cs[i] })
		for _, c := range cs {
			if g.r.Intn(100) < 70 {
				g.merge(c)
				if _, open := g.tries[c.id]; open { // rejected as stale
					g.discard(c)
				}
			} else {
				g.discard(c)
			}
			g.maybeObserve(0)
		}
	default: // the parent moves on while a child is open
		c := g.open(0)
		g.someOps(c, 3)
		if g.r.Intn(100) < g.prof.pSnap {
			g.snapMerge(c, true)
		} else {
			g.someOps(blk, 2)
		}
		if g.r.Intn(100) < 70 {
			g.merge(c)
		}
		if _, open := g.tries[c.id]; open {
			g.discard(c)
		}
	}
}

func (g *storeGen) round(fork bool) {
	g.inFork = fork
	if !fork {
		g.version += 1 + g.r.Intn(3)
	}
	// the round continues from the latest saved round below its version that was not executed again
	for i := range g.saved {
		if g.saved[i] >= g.version {
			g.superseded[i] = true
		}
	}
	g.savedMap = map[string]string{}
	for i := len(g.saved) - 1; i >= 0; i-- {
		if !g.superseded[i] {
			g.savedMap = g.savedMaps[i]
			break
		}
	}
	kind := ""
	if len(g.saved) == 0 {
		// the first round of a case may run on a parent that is not over a LevelNodeDB
		switch x := g.r.Intn(100); {
		case x < 10:
			kind = " mem"
		case x < 20:
			kind = " pndb"
		}
	}
	g.usedVersions[g.version] = true
	g.emit("round %d%s", g.version, kind)
	blk := &gTrie{id: 0, parent: 0, content: map[string]string{}}
	for k, v := range g.savedMap {
		blk.content[k] = v
	}
	g.tries = map[int]*gTrie{0: blk}
	g.nextID = 1
	if g.r.Intn(100) < g.prof.pSync {
		// state sync: the block trie takes over a donor's nodes, which keep the donor's origin
		// the donor's origin is below the version of the merging round (state is synced from the past; a node of a
		// FUTURE origin could be killed now and re-created identically when that version comes) and is not a version
		// this store ever executed a round at (a synced node identical to one this store once recorded dead would be
		// live again under a dead key)
		w := -1
		for c := g.version - 1; c >= 0 && c >= g.version-4; c-- {
			if !g.usedVersions[c] {
				w = c
				break
			}
		}
		if w >= 0 {
			n := 1 + g.r.Intn(4)
			blk.content = map[string]string{}
			var kvs []string
			for i := 0; i < n; i++ {
				k := g.keys[g.r.Intn(len(g.keys))]
				if _, dup := blk.content[k]; dup {
					continue
				}
				v := g.value(k)
				blk.content[k] = v
				kvs = append(kvs, ptok(k)+"="+v)
			}
			g.emit("syncfrom %d %s", w, strings.Join(kvs, ","))
			g.usedVersions[w] = true // no later child version / donor origin may repeat it (identical nodes would come back under dead keys)
		}
	}
	if g.r.Intn(100) < 2 {
		g.bulk(blk) // small batches: the model driver checks its closed form of a batch against the literal model
	}
	if g.r.Intn(100) < 30 {
		g.someOps(blk, 3)
	}
	if g.r.Intn(100) < g.prof.pRecreate {
		// delete-then-recreate of identical content: within this round, or across rounds (the saved content of
		// an earlier round is re-created by value())
		if k, ok := g.presentKey(blk); ok {
			v := blk.content[k]
			c := g.open(0)
			g.emit("del %d %s", c.id, ptok(k))
			delete(c.content, k)
			if g.r.Intn(2) == 0 {
				g.merge(c)
				c = g.open(0)
			}
			g.emit("ins %d %s %s", c.id, ptok(k), v)
			c.content[k] = v
			g.merge(c)
		}
	}
	for i, n := 0, 1+g.r.Intn(g.prof.maxTxns); i < n; i++ {
		g.txn()
		if !fork && len(g.tries) == 1 && g.r.Intn(100) < g.prof.pBump {
			// the block trie is carried over a version bump before its (only) save; no child is open
			g.version += 1 + g.r.Intn(2)
			g.usedVersions[g.version] = true
			g.emit("ver 0 %d", g.version)
		}
	}
	if g.r.Intn(100) < g.prof.pSyncBack {
		g.syncBack()
	}
	g.maybeObserve(0)
	if g.r.Intn(100) < g.prof.pSaveFault {
		// fault paths of SaveChanges: a failing batch write, a save that times out while its batch is stalled
		switch x := g.r.Intn(3); {
		case x == 0 && genSaveFail:
			g.emit("save-fail %d", g.saveFailAttempts)
		case x == 1:
			g.emit("save-timeout a")
		default:
			g.emit("save-timeout b")
		}
	}
	if g.r.Intn(100) < g.prof.pCrashSave {
		g.emit("crash-save %d", g.r.Intn(3))
	} else {
		g.emit("save")
	}
	g.saved = append(g.saved, g.version)
	g.savedMaps = append(g.savedMaps, g.tries[0].content)
	g.superseded = append(g.superseded, false)
	g.savedMap = g.tries[0].content
	if g.r.Intn(100) < 50 {
		g.emit("reopen %d", g.r.Intn(len(g.saved)))
	}
	if g.r.Intn(100) < 25 {
		g.emit("pstore")
	}
	if !fork && g.r.Intn(100) < g.prof.pFork {
		// a competing block of the same round: executed and saved again at the same version, with other transactions,
		// before anything above this version is pruned (the chain continues from the later execution)
		g.round(true)
		return
	}
	if g.r.Intn(100) < g.prof.pPrune {
		// prune version: half of the time a saved version (or one below it); otherwise from the whole boundary set of
		// the int64 parameter: negative, 0, 1, the first saved version and its neighbours, every saved version +-1,
		// beyond the last saved version, MaxInt64
		v := int64(g.saved[g.r.Intn(len(g.saved))])
		if g.r.Intn(4) == 0 && v > 1 {
			v--
		}
		if g.r.Intn(100) < 50 {
			first, last := int64(g.saved[0]), int64(g.saved[len(g.saved)-1])
			bs := []int64{-1, -1 - int64(g.r.Intn(1000)), math.MinInt64, 0, 1, first - 1, first, first + 1, last + 1, last + 1 + int64(g.r.Intn(5)), math.MaxInt64, math.MaxInt64 - 1}
			for _, sv := range g.saved {
				bs = append(bs, int64(sv)-1, int64(sv)+1)
			}
			v = bs[g.r.Intn(len(bs))]
		}
		if g.r.Intn(100) < 30 {
			g.emit("crash-prune %d %d", v, g.r.Intn(3))
		} else {
			g.emit("prune %d", v)
		}
		for i := range g.saved {
			g.emit("reopen %d", i)
		}
		if g.r.Intn(100) < 50 {
			g.emit("pstore")
		}
	}
}

func genStoreCase(prof storeProfile) func(r *rand.Rand, tier string, idx int) []string {
	return func(r *rand.Rand, tier string, idx int) []string {
		// a few large histories per run that sit exactly at the batch constants of the code (mptstore_big.go)
		switch {
		case prof.name == "c03" && idx%800 == 250:
			return genBigChanges(r, true)
		case prof.name == "c04" && idx%300 == 150:
			return genBigChanges(r, false)
		case prof.name == "c05" && idx%350 == 100:
			return genBigPrune(r, idx/350)
		}
		g := &storeGen{r: r, prof: prof, keys: genKeyUniverse(r), version: r.Intn(4), savedMap: map[string]string{}, usedVersions: map[int]bool{}, saveFailAttempts: 60, verShapes: os.Getenv("VERIF_VERSION_SHAPES") != "0"}
		if tier == "thorough" {
			g.saveFailAttempts = 400
		}
		rounds := prof.minRounds + r.Intn(prof.maxRounds-prof.minRounds+1)
		if tier == "thorough" && r.Intn(4) == 0 {
			rounds += 1 + r.Intn(4)
		}
		for i := 0; i < rounds; i++ {
			g.round(false)
		}
		g.emit("pstore")
		return g.ops
	}
}

// genBigDead: few, large histories whose rounds record more than 1000 dead nodes, so that PruneBelowVersion takes
// its multi-batch path (oracle only: too large for the model driver).
func genBigDead(r *rand.Rand, tier string, idx int) []string {
	if idx >= 24 {
		// these cases are large (seconds and hundreds of MB each): a global VERIF_N override must not multiply them
		return []string{"light", "round 1", "ins 0 ab 41", "save"}
	}
	const hexd = "0123456789abcdef"
	n := 850 + r.Intn(300)
	keys := make([]string, n)
	for i := range keys {
		b := make([]byte, 64)
		for j := range b {
			b[j] = hexd[r.Intn(16)]
		}
		keys[i] = string(b)
	}
	var ops []string
	emit := func(f string, a ...interface{}) { ops = append(ops, fmt.Sprintf(f, a...)) }
	v := 1 + r.Intn(3)
	emit("light")
	emit("round %d", v)
	for _, k := range keys {
		emit("ins 0 %s 41%02x", k, r.Intn(256))
	}
	emit("save")
	versions := []int{v}
	rounds := 3 + r.Intn(2)
	for i := 0; i < rounds; i++ {
		v += 1 + r.Intn(2)
		versions = append(versions, v)
		emit("round %d", v)
		emit("child 1 0")
		frac := 100
		if i > 0 {
			frac = 20 + r.Intn(60)
		}
		for _, k := range keys {
			if r.Intn(100) >= frac {
				continue
			}
			if r.Intn(100) < 30 {
				emit("del 1 %s", k)
			} else {
				emit("ins 1 %s 42%02x", k, r.Intn(256))
			}
		}
		emit("merge 1")
		emit("save")
	}
	pv := versions[2+r.Intn(len(versions)-2)]
	emit("prune %d", pv)
	for i := range versions {
		emit("reopen %d", i)
	}
	if pv < v {
		emit("prune %d", v)
		emit("reopen %d", len(versions)-1)
	}
	return ops
}
