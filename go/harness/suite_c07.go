package main

// Suite c07 — "Cache writes are private until commit and values are never shared" (core/statecache, util nodes).
// Same op language and oracle as c06 (sccommon.go) with two additions in Run:
//   * every value handed to Set and every value returned by Get is scribbled over in place right after the call
//     (byte slices with identity, or real trie nodes LeafNode/FullNode/ExtensionNode/ValueNode whose Clone is
//     encode/decode); every later lookup at every layer must still return the value the oracle recorded;
//   * strict mode: privacy = a hit where the context's own chain has nothing (or a different value) is a failure;
//     publish = a miss where the chain holds a value is a failure while no LRU capacity has been exceeded.
// The first op line is `mode bytes` or `mode node`.

import (
	"fmt"
	"math/rand"

	"github.com/0chain/common/core/util"
)

func genNodeTok(r *rand.Rand, salt int) string {
	hexp := func(n int) util.Path {
		b := make([]byte, n)
		for i := range b {
			b[i] = "0123456789abcdef"[r.Intn(16)]
		}
		return util.Path(b)
	}
	val := func() *util.SecureSerializableValue {
		b := make([]byte, 1+r.Intn(6))
		r.Read(b)
		b[0] = byte(salt)
		return &util.SecureSerializableValue{Buffer: b}
	}
	key := func() util.Key {
		b := make([]byte, 32)
		r.Read(b)
		b[0] = byte(salt)
		b[1] = byte(salt >> 8)
		return b
	}
	var n util.Node
	switch r.Intn(5) {
	case 4:
		vn := util.NewValueNode()
		vn.SetValue(val())
		vn.SetOrigin(util.Sequence(r.Intn(50)))
		n = vn
	case 0:
		n = util.NewLeafNode(hexp(r.Intn(4)), hexp(1+r.Intn(5)), util.Sequence(r.Intn(50)), val())
	case 1:
		fn := util.NewFullNode(nil)
		if r.Intn(2) == 0 {
			fn.SetValue(val())
		}
		for i, c := 0, 1+r.Intn(4); i < c; i++ {
			fn.PutChild("0123456789abcdef"[r.Intn(16)], key())
		}
		fn.SetOrigin(util.Sequence(r.Intn(50)))
		n = fn
	case 2:
		en := util.NewExtensionNode(hexp(1+r.Intn(5)), key())
		en.SetOrigin(util.Sequence(r.Intn(50)))
		n = en
	default:
		ln := util.NewLeafNode(nil, hexp(2+r.Intn(3)), util.Sequence(salt%97), val())
		n = ln
	}
	return hx(n.Encode())
}

func genC07(r *rand.Rand, tier string, idx int) []string {
	g := &c06gen{r: r, node: idx%2 == 1, noRemove: true}
	for i, n := 0, 1+r.Intn(2); i < n; i++ {
		g.keys = append(g.keys, fmt.Sprintf("k%d", i+1))
	}
	if idx%4 == 2 {
		g.initAdv() // colliding names (hashes / keys of different lengths, prefixes and suffixes of one string)
	}
	if g.node {
		g.emit("mode node")
	} else {
		g.emit("mode bytes")
	}
	// prelude: a committed base block, two children with two transactions each, a grandchild
	g.emit("blk b0 g0 -")
	for _, k := range g.keys {
		if r.Intn(3) != 0 {
			g.emit("bset b0 %s %s", k, g.val())
		}
	}
	g.emit("bcommit b0")
	g.blocks = append(g.blocks, &c06gBlock{bid: "b0", hash: "g0", prev: "-", committed: true})
	g.hashes = append(g.hashes, "g0")
	for i := 0; i < 2+r.Intn(2); i++ {
		g.newBlockWithParent([]string{"g0", "g0", ""}[r.Intn(3)])
		b := g.blocks[len(g.blocks)-1]
		for j := 0; j < 1+r.Intn(2); j++ {
			g.nt++
			t := fmt.Sprintf("t%d", g.nt)
			b.txns = append(b.txns, t)
			g.txns = append(g.txns, t)
			g.emit("txn %s %s", t, b.bid)
		}
	}
	if r.Intn(3) == 0 {
		// several NewEmpty caches beside the ordinary ones: each is a private world — what one writes or commits
		// must never show through another, nor through any block / state cache of the case
		for i, n := 0, 2+r.Intn(2); i < n; i++ {
			g.nt++
			t := fmt.Sprintf("e%d", g.nt)
			g.txns = append(g.txns, t)
			g.emit("empty %s", t)
			for _, k := range g.keys {
				switch r.Intn(4) {
				case 0, 1:
					g.emit("tset %s %s %s", t, k, g.val())
				case 2:
					g.emit("trem %s %s", t, k)
				}
			}
			if r.Intn(2) == 0 {
				g.emit("tcommit %s", t)
			}
		}
	}
	maxOps := 40
	if tier == "thorough" {
		maxOps = 100
	}
	n := 12 + r.Intn(maxOps)
	for len(g.ops) < n {
		if r.Intn(3) == 0 {
			g.lookup()
		} else {
			g.stepRandom()
		}
	}
	// closing sweep through all layers: every transaction, every block cache, every hash
	for _, k := range g.keys {
		for _, t := range g.txns {
			g.emit("tget %s %s", t, k)
		}
		for _, b := range g.blocks {
			g.emit("bget %s %s", b.bid, k)
			g.emit("sget %s %s", k, b.hash)
		}
	}
	g.querySweep()
	return g.ops
}

func (g *c06gen) newBlockWithParent(prev string) {
	if prev == "" {
		g.newBlock()
		return
	}
	g.nb++
	b := &c06gBlock{bid: fmt.Sprintf("b%d", g.nb), hash: g.freshHash(g.nb), prev: prev}
	g.blocks = append(g.blocks, b)
	g.hashes = append(g.hashes, b.hash)
	g.emit("blk %s %s %s", b.bid, b.hash, b.prev)
}

func init() {
	register(&Suite{
		Name: "c07",
		Rule: "random histories of set/remove/get/commit over several transaction caches per block and several block caches (committed, uncommitted, abandoned, all commit orders) with mutable values — byte slices with identity (even cases) and real trie nodes LeafNode / FullNode with and without a value / ExtensionNode / ValueNode; several statecache.NewEmpty() caches (private worlds), NewBlockTxnCaches, block caches on a fresh state cache with the same hashes (odd cases) — where every value handed in or out is mutated in place right after the call and re-read through transaction, block, query and state layers; strict oracle (privacy: no foreign hit; publish: no miss within capacity); non-trivial = at least one hit from a pending layer and one hit from a committed ancestor, with at least 2 commits",
		Gen:  genC07,
		Run: func(ops []string) CaseResult {
			return runSCSeq(ops, true, true, func(w *scWorld) bool { return w.layerHits > 0 && w.ancestorHits > 0 && w.mutations >= 2 })
		},
		DefaultN: func(tier string) int {
			if tier == "thorough" {
				return 60000
			}
			return 3000
		},
	})
}
