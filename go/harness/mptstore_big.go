package main

// Boundary cases of the store-layer suites: a few LARGE histories per run whose change sets and dead sets sit exactly at
// the batch/size constants of the code (read from lean/Verif/Gen/Constants.lean, so a changed constant re-parameterises
// them): BatchSize-1, BatchSize, BatchSize+1, 2*BatchSize, 2*BatchSize+1 pending changes at a save or a merge;
// maxPruneNodes-1, maxPruneNodes, maxPruneNodes+1, 2*maxPruneNodes+1 dead keys in one record, and records whose
// cumulative size reaches maxPruneNodes exactly; prunes over them with and without a crash between the delete batches.
// The histories consist of `bulk` ops (64-bit generator shared with the model driver); the generator finds the batch
// lengths by running the same inserts on a scratch trie and watching the collector.

import (
	"context"
	"fmt"
	"math/rand"
	"os"
	"strings"
	"time"

	"github.com/0chain/common/core/util"
)

var bigDebug = os.Getenv("VERIF_BIG_DEBUG") != ""

type bigSeg struct {
	n    int
	seed uint64
}

// the scratch state after the finished rounds: a memory store and the root (checkpointed by copying the store)
type bigSim struct {
	db   *util.MemoryNodeDB
	root util.Key
}

func newBigSim() *bigSim { return &bigSim{db: util.NewMemoryNodeDB()} }

func bigCloneDB(db *util.MemoryNodeDB) *util.MemoryNodeDB {
	c := util.NewMemoryNodeDB()
	_ = db.Iterate(context.Background(), func(ctx context.Context, key util.Key, node util.Node) error {
		return c.PutNode(append(util.Key(nil), key...), node.CloneNode())
	})
	return c
}

func bigApply(t *util.MerklePatriciaTrie, segs []bigSeg) {
	for _, sg := range segs {
		x := sg.seed
		for j := 0; j < sg.n; j++ {
			var p string
			var v []byte
			x, p, v = bulkNext(x)
			if _, err := t.Insert([]byte(p), mkVal(v)); err != nil {
				panic("scratch insert failed: " + err.Error())
			}
		}
	}
}

// a trie with a fresh collector on a copy of the scratch state
type bigTrie struct {
	db  *util.MemoryNodeDB
	mpt *util.MerklePatriciaTrie
}

func (b *bigSim) open(version int64) *bigTrie {
	db := bigCloneDB(b.db)
	return &bigTrie{db, newMPT(db, version, b.root)}
}

// fork: a copy of an open trie including its collector state
func (t *bigTrie) fork() *bigTrie {
	db := bigCloneDB(t.db)
	m := newMPT(db, int64(t.mpt.GetVersion()), t.mpt.GetRoot())
	m.ChangeCollector = t.mpt.ChangeCollector.Clone()
	return &bigTrie{db, m}
}

// commit: the round is finished
func (b *bigSim) commit(t *bigTrie) { b.db, b.root = t.db, t.mpt.GetRoot() }

// the sizes of the collector's maps (GetChanges / GetDeletes would hash every node on every call)
func bigChanges(t *util.MerklePatriciaTrie) int {
	return len(t.ChangeCollector.(*util.ChangeCollector).Changes)
}
func bigDead(t *util.MerklePatriciaTrie) int {
	return len(t.ChangeCollector.(*util.ChangeCollector).Deletes)
}

// sweep inserts the keys of seed one at a time into t; returns the number of inserts at which metric == target (ok), or
// the largest number of inserts with metric <= target (not ok; t has then gone one insert too far)
func (t *bigTrie) sweep(seed uint64, target, max int, metric func(*util.MerklePatriciaTrie) int) (int, bool) {
	x := seed
	for j := 0; j <= max; j++ {
		m := metric(t.mpt)
		if m == target {
			return j, true
		}
		if m > target {
			return j - 1, false
		}
		var p string
		var v []byte
		x, p, v = bulkNext(x)
		if _, err := t.mpt.Insert([]byte(p), mkVal(v)); err != nil {
			panic("scratch insert failed: " + err.Error())
		}
	}
	return max, false
}

// fit finds the segments of a round at `version` (starting with prefix) whose metric is exactly target, and commits it
func (b *bigSim) fit(r *rand.Rand, version int64, prefix []bigSeg, target int, metric func(*util.MerklePatriciaTrie) int) []bigSeg {
	t0 := time.Now()
	start := b.open(version)
	bigApply(start.mpt, prefix)
	if bigDebug {
		fmt.Println("prefix applied", time.Since(t0))
	}
	for try := 0; try < 400; try++ {
		seed := r.Uint64()
		t := start.fork()
		if j, ok := t.sweep(seed, target, 4*target+64, metric); ok {
			segs := append([]bigSeg(nil), prefix...)
			if j > 0 || len(segs) == 0 {
				segs = append(segs, bigSeg{j, seed})
			}
			b.commit(t)
			if bigDebug {
				fmt.Println("fit target", target, "tries", try+1, "j", j, time.Since(t0))
			}
			return segs
		}
	}
	panic(fmt.Sprintf("boundary generator: no batch with metric %d found", target))
}

func bulkOp(id int, segs []bigSeg) string {
	var sb strings.Builder
	fmt.Fprintf(&sb, "bulk %d", id)
	for _, sg := range segs {
		fmt.Fprintf(&sb, " %d %d", sg.n, sg.seed)
	}
	return sb.String()
}

// genBigChanges (c04; c03 with viaChild): change sets of exactly BatchSize-1 .. 2*BatchSize+1 nodes, saved (with crash
// enumeration over the save's writes) or merged from a child trie
func genBigChanges(r *rand.Rand, viaChild bool) []string {
	bs := leanConst("batchSize", 256)
	targets := []int{bs - 1, bs, bs + 1, 2 * bs, 2*bs + 1}
	if viaChild {
		targets = targets[:3] // merges are not split into batches in the code; the literal model of a merge is slow
	}
	r.Shuffle(len(targets), func(i, j int) { targets[i], targets[j] = targets[j], targets[i] })
	sim := newBigSim()
	version := int64(1 + r.Intn(3))
	ops := []string{fmt.Sprintf("round %d", version), "light"}
	base := []bigSeg{{bs + r.Intn(bs), r.Uint64()}}
	bt := sim.open(version)
	bigApply(bt.mpt, base)
	sim.commit(bt)
	ops = append(ops, bulkOp(0, base), "save")
	nSaved := 1
	for i, tg := range targets {
		if viaChild {
			// all children of one round: each is merged before the next is opened
			if i == 0 {
				version += int64(1 + r.Intn(2))
				ops = append(ops, fmt.Sprintf("round %d", version), "light")
			}
			segs := sim.fit(r, version, nil, tg, bigChanges)
			id := i + 1
			ops = append(ops, fmt.Sprintf("child %d 0", id), bulkOp(id, segs))
			if r.Intn(2) == 0 {
				ops = append(ops, fmt.Sprintf("merge %d raw", id))
			} else {
				ops = append(ops, fmt.Sprintf("merge %d", id))
			}
			continue
		}
		version += int64(1 + r.Intn(2))
		segs := sim.fit(r, version, nil, tg, bigChanges)
		ops = append(ops, fmt.Sprintf("round %d", version), "light", bulkOp(0, segs))
		if r.Intn(3) == 0 {
			ops = append(ops, fmt.Sprintf("crash-save %d", r.Intn(2)))
		} else {
			ops = append(ops, "save")
		}
		nSaved++
		ops = append(ops, fmt.Sprintf("reopen %d", nSaved-1))
	}
	if viaChild {
		ops = append(ops, "save", "reopen 1")
		nSaved++
	}
	ops = append(ops, fmt.Sprintf("prune %d", version), fmt.Sprintf("reopen %d", nSaved-1), "pstore")
	return ops
}

// genBigPrune (c05): dead-node records of exactly maxPruneNodes-1 .. 2*maxPruneNodes+1 keys, and records whose
// cumulative size reaches maxPruneNodes exactly; staged prunes, some crashed between the delete batches and resumed
func genBigPrune(r *rand.Rand, flavour int) []string {
	mp := leanConst("maxPruneNodes", 1000)
	sim := newBigSim()
	version := int64(1 + r.Intn(3))
	ops := []string{fmt.Sprintf("round %d", version), "light 2"}
	baseSeed := r.Uint64()
	baseN := (2*mp + 1) * 4 / 5
	base := []bigSeg{{baseN, baseSeed}}
	bt := sim.open(version)
	bigApply(bt.mpt, base)
	sim.commit(bt)
	ops = append(ops, bulkOp(0, base), "save")
	versions := []int64{version}
	// a round with exactly `target` dead keys: the first m base keys are written again (their leaves and the nodes
	// above them die), topped up with fresh keys
	deadRound := func(target int) {
		version += int64(1 + r.Intn(2))
		var prefix []bigSeg
		if target > 40 {
			if m, _ := sim.open(version).sweep(baseSeed, target-25, baseN, bigDead); m > 0 {
				prefix = []bigSeg{{m, baseSeed}}
			}
		}
		segs := sim.fit(r, version, prefix, target, bigDead)
		ops = append(ops, fmt.Sprintf("round %d", version), bulkOp(0, segs), "save")
		versions = append(versions, version)
	}
	var targets []int
	switch flavour % 2 {
	case 0: // single records at the boundaries
		// maxPruneNodes first: the gathered keys reach the constant EXACTLY at a record boundary, more records follow
		targets = []int{mp, mp - 1, mp + 1, 2*mp + 1}
		if flavour%4 != 0 {
			targets = targets[:3] // the record of 2*maxPruneNodes+1 keys only in the first large case of a run (cost)
		}
	default: // cumulative: a small record, then one that completes maxPruneNodes exactly, then one more, then a full one
		version += int64(1 + r.Intn(2))
		small := []bigSeg{{1, r.Uint64()}}
		t := sim.open(version)
		bigApply(t.mpt, small)
		d := bigDead(t.mpt)
		sim.commit(t)
		ops = append(ops, fmt.Sprintf("round %d", version), bulkOp(0, small), "save")
		versions = append(versions, version)
		targets = []int{mp - d, mp + 1, mp - 1}
	}
	for _, tg := range targets {
		deadRound(tg)
	}
	reopenAll := func() {
		for i := range versions {
			ops = append(ops, fmt.Sprintf("reopen %d", i))
		}
	}
	prune := func(v int64) {
		if r.Intn(2) == 0 {
			ops = append(ops, fmt.Sprintf("crash-prune %d %d", v, 1+r.Intn(2)))
		} else {
			ops = append(ops, fmt.Sprintf("prune %d", v))
		}
		reopenAll()
	}
	last := versions[len(versions)-1]
	switch r.Intn(3) {
	case 0: // everything at once
		prune(last + 1)
	case 1: // the first three records (the gathered keys hit maxPruneNodes exactly inside this prune), then the rest
		prune(versions[3] + 1)
		prune(last + 1)
	default: // the same, then record by record
		for _, v := range versions[3:] {
			prune(v + 1)
		}
	}
	ops = append(ops, fmt.Sprintf("prune %d", last+1), "pstore")
	return ops
}
