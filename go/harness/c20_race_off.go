//go:build !race

package main

func c20RaceErrors() int { return 0 }

const c20RaceEnabled = false
