package main

// Suite c15deep — weighted-trie importers on deep hash-consistent chains terminate promptly (the "terminate promptly" half
// of C15; no Lean model follows these inputs: the model re-hashes like the implementation and is far slower).
//
//	deepd <kind> <depth> <seed>   build a chain of <depth> single-child nodes above a value node (kind 0: branches, 1: one-
//	                              nibble short nodes, 2: alternating; some 80 bytes per level, every claimed hash right),
//	                              New(nil,nil).Deserialize(export), then the follow-up operations of c15wmpt  -> ok | err | panic
//	deepv <kind> <depth> <seed>   the same pairs as a block proof: New(nil,nil).VerifyBlockProof(1, proof)      -> ok | err | panic
//
// Oracles (timed, followUps of suite_c15wmpt.go): no panic; every decode within max(50 ms, 1 s per 100 kB of input), the
// minimum of two runs, and the case run again alone before a promptness failure counts. (VerifyBlockProof used to re-hash
// the whole path below every level — quadratic in the depth of the proof; fixed by 75bbdaf.)

import (
	"fmt"
	"math/rand"
	"strings"
	"time"

	"github.com/0chain/common/core/util/wmpt"
)

func runC15Deep(ops []string) CaseResult {
	res := CaseResult{}
	tags := map[string]bool{}
	for i, op := range ops {
		f := strings.Fields(op)
		kind, depth, seed := atoi(f[1]), atoi(f[2]), int64(atoi(f[3]))
		c := cchain(rand.New(rand.NewSource(seed)), depth, kind)
		data := marshalPairs(c.pairs, -1)
		var out string
		switch f[0] {
		case "deepd":
			var loaded *wmpt.WeightedMerkleTrie
			out = timed(i, &res, "Deserialize", len(data), func() string {
				t := wmpt.New(nil, nil)
				if err := t.Deserialize(append([]byte(nil), data...)); err != nil {
					return "err"
				}
				loaded = t
				return "ok"
			})
			if out != "ok" {
				res.Fails = append(res.Fails, fmt.Sprintf("op %d: Deserialize rejects a hash-consistent chain: %s", i, out))
			} else {
				followUps(i, &res, "Deserialize", loaded, data)
			}
		case "deepv":
			out = timed(i, &res, "VerifyBlockProof", len(data), func() string {
				if _, _, err := wmpt.New(nil, nil).VerifyBlockProof(1, append([]byte(nil), data...)); err != nil {
					return "err"
				}
				return "ok"
			})
		default:
			panic("unknown op " + op)
		}
		tags[fmt.Sprintf("%s:kind%d:depth%d:%s", f[0], kind, depth, out)] = true
		res.Outs = append(res.Outs, out)
	}
	for t := range tags {
		res.Tags = append(res.Tags, t)
	}
	res.Nontrivial = true
	return res
}

func genC15Deep(r *rand.Rand, tier string, idx int) []string {
	kind := idx % 3
	depths := []int{100, 500, 1000, 2000}
	depth := depths[(idx/3)%len(depths)]
	seed := r.Intn(1 << 30)
	ops := []string{fmt.Sprintf("deepd %d %d %d", kind, depth, seed)}
	ops = append(ops, fmt.Sprintf("deepv %d %d %d", kind, depth, seed))
	return ops
}

func init() {
	register(&Suite{
		Name:        "c15deep",
		Rule:        "hash-consistent chains of 100 / 500 / 1000 / 2000 single-child branches, one-nibble short nodes or both alternating above a value node (about 80 bytes per level), as a path export for Deserialize (followed by proofs, exports, updates and deletes on the loaded trie) and as a block proof for VerifyBlockProof (all depths): no panic, every decode within max(50 ms, 1 s per 100 kB of input); non-trivial = every case",
		Gen:         genC15Deep,
		Run:         runC15Deep,
		CaseTimeout: 5 * time.Minute,
		DefaultN: func(tier string) int {
			if tier == "thorough" {
				return 48
			}
			return 12
		},
	})
}
