module verifextract

go 1.21
