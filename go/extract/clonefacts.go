package main

// CloneFacts: every statement of core/statecache that stores into a cache map / LRU, forwards a cached entry to
// another cache, resets a cache map, or returns cached data, with whether the value goes through Clone().

import (
	"fmt"
	"go/ast"
	"go/token"
	"sort"
	"strings"
)

type cloneSite struct {
	id, file, fn string
	ordinal      int
	line         int
	role         string // store forward reset ret
	target       string
	expr         string
	valueKind    string // value nilValue deletedMarker nonValue container emptyMap unknown
	cloned       bool
	how          string // cloneCall literalClone freshLiteral priorAssign delegate nilLit noData nonValue container emptyMap cacheToCache notCloned unknown
	crossing     bool   // the value crosses the cache/client boundary at this site
}

var cacheTypes = map[string]bool{"StateCache": true, "BlockCache": true, "TransactionCache": true, "QueryBlockCache": true}

func isCloneCall(e ast.Expr) bool {
	ce, ok := e.(*ast.CallExpr)
	if !ok || len(ce.Args) != 0 {
		return false
	}
	se, ok := ce.Fun.(*ast.SelectorExpr)
	return ok && se.Sel.Name == "Clone"
}

func selName(e ast.Expr) string {
	if se, ok := e.(*ast.SelectorExpr); ok {
		return se.Sel.Name
	}
	return ""
}

type cloneFn struct {
	p      *pkgSrc
	fd     *ast.FuncDecl
	params map[string]string // name -> type text
}

// definition finds the expression a local identifier was defined from, looking only at definitions that
// precede pos: `x := e`, `x, ok := e`, `for k, x := range e` (returns the ranged expression, ranged=true).
func (cf *cloneFn) definition(name string, pos token.Pos) (def ast.Expr, ranged bool) {
	ast.Inspect(cf.fd.Body, func(n ast.Node) bool {
		if n == nil {
			return true
		}
		if n.Pos() >= pos {
			return false
		}
		switch x := n.(type) {
		case *ast.AssignStmt:
			for i, l := range x.Lhs {
				if id, ok := l.(*ast.Ident); ok && id.Name == name {
					if len(x.Lhs) == len(x.Rhs) {
						def, ranged = x.Rhs[i], false
					} else if len(x.Rhs) == 1 && i == 0 {
						def, ranged = x.Rhs[0], false
					}
				}
			}
		case *ast.RangeStmt:
			if id, ok := x.Value.(*ast.Ident); ok && id.Name == name {
				def, ranged = x.X, true
			}
		}
		return true
	})
	return
}

// priorDataClone: is there, before pos, an assignment `name.data = <...>.Clone()`?
func (cf *cloneFn) priorDataClone(name string, pos token.Pos) bool {
	found := false
	ast.Inspect(cf.fd.Body, func(n ast.Node) bool {
		as, ok := n.(*ast.AssignStmt)
		if !ok || as.Pos() >= pos || len(as.Lhs) != 1 || len(as.Rhs) != 1 {
			return true
		}
		if se, ok := as.Lhs[0].(*ast.SelectorExpr); ok && se.Sel.Name == cacheDataField {
			if id, ok := se.X.(*ast.Ident); ok && id.Name == name && isCloneCall(as.Rhs[0]) {
				found = true
			}
		}
		return true
	})
	return found
}

// fromCache: does the expression read an entry out of a cache map / LRU?
func (cf *cloneFn) fromCache(e ast.Expr, pos token.Pos, depth int) bool {
	if depth > 4 {
		return false
	}
	switch x := e.(type) {
	case *ast.TypeAssertExpr:
		return cf.fromCache(x.X, pos, depth+1)
	case *ast.IndexExpr:
		return selName(x.X) == "cache"
	case *ast.SelectorExpr: // ranged expression: X.cache
		return x.Sel.Name == "cache"
	case *ast.CallExpr:
		n := selName(x.Fun)
		return n == "Get" || n == "Peek"
	case *ast.Ident:
		if d, _ := cf.definition(x.Name, pos); d != nil {
			return cf.fromCache(d, pos, depth+1)
		}
	}
	return false
}

func (cf *cloneFn) classify(e ast.Expr, role string) (kind string, cloned bool, how string, crossing bool) {
	isRet := role == "ret"
	switch x := e.(type) {
	case *ast.Ident:
		if x.Name == "nil" {
			return "nilValue", true, "nilLit", false
		}
		if t, ok := cf.params[x.Name]; ok {
			switch t {
			case "string", "int64", "int", "bool":
				return "nonValue", true, "nonValue", false
			}
		}
		if d, _ := cf.definition(x.Name, e.Pos()); d != nil {
			dd := d
			if ta, ok := dd.(*ast.TypeAssertExpr); ok {
				if strings.Contains(cf.p.text(ta.Type), "lru.Cache") {
					return "container", true, "container", false
				}
			}
			if ce, ok := dd.(*ast.CallExpr); ok && cf.p.text(ce.Fun) == "lru.New" {
				return "container", true, "container", false
			}
		}
		if cf.priorDataClone(x.Name, e.Pos()) {
			return "value", true, "priorAssign", true
		}
		if cf.fromCache(x, e.Pos(), 0) {
			if isRet {
				return "value", false, "notCloned", true
			}
			return "value", false, "cacheToCache", false
		}
		if t, ok := cf.params[x.Name]; ok && (t == "Value" || t == cacheValueType) {
			return "value", false, "notCloned", true
		}
		return "unknown", false, "unknown", true
	case *ast.CallExpr:
		if isCloneCall(x) {
			return "value", true, "cloneCall", true
		}
		if isRet && selName(x.Fun) == "Get" {
			return "value", true, "delegate", true
		}
		if id, ok := x.Fun.(*ast.Ident); ok && id.Name == "make" {
			return "emptyMap", true, "emptyMap", false
		}
		return "unknown", false, "unknown", true
	case *ast.CompositeLit:
		if id, ok := x.Type.(*ast.Ident); ok && id.Name == cacheValueType {
			for _, el := range x.Elts {
				kv, ok := el.(*ast.KeyValueExpr)
				if !ok {
					return "unknown", false, "unknown", true
				}
				if k, ok := kv.Key.(*ast.Ident); ok && k.Name == cacheDataField {
					if isCloneCall(kv.Value) {
						return "value", true, "literalClone", true
					}
					if ue, ok := kv.Value.(*ast.UnaryExpr); ok && ue.Op == token.AND {
						if _, ok := ue.X.(*ast.CompositeLit); ok {
							return "value", true, "freshLiteral", false
						}
					}
					return "value", false, "notCloned", true
				}
			}
			return "deletedMarker", true, "noData", false
		}
	}
	return "unknown", false, "unknown", true
}

// the cached-value struct and its client-value field, found by structure: the struct type with a field of type Value
var cacheValueType, cacheDataField = "valueNode", "data"

func findCacheValueStruct(scp *pkgSrc) {
	for _, fn := range scp.names {
		for _, d := range scp.files[fn].Decls {
			gd, ok := d.(*ast.GenDecl)
			if !ok || gd.Tok != token.TYPE {
				continue
			}
			for _, sp := range gd.Specs {
				ts := sp.(*ast.TypeSpec)
				if st, ok := ts.Type.(*ast.StructType); ok {
					for _, fl := range st.Fields.List {
						if id, ok := fl.Type.(*ast.Ident); ok && id.Name == "Value" && len(fl.Names) == 1 {
							cacheValueType, cacheDataField = ts.Name.Name, fl.Names[0].Name
						}
					}
				}
			}
		}
	}
}

func genCloneFacts(scp *pkgSrc) string {
	findCacheValueStruct(scp)
	var sites []cloneSite
	for _, fn := range scp.names {
		for _, d := range scp.files[fn].Decls {
			fd, ok := d.(*ast.FuncDecl)
			if !ok || fd.Body == nil {
				continue
			}
			_, rt := recvOf(fd)
			if !cacheTypes[rt] || fd.Name.Name == "Clone" || fd.Name.Name == "CopyFrom" {
				continue
			}
			cf := &cloneFn{p: scp, fd: fd, params: map[string]string{}}
			for _, f := range fd.Type.Params.List {
				for _, n := range f.Names {
					cf.params[n.Name] = scp.text(f.Type)
				}
			}
			returnsValue := false
			if fd.Type.Results != nil {
				for _, f := range fd.Type.Results.List {
					if scp.text(f.Type) == "Value" {
						returnsValue = true
					}
				}
			}
			ord := 0
			fname := rt + "." + fd.Name.Name
			emit := func(n ast.Node, role, target string, val ast.Expr) {
				ord++
				s := cloneSite{file: fn, fn: fname, ordinal: ord, line: scp.line(n), role: role, target: target, expr: scp.text(val)}
				s.id = fmt.Sprintf("%s:%d", fname, ord) // independent of the file the method stands in
				s.valueKind, s.cloned, s.how, s.crossing = cf.classify(val, role)
				if role == "reset" && s.valueKind != "emptyMap" {
					s.valueKind, s.cloned, s.how, s.crossing = "unknown", false, "unknown", true
				}
				sites = append(sites, s)
			}
			ast.Inspect(fd.Body, func(n ast.Node) bool {
				switch x := n.(type) {
				case *ast.FuncLit:
					return true
				case *ast.AssignStmt:
					for i, l := range x.Lhs {
						var r ast.Expr
						if len(x.Lhs) == len(x.Rhs) {
							r = x.Rhs[i]
						} else {
							continue
						}
						if ix, ok := l.(*ast.IndexExpr); ok {
							if _, isSel := ix.X.(*ast.SelectorExpr); isSel {
								emit(x, "store", scp.text(ix.X), r)
							}
						}
						if se, ok := l.(*ast.SelectorExpr); ok && se.Sel.Name == "cache" {
							emit(x, "reset", scp.text(l), r)
						}
					}
				case *ast.CallExpr:
					switch selName(x.Fun) {
					case "Add", "ContainsOrAdd", "PeekOrAdd":
						if len(x.Args) == 2 {
							emit(x, "store", scp.text(x.Fun.(*ast.SelectorExpr).X), x.Args[1])
						}
					case "setValue":
						if len(x.Args) == 2 {
							emit(x, "forward", scp.text(x.Fun.(*ast.SelectorExpr).X), x.Args[1])
						}
					}
				case *ast.ReturnStmt:
					if returnsValue && len(x.Results) > 0 {
						emit(x, "ret", "caller", x.Results[0])
					}
				}
				return true
			})
		}
	}
	sort.SliceStable(sites, func(i, j int) bool {
		if sites[i].fn != sites[j].fn {
			return sites[i].fn < sites[j].fn
		}
		return sites[i].ordinal < sites[j].ordinal
	})
	var sb strings.Builder
	sb.WriteString(genHeader)
	sb.WriteString(`namespace Verif.Gen.CloneFacts

inductive Role | store | forward | reset | ret
  deriving DecidableEq, Repr

inductive ValueKind | value | nilValue | deletedMarker | nonValue | container | emptyMap | unknown
  deriving DecidableEq, Repr

inductive How
  | cloneCall | literalClone | freshLiteral | priorAssign | delegate | nilLit | noData | nonValue | container | emptyMap
  | cacheToCache | notCloned | unknown
  deriving DecidableEq, Repr

/-- one store / forward / reset / return site of core/statecache; identity = Type.method:ordinal -/
structure Site where
  id : String
  file : String
  func : String
  ordinal : Nat
  line : Nat            -- for the replay message only
  role : Role
  target : String       -- the map / LRU / cache stored into, "caller" for returns
  expr : String         -- the stored / returned expression
  valueKind : ValueKind
  cloned : Bool         -- the value is syntactically a fresh copy (or carries no client-visible data)
  how : How
  crossing : Bool       -- data crosses the cache / client boundary here (caller -> cache or cache -> caller)
  deriving DecidableEq, Repr

`)
	var items []string
	for _, s := range sites {
		items = append(items, fmt.Sprintf("{ id := %s, file := %s, func := %s, ordinal := %d, line := %d, role := .%s, target := %s,\n      expr := %s, valueKind := .%s, cloned := %s, how := .%s, crossing := %s }",
			leanStr(s.id), leanStr(s.file), leanStr(s.fn), s.ordinal, s.line, s.role, leanStr(s.target), leanStr(s.expr), s.valueKind, leanBool(s.cloned), s.how, leanBool(s.crossing)))
	}
	sb.WriteString("def sites : List Site :=\n  " + leanList(items, "  ") + "\n\n")
	sb.WriteString(`/-- every value that crosses the cache/client boundary is a fresh copy -/
def allCrossingCloned : Bool := sites.all (fun s => !s.crossing || s.cloned)

/-- nothing the extractor could not classify -/
def noUnknown : Bool := sites.all (fun s => s.valueKind != .unknown && s.how != .unknown)

/-- the sites that are not clones (cache-internal moves), for inspection -/
def notCloned : List String := (sites.filter (fun s => !s.cloned)).map (·.id)

end Verif.Gen.CloneFacts
`)
	return sb.String()
}
