package main

// AppendFacts: every append( call in core/util/merkle_patricia_trie.go and core/util/mpt_node.go, classified by
// what its first argument syntactically is. The aliasing hazard (DESIGN.md §7 #4) is an append whose first
// argument is a slice held by a stored node (nodeImpl.Path, nnode.Path, ...): it may write into the backing array
// that other nodes share.

import (
	"fmt"
	"go/ast"
	"go/token"
	"sort"
	"strings"
)

type appendSite struct {
	id, file, fn string
	ordinal      int
	line         int
	arg          string
	cls          string // freshLocal param derefParam recvField nodeField aliasField unknown
	selfAssign   bool   // result assigned back to the very expression appended to (x = append(x, ...))
}

type appendFn struct {
	p       *pkgSrc
	fd      *ast.FuncDecl
	recv    string
	isNode  bool // methods in mpt_node.go: the receiver itself is a node
	params  map[string]bool
	results map[string]bool
}

func (af *appendFn) lastDef(name string, pos token.Pos) (def ast.Expr, isVarDecl bool) {
	ast.Inspect(af.fd.Body, func(n ast.Node) bool {
		if n == nil {
			return true
		}
		if n.Pos() >= pos {
			return false
		}
		switch x := n.(type) {
		case *ast.AssignStmt:
			for i, l := range x.Lhs {
				if id, ok := l.(*ast.Ident); ok && id.Name == name {
					if len(x.Lhs) == len(x.Rhs) {
						// x = append(x, ...) grows the slice, it does not redefine where it comes from
						if ce, ok := x.Rhs[i].(*ast.CallExpr); ok && x.Tok != token.DEFINE {
							if f, ok := ce.Fun.(*ast.Ident); ok && f.Name == "append" && len(ce.Args) > 0 {
								if a, ok := ce.Args[0].(*ast.Ident); ok && a.Name == name {
									continue
								}
							}
						}
						if se, ok := x.Rhs[i].(*ast.SliceExpr); ok && x.Tok != token.DEFINE { // x = x[:n]: the same backing array
							if a, ok := se.X.(*ast.Ident); ok && a.Name == name {
								continue
							}
						}
						def, isVarDecl = x.Rhs[i], false
					}
				}
			}
		case *ast.DeclStmt:
			if gd, ok := x.Decl.(*ast.GenDecl); ok && gd.Tok == token.VAR {
				for _, sp := range gd.Specs {
					vs := sp.(*ast.ValueSpec)
					for i, id := range vs.Names {
						if id.Name == name {
							if i < len(vs.Values) {
								def, isVarDecl = vs.Values[i], false
							} else {
								def, isVarDecl = nil, true
							}
						}
					}
				}
			}
		}
		return true
	})
	return
}

func (af *appendFn) classify(e ast.Expr, pos token.Pos, depth int) string {
	if depth > 4 {
		return "unknown"
	}
	switch x := e.(type) {
	case *ast.ParenExpr:
		return af.classify(x.X, pos, depth+1)
	case *ast.SelectorExpr:
		if id, ok := x.X.(*ast.Ident); ok && id.Name == af.recv && !af.isNode {
			return "recvField"
		}
		return "nodeField"
	case *ast.StarExpr:
		if id, ok := x.X.(*ast.Ident); ok && af.params[id.Name] {
			return "derefParam"
		}
		return "unknown"
	case *ast.SliceExpr: // x[a:b] shares x's backing array
		c := af.classify(x.X, pos, depth+1)
		if c == "freshLocal" {
			return "freshLocal"
		}
		return c
	case *ast.CompositeLit:
		return "freshLocal"
	case *ast.CallExpr:
		switch f := x.Fun.(type) {
		case *ast.Ident:
			switch f.Name {
			case "make", "concat":
				return "freshLocal"
			case "append":
				if len(x.Args) > 0 {
					return af.classify(x.Args[0], pos, depth+1)
				}
			}
		case *ast.SelectorExpr: // pkg.F(args): what it returns may be (a grown version of) a slice handed in
			if id, ok := f.X.(*ast.Ident); ok && id.Name != af.recv && id.Obj == nil {
				for _, a := range x.Args {
					if c := af.classify(a, pos, depth+1); c == "param" || c == "derefParam" {
						return "param"
					}
				}
			}
		case *ast.ArrayType: // []byte(x) conversion copies for strings; for slices it aliases: look inside
			if len(x.Args) == 1 {
				if _, isLit := x.Args[0].(*ast.BasicLit); isLit {
					return "freshLocal"
				}
				return af.classify(x.Args[0], pos, depth+1)
			}
		}
		return "unknown"
	case *ast.Ident:
		if x.Name == "nil" {
			return "freshLocal"
		}
		def, isVar := af.lastDef(x.Name, pos)
		if isVar {
			return "freshLocal" // var x []T: nil slice
		}
		if def != nil {
			c := af.classify(def, def.Pos(), depth+1)
			if c == "nodeField" || c == "recvField" {
				return "aliasField"
			}
			return c
		}
		if af.params[x.Name] {
			return "param"
		}
		if af.results[x.Name] {
			return "freshLocal" // a named result: nil on entry
		}
		return "unknown"
	}
	return "unknown"
}

func genAppendFacts(util *pkgSrc) string {
	var sites []appendSite
	// every non-test file of the package: the table does not depend on which file a function stands in
	for _, fn := range util.names {
		f := util.files[fn]
		for _, d := range f.Decls {
			fd, ok := d.(*ast.FuncDecl)
			if !ok || fd.Body == nil {
				continue
			}
			rn, rt := recvOf(fd)
			af := &appendFn{p: util, fd: fd, recv: rn, isNode: strings.HasSuffix(rt, "Node"), params: map[string]bool{}} // methods of the node types
			for _, pf := range fd.Type.Params.List {
				for _, n := range pf.Names {
					af.params[n.Name] = true
				}
			}
			af.results = map[string]bool{}
			if fd.Type.Results != nil {
				for _, rf := range fd.Type.Results.List {
					for _, n := range rf.Names {
						af.results[n.Name] = true
					}
				}
			}
			fname := fd.Name.Name
			if rt != "" {
				fname = rt + "." + fname
			}
			ord := 0
			// closure parameters count as parameters too
			ast.Inspect(fd.Body, func(n ast.Node) bool {
				if fl, ok := n.(*ast.FuncLit); ok {
					for _, pf := range fl.Type.Params.List {
						for _, nm := range pf.Names {
							af.params[nm.Name] = true
						}
					}
				}
				return true
			})
			var visit func(n ast.Node, assignedTo ast.Expr)
			record := func(ce *ast.CallExpr, assignedTo ast.Expr) {
				ord++
				s := appendSite{file: fn, fn: fname, ordinal: ord, line: util.line(ce)}
				s.id = fmt.Sprintf("%s:%d", fname, ord)
				if len(ce.Args) == 0 {
					s.cls = "unknown"
				} else {
					s.arg = util.text(ce.Args[0])
					s.cls = af.classify(ce.Args[0], ce.Pos(), 0)
					s.selfAssign = assignedTo != nil && util.text(assignedTo) == s.arg
				}
				sites = append(sites, s)
			}
			visit = func(n ast.Node, assignedTo ast.Expr) {
				ast.Inspect(n, func(x ast.Node) bool {
					switch y := x.(type) {
					case *ast.AssignStmt:
						if len(y.Lhs) == len(y.Rhs) {
							for i, r := range y.Rhs {
								if ce, ok := r.(*ast.CallExpr); ok {
									if id, ok := ce.Fun.(*ast.Ident); ok && id.Name == "append" {
										record(ce, y.Lhs[i])
										for _, a := range ce.Args {
											visit(a, nil)
										}
										continue
									}
								}
								visit(r, nil)
							}
							for _, l := range y.Lhs {
								visit(l, nil)
							}
							return false
						}
					case *ast.CallExpr:
						if id, ok := y.Fun.(*ast.Ident); ok && id.Name == "append" {
							record(y, nil)
						}
					}
					return true
				})
			}
			visit(fd.Body, nil)
		}
	}
	sort.SliceStable(sites, func(i, j int) bool {
		if sites[i].fn != sites[j].fn {
			return sites[i].fn < sites[j].fn
		}
		return sites[i].ordinal < sites[j].ordinal
	})
	var sb strings.Builder
	sb.WriteString(genHeader)
	sb.WriteString(`namespace Verif.Gen.AppendFacts

/-- what the first argument of an append( syntactically is -/
inductive Target
  | freshLocal   -- a local defined from make / a composite literal / concat / nil
  | param        -- a slice parameter of the enclosing function (caller-owned backing array)
  | derefParam   -- *p for a pointer parameter (an accumulator handed in by the caller)
  | recvField    -- a field of the trie itself (mpt.missingNodeKeys ...)
  | nodeField    -- a field of a node or of another stored structure (nodeImpl.Path, nnode.Path, ...): the hazard
  | aliasField   -- a local that was defined from such a field
  | unknown
  deriving DecidableEq, Repr

/-- one append( call; identity = function:ordinal -/
structure Site where
  id : String
  file : String
  func : String
  ordinal : Nat
  line : Nat          -- for the replay message only
  arg : String        -- first argument as written
  target : Target
  selfAssign : Bool   -- x = append(x, ...)
  deriving DecidableEq, Repr

`)
	var items []string
	for _, s := range sites {
		items = append(items, fmt.Sprintf("{ id := %s, file := %s, func := %s, ordinal := %d, line := %d, arg := %s, target := .%s, selfAssign := %s }",
			leanStr(s.id), leanStr(s.file), leanStr(s.fn), s.ordinal, s.line, leanStr(s.arg), s.cls, leanBool(s.selfAssign)))
	}
	sb.WriteString("def sites : List Site :=\n  " + leanList(items, "  ") + "\n\n")
	sb.WriteString(`/-- no append grows a slice held by a node (or a local alias of one), and every site was classified -/
def noNodeFieldAppend : Bool :=
  sites.all (fun s => s.target != .nodeField && s.target != .aliasField && s.target != .unknown)

/-- the sites appending to a caller-owned slice (iterate's path accumulation), for inspection -/
def paramAppends : List String := (sites.filter (fun s => s.target == .param)).map (·.id)

end Verif.Gen.AppendFacts
`)
	return sb.String()
}
