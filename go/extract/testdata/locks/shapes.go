// Package locks holds the locking shapes the fact extractor must recognise (Pos*) and the ones it must NOT report
// optimistically (Neg*). It is parsed, never compiled. Expected rows: shapes.golden (reviewed by hand).
package locks

import (
	"sync"
	"sync/atomic"
)

type Inner struct {
	mu sync.Mutex
	n  int
}

func (i *Inner) Bump() { i.mu.Lock(); i.n++; i.mu.Unlock() }

type T struct {
	mu    sync.RWMutex
	sub   sync.Mutex
	a     int
	b     int
	list  []int
	m     map[string]int
	cnt   int64
	ver   int64
	inner *Inner
	recs  map[string]*Inner
}

// ---- shapes that must be recognised -----------------------------------------------------------------------

func (t *T) PosDeferTop() {
	t.mu.Lock()
	defer t.mu.Unlock()
	t.a = 1
}

func (t *T) PosRDeferTop() int {
	t.mu.RLock()
	defer t.mu.RUnlock()
	return t.a
}

func (t *T) PosBracket() {
	t.mu.Lock()
	t.a = 1
	t.m["k"] = 2
	delete(t.m, "j")
	t.mu.Unlock()
}

func (t *T) PosBracketReturnLocal() []int {
	t.mu.RLock()
	out := make([]int, len(t.list))
	copy(out, t.list)
	t.mu.RUnlock()
	return out
}

// the field is read under the lock; what is returned afterwards is the local copy (same as `defer Unlock; return t.m`)
func (t *T) PosBracketReturnsFieldValue() map[string]int {
	t.mu.RLock()
	x := t.m
	t.mu.RUnlock()
	return x
}

func (t *T) PosPurePrelude(v int) int {
	w := v * 2
	if w > 10 {
		return 0
	}
	t.mu.Lock()
	defer t.mu.Unlock()
	t.b = w
	return w
}

func (t *T) locked() {
	t.mu.Lock()
	defer t.mu.Unlock()
	t.b++
}

func (t *T) PosLockInCallee() { t.locked() }

func (t *T) lockedRet() int {
	t.mu.Lock()
	defer t.mu.Unlock()
	t.b++
	return t.b
}

// Insert -> Delete shape: the whole operation is delegated in a return statement before the own section
func (t *T) PosTailDelegation(v int) int {
	if v == 0 {
		return t.lockedRet()
	}
	t.mu.Lock()
	defer t.mu.Unlock()
	t.a = v
	return v
}

// conservative: call statement + return is counted as a second critical section
func (t *T) NegCallThenOwnSection(v int) {
	if v == 0 {
		t.locked()
		return
	}
	t.mu.Lock()
	defer t.mu.Unlock()
	t.a = v
}

func (t *T) NegWriteUnderReadLock() {
	t.mu.RLock()
	defer t.mu.RUnlock()
	t.a = 1
}

func (t *T) helper(v int) { t.b = v }

func (t *T) PosCalleeUnderLock(v int) {
	t.mu.Lock()
	defer t.mu.Unlock()
	t.helper(v)
}

func (t *T) PosSubLock(v int) {
	t.mu.RLock()
	defer t.mu.RUnlock()
	t.sub.Lock()
	t.list = append(t.list, v)
	t.sub.Unlock()
}

func (t *T) PosGoroutineReadsFrozen() {
	t.mu.RLock()
	defer t.mu.RUnlock()
	done := make(chan struct{})
	go func() {
		_ = t.ver
		close(done)
	}()
	<-done
}

func (t *T) PosAtomic() int64 {
	atomic.AddInt64(&t.cnt, 1)
	p := (*int64)(&t.ver)
	return atomic.LoadInt64(p)
}

func (t *T) PosDeferClosureUnlock() {
	t.mu.Lock()
	defer func() { t.mu.Unlock() }()
	t.a = 2
}

func (t *T) PosCallThroughField() {
	t.mu.RLock()
	defer t.mu.RUnlock()
	t.inner.Bump()
}

func (t *T) PosCopiesRecord() []*Inner {
	t.mu.RLock()
	defer t.mu.RUnlock()
	var out []*Inner
	for _, r := range t.recs {
		c := *r
		out = append(out, &c)
	}
	return out
}

// ---- shapes that must NOT come out as "holds the lock for the whole body" ----------------------------------

func (t *T) NegEarlyUnlock() {
	t.mu.RLock()
	x := t.a
	t.mu.RUnlock()
	t.b = x
}

func (t *T) NegNoUnlock() int {
	t.mu.RLock()
	return t.a
}

func (t *T) NegMismatchedPair() {
	t.mu.Lock()
	defer t.mu.RUnlock()
	t.a = 1
}

// explicit unlock before each of several returns
func (t *T) PosUnlockBeforeEachReturn(c bool) {
	t.mu.Lock()
	if c {
		t.mu.Unlock()
		return
	}
	t.a = 1
	t.mu.Unlock()
}

func (t *T) NegLockInBranch(c bool) {
	if c {
		t.mu.Lock()
		defer t.mu.Unlock()
	}
	t.a = 1
}

func (t *T) NegTwoSections() {
	t.mu.Lock()
	t.a = 1
	t.mu.Unlock()
	t.mu.Lock()
	t.b = 1
	t.mu.Unlock()
}

func (t *T) NegReentrant() int {
	t.mu.RLock()
	defer t.mu.RUnlock()
	return t.PosRDeferTop()
}

func (t *T) NegReturnsClosure() func() {
	t.mu.Lock()
	defer t.mu.Unlock()
	return func() { t.a = 1 }
}

func (t *T) NegLocalNamedLikeTheMutex(o *T) {
	mu := &o.mu
	mu.Lock()
	defer mu.Unlock()
	t.a = 1
}

func (t *T) NegForeignLockOnly(o *Inner) {
	o.mu.Lock()
	defer o.mu.Unlock()
	t.a = 1
}

func (t *T) NegGoroutineWrites() {
	t.mu.Lock()
	defer t.mu.Unlock()
	go func() { t.a = 1 }()
}

// a method value called under the lock: analysed as a call of the method under the caller's locks
func (t *T) PosMethodValue() {
	t.mu.Lock()
	defer t.mu.Unlock()
	f := t.helper
	f(1)
}

func (t *T) NegPointerToField() {
	t.mu.RLock()
	defer t.mu.RUnlock()
	p := &t.a
	*p = 1
}

// the deferred closure touches state and then unlocks: all under the lock
func (t *T) PosDeferClosureDoesMore() {
	t.mu.Lock()
	defer func() {
		t.a = 3
		t.mu.Unlock()
	}()
	t.a = 2
}

func (t *T) NegPreludeTouchesState(v int) {
	if t.a > v {
		return
	}
	t.mu.Lock()
	defer t.mu.Unlock()
	t.a = v
}

func (t *T) NegHandsOutRecord() []*Inner {
	t.mu.RLock()
	defer t.mu.RUnlock()
	var out []*Inner
	for _, r := range t.recs {
		out = append(out, r)
	}
	return out
}

func (t *T) NegUnlockedWriteThroughCallee(v int) { t.helper(v) }

// ---- more shapes for the flow analysis ---------------------------------------------------------------------

// lock acquired inside an `if`, the access in the same branch
func (t *T) PosLockInsideBranch(c bool) {
	if c {
		t.mu.Lock()
		t.a = 1
		t.mu.Unlock()
	}
}

func (t *T) setNoLock(v int) { t.a = v }

// public method = locking wrapper + ...NoLock body
func (t *T) PosWrapperAndNoLockBody(v int) {
	t.mu.Lock()
	defer t.mu.Unlock()
	t.setNoLock(v)
}

// the mutex through a local pointer
func (t *T) PosMutexAlias() {
	mu := &t.mu
	mu.Lock()
	defer mu.Unlock()
	t.a = 1
}

func (t *T) PosSwitchUnderLock(k int) int {
	t.mu.RLock()
	defer t.mu.RUnlock()
	switch k {
	case 0:
		return t.a
	case 1:
		return t.b
	}
	for i := range t.list {
		if t.list[i] == k {
			return i
		}
	}
	return -1
}

func (t *T) NegLockPerIteration(n int) {
	for i := 0; i < n; i++ {
		t.mu.Lock()
		t.a += i
		t.mu.Unlock()
	}
}

func (t *T) NegUnlockOnOnePathOnly(c bool) {
	t.mu.Lock()
	if c {
		t.mu.Unlock()
	}
	t.a = 1
}

func (t *T) NegReturnWhileHolding(c bool) int {
	t.mu.RLock()
	if c {
		return t.a
	}
	t.mu.RUnlock()
	return 0
}

func (t *T) NegLoopLeavesLockHeld(n int) {
	for i := 0; i < n; i++ {
		t.mu.Lock()
		t.a = i
	}
}

func (t *T) NegDoubleLock() {
	t.mu.Lock()
	t.mu.Lock()
	t.a = 1
	t.mu.Unlock()
}

func (t *T) NegUnlockNotHeld() {
	t.a = 1
	t.mu.Unlock()
}

func (t *T) NegGoroutineDoesNotInheritTheLock() {
	t.mu.Lock()
	defer t.mu.Unlock()
	go t.setNoLock(3)
}

func (t *T) NegBreakWhileHolding(n int) {
	for i := 0; i < n; i++ {
		t.mu.Lock()
		if t.a == i {
			break
		}
		t.mu.Unlock()
	}
}

func (t *T) firstRec() *Inner { return t.recs["first"] }

// a pointer into the receiver's state is fetched under the lock and followed after the unlock
func (t *T) NegDerivedPointerUsedAfterUnlock() int {
	t.mu.RLock()
	r := t.firstRec()
	t.mu.RUnlock()
	return r.n
}

func (t *T) NegDerivedMethodCallAfterUnlock() {
	t.mu.Lock()
	r := t.recs["k"]
	t.mu.Unlock()
	r.Bump()
}

func (t *T) NegAliasLookedIntoAfterUnlock() int {
	t.mu.RLock()
	in := t.inner
	t.mu.RUnlock()
	return in.n
}

// the value is only handed on, not looked into
func (t *T) PosDerivedValueOnlyReturned() (int, int) {
	t.mu.RLock()
	v := t.m["k"]
	n := len(t.list)
	t.mu.RUnlock()
	if v > n {
		return v, n
	}
	return n, v
}

func (t *T) each(f func(int)) {
	for _, v := range t.list {
		f(v)
	}
}

// a method of the receiver handed over as a callback
func (t *T) PosMethodValueAsCallback() {
	t.mu.Lock()
	defer t.mu.Unlock()
	t.each(t.helper)
}

func (t *T) NegMethodValueCallbackWithoutLock() { t.each(t.helper) }

func (t *T) NegMethodValueReturned() func(int) {
	t.mu.Lock()
	defer t.mu.Unlock()
	return t.helper
}

// ---- embedded struct: promoted fields and methods ---------------------------------------------------------

type Base struct {
	mu sync.Mutex
	n  int
}

func (b *Base) Inc() { b.mu.Lock(); defer b.mu.Unlock(); b.n++ }

type D struct {
	Base
	x int
}

// PosPromoted: the mutex and the counter are promoted fields of the embedded Base (a struct of the same package): they
// are resolved through the struct declarations
func (d *D) PosPromoted() {
	d.mu.Lock()
	defer d.mu.Unlock()
	d.n++
	d.x = 1
}

// the same fields through the embedded field's name
func (d *D) PosPromotedExplicitPath() {
	d.Base.mu.Lock()
	defer d.mu.Unlock()
	d.Base.n++
}

// conservative: a promoted METHOD is recorded as a call on the embedded object made without D's lock
func (d *D) NegPromotedMethod() { d.Inc() }

// ---- embedded mutex ---------------------------------------------------------------------------------------

type E struct {
	sync.RWMutex
	v int
}

func (e *E) PosEmbeddedMutexPromotedCall() int {
	e.RLock()
	defer e.RUnlock()
	return e.v
}

func (e *E) PosEmbeddedMutexExplicitPath(v int) {
	e.RWMutex.Lock()
	e.v = v
	e.Unlock() // the same lock as e.RWMutex
}

func (e *E) NegEmbeddedMutexNotTaken(v int) { e.v = v }

// ---- locks taken through tiny helpers ---------------------------------------------------------------------

type H struct {
	mu sync.RWMutex
	v  int
}

func (h *H) rlock() func() {
	h.mu.RLock()
	return h.mu.RUnlock
}

func (h *H) wlock() func() {
	h.mu.Lock()
	return func() { h.mu.Unlock() }
}

func (h *H) lock()   { h.mu.Lock() }
func (h *H) unlock() { h.mu.Unlock() }

func (h *H) PosDeferReleaserHelper() int {
	defer h.rlock()()
	return h.v
}

func (h *H) PosReleaserInLocal(v int) {
	release := h.wlock()
	h.v = v
	release()
}

func (h *H) PosReleaserInLocalDeferred(v int) {
	release := h.wlock()
	defer release()
	h.v = v
}

func (h *H) PosLockUnlockWrappers(v int) {
	h.lock()
	defer h.unlock()
	h.v = v
}

func (h *H) NegWrapperLockNeverReleased(v int) {
	h.lock()
	h.v = v
}

func (h *H) NegReleaserDropped(v int) {
	h.wlock()
	h.v = v
}

// ---- a lock reached through a local that comes from a call result -----------------------------------------

func (h *H) derive() *H { return &H{v: h.v} }

// the lock of ANOTHER instance of the same type: named by type + field, not the receiver's own lock
func (h *H) NegLockOfDerivedInstance(v int) {
	d := h.derive()
	d.mu.Lock()
	defer d.mu.Unlock()
	h.v = v
}
