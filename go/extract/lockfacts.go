package main

// LockFacts: per method of the concurrent types, which mutex is held in which mode around which receiver-field
// accesses. Purely syntactic; see notes/extractor.md for the schema and the approximations made.

import (
	"fmt"
	"go/ast"
	"go/token"
	"sort"
	"strings"
)

type structInfo struct {
	name       string
	fields     []string
	fieldIdx   map[string]int // 1-based
	mutexes    []string
	primary    string // first declared mutex field ("" = none)
	foreign    []string
	elemPtr    map[string]bool   // fields declared as map[..]*T / []*T: containers of pointers to shared records
	fieldTypes []string          // declared type of every field (source text), parallel to fields
	embedded   map[string]bool   // embedded fields (name = last identifier of the type)
	promoted   map[string]string // field promoted from an embedded struct of the same package -> the embedded field
	embMutex   string            // an embedded sync.Mutex / sync.RWMutex: recv.Lock() is a lock operation on it
}

func (si *structInfo) fid(f string) int { return si.fieldIdx[f] }

// lockID: receiver mutex fields get their field index, any other lock expression 1000+ordinal (per type).
func (si *structInfo) lockID(path string) int {
	if path == "" {
		return 0
	}
	if i, ok := si.fieldIdx[path]; ok {
		return i
	}
	for i, f := range si.foreign {
		if f == path {
			return 1000 + i
		}
	}
	si.foreign = append(si.foreign, path)
	return 1000 + len(si.foreign) - 1
}

type access struct {
	field  string
	fid    int
	kind   string // read assign append delete mapWrite innerWrite atomicLoad atomicStore addrOf call unknown
	mode   string // none read write : how the primary mutex is held
	sub    string // innermost other lock held ("" = none)
	subID  int
	callee string
	via    string
	goro   int
	line   int
	phase  int // own-body accesses: 0 before the method's first lock, 1 while it is held, 2 after it was released
}

func (a access) key() string {
	return fmt.Sprintf("%s|%s|%s|%s|%s|%d", a.field, a.kind, a.mode, a.sub, a.callee, a.goro)
}

type callEdge struct {
	phase  int
	callee string
	mode   string
	sub    string
	tail   bool // in return position before any own lock region: an alternative path, not an additional section
	inLoop bool
	goro   int
	line   int
}

type goroutineInfo struct {
	ord, line int
	fields    []string
	captured  []string
	usesRecv  bool
}

type litField struct {
	field, expr, src string // src: sameField otherField recvCall other
}

type method struct {
	recvType, recvName, name string
	exported                 bool
	file                     string
	line                     int
	decl                     *ast.FuncDecl
	lock, mutex              string
	deferred                 bool
	pre, region, post        int
	ownRegions               int
	sections                 int
	reentrant                bool
	direct                   []access
	calls                    []callEdge
	goros                    []goroutineInfo
	escapes                  []string
	elemEscapes              []string
	literal                  []litField
	closure                  []access
}

type lockHelper struct {
	kind     string // acquire | release | releaser (acquires and returns the function that releases)
	path, op string // op: Lock RLock Unlock RUnlock (for a releaser: the acquiring operation)
}

type typeFacts struct {
	lockHelpers  map[string]lockHelper
	returnsField map[string]string // method -> field: the method does nothing but `return recv.field` (maybe under its lock)
	leanName     string
	si           *structInfo
	methods      []*method
	byName       map[string]*method
}

func isMutexType(e ast.Expr) bool {
	if s, ok := e.(*ast.StarExpr); ok {
		e = s.X
	}
	if s, ok := e.(*ast.SelectorExpr); ok {
		if x, ok := s.X.(*ast.Ident); ok && x.Name == "sync" && (s.Sel.Name == "Mutex" || s.Sel.Name == "RWMutex") {
			return true
		}
	}
	return false
}

func findStructDecl(p *pkgSrc, name string) *ast.StructType {
	for _, fn := range p.names {
		for _, d := range p.files[fn].Decls {
			gd, ok := d.(*ast.GenDecl)
			if !ok || gd.Tok != token.TYPE {
				continue
			}
			for _, sp := range gd.Specs {
				ts := sp.(*ast.TypeSpec)
				if st, ok := ts.Type.(*ast.StructType); ok && ts.Name.Name == name {
					return st
				}
			}
		}
	}
	return nil
}

func findStruct(p *pkgSrc, name string) *structInfo {
	st := findStructDecl(p, name)
	if st == nil {
		return nil
	}
	si := &structInfo{name: name, fieldIdx: map[string]int{}, elemPtr: map[string]bool{}, embedded: map[string]bool{}, promoted: map[string]string{}}
	addField := func(n string, typ ast.Expr, from string) {
		if _, dup := si.fieldIdx[n]; dup {
			return // shadowed by an outer field
		}
		si.fields = append(si.fields, n)
		si.fieldTypes = append(si.fieldTypes, p.text(typ))
		si.fieldIdx[n] = len(si.fields)
		if from != "" {
			si.promoted[n] = from
		}
		if isMutexType(typ) {
			si.mutexes = append(si.mutexes, n)
		}
		switch ft := typ.(type) {
		case *ast.MapType:
			if _, ok := ft.Value.(*ast.StarExpr); ok {
				si.elemPtr[n] = true
			}
		case *ast.ArrayType:
			if _, ok := ft.Elt.(*ast.StarExpr); ok {
				si.elemPtr[n] = true
			}
		}
	}
	var addStruct func(st *ast.StructType, from string, depth int)
	addStruct = func(st *ast.StructType, from string, depth int) {
		type emb struct {
			name string
			typ  *ast.Ident
		}
		var embs []emb
		for _, f := range st.Fields.List {
			if len(f.Names) == 0 { // embedded: name is the last identifier of the type
				t := f.Type
				if s, ok := t.(*ast.StarExpr); ok {
					t = s.X
				}
				switch tt := t.(type) {
				case *ast.SelectorExpr:
					addField(tt.Sel.Name, f.Type, from)
					if from == "" {
						si.embedded[tt.Sel.Name] = true
					}
					if isMutexType(f.Type) && si.embMutex == "" {
						si.embMutex = tt.Sel.Name
					}
				case *ast.Ident:
					addField(tt.Name, f.Type, from)
					if from == "" {
						si.embedded[tt.Name] = true
					}
					embs = append(embs, emb{tt.Name, tt})
				}
				continue
			}
			for _, n := range f.Names {
				addField(n.Name, f.Type, from)
			}
		}
		// fields (and mutexes) of embedded structs declared in the same package are promoted
		if depth < 3 {
			for _, e := range embs {
				if inner := findStructDecl(p, e.typ.Name); inner != nil {
					top := from
					if top == "" {
						top = e.name
					}
					addStruct(inner, top, depth+1)
				}
			}
		}
	}
	addStruct(st, "", 0)
	if len(si.mutexes) > 0 {
		si.primary = si.mutexes[0]
	}
	return si
}

func recvOf(fd *ast.FuncDecl) (name, typ string) {
	if fd.Recv == nil || len(fd.Recv.List) == 0 {
		return "", ""
	}
	r := fd.Recv.List[0]
	t := r.Type
	if s, ok := t.(*ast.StarExpr); ok {
		t = s.X
	}
	if id, ok := t.(*ast.Ident); ok {
		typ = id.Name
	}
	if len(r.Names) > 0 {
		name = r.Names[0].Name
	}
	return
}

func collectType(p *pkgSrc, name string) *typeFacts {
	tf := &typeFacts{leanName: strings.ToLower(name[:1]) + name[1:], byName: map[string]*method{}}
	tf.si = findStruct(p, name)
	if tf.si == nil {
		tf.si = &structInfo{name: name, fieldIdx: map[string]int{}, elemPtr: map[string]bool{}, embedded: map[string]bool{}, promoted: map[string]string{}}
	}
	for _, fn := range p.names {
		for _, d := range p.files[fn].Decls {
			fd, ok := d.(*ast.FuncDecl)
			if !ok || fd.Body == nil {
				continue
			}
			rn, rt := recvOf(fd)
			if rt != name {
				continue
			}
			m := &method{recvType: rt, recvName: rn, name: fd.Name.Name, exported: ast.IsExported(fd.Name.Name),
				file: p.dir + "/" + fn, line: p.line(fd), decl: fd}
			tf.methods = append(tf.methods, m)
			tf.byName[m.name] = m
		}
	}
	choosePrimary(p, tf)
	tf.lockHelpers = map[string]lockHelper{}
	for _, m := range tf.methods {
		hw := &walker{p: p, tf: tf, m: m, recv: m.recvName, alias: map[string]string{}, atomicAlias: map[string]string{}, lockAlias: map[string]string{}}
		if h, ok := hw.lockHelperOf(); ok {
			tf.lockHelpers[m.name] = h
		}
	}
	tf.returnsField = map[string]string{}
	for _, m := range tf.methods {
		if f, ok := getterOf(m, tf.si); ok {
			tf.returnsField[m.name] = f
		}
	}
	for _, m := range tf.methods {
		if _, isHelper := tf.lockHelpers[m.name]; isHelper {
			m.lock = "none" // a lock helper is not judged on its own: its callers perform the lock operation
			continue
		}
		w := &walker{p: p, tf: tf, m: m, recv: m.recvName, alias: map[string]string{}, atomicAlias: map[string]string{}, lockAlias: map[string]string{}}
		w.prescan(m.decl.Body)
		w.flowFunction()
		m.elemEscapes = elemEscapes(tf, m)
	}
	closeAccesses(tf)
	return tf
}

// getterOf: the body is `return recv.f`, possibly preceded by lock / deferred-unlock statements only. A local
// assigned from such a call holds the field's value, exactly like `x := recv.f`.
func getterOf(m *method, si *structInfo) (string, bool) {
	body := m.decl.Body.List
	if len(body) == 0 {
		return "", false
	}
	rs, ok := body[len(body)-1].(*ast.ReturnStmt)
	if !ok || len(rs.Results) != 1 {
		return "", false
	}
	se, ok := rs.Results[0].(*ast.SelectorExpr)
	if !ok {
		return "", false
	}
	id, ok := se.X.(*ast.Ident)
	if !ok || id.Name != m.recvName {
		return "", false
	}
	if _, isField := si.fieldIdx[se.Sel.Name]; !isField {
		return "", false
	}
	for _, st := range body[:len(body)-1] {
		var call ast.Expr
		switch x := st.(type) {
		case *ast.ExprStmt:
			call = x.X
		case *ast.DeferStmt:
			call = x.Call
		default:
			return "", false
		}
		ce, ok := call.(*ast.CallExpr)
		if !ok {
			return "", false
		}
		fs, ok := ce.Fun.(*ast.SelectorExpr)
		if !ok {
			return "", false
		}
		switch fs.Sel.Name {
		case "Lock", "RLock", "Unlock", "RUnlock":
		default:
			return "", false
		}
	}
	return se.Sel.Name, true
}

// ---- the walker ------------------------------------------------------------------------------------------

type wctx struct {
	mode   string
	sub    string
	goro   int
	loop   bool
	inRet  bool
	before bool // no own primary region seen yet on this top-level path
}

type walker struct {
	p           *pkgSrc
	tf          *typeFacts
	m           *method
	recv        string
	alias       map[string]string // local -> receiver field whose value it holds
	atomicAlias map[string]string // local -> receiver field whose address it holds and that is used in atomic.* calls only
	goCount     int
	primary     string            // this method's primary lock path
	lockAlias   map[string]string // local -> receiver mutex field whose address it holds (mu := &recv.mutex)
	flowState
}

func (w *walker) isField(n string) bool { _, ok := w.tf.si.fieldIdx[n]; return ok }

func (w *walker) isMutexField(n string) bool {
	for _, m := range w.tf.si.mutexes {
		if m == n {
			return true
		}
	}
	return false
}

func (w *walker) add(field, kind string, c wctx, callee string, n ast.Node) {
	a := access{field: field, fid: w.tf.si.fid(field), kind: kind, mode: c.mode, sub: c.sub, subID: w.tf.si.lockID(c.sub),
		callee: callee, goro: c.goro, line: w.p.line(n), phase: w.phase()}
	if c.goro != 0 {
		a.via = fmt.Sprintf("go#%d", c.goro)
	}
	w.m.direct = append(w.m.direct, a)
}

func (w *walker) unknown(what string, c wctx, n ast.Node) {
	w.m.direct = append(w.m.direct, access{field: what, kind: "unknown", mode: c.mode, sub: c.sub, subID: w.tf.si.lockID(c.sub), goro: c.goro, line: w.p.line(n)})
}

// rootField resolves an expression to the receiver field at the root of its selector chain:
// recv.f, recv.f.g, recv.f[i], alias, alias.g ... -> (f, rest, true)
func (w *walker) rootField(e ast.Expr) (field, rest string, ok bool) {
	switch x := e.(type) {
	case *ast.ParenExpr:
		return w.rootField(x.X)
	case *ast.Ident:
		if f, ok := w.alias[x.Name]; ok {
			return f, "", true
		}
	case *ast.SelectorExpr:
		if id, ok := x.X.(*ast.Ident); ok && id.Name == w.recv && w.isField(x.Sel.Name) {
			return x.Sel.Name, "", true
		}
		if f, r, ok := w.rootField(x.X); ok {
			if r == "" {
				if w.tf.si.embedded[f] && w.tf.si.promoted[x.Sel.Name] == f {
					return x.Sel.Name, "", true // recv.Embedded.f is the promoted field recv.f
				}
				return f, x.Sel.Name, true
			}
			return f, r + "." + x.Sel.Name, true
		}
	case *ast.IndexExpr:
		if f, r, ok := w.rootField(x.X); ok {
			return f, r + "[]", true
		}
	case *ast.StarExpr:
		if f, r, ok := w.rootField(x.X); ok {
			return f, "*" + r, true
		}
	case *ast.TypeAssertExpr:
		return w.rootField(x.X)
	}
	return "", "", false
}

// promotedRoot: the expression is rooted at recv.x where x is neither a declared field nor a method of the type
func (w *walker) promotedRoot(e ast.Expr) (string, bool) {
	for {
		switch x := e.(type) {
		case *ast.ParenExpr:
			e = x.X
		case *ast.IndexExpr:
			e = x.X
		case *ast.StarExpr:
			e = x.X
		case *ast.SelectorExpr:
			if id, ok := x.X.(*ast.Ident); ok {
				if id.Name == w.recv && !w.isField(x.Sel.Name) {
					if _, isMethod := w.tf.byName[x.Sel.Name]; !isMethod {
						return x.Sel.Name, true
					}
				}
				return "", false
			}
			e = x.X
		default:
			return "", false
		}
	}
}

// lockPath gives a printable path for the mutex operand of a Lock/Unlock call, resolving local aliases of
// receiver fields: mpt.mutex -> "mutex"; mc.mu with mc := ml.core -> "core.mu"; bc.mu (parameter) -> "bc.mu".
func (w *walker) lockPath(e ast.Expr) string {
	if f, r, ok := w.rootField(e); ok {
		if r == "" {
			return f
		}
		return f + "." + r
	}
	if id, ok := e.(*ast.Ident); ok {
		if f, ok := w.lockAlias[id.Name]; ok {
			return f // mu := &recv.mutex; mu.Lock()
		}
		// any other bare local (mu := &x.mu; mu.Lock()): never to be confused with a receiver field of the same name
		return "local:" + id.Name
	}
	// rooted at a parameter: named by position, so that renaming the parameter does not change the table
	root := e
	for {
		switch x := root.(type) {
		case *ast.SelectorExpr:
			root = x.X
			continue
		case *ast.ParenExpr:
			root = x.X
			continue
		case *ast.StarExpr:
			root = x.X
			continue
		}
		break
	}
	if id, ok := root.(*ast.Ident); ok {
		// not the receiver: the lock is named by the TYPE of the object (which instance it is, is not tracked)
		if t := w.localType(id.Name); t != "" {
			return t + strings.TrimPrefix(w.p.text(e), id.Name)
		}
	}
	return w.p.text(e)
}

func typeName(e ast.Expr) string {
	if s, ok := e.(*ast.StarExpr); ok {
		e = s.X
	}
	if id, ok := e.(*ast.Ident); ok {
		return id.Name
	}
	return ""
}

// localType: the declared type of a parameter, or of a local defined from a same-receiver call, a composite
// literal or a conversion - as far as the syntax tells
func (w *walker) localType(name string) string {
	if w.m.decl.Type.Params != nil {
		for _, f := range w.m.decl.Type.Params.List {
			for _, n := range f.Names {
				if n.Name == name {
					return typeName(f.Type)
				}
			}
		}
	}
	typ := ""
	ast.Inspect(w.m.decl.Body, func(n ast.Node) bool {
		as, ok := n.(*ast.AssignStmt)
		if !ok || as.Tok != token.DEFINE || len(as.Rhs) == 0 {
			return true
		}
		for i, l := range as.Lhs {
			id, ok := l.(*ast.Ident)
			if !ok || id.Name != name {
				continue
			}
			r := as.Rhs[0]
			if len(as.Lhs) == len(as.Rhs) {
				r = as.Rhs[i]
			} else if i != 0 {
				continue
			}
			switch x := r.(type) {
			case *ast.UnaryExpr:
				if cl, ok := x.X.(*ast.CompositeLit); ok && x.Op == token.AND {
					typ = typeName(cl.Type)
				}
			case *ast.CompositeLit:
				typ = typeName(x.Type)
			case *ast.CallExpr:
				if se, ok := x.Fun.(*ast.SelectorExpr); ok {
					if rid, ok := se.X.(*ast.Ident); ok && rid.Name == w.recv {
						if m := w.tf.byName[se.Sel.Name]; m != nil && m.decl.Type.Results != nil && len(m.decl.Type.Results.List) > 0 {
							typ = typeName(m.decl.Type.Results.List[0].Type)
						}
					}
				}
			}
		}
		return true
	})
	return typ
}

// lockCall recognises `X.Lock()`, `X.RLock()`, `X.Unlock()`, `X.RUnlock()`.
func (w *walker) lockCall(e ast.Expr) (path, op string, ok bool) {
	ce, isCall := e.(*ast.CallExpr)
	if !isCall || len(ce.Args) != 0 {
		return
	}
	se, isSel := ce.Fun.(*ast.SelectorExpr)
	if !isSel {
		return
	}
	switch se.Sel.Name {
	case "Lock", "RLock", "Unlock", "RUnlock":
		if id, isID := se.X.(*ast.Ident); isID && id.Name == w.recv && w.tf.si.embMutex != "" {
			return w.tf.si.embMutex, se.Sel.Name, true // promoted method of an embedded mutex
		}
		return w.lockPath(se.X), se.Sel.Name, true
	}
	// a same-receiver helper whose body only locks / unlocks a receiver mutex IS that lock operation
	if id, isID := se.X.(*ast.Ident); isID && id.Name == w.recv {
		if h, isHelper := w.tf.lockHelpers[se.Sel.Name]; isHelper && h.kind != "releaser" {
			return h.path, h.op, true
		}
	}
	return
}

func stmtLock(w *walker, s ast.Stmt) (path, op string, deferred, ok bool) {
	switch x := s.(type) {
	case *ast.ExprStmt:
		path, op, ok = w.lockCall(x.X)
	case *ast.DeferStmt:
		path, op, ok = w.lockCall(x.Call)
		deferred = true
		if !ok {
			// defer func() { X.Unlock() }() - a closure that does nothing but the unlock
			if fl, isLit := x.Call.Fun.(*ast.FuncLit); isLit && len(x.Call.Args) == 0 && len(fl.Body.List) == 1 {
				if es, isExpr := fl.Body.List[0].(*ast.ExprStmt); isExpr {
					path, op, ok = w.lockCall(es.X)
				}
			}
		}
	}
	return
}

// prescan finds local aliases: x := recv.f | x, ok := recv.f.(T) | p, c := recv.f, recv.g | x := (*T)(&recv.f)
func (w *walker) prescan(body *ast.BlockStmt) {
	addrDefs := map[string]string{}
	ast.Inspect(body, func(n ast.Node) bool {
		as, ok := n.(*ast.AssignStmt)
		if !ok || as.Tok != token.DEFINE {
			return true
		}
		pair := func(l, r ast.Expr) {
			id, ok := l.(*ast.Ident)
			if !ok || id.Name == "_" {
				return
			}
			rr := r
			if ta, ok := rr.(*ast.TypeAssertExpr); ok {
				rr = ta.X
			}
			if se, ok := rr.(*ast.SelectorExpr); ok {
				if x, ok := se.X.(*ast.Ident); ok && x.Name == w.recv && w.isField(se.Sel.Name) {
					w.alias[id.Name] = se.Sel.Name
				}
			}
			if ce, ok := rr.(*ast.CallExpr); ok && len(ce.Args) == 0 { // x := recv.getter()
				if se, ok := ce.Fun.(*ast.SelectorExpr); ok {
					if x, ok := se.X.(*ast.Ident); ok && x.Name == w.recv {
						if f, ok := w.tf.returnsField[se.Sel.Name]; ok {
							w.alias[id.Name] = f
						}
					}
				}
			}
			// address of a receiver field, possibly through a pointer conversion
			ar := r
			if ce, ok := ar.(*ast.CallExpr); ok && len(ce.Args) == 1 {
				if _, isParen := ce.Fun.(*ast.ParenExpr); isParen {
					ar = ce.Args[0]
				}
			}
			if ue, ok := ar.(*ast.UnaryExpr); ok && ue.Op == token.AND {
				if se, ok := ue.X.(*ast.SelectorExpr); ok {
					if x, ok := se.X.(*ast.Ident); ok && x.Name == w.recv && w.isField(se.Sel.Name) {
						addrDefs[id.Name] = se.Sel.Name
					}
				}
			}
		}
		if len(as.Lhs) == len(as.Rhs) {
			for i := range as.Lhs {
				pair(as.Lhs[i], as.Rhs[i])
			}
		} else if len(as.Rhs) == 1 && len(as.Lhs) >= 1 {
			pair(as.Lhs[0], as.Rhs[0])
		}
		return true
	})
	// an address alias is "atomic" when every other use of the identifier is the first argument of an atomic.* call
	for name, field := range addrDefs {
		uses, atomicUses := 0, 0
		ast.Inspect(body, func(n ast.Node) bool {
			switch x := n.(type) {
			case *ast.CallExpr:
				if isAtomicCall(x) && len(x.Args) > 0 {
					if id, ok := x.Args[0].(*ast.Ident); ok && id.Name == name {
						atomicUses++
					}
				}
			case *ast.Ident:
				if x.Name == name {
					uses++
				}
			}
			return true
		})
		if uses == atomicUses+1 && atomicUses > 0 { // +1: the defining occurrence
			w.atomicAlias[name] = field
		}
		if w.isMutexField(field) {
			w.lockAlias[name] = field // mu := &recv.mutex
		}
	}
}

func isAtomicCall(ce *ast.CallExpr) bool {
	se, ok := ce.Fun.(*ast.SelectorExpr)
	if !ok {
		return false
	}
	x, ok := se.X.(*ast.Ident)
	return ok && x.Name == "atomic"
}

func atomicKind(name string) string {
	if strings.HasPrefix(name, "Load") {
		return "atomicLoad"
	}
	return "atomicStore" // Store*, Add*, Swap*, CompareAndSwap*
}

func (w *walker) isPrimary(path string) bool {
	if w.tf.si.primary != "" {
		return path == w.tf.si.primary
	}
	if w.primary == "" {
		w.primary = path // mutex-less type: the first lock the method takes plays the role
	}
	return path == w.primary
}

func lockMode(op string) string {
	if op == "RLock" {
		return "read"
	}
	return "write"
}

func unlockOf(op string) string {
	if op == "RLock" {
		return "RUnlock"
	}
	return "Unlock"
}

func (w *walker) literal(cl *ast.CompositeLit) {
	for _, e := range cl.Elts {
		kv, ok := e.(*ast.KeyValueExpr)
		if !ok {
			continue
		}
		k, ok := kv.Key.(*ast.Ident)
		if !ok {
			continue
		}
		lf := litField{field: k.Name, expr: w.p.text(kv.Value), src: "other"}
		switch v := kv.Value.(type) {
		case *ast.SelectorExpr:
			if id, ok := v.X.(*ast.Ident); ok && id.Name == w.recv {
				if v.Sel.Name == k.Name {
					lf.src = "sameField"
				} else {
					lf.src = "otherField"
				}
			}
		case *ast.CallExpr:
			if se, ok := v.Fun.(*ast.SelectorExpr); ok {
				if id, ok := se.X.(*ast.Ident); ok && id.Name == w.recv {
					lf.src = "recvCall"
				}
			}
		}
		w.m.literal = append(w.m.literal, lf)
	}
}

// captured lists the identifiers a function literal uses that are declared outside it (within the method).
func (w *walker) captured(fl *ast.FuncLit) (names []string, usesRecv bool) {
	seen := map[string]bool{}
	ast.Inspect(fl.Body, func(n ast.Node) bool {
		id, ok := n.(*ast.Ident)
		if !ok || id.Obj == nil {
			return true
		}
		if id.Name == w.recv {
			usesRecv = true
			return true
		}
		pos := id.Obj.Pos()
		if pos.IsValid() && (pos < fl.Pos() || pos > fl.End()) && pos >= w.m.decl.Pos() && pos <= w.m.decl.End() {
			if !seen[id.Name] {
				seen[id.Name] = true
				names = append(names, id.Name)
			}
		}
		return true
	})
	sort.Strings(names)
	return
}

func (w *walker) walkLHS(l ast.Expr, c wctx, rhs ast.Expr, at ast.Node) {
	switch x := l.(type) {
	case *ast.Ident:
		return
	case *ast.StarExpr:
		if id, ok := x.X.(*ast.Ident); ok {
			if f, ok := w.atomicAlias[id.Name]; ok {
				w.add(f, "assign", c, "", at)
			}
			return
		}
	}
	f, rest, ok := w.rootField(l)
	if !ok {
		if name, isProm := w.promotedRoot(l); isProm {
			// recv.x where x is not a declared field: promoted from an embedded struct - cannot be resolved
			w.add("<promoted>", "assign", c, name, at)
			return
		}
		// not rooted at the receiver: walk the operand expressions as reads (index expressions etc.)
		switch x := l.(type) {
		case *ast.SelectorExpr:
			w.walkExpr(x.X, c)
		case *ast.IndexExpr:
			w.walkExpr(x.X, c)
			w.walkExpr(x.Index, c)
		case *ast.StarExpr:
			w.walkExpr(x.X, c)
		}
		return
	}
	if ix, ok := l.(*ast.IndexExpr); ok {
		w.walkExpr(ix.Index, c)
	}
	switch {
	case rest == "":
		if _, isAlias := l.(*ast.Ident); isAlias {
			return // re-assignment of the local alias itself
		}
		kind := "assign"
		if ce, ok := rhs.(*ast.CallExpr); ok {
			if id, ok := ce.Fun.(*ast.Ident); ok && id.Name == "append" && len(ce.Args) > 0 {
				if f2, r2, ok := w.rootField(ce.Args[0]); ok && f2 == f && r2 == "" {
					kind = "append"
				}
			}
		}
		w.add(f, kind, c, "", at)
	case rest == "[]":
		w.add(f, "mapWrite", c, "", at)
	default:
		w.m.direct = append(w.m.direct, access{field: f, fid: w.tf.si.fid(f), kind: "innerWrite", mode: c.mode, sub: c.sub,
			subID: w.tf.si.lockID(c.sub), callee: rest, goro: c.goro, line: w.p.line(at)})
	}
}

func (w *walker) walkExprs(es []ast.Expr, c wctx) {
	for _, e := range es {
		w.walkExpr(e, c)
	}
}

func (w *walker) walkExpr(e ast.Expr, c wctx) {
	switch x := e.(type) {
	case nil:
	case *ast.Ident:
		if x.Name == w.recv {
			w.m.escapes = append(w.m.escapes, "value")
		}
	case *ast.BasicLit:
	case *ast.ParenExpr:
		w.walkExpr(x.X, c)
	case *ast.SelectorExpr:
		if id, ok := x.X.(*ast.Ident); ok && id.Name == w.recv {
			if w.isField(x.Sel.Name) {
				if !w.isMutexField(x.Sel.Name) {
					w.add(x.Sel.Name, "read", c, "", x)
				}
			} else if _, isMethod := w.tf.byName[x.Sel.Name]; isMethod {
				// a method value (handed to a callee as a callback, or kept in a local and called): analysed as a
				// call of that method under the locks held here, exactly like a function literal written here;
				// returned to the caller it escapes the lock
				if c.inRet {
					w.unknown("<method value "+x.Sel.Name+" returned to the caller>", c, x)
				} else {
					w.m.calls = append(w.m.calls, callEdge{phase: w.phase(), callee: x.Sel.Name, mode: c.mode, sub: c.sub,
						inLoop: c.loop, goro: c.goro, line: w.p.line(x)})
				}
			} else {
				w.add("<promoted>", "read", c, x.Sel.Name, x)
			}
			return
		}
		if w.derivedUse(x.X, x) {
			return
		}
		if id, ok := x.X.(*ast.Ident); ok {
			if f, isAlias := w.alias[id.Name]; isAlias {
				if w.phase() == 2 {
					w.add(f, "read", c, "", x) // looked into after the lock was released
				}
				return // a field of the object behind an aliased receiver field; the alias definition recorded the read
			}
		}
		w.walkExpr(x.X, c)
	case *ast.CallExpr:
		w.walkCall(x, c)
	case *ast.UnaryExpr:
		if x.Op == token.AND {
			if f, rest, ok := w.rootField(x.X); ok {
				if rest == "" && w.isMutexField(f) {
					return // &recv.mutex: taking the address of the lock itself
				}
				if _, isAlias := x.X.(*ast.Ident); !isAlias {
					if rest == "" {
						w.add(f, "addrOf", c, "", x)
					} else {
						w.m.direct = append(w.m.direct, access{field: f, fid: w.tf.si.fid(f), kind: "addrOf", mode: c.mode, sub: c.sub,
							subID: w.tf.si.lockID(c.sub), callee: rest, goro: c.goro, line: w.p.line(x)})
					}
					return
				}
			}
		}
		w.walkExpr(x.X, c)
	case *ast.BinaryExpr:
		w.walkExpr(x.X, c)
		w.walkExpr(x.Y, c)
	case *ast.StarExpr:
		if w.derivedUse(x.X, x) {
			return
		}
		w.walkExpr(x.X, c)
	case *ast.IndexExpr:
		w.derivedUse(x.X, x)
		w.walkExpr(x.X, c)
		w.walkExpr(x.Index, c)
	case *ast.SliceExpr:
		w.derivedUse(x.X, x)
		w.walkExpr(x.X, c)
		w.walkExpr(x.Low, c)
		w.walkExpr(x.High, c)
		w.walkExpr(x.Max, c)
	case *ast.TypeAssertExpr:
		w.walkExpr(x.X, c)
	case *ast.KeyValueExpr:
		w.walkExpr(x.Value, c)
	case *ast.CompositeLit:
		w.walkExprs(x.Elts, c)
	case *ast.FuncLit:
		if c.inRet {
			w.unknown("<function literal returned to the caller>", c, x)
		}
		w.flowClosure(x.Body.List, false)
	case *ast.ArrayType, *ast.MapType, *ast.ChanType, *ast.FuncType, *ast.InterfaceType, *ast.StructType, *ast.Ellipsis:
	default:
		w.unknown(fmt.Sprintf("<expression %T>", e), c, e)
	}
}

func (w *walker) walkCall(x *ast.CallExpr, c wctx) {
	argc := c
	argc.inRet = false
	// escapes: the receiver itself handed to another function
	for _, a := range x.Args {
		if id, ok := a.(*ast.Ident); ok && id.Name == w.recv {
			w.m.escapes = append(w.m.escapes, w.p.text(x.Fun)+"("+w.recv+")")
		}
	}
	args := func(from int) {
		for i, a := range x.Args {
			if i < from {
				continue
			}
			if id, ok := a.(*ast.Ident); ok && id.Name == w.recv {
				continue
			}
			w.walkExpr(a, argc)
		}
	}
	switch fn := x.Fun.(type) {
	case *ast.Ident:
		if fn.Name == "delete" && len(x.Args) == 2 {
			if f, rest, ok := w.rootField(x.Args[0]); ok && rest == "" {
				w.add(f, "delete", c, "", x)
				args(1)
				return
			}
		}
		args(0)
		return
	case *ast.SelectorExpr:
		if isAtomicCall(x) && len(x.Args) > 0 {
			k := atomicKind(fn.Sel.Name)
			if id, ok := x.Args[0].(*ast.Ident); ok {
				if f, ok := w.atomicAlias[id.Name]; ok {
					w.add(f, k, c, "", x)
					args(1)
					return
				}
			}
			if ue, ok := x.Args[0].(*ast.UnaryExpr); ok && ue.Op == token.AND {
				if f, rest, ok := w.rootField(ue.X); ok && rest == "" {
					w.add(f, k, c, "", x)
					args(1)
					return
				}
			}
		}
		if id, ok := fn.X.(*ast.Ident); ok && id.Name == w.recv {
			if _, isMethod := w.tf.byName[fn.Sel.Name]; isMethod {
				w.m.calls = append(w.m.calls, callEdge{phase: w.phase(), callee: fn.Sel.Name, mode: c.mode, sub: c.sub,
					tail: c.inRet && c.before && c.mode == "none", inLoop: c.loop, goro: c.goro, line: w.p.line(x)})
				args(0)
				return
			}
			if w.isField(fn.Sel.Name) { // call of a function-valued field
				w.add(fn.Sel.Name, "read", c, "", x)
				args(0)
				return
			}
			if owner := w.tf.embeddedMethodOwner(w.p, fn.Sel.Name); owner != "" {
				// method promoted from an embedded struct of the same package: a call on the object in that field
				w.add(owner, "read", c, "", x)
				w.add(owner, "call", c, fn.Sel.Name, x)
			} else {
				w.add("<promoted>", "call", c, fn.Sel.Name, x)
			}
			args(0)
			return
		}
		if f, rest, ok := w.rootField(fn.X); ok {
			if rest == "" && w.isMutexField(f) {
				w.unknown("<"+fn.Sel.Name+" on mutex "+f+" in an unexpected position>", c, x)
				args(0)
				return
			}
			if _, isAlias := fn.X.(*ast.Ident); !isAlias {
				w.add(f, "read", c, "", x)
			}
			callee := fn.Sel.Name
			if rest != "" {
				callee = rest + "." + callee
			}
			w.add(f, "call", c, callee, x)
			args(0)
			return
		}
		w.derivedUse(fn.X, x) // method call on a local computed from the receiver under a lock it no longer holds
		w.walkExpr(fn.X, argc)
		args(0)
		return
	case *ast.FuncLit:
		args(0)
		w.flowClosure(fn.Body.List, true) // immediately invoked: runs here, under the locks held here
		return
	case *ast.ParenExpr, *ast.ArrayType, *ast.MapType, *ast.StarExpr, *ast.InterfaceType, *ast.ChanType, *ast.FuncType:
		// conversion
		if len(x.Args) == 1 {
			if ue, ok := x.Args[0].(*ast.UnaryExpr); ok && ue.Op == token.AND {
				if f, rest, ok := w.rootField(ue.X); ok && rest == "" {
					// (*T)(&recv.f): fine when the result is an alias used in atomic calls only (prescan)
					for _, af := range w.atomicAlias {
						if af == f {
							return
						}
					}
				}
			}
		}
		args(0)
		return
	default:
		w.walkExpr(x.Fun, argc)
		args(0)
	}
}

// elemEscapes: the method hands out (returns, stores into a non-receiver container, passes to a call) a POINTER
// element of one of the receiver's containers of pointers (map[..]*T / []*T) as it is - the record stays shared
// with the receiver after the method, and its lock, are left behind. Result: the field names concerned.
func elemEscapes(tf *typeFacts, m *method) []string {
	recv := m.recvName
	ptrField := func(e ast.Expr) (string, bool) {
		se, ok := e.(*ast.SelectorExpr)
		if !ok {
			return "", false
		}
		id, ok := se.X.(*ast.Ident)
		if !ok || id.Name != recv || !tf.si.elemPtr[se.Sel.Name] {
			return "", false
		}
		return se.Sel.Name, true
	}
	vars := map[string]string{}
	ast.Inspect(m.decl.Body, func(n ast.Node) bool {
		switch x := n.(type) {
		case *ast.RangeStmt:
			if f, ok := ptrField(x.X); ok {
				if id, ok := x.Value.(*ast.Ident); ok && id.Name != "_" {
					vars[id.Name] = f
				}
			}
		case *ast.AssignStmt:
			if x.Tok == token.DEFINE && len(x.Rhs) == 1 && len(x.Lhs) >= 1 {
				if ix, ok := x.Rhs[0].(*ast.IndexExpr); ok {
					if f, ok := ptrField(ix.X); ok {
						if id, ok := x.Lhs[0].(*ast.Ident); ok && id.Name != "_" {
							vars[id.Name] = f
						}
					}
				}
			}
		}
		return true
	})
	if len(vars) == 0 {
		return nil
	}
	bare := func(e ast.Expr) (string, bool) {
		id, ok := e.(*ast.Ident)
		if !ok {
			return "", false
		}
		f, ok := vars[id.Name]
		return f, ok
	}
	var rootedAtRecv func(e ast.Expr) bool
	rootedAtRecv = func(e ast.Expr) bool {
		switch x := e.(type) {
		case *ast.Ident:
			return x.Name == recv
		case *ast.SelectorExpr:
			return rootedAtRecv(x.X)
		case *ast.IndexExpr:
			return rootedAtRecv(x.X)
		case *ast.StarExpr:
			return rootedAtRecv(x.X)
		case *ast.ParenExpr:
			return rootedAtRecv(x.X)
		}
		return false
	}
	seen := map[string]bool{}
	var out []string
	hit := func(f string) {
		if !seen[f] {
			seen[f] = true
			out = append(out, f)
		}
	}
	ast.Inspect(m.decl.Body, func(n ast.Node) bool {
		switch x := n.(type) {
		case *ast.AssignStmt:
			if len(x.Lhs) == len(x.Rhs) {
				for i, r := range x.Rhs {
					if f, ok := bare(r); ok && !rootedAtRecv(x.Lhs[i]) {
						if id, isID := x.Lhs[i].(*ast.Ident); isID && id.Name == "_" {
							continue
						}
						hit(f)
					}
				}
			}
		case *ast.CallExpr:
			if id, ok := x.Fun.(*ast.Ident); ok && (id.Name == "len" || id.Name == "delete") {
				return true
			}
			for _, a := range x.Args {
				if f, ok := bare(a); ok {
					hit(f)
				}
			}
		case *ast.ReturnStmt:
			for _, r := range x.Results {
				if f, ok := bare(r); ok {
					hit(f)
				}
			}
		case *ast.CompositeLit:
			for _, e := range x.Elts {
				v := e
				if kv, ok := e.(*ast.KeyValueExpr); ok {
					v = kv.Value
				}
				if f, ok := bare(v); ok {
					hit(f)
				}
			}
		}
		return true
	})
	return out
}

// ---- closure over same-receiver calls --------------------------------------------------------------------

func closeAccesses(tf *typeFacts) {
	acc := map[string]map[string]access{}
	for _, m := range tf.methods {
		acc[m.name] = map[string]access{}
		for _, a := range m.direct {
			if _, ok := acc[m.name][a.key()]; !ok {
				acc[m.name][a.key()] = a
			}
		}
	}
	for changed := true; changed; {
		changed = false
		for _, m := range tf.methods {
			for _, ce := range m.calls {
				for _, a := range acc[ce.callee] {
					b := a
					if ce.mode != "none" {
						b.mode = ce.mode
					}
					if b.sub == "" {
						b.sub, b.subID = ce.sub, tf.si.lockID(ce.sub)
					}
					if ce.goro != 0 {
						b.goro = ce.goro
					} else {
						b.goro = 0 // a goroutine spawned by a callee is reported on the callee; here only its accesses matter
						if a.goro != 0 {
							b.mode = "none"
						}
					}
					b.via = ce.callee
					if ce.goro != 0 {
						b.via = fmt.Sprintf("go#%d:%s", ce.goro, ce.callee)
					}
					b.line = ce.line
					if _, ok := acc[m.name][b.key()]; !ok {
						acc[m.name][b.key()] = b
						changed = true
					}
				}
			}
		}
	}
	// sections: how many critical sections of the primary mutex one call of the method may enter
	memo := map[string]int{}
	busy := map[string]bool{}
	var secs func(name string) int
	secs = func(name string) int {
		if v, ok := memo[name]; ok {
			return v
		}
		if busy[name] {
			return 0
		}
		busy[name] = true
		m := tf.byName[name]
		n, alt := m.ownRegions, 0
		for _, ce := range m.calls {
			if ce.mode != "none" {
				continue
			}
			s := secs(ce.callee)
			if ce.inLoop {
				s *= 2
			}
			if ce.tail {
				if s > alt {
					alt = s
				}
			} else {
				n += s
			}
		}
		if alt > n {
			n = alt
		}
		busy[name] = false
		memo[name] = n
		return n
	}
	for _, m := range tf.methods {
		m.sections = secs(m.name)
	}
	for _, m := range tf.methods {
		for _, ce := range m.calls {
			if ce.mode != "none" && secs(ce.callee) > 0 {
				m.reentrant = true
			}
		}
		var list []access
		for _, a := range acc[m.name] {
			list = append(list, a)
		}
		sort.Slice(list, func(i, j int) bool {
			a, b := list[i], list[j]
			if a.fid != b.fid {
				return a.fid < b.fid
			}
			if a.field != b.field {
				return a.field < b.field
			}
			return a.key() < b.key()
		})
		m.closure = list
		for gi := range m.goros {
			seen := map[string]bool{}
			for _, a := range list {
				if a.goro == m.goros[gi].ord && !seen[a.field] {
					seen[a.field] = true
					m.goros[gi].fields = append(m.goros[gi].fields, a.field)
				}
			}
		}
		if m.lock == "" {
			m.lock = "none"
		}
		es := map[string]bool{}
		var el []string
		for _, e := range m.escapes {
			if !es[e] {
				es[e] = true
				el = append(el, e)
			}
		}
		m.escapes = el
	}
}

// ---- Lean output -----------------------------------------------------------------------------------------

const lockTypesLean = `namespace Verif.Gen.LockFacts

/-- how a mutex is held: for a method, over its whole body; for an access, at that access -/
inductive LockMode | none | read | write | partialBody | unknown
  deriving DecidableEq, Repr

inductive AccKind
  | read | assign | append | delete | mapWrite | innerWrite | atomicLoad | atomicStore | addrOf | call | unknown
  deriving DecidableEq, Repr

/-- one kind of access to one receiver field in one lock context (transitively through same-receiver calls) -/
structure Access where
  field : String      -- receiver field name; "<...>" texts for things the extractor could not classify
  fid : Nat           -- 1-based index of the field in the struct declaration, 0 = not a declared field
  kind : AccKind
  mode : LockMode     -- how the receiver's primary mutex is held at the access (none | read | write)
  sub : String        -- innermost other lock held around the access, "" = none
  subId : Nat         -- 0 = none; field index when the lock is a receiver field; 1000+ for any other lock expression
  callee : String     -- kind = call: method invoked on the object behind the field; innerWrite/addrOf: inner path
  via : String        -- "" = in the method's own body, else the same-receiver callee (or go#n) through which it arises
  goroutine : Nat     -- 0 = the calling goroutine; n = inside the n-th ` + "`go`" + ` statement of the method
  line : Nat
  deriving DecidableEq, Repr

structure Call where
  callee : String
  mode : LockMode     -- how the primary mutex is held at the call site
  tail : Bool         -- ` + "`return recv.callee(...)`" + ` before any own critical section: an alternative path
  inLoop : Bool
  goroutine : Nat
  line : Nat
  deriving DecidableEq, Repr

structure Goroutine where
  ordinal : Nat
  line : Nat
  fields : List String    -- receiver fields touched by the goroutine body (transitively)
  captured : List String  -- locals of the method captured by the function literal
  usesRecv : Bool
  deriving DecidableEq, Repr

inductive LitSrc | sameField | otherField | recvCall | other
  deriving DecidableEq, Repr

/-- one field of a ` + "`return &T{...}`" + ` literal of the receiver's own type (how a derived object shares state) -/
structure LitField where
  field : String
  expr : String
  src : LitSrc
  deriving DecidableEq, Repr

structure Method where
  recv : String
  name : String
  exported : Bool
  file : String
  line : Nat
  lock : LockMode        -- shape of the first lock taken at the top level of the body: read/write = held to the end
                         -- (Lock + defer Unlock, or an explicit pair followed only by returns of locals)
  mutex : String         -- which mutex that is ("" when lock = none)
  deferred : Bool        -- released by defer
  preStmts : Nat         -- top-level statements before the lock
  regionStmts : Nat      -- top-level statements inside
  postStmts : Nat        -- top-level statements after the explicit unlock
  sections : Nat         -- critical sections of the primary mutex one call may enter (own + through unlocked calls)
  reentrant : Bool       -- acquires the primary mutex while already holding it (directly or through a callee)
  accesses : List Access
  calls : List Call
  goroutines : List Goroutine
  escapes : List String  -- places where the receiver itself is handed to other code
  elemEscapes : List String  -- receiver fields of type map[..]*T / []*T an element POINTER of which the method hands
                         -- out as it is (returned, stored outside the receiver, passed on): the record stays shared
  literal : List LitField
  deriving DecidableEq, Repr

structure TypeInfo where
  name : String
  fields : List String
  mutexes : List String
  primary : String
  otherLocks : List String  -- lock expressions that are not receiver fields; subId = 1000 + index. A lock reached
                            -- through a parameter or a local of a known type is named Type.field: WHICH instance
                            -- is locked is not tracked (the correspondence suites cover instance identity)
  fieldTypes : List String  -- declared type of every field (source text), parallel to fields
  promoted : List String    -- fields promoted from embedded structs of the same package
  lockHelpers : List String -- methods whose body only locks / unlocks a receiver mutex: treated as that operation
  deriving DecidableEq, Repr

`

func leanAccess(a access) string {
	return fmt.Sprintf("{ field := %s, fid := %d, kind := .%s, mode := .%s, sub := %s, subId := %d, callee := %s, via := %s, goroutine := %d, line := %d }",
		leanStr(a.field), a.fid, a.kind, a.mode, leanStr(a.sub), a.subID, leanStr(a.callee), leanStr(a.via), a.goro, a.line)
}

func leanMethod(m *method) string {
	var accs, calls, goros, lits []string
	for _, a := range m.closure {
		accs = append(accs, leanAccess(a))
	}
	for _, c := range m.calls {
		calls = append(calls, fmt.Sprintf("{ callee := %s, mode := .%s, tail := %s, inLoop := %s, goroutine := %d, line := %d }",
			leanStr(c.callee), c.mode, leanBool(c.tail), leanBool(c.inLoop), c.goro, c.line))
	}
	for _, g := range m.goros {
		goros = append(goros, fmt.Sprintf("{ ordinal := %d, line := %d, fields := %s, captured := %s, usesRecv := %s }",
			g.ord, g.line, leanStrList(g.fields), leanStrList(g.captured), leanBool(g.usesRecv)))
	}
	for _, l := range m.literal {
		lits = append(lits, fmt.Sprintf("{ field := %s, expr := %s, src := .%s }", leanStr(l.field), leanStr(l.expr), l.src))
	}
	return fmt.Sprintf("{ recv := %s, name := %s, exported := %s, file := %s, line := %d,\n      lock := .%s, mutex := %s, deferred := %s, preStmts := %d, regionStmts := %d, postStmts := %d, sections := %d, reentrant := %s,\n      accesses := %s,\n      calls := %s,\n      goroutines := %s,\n      escapes := %s,\n      elemEscapes := %s,\n      literal := %s }",
		leanStr(m.recvType), leanStr(m.name), leanBool(m.exported), leanStr(m.file), m.line,
		m.lock, leanStr(m.mutex), leanBool(m.deferred), m.pre, m.region, m.post, m.sections, leanBool(m.reentrant),
		leanList(accs, "      "), leanList(calls, "      "), leanList(goros, "      "), leanStrList(m.escapes), leanStrList(m.elemEscapes), leanList(lits, "      "))
}

func genLockFacts(util, logp, scp *pkgSrc) string {
	var sb strings.Builder
	sb.WriteString(genHeader)
	sb.WriteString(lockTypesLean)
	type entry struct {
		p    *pkgSrc
		name string
	}
	var all []string
	for _, e := range []entry{
		{util, "MerklePatriciaTrie"}, {util, "ChangeCollector"}, {util, "MemoryNodeDB"}, {util, "LevelNodeDB"},
		{logp, "MemCore"}, {logp, "MemLogger"},
		{scp, "StateCache"}, {scp, "BlockCache"}, {scp, "TransactionCache"},
	} {
		tf := collectType(e.p, e.name)
		ln := tf.leanName
		if e.name == "MerklePatriciaTrie" {
			ln = "mpt"
		}
		all = append(all, ln)
		fmt.Fprintf(&sb, "def %sInfo : TypeInfo :=\n  { name := %s, fields := %s, mutexes := %s, primary := %s, otherLocks := %s,\n    fieldTypes := %s, promoted := %s, lockHelpers := %s }\n\n",
			ln, leanStr(e.name), leanStrList(tf.si.fields), leanStrList(tf.si.mutexes), leanStr(tf.si.primary), leanStrList(tf.si.foreign),
			leanStrList(tf.si.fieldTypes), leanStrList(sortedKeys(tf.si.promoted)), leanStrList(sortedHelperNames(tf.lockHelpers)))
		var ms []string
		// sorted by name: the tables must not depend on the order of the declarations or on the file they are in
		sorted := append([]*method(nil), tf.methods...)
		sort.Slice(sorted, func(i, j int) bool { return sorted[i].name < sorted[j].name })
		for _, m := range sorted {
			// one definition per method keeps elaboration of the big literal cheap and gives `decide` small terms
			dn := ln + "_" + m.name
			fmt.Fprintf(&sb, "def %s : Method :=\n    %s\n\n", dn, leanMethod(m))
			ms = append(ms, dn)
		}
		fmt.Fprintf(&sb, "/-- every method of %s found in %s (non-test files) -/\ndef %s : List Method :=\n  [%s]\n\n", e.name, e.p.dir, ln, strings.Join(ms, ", "))
	}
	fmt.Fprintf(&sb, "def all : List Method :=\n  %s\n\n", strings.Join(all, " ++ "))
	sb.WriteString("/-- look a method up by name -/\ndef find? (tbl : List Method) (name : String) : Option Method := tbl.find? (fun m => m.name == name)\n\n")
	sb.WriteString("end Verif.Gen.LockFacts\n")
	return sb.String()
}

func sortedKeys(m map[string]string) []string {
	var ks []string
	for k := range m {
		ks = append(ks, k)
	}
	sort.Strings(ks)
	return ks
}

func sortedHelperNames(m map[string]lockHelper) []string {
	var ks []string
	for k := range m {
		ks = append(ks, k)
	}
	sort.Strings(ks)
	return ks
}

// lockHelperOf: the method's body only locks / unlocks one receiver mutex (and, for a releaser, returns the unlock)
func (w *walker) lockHelperOf() (lockHelper, bool) {
	body := w.m.decl.Body.List
	recvLock := func(e ast.Expr) (string, string, bool) {
		ce, ok := e.(*ast.CallExpr)
		if !ok || len(ce.Args) != 0 {
			return "", "", false
		}
		se, ok := ce.Fun.(*ast.SelectorExpr)
		if !ok {
			return "", "", false
		}
		switch se.Sel.Name {
		case "Lock", "RLock", "Unlock", "RUnlock":
		default:
			return "", "", false
		}
		if id, isID := se.X.(*ast.Ident); isID && id.Name == w.recv && w.tf.si.embMutex != "" {
			return w.tf.si.embMutex, se.Sel.Name, true
		}
		if f, r, ok := w.rootField(se.X); ok && r == "" && w.isMutexField(f) {
			return f, se.Sel.Name, true
		}
		return "", "", false
	}
	if len(body) == 1 {
		if es, ok := body[0].(*ast.ExprStmt); ok {
			if p, op, ok := recvLock(es.X); ok {
				if op == "Lock" || op == "RLock" {
					return lockHelper{"acquire", p, op}, true
				}
				return lockHelper{"release", p, op}, true
			}
		}
	}
	if len(body) == 2 {
		es, ok1 := body[0].(*ast.ExprStmt)
		rs, ok2 := body[1].(*ast.ReturnStmt)
		if ok1 && ok2 && len(rs.Results) == 1 {
			p, op, ok := recvLock(es.X)
			if !ok || (op != "Lock" && op != "RLock") {
				return lockHelper{}, false
			}
			want := unlockOf(op)
			switch r := rs.Results[0].(type) {
			case *ast.SelectorExpr: // return recv.mu.Unlock
				if r.Sel.Name == want {
					if f, rest, ok := w.rootField(r.X); ok && rest == "" && f == p {
						return lockHelper{"releaser", p, op}, true
					}
					if id, isID := r.X.(*ast.Ident); isID && id.Name == w.recv && w.tf.si.embMutex == p {
						return lockHelper{"releaser", p, op}, true
					}
				}
			case *ast.FuncLit: // return func() { recv.mu.Unlock() }
				if len(r.Body.List) == 1 {
					if ies, ok := r.Body.List[0].(*ast.ExprStmt); ok {
						if p2, op2, ok := recvLock(ies.X); ok && p2 == p && op2 == want {
							return lockHelper{"releaser", p, op}, true
						}
					}
				}
			}
		}
	}
	return lockHelper{}, false
}

// embeddedMethodOwner: the embedded field whose (same-package) type declares method `name`
func (tf *typeFacts) embeddedMethodOwner(p *pkgSrc, name string) string {
	for _, fn := range p.names {
		for _, d := range p.files[fn].Decls {
			fd, ok := d.(*ast.FuncDecl)
			if !ok || fd.Name.Name != name {
				continue
			}
			if _, rt := recvOf(fd); rt != "" && tf.si.embedded[rt] {
				return rt
			}
		}
	}
	return ""
}

// choosePrimary: the type's primary mutex is the mutex field most methods lock (ties: an RWMutex before a Mutex, then
// by name) - not the first declared one, so that reordering the struct's fields changes nothing. `mutexes` is
// reordered to [primary, the others sorted by name].
func choosePrimary(p *pkgSrc, tf *typeFacts) {
	si := tf.si
	if len(si.mutexes) < 2 {
		return
	}
	count := map[string]int{}
	for _, m := range tf.methods {
		w := &walker{p: p, tf: tf, m: m, recv: m.recvName, alias: map[string]string{}, atomicAlias: map[string]string{}, lockAlias: map[string]string{}}
		w.tf.lockHelpers = map[string]lockHelper{}
		w.prescan(m.decl.Body)
		seen := map[string]bool{}
		ast.Inspect(m.decl.Body, func(n ast.Node) bool {
			if ce, ok := n.(*ast.CallExpr); ok {
				if path, op, ok := w.lockCall(ce); ok && (op == "Lock" || op == "RLock") && !seen[path] {
					seen[path] = true
					count[path]++
				}
			}
			return true
		})
	}
	isRW := map[string]bool{}
	for i, f := range si.fields {
		if strings.Contains(si.fieldTypes[i], "RWMutex") {
			isRW[f] = true
		}
	}
	ms := append([]string(nil), si.mutexes...)
	sort.SliceStable(ms, func(i, j int) bool {
		a, b := ms[i], ms[j]
		if count[a] != count[b] {
			return count[a] > count[b]
		}
		if isRW[a] != isRW[b] {
			return isRW[a]
		}
		return a < b
	})
	rest := append([]string(nil), ms[1:]...)
	sort.Strings(rest)
	si.mutexes = append([]string{ms[0]}, rest...)
	si.primary = ms[0]
}
