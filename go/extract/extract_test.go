package main

import (
	"flag"
	"fmt"
	"os"
	"path/filepath"
	"sort"
	"strings"
	"testing"
)

var update = flag.Bool("update", false, "rewrite the golden files from the extractor's current output")

// renderMethod prints one table row in a compact, reviewable form.
func renderMethod(m *method) string {
	var sb strings.Builder
	fmt.Fprintf(&sb, "%s.%s lock=%s mutex=%q deferred=%v pre=%d region=%d post=%d sections=%d reentrant=%v",
		m.recvType, m.name, m.lock, m.mutex, m.deferred, m.pre, m.region, m.post, m.sections, m.reentrant)
	var accs []string
	for _, a := range m.closure {
		x := fmt.Sprintf("%s:%s:%s", a.field, a.kind, a.mode)
		if a.sub != "" {
			x += ":sub=" + a.sub
		}
		if a.callee != "" {
			x += ":callee=" + a.callee
		}
		if a.via != "" {
			x += ":via=" + a.via
		}
		if a.goro != 0 {
			x += fmt.Sprintf(":go#%d", a.goro)
		}
		accs = append(accs, x)
	}
	sort.Strings(accs)
	for _, a := range accs {
		sb.WriteString("\n    " + a)
	}
	for _, g := range m.goros {
		fmt.Fprintf(&sb, "\n    goroutine #%d fields=%v captured=%v", g.ord, g.fields, g.captured)
	}
	if len(m.elemEscapes) > 0 {
		fmt.Fprintf(&sb, "\n    elemEscapes=%v", m.elemEscapes)
	}
	if len(m.escapes) > 0 {
		fmt.Fprintf(&sb, "\n    escapes=%v", m.escapes)
	}
	return sb.String()
}

// written: the fields some method of the type writes (the others are "frozen": reading them needs no lock)
func written(tf *typeFacts) map[string]bool {
	w := map[string]bool{}
	for _, m := range tf.methods {
		for _, a := range m.closure {
			if a.kind != "read" && a.kind != "atomicLoad" {
				w[a.field] = true
			}
		}
	}
	return w
}

// optimistic mirrors Verif.Model.LockTable.tableOK for one row: would this row let the method pass the discipline?
func optimistic(m *method, wr map[string]bool) bool {
	if (m.lock != "read" && m.lock != "write" && m.lock != "none") || m.reentrant || m.sections > 1 || len(m.elemEscapes) > 0 {
		return false
	}
	for _, a := range m.closure {
		atomicAcc := a.kind == "atomicLoad" || a.kind == "atomicStore"
		frozenRead := a.kind == "read" && !wr[a.field]
		isWrite := a.kind != "read" && a.kind != "atomicLoad"
		switch {
		case a.kind == "unknown" || a.fid == 0 || a.kind == "addrOf":
			return false
		case a.goro != 0 && !frozenRead: // a goroutine may outlive the lock
			return false
		case a.mode == "none" && !frozenRead && !atomicAcc: // touched without the lock
			return false
		case isWrite && a.kind != "call" && a.mode != "write" && !atomicAcc && a.sub == "":
			// written outside W mode without a sub-lock (a call goes to an internally locked object: LockTable.toFAcc)
			return false
		}
	}
	return true
}

func loadShapes(t *testing.T) map[string]*typeFacts {
	p, err := parseDir("testdata", "locks")
	if err != nil {
		t.Fatal(err)
	}
	out := map[string]*typeFacts{}
	for _, n := range []string{"T", "D", "E", "H", "Inner", "Base"} {
		out[n] = collectType(p, n)
	}
	return out
}

func TestGoldenLockShapes(t *testing.T) {
	tfs := loadShapes(t)
	var sb strings.Builder
	for _, n := range []string{"T", "D", "E", "H", "Inner", "Base"} {
		for _, m := range tfs[n].methods {
			sb.WriteString(renderMethod(m) + "\n")
		}
	}
	golden := filepath.Join("testdata", "locks", "shapes.golden")
	if *update {
		if err := os.WriteFile(golden, []byte(sb.String()), 0o644); err != nil {
			t.Fatal(err)
		}
	}
	want, err := os.ReadFile(golden)
	if err != nil {
		t.Fatal(err)
	}
	if string(want) != sb.String() {
		t.Errorf("extractor output differs from %s (run `go test -update` only after reviewing the change):\n--- got\n%s", golden, diffLines(string(want), sb.String()))
	}
}

func diffLines(want, got string) string {
	w, g := strings.Split(want, "\n"), strings.Split(got, "\n")
	var out []string
	for i := 0; i < len(w) || i < len(g); i++ {
		var a, b string
		if i < len(w) {
			a = w[i]
		}
		if i < len(g) {
			b = g[i]
		}
		if a != b {
			out = append(out, fmt.Sprintf("line %d\n  want: %s\n  got:  %s", i+1, a, b))
			if len(out) > 12 {
				break
			}
		}
	}
	return strings.Join(out, "\n")
}

// TestNegativeShapesAreNeverOptimistic is independent of the golden file: whatever the extractor prints for a Neg*
// method, it must not be a row that the lock discipline would accept; and every Pos* method must be.
func TestNegativeShapesAreNeverOptimistic(t *testing.T) {
	tfs := loadShapes(t)
	seenNeg, seenPos := 0, 0
	for _, tf := range tfs {
		wr := written(tf)
		for _, m := range tf.methods {
			switch {
			case strings.HasPrefix(m.name, "Neg"):
				seenNeg++
				if optimistic(m, wr) {
					t.Errorf("%s.%s is reported optimistically:\n%s", m.recvType, m.name, renderMethod(m))
				}
			case strings.HasPrefix(m.name, "Pos"):
				seenPos++
				if !optimistic(m, wr) {
					t.Errorf("%s.%s should be recognised:\n%s", m.recvType, m.name, renderMethod(m))
				}
			}
		}
	}
	if seenNeg < 15 || seenPos < 12 {
		t.Errorf("snippets missing: %d negative, %d positive methods seen", seenNeg, seenPos)
	}
}

// pinned expectations written by hand (not derived from the tool's output)
func TestPinnedRows(t *testing.T) {
	T := loadShapes(t)["T"]
	get := func(n string) *method {
		m := T.byName[n]
		if m == nil {
			t.Fatalf("method %s not found", n)
		}
		return m
	}
	has := func(m *method, field, kind, mode, sub string) bool {
		for _, a := range m.closure {
			if a.field == field && a.kind == kind && a.mode == mode && a.sub == sub {
				return true
			}
		}
		return false
	}
	check := func(cond bool, msg string, m *method) {
		if !cond {
			t.Errorf("%s\n%s", msg, renderMethod(m))
		}
	}
	m := get("PosDeferTop")
	check(m.lock == "write" && m.mutex == "mu" && m.deferred && m.pre == 0 && has(m, "a", "assign", "write", ""), "Lock + defer Unlock at the top", m)
	m = get("PosRDeferTop")
	check(m.lock == "read" && m.deferred && has(m, "a", "read", "read", ""), "RLock + defer RUnlock", m)
	m = get("PosBracket")
	check(m.lock == "write" && m.deferred && m.post == 0 && has(m, "a", "assign", "write", "") && has(m, "m", "mapWrite", "write", "") && has(m, "m", "delete", "write", ""), "explicit bracket", m)
	m = get("PosBracketReturnLocal")
	check(m.lock == "read" && m.post == 0 && m.deferred && has(m, "list", "read", "read", ""), "bracket followed by a return of a fresh local", m)
	m = get("PosBracketReturnsFieldValue")
	check(m.lock == "read" && m.deferred && has(m, "m", "read", "read", ""), "RLock; x := field; RUnlock; return x", m)
	m = get("PosUnlockBeforeEachReturn")
	check(m.lock == "write" && m.sections == 1 && has(m, "a", "assign", "write", ""), "explicit unlock before each return", m)
	m = get("PosDeferClosureDoesMore")
	check(m.lock == "write" && has(m, "a", "assign", "write", "") && !has(m, "a", "assign", "none", ""), "deferred closure that writes and then unlocks", m)
	m = get("PosLockInsideBranch")
	check(m.lock == "write" && m.sections == 1 && has(m, "a", "assign", "write", ""), "lock inside an if, access in the same branch", m)
	m = get("PosWrapperAndNoLockBody")
	check(m.lock == "write" && has(m, "a", "assign", "write", "") && !has(m, "a", "assign", "none", ""), "locking wrapper + NoLock body", m)
	m = get("PosMutexAlias")
	check(m.lock == "write" && m.mutex == "mu" && has(m, "a", "assign", "write", ""), "mu := &t.mu; mu.Lock()", m)
	m = get("NegLockPerIteration")
	check(m.lock == "partialBody" && m.sections == 2 && has(m, "a", "assign", "write", ""), "one section per loop iteration: every access locked, but not ONE section", m)
	for _, n := range []string{"NegUnlockOnOnePathOnly", "NegReturnWhileHolding", "NegLoopLeavesLockHeld", "NegDoubleLock", "NegUnlockNotHeld", "NegBreakWhileHolding"} {
		m = get(n)
		check(m.lock == "unknown", "irregular lock use must be reported", m)
	}
	m = get("NegGoroutineDoesNotInheritTheLock")
	check(has(m, "a", "assign", "none", ""), "`go recv.method()` runs without the caller's locks", m)
	m = get("PosTailDelegation")
	check(m.lock == "write" && m.sections == 1, "return recv.locked() before the own section is an alternative path", m)
	m = get("NegWriteUnderReadLock")
	check(m.lock == "read" && has(m, "a", "assign", "read", ""), "write under the read lock is recorded as such", m)
	m = get("PosLockInCallee")
	check(m.lock == "none" && m.sections == 1 && has(m, "b", "assign", "write", ""), "lock taken in a callee", m)
	m = get("PosCalleeUnderLock")
	check(has(m, "b", "assign", "write", "") && !has(m, "b", "assign", "none", ""), "callee's accesses inherit the caller's lock", m)
	m = get("PosSubLock")
	check(m.lock == "read" && has(m, "list", "append", "read", "sub"), "sub-lock around a field write under the read lock", m)
	m = get("PosGoroutineReadsFrozen")
	check(len(m.goros) == 1 && has(m, "ver", "read", "none", "") && len(m.goros[0].fields) == 1, "goroutine accesses are recorded without the lock", m)
	m = get("PosAtomic")
	check(has(m, "cnt", "atomicStore", "none", "") && has(m, "ver", "atomicLoad", "none", ""), "atomic accesses, also through a pointer alias", m)
	m = get("PosDeferClosureUnlock")
	check(m.lock == "write" && m.deferred && has(m, "a", "assign", "write", ""), "defer func(){ Unlock }()", m)
	m = get("PosCopiesRecord")
	check(len(m.elemEscapes) == 0, "a copied record does not escape", m)

	m = get("NegEarlyUnlock")
	check(m.lock == "read" && !m.deferred && m.post == 1 && has(m, "b", "assign", "none", ""), "early unlock: the later write is unlocked", m)
	m = get("NegNoUnlock")
	check(m.lock == "unknown", "lock without unlock", m)
	m = get("NegMismatchedPair")
	check(m.lock == "unknown", "Lock + defer RUnlock", m)
	m = get("NegTwoSections")
	check(m.lock == "partialBody" && m.sections == 2, "two critical sections", m)
	m = get("NegReentrant")
	check(m.reentrant, "re-entrant read lock", m)
	m = get("NegLocalNamedLikeTheMutex")
	check(m.mutex == "local:mu" && has(m, "a", "assign", "none", "local:mu"), "a local called mu is not the receiver's mu", m)
	m = get("NegForeignLockOnly")
	check(m.mutex == "Inner.mu" && has(m, "a", "assign", "none", "Inner.mu"), "holding another object's lock is not holding the receiver's", m)
	all := loadShapes(t)
	hm := func(typ, n string) *method {
		m := all[typ].byName[n]
		if m == nil {
			t.Fatalf("method %s.%s not found", typ, n)
		}
		return m
	}
	m = hm("D", "PosPromoted")
	check(m.lock == "write" && m.mutex == "mu" && has(m, "n", "assign", "write", "") && has(m, "x", "assign", "write", ""), "promoted mutex and field of an embedded struct", m)
	m = hm("D", "PosPromotedExplicitPath")
	check(m.lock == "write" && m.mutex == "mu" && has(m, "n", "assign", "write", ""), "d.Base.mu / d.Base.n are the promoted d.mu / d.n", m)
	m = hm("E", "PosEmbeddedMutexPromotedCall")
	check(m.lock == "read" && m.mutex == "RWMutex" && has(m, "v", "read", "read", ""), "embedded sync.RWMutex: e.RLock()", m)
	m = hm("E", "PosEmbeddedMutexExplicitPath")
	check(m.lock == "write" && m.mutex == "RWMutex" && has(m, "v", "assign", "write", ""), "e.RWMutex.Lock() ... e.Unlock() is one lock", m)
	m = hm("H", "PosDeferReleaserHelper")
	check(m.lock == "read" && m.mutex == "mu" && m.deferred && has(m, "v", "read", "read", ""), "defer h.rlock()()", m)
	m = hm("H", "PosReleaserInLocal")
	check(m.lock == "write" && has(m, "v", "assign", "write", ""), "release := h.wlock(); ...; release()", m)
	m = hm("H", "PosReleaserInLocalDeferred")
	check(m.lock == "write" && has(m, "v", "assign", "write", ""), "release := h.wlock(); defer release()", m)
	m = hm("H", "PosLockUnlockWrappers")
	check(m.lock == "write" && m.mutex == "mu" && has(m, "v", "assign", "write", ""), "h.lock(); defer h.unlock()", m)
	m = hm("H", "NegWrapperLockNeverReleased")
	check(m.lock == "unknown", "wrapper lock never released", m)
	m = hm("H", "NegReleaserDropped")
	check(m.lock == "unknown", "releaser dropped: the lock stays held", m)
	m = hm("H", "NegLockOfDerivedInstance")
	check(m.mutex == "H.mu" && has(m, "v", "assign", "none", "H.mu"), "lock of another instance is named by type+field", m)
	m = get("PosMethodValueAsCallback")
	check(m.lock == "write" && has(m, "b", "assign", "write", "") && has(m, "list", "read", "write", ""), "method value as callback under the lock", m)
	m = get("NegMethodValueCallbackWithoutLock")
	check(has(m, "b", "assign", "none", ""), "method value as callback without the lock", m)
	m = get("NegGoroutineWrites")
	check(has(m, "a", "assign", "none", ""), "a goroutine's write is unlocked", m)
	m = get("NegPreludeTouchesState")
	check(m.lock == "write" && m.pre == 1 && has(m, "a", "read", "none", ""), "prelude reading state before the lock", m)
	m = get("NegHandsOutRecord")
	check(len(m.elemEscapes) == 1 && m.elemEscapes[0] == "recs", "record pointer handed out", m)
	m = get("NegUnlockedWriteThroughCallee")
	check(has(m, "b", "assign", "none", ""), "unlocked write through a callee", m)
}
