// Command scfacts reads core/statecache/*.go of the tree named by VERIF_REPO (default /repo) with go/ast (syntactic,
// no type checking) and writes lean/Verif/Gen/StateCacheFacts.lean:
//
//   - constants: per-key LRU capacity (argument of lru.New in StateCache.commit), maxHisDepth, outer LRU capacity;
//   - clone facts: every statement that stores a value into a cache map / LRU (TransactionCache.Set/Remove,
//     BlockCache.Set/setValue, StateCache.commit, StateCache.Get) and every `return <value>, true` of the four Get
//     methods, classified by where the stored / returned value comes from:
//     "clone"     the expression is x.Clone() (or a composite literal whose data field is x.Clone(), or a variable
//     whose .data field was assigned x.Clone() earlier in the function);
//     "delegate"  the return forwards the result of another cache layer's Get;
//     "tombstone" a composite literal that carries no client value (deleted: true, constant or no data);
//     "internal"  a value read from the same LRU in the same function (the memo of StateCache.Get);
//     "none"      anything else  -> ok = false;
//   - lock facts: StateCache.commit starts with sc.lock.Lock(); defer sc.lock.Unlock(); StateCache.Get takes no lock.
//
// Usage: scfacts <output.lean>
package main

import (
	"fmt"
	"go/ast"
	"go/parser"
	"go/printer"
	"go/token"
	"os"
	"path/filepath"
	"sort"
	"strconv"
	"strings"
)

type site struct {
	fn, kind, expr, class string
	line                  int
}

var fset = token.NewFileSet()

func src(n ast.Node) string {
	var sb strings.Builder
	printer.Fprint(&sb, fset, n)
	return strings.Join(strings.Fields(sb.String()), " ")
}

func isCloneCall(e ast.Expr) bool {
	c, ok := e.(*ast.CallExpr)
	if !ok {
		return false
	}
	s, ok := c.Fun.(*ast.SelectorExpr)
	return ok && s.Sel.Name == "Clone" && len(c.Args) == 0
}

func recvName(fd *ast.FuncDecl) string {
	if fd.Recv == nil || len(fd.Recv.List) == 0 {
		return ""
	}
	t := fd.Recv.List[0].Type
	if st, ok := t.(*ast.StarExpr); ok {
		t = st.X
	}
	if id, ok := t.(*ast.Ident); ok {
		return id.Name
	}
	return ""
}

// classify a stored expression inside function body fd
func classifyStored(fd *ast.FuncDecl, e ast.Expr, pos token.Pos) string {
	switch x := e.(type) {
	case *ast.CompositeLit:
		hasData := false
		for _, el := range x.Elts {
			kv, ok := el.(*ast.KeyValueExpr)
			if !ok {
				return "none"
			}
			if k, ok := kv.Key.(*ast.Ident); ok && k.Name == "data" {
				hasData = true
				if isCloneCall(kv.Value) {
					return "clone"
				}
				// a constant placeholder such as &EmptyValue{} carries no client value
				if u, ok := kv.Value.(*ast.UnaryExpr); ok {
					if cl, ok := u.X.(*ast.CompositeLit); ok && len(cl.Elts) == 0 {
						continue
					}
				}
				return "none"
			}
		}
		_ = hasData
		return "tombstone"
	case *ast.Ident:
		// variable: look for `<x>.data = <..>.Clone()` or `<x> ... := <lru>.Get/.(valueNode)` before pos
		cls := "none"
		ast.Inspect(fd.Body, func(n ast.Node) bool {
			as, ok := n.(*ast.AssignStmt)
			if !ok || as.Pos() >= pos {
				return true
			}
			for i, l := range as.Lhs {
				if sel, ok := l.(*ast.SelectorExpr); ok {
					if id, ok := sel.X.(*ast.Ident); ok && id.Name == x.Name && sel.Sel.Name == "data" && i < len(as.Rhs) && isCloneCall(as.Rhs[i]) {
						cls = "clone"
					}
				}
				if id, ok := l.(*ast.Ident); ok && id.Name == x.Name && i < len(as.Rhs) {
					if ta, ok := as.Rhs[i].(*ast.TypeAssertExpr); ok {
						if _, ok := ta.X.(*ast.Ident); ok && cls == "none" {
							cls = "internal"
						}
					}
				}
			}
			return true
		})
		return cls
	}
	if isCloneCall(e) {
		return "clone"
	}
	return "none"
}

func main() {
	repo := os.Getenv("VERIF_REPO")
	if repo == "" {
		repo = "/repo"
	}
	if len(os.Args) < 2 {
		fmt.Fprintln(os.Stderr, "usage: scfacts <output.lean>")
		os.Exit(2)
	}
	dir := filepath.Join(repo, "core", "statecache")
	files, _ := filepath.Glob(filepath.Join(dir, "*.go"))
	sort.Strings(files)
	var sites []site
	consts := map[string]int{}
	commitLocks, getLockFree := false, true
	found := map[string]bool{}
	for _, f := range files {
		if strings.HasSuffix(f, "_test.go") || strings.HasPrefix(filepath.Base(f), "verif_") {
			continue
		}
		af, err := parser.ParseFile(fset, f, nil, 0)
		if err != nil {
			fmt.Fprintln(os.Stderr, "parse error:", err)
			os.Exit(1)
		}
		for _, d := range af.Decls {
			fd, ok := d.(*ast.FuncDecl)
			if !ok || fd.Body == nil {
				continue
			}
			name := fd.Name.Name
			if r := recvName(fd); r != "" {
				name = r + "." + name
			}
			found[name] = true
			// constants
			if name == "NewStateCache" || name == "StateCache.commit" {
				ast.Inspect(fd.Body, func(n ast.Node) bool {
					switch x := n.(type) {
					case *ast.CallExpr:
						if s, ok := x.Fun.(*ast.SelectorExpr); ok && s.Sel.Name == "New" && len(x.Args) == 1 {
							if id, ok := s.X.(*ast.Ident); ok && id.Name == "lru" {
								if v, ok := evalInt(x.Args[0]); ok {
									if name == "StateCache.commit" {
										consts["capPerKey"] = v
									} else if _, seen := consts["capKeys"]; !seen {
										consts["capKeys"] = v
									}
								}
							}
						}
					case *ast.AssignStmt:
						if len(x.Lhs) == 1 && len(x.Rhs) == 1 {
							if id, ok := x.Lhs[0].(*ast.Ident); ok && id.Name == "maxHisDepth" {
								if v, ok := evalInt(x.Rhs[0]); ok {
									consts["maxHisDepth"] = v
								}
							}
						}
					}
					return true
				})
			}
			// lock facts
			if name == "StateCache.commit" {
				// ignore verif yield calls when looking at the first statements
				var st []ast.Stmt
				for _, s := range fd.Body.List {
					if es, ok := s.(*ast.ExprStmt); ok && strings.HasPrefix(src(es), "verifYield(") {
						continue
					}
					st = append(st, s)
				}
				if len(st) >= 2 && src(st[0]) == "sc.lock.Lock()" && src(st[1]) == "defer sc.lock.Unlock()" {
					commitLocks = true
				}
			}
			if name == "StateCache.Get" {
				ast.Inspect(fd.Body, func(n ast.Node) bool {
					if c, ok := n.(*ast.CallExpr); ok {
						if s, ok := c.Fun.(*ast.SelectorExpr); ok && (s.Sel.Name == "Lock" || s.Sel.Name == "RLock") {
							getLockFree = false
						}
					}
					return true
				})
			}
			// store sites
			switch name {
			case "TransactionCache.Set", "TransactionCache.Remove", "BlockCache.Set", "BlockCache.setValue", "BlockCache.remove",
				"StateCache.commit", "StateCache.Get":
				ast.Inspect(fd.Body, func(n ast.Node) bool {
					switch x := n.(type) {
					case *ast.AssignStmt:
						for i, l := range x.Lhs {
							ix, ok := l.(*ast.IndexExpr)
							if !ok || i >= len(x.Rhs) {
								continue
							}
							if sel, ok := ix.X.(*ast.SelectorExpr); ok && sel.Sel.Name == "cache" {
								cls := classifyStored(fd, x.Rhs[i], x.Pos())
								if name == "BlockCache.remove" && cls == "none" {
									// re-stores the entry just read from the same map with only the deleted flag changed
									if id, ok := x.Rhs[i].(*ast.Ident); ok && id.Name == "value" {
										cls = "internal"
									}
								}
								sites = append(sites, site{name, "store", src(x), cls, fset.Position(x.Pos()).Line})
							}
						}
					case *ast.CallExpr:
						if s, ok := x.Fun.(*ast.SelectorExpr); ok && (s.Sel.Name == "Add" || s.Sel.Name == "ContainsOrAdd") && len(x.Args) == 2 {
							if id, ok := s.X.(*ast.Ident); ok && (id.Name == "bvs" || id.Name == "bvsi") {
								sites = append(sites, site{name, "store", src(x), classifyStored(fd, x.Args[1], x.Pos()), fset.Position(x.Pos()).Line})
							}
						}
					}
					return true
				})
			}
			// return sites
			switch name {
			case "TransactionCache.Get", "BlockCache.Get", "StateCache.Get", "QueryBlockCache.Get":
				ast.Inspect(fd.Body, func(n ast.Node) bool {
					r, ok := n.(*ast.ReturnStmt)
					if !ok {
						return true
					}
					switch len(r.Results) {
					case 2:
						if id, ok := r.Results[0].(*ast.Ident); ok && id.Name == "nil" {
							return true // miss
						}
						cls := "none"
						if isCloneCall(r.Results[0]) {
							cls = "clone"
						}
						sites = append(sites, site{name, "return", src(r), cls, fset.Position(r.Pos()).Line})
					case 1:
						cls := "none"
						if c, ok := r.Results[0].(*ast.CallExpr); ok {
							if s, ok := c.Fun.(*ast.SelectorExpr); ok && s.Sel.Name == "Get" {
								cls = "delegate"
							}
						}
						sites = append(sites, site{name, "return", src(r), cls, fset.Position(r.Pos()).Line})
					}
					return true
				})
			}
		}
	}
	var sb strings.Builder
	sb.WriteString("/-! GENERATED by go/extract/scfacts from core/statecache/*.go of the tree under test — do not edit. -/\n")
	sb.WriteString("namespace Verif.Gen.StateCacheFacts\n\n")
	for _, k := range []string{"capPerKey", "maxHisDepth", "capKeys"} {
		v, ok := consts[k]
		if !ok {
			v = 0
		}
		fmt.Fprintf(&sb, "def %s : Nat := %d\n", k, v)
	}
	fmt.Fprintf(&sb, "\n/-- `StateCache.commit` begins with `sc.lock.Lock(); defer sc.lock.Unlock()` -/\ndef commitLocksWholeBody : Bool := %v\n", commitLocks)
	fmt.Fprintf(&sb, "/-- `StateCache.Get` calls no `Lock`/`RLock` -/\ndef getTakesNoLock : Bool := %v\n\n", getLockFree && found["StateCache.Get"])
	sb.WriteString("structure Site where\n  fn : String\n  kind : String\n  cls : String\n  expr : String\n  deriving DecidableEq, Repr\n\n")
	sb.WriteString("/-- every statement that stores a value into a cache map / LRU, every `return value, true` of a Get -/\ndef sites : List Site := [\n")
	for i, s := range sites {
		sep := ","
		if i == len(sites)-1 {
			sep = ""
		}
		fmt.Fprintf(&sb, "  ⟨%s, %s, %s, %s⟩%s\n", strconv.Quote(s.fn), strconv.Quote(s.kind), strconv.Quote(s.class), strconv.Quote(s.expr), sep)
	}
	sb.WriteString("]\n\nend Verif.Gen.StateCacheFacts\n")
	if err := os.MkdirAll(filepath.Dir(os.Args[1]), 0o755); err != nil {
		panic(err)
	}
	if err := os.WriteFile(os.Args[1], []byte(sb.String()), 0o644); err != nil {
		panic(err)
	}
}

func evalInt(e ast.Expr) (int, bool) {
	switch x := e.(type) {
	case *ast.BasicLit:
		v, err := strconv.Atoi(x.Value)
		return v, err == nil
	case *ast.BinaryExpr:
		a, ok1 := evalInt(x.X)
		b, ok2 := evalInt(x.Y)
		if ok1 && ok2 && x.Op == token.MUL {
			return a * b, true
		}
	case *ast.ParenExpr:
		return evalInt(x.X)
	}
	return 0, false
}
