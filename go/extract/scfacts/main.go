// Command scfacts reads core/statecache/*.go of the tree named by VERIF_REPO (default /repo) with go/ast (syntactic,
// no type checking) and writes lean/Verif/Gen/StateCacheFacts.lean:
//
//   - constants: the LRU capacities and maxHisDepth (found through the `&StateCache{...}` literal of the constructor and
//     the remaining `lru.New(n)` calls of the package, with local / package constants evaluated);
//   - clone facts: every statement of the package that stores something into a map or an LRU (`m[k] = v`,
//     `x.Add / ContainsOrAdd / PeekOrAdd(k, v)`) and every `return` of a function whose first result is a `Value`,
//     classified by WHERE THE VALUE COMES FROM — a small intra-procedural def-use analysis, independent of how the
//     statement is written:
//     "clone"     x.Clone(); a local all of whose assignments are clones; a call of a package helper all of whose
//     returns are clones; `valueNode{data: <clone>}`; a valueNode variable after `v.data = <clone>`; a parameter of
//     an unexported function that receives a clone at every call site;
//     "delegate"  the result of another cache layer's Get (already a private copy made by that layer);
//     "tombstone" a composite literal that carries no client value (no data, nil, or an empty placeholder literal);
//     "internal"  a value read out of a cache map / LRU in the same function (moved between cache-internal containers);
//     "nonvalue"  not a client value at all (strings, the per-key LRU itself, ...);
//     "none"      anything else, e.g. a parameter of an exported method, or a variable that is both stored into a
//     cache and returned to the caller (one object in two places).
//     Every site also lists the API entry points from which it is reachable through calls of unexported package
//     functions (`roots`), so that moving a statement into a helper keeps it attributed to Set / Get / Commit.
//
// Usage: scfacts <output.lean>
package main

import (
	"fmt"
	"go/ast"
	"go/parser"
	"go/printer"
	"go/token"
	"os"
	"path/filepath"
	"sort"
	"strconv"
	"strings"
)

type site struct {
	fn, kind, expr, class string
	line                  int
	roots                 []string
}

type fnInfo struct {
	name, bare, recvType, recvVar string
	decl                          *ast.FuncDecl
	params                        []param
	exported                      bool
}

type param struct{ name, typ string }

var (
	fset      = token.NewFileSet()
	funcs     = map[string]*fnInfo{}
	byBare    = map[string][]*fnInfo{}
	pkgConsts = map[string]ast.Expr{}
	apiRoots  = []string{"TransactionCache.Set", "TransactionCache.Remove", "TransactionCache.Get", "TransactionCache.Commit",
		"BlockCache.Set", "BlockCache.Get", "BlockCache.Commit", "QueryBlockCache.Get", "StateCache.Get"}
)

func src(n ast.Node) string {
	var sb strings.Builder
	printer.Fprint(&sb, fset, n)
	return strings.Join(strings.Fields(sb.String()), " ")
}

func isCloneCall(e ast.Expr) bool {
	c, ok := e.(*ast.CallExpr)
	if !ok {
		return false
	}
	s, ok := c.Fun.(*ast.SelectorExpr)
	return ok && s.Sel.Name == "Clone" && len(c.Args) == 0
}

func isValueType(t string) bool {
	return t == "Value" || t == valueNodeType || t == "interface{}" || t == "any"
}

// ---------------------------------------------------------------------------------------------- provenance classes

// join of the classes of several definitions that may all reach a use
func join(cs []string) string {
	if len(cs) == 0 {
		return "none"
	}
	set := map[string]bool{}
	for _, c := range cs {
		set[c] = true
	}
	if len(set) == 1 {
		return cs[0]
	}
	if set["none"] || set["nonvalue"] {
		return "none"
	}
	if set["internal"] && set["delegate"] {
		return "none"
	}
	if set["internal"] {
		return "internal"
	}
	if set["delegate"] {
		return "delegate"
	}
	return "clone" // clone + tombstone
}

type ctx struct {
	f     *fnInfo
	depth int
	busy  map[string]bool
}

func (c ctx) deeper(f *fnInfo) (ctx, bool) {
	if c.depth >= 6 {
		return c, false
	}
	return ctx{f, c.depth + 1, c.busy}, true
}

// helpers a call may resolve to: plain package functions, unexported methods by name, methods on the own receiver
func (c ctx) callees(call *ast.CallExpr) []*fnInfo {
	switch fn := call.Fun.(type) {
	case *ast.Ident:
		if f, ok := funcs[fn.Name]; ok {
			return []*fnInfo{f}
		}
	case *ast.SelectorExpr:
		m := fn.Sel.Name
		if id, ok := fn.X.(*ast.Ident); ok && c.f != nil && id.Name == c.f.recvVar && c.f.recvVar != "" {
			if f, ok := funcs[c.f.recvType+"."+m]; ok {
				return []*fnInfo{f}
			}
		}
		if !ast.IsExported(m) {
			var out []*fnInfo
			for _, f := range byBare[m] {
				if f.recvType != "" {
					out = append(out, f)
				}
			}
			return out
		}
	}
	return nil
}

// class of the first result of function f: join over its return statements (nil results skipped)
func (c ctx) summary(f *fnInfo) string {
	key := "ret:" + f.name
	if c.busy[key] {
		return "none"
	}
	c2, ok := c.deeper(f)
	if !ok {
		return "none"
	}
	c.busy[key] = true
	defer delete(c.busy, key)
	var cs []string
	ast.Inspect(f.decl.Body, func(n ast.Node) bool {
		if _, ok := n.(*ast.FuncLit); ok {
			return false
		}
		r, ok := n.(*ast.ReturnStmt)
		if !ok {
			return true
		}
		if len(r.Results) == 0 {
			cs = append(cs, "none")
			return true
		}
		if id, ok := r.Results[0].(*ast.Ident); ok && id.Name == "nil" {
			return true
		}
		cs = append(cs, c2.classAt(r.Results[0], r.Pos()))
		return true
	})
	return join(cs)
}

// class of parameter #i of the unexported function f: join over the arguments at all call sites in the package
func (c ctx) paramClass(f *fnInfo, i int) string {
	if f.exported || c.depth >= 6 {
		return "none"
	}
	key := fmt.Sprintf("par:%s:%d", f.name, i)
	if c.busy[key] {
		return "none"
	}
	c.busy[key] = true
	defer delete(c.busy, key)
	var cs []string
	for _, g := range funcs {
		cg := ctx{g, c.depth + 1, c.busy}
		ast.Inspect(g.decl.Body, func(n ast.Node) bool {
			call, ok := n.(*ast.CallExpr)
			if !ok {
				return true
			}
			for _, t := range cg.callees(call) {
				if t == f && i < len(call.Args) {
					cs = append(cs, cg.classAt(call.Args[i], call.Pos()))
				}
			}
			return true
		})
	}
	return join(cs)
}

// every definition of the local variable `name` in the function: class of what is assigned
func (c ctx) localDefs(name string) []string {
	var cs []string
	add := func(e ast.Expr, pos token.Pos) { cs = append(cs, c.classAt(e, pos)) }
	ast.Inspect(c.f.decl.Body, func(n ast.Node) bool {
		switch x := n.(type) {
		case *ast.AssignStmt:
			for i, l := range x.Lhs {
				id, ok := l.(*ast.Ident)
				if !ok || id.Name != name {
					continue
				}
				switch {
				case len(x.Rhs) == len(x.Lhs):
					add(x.Rhs[i], x.Pos())
				case len(x.Rhs) == 1 && i == 0:
					add(x.Rhs[0], x.Pos()) // v, ok := m[k] / x.(T) / f()
				default:
					cs = append(cs, "nonvalue") // the ok / error result
				}
			}
		case *ast.ValueSpec:
			for i, id := range x.Names {
				if id.Name != name {
					continue
				}
				if i < len(x.Values) {
					add(x.Values[i], x.Pos())
				} else {
					cs = append(cs, "tombstone") // zero value: carries nothing
				}
			}
		case *ast.RangeStmt:
			if id, ok := x.Key.(*ast.Ident); ok && id.Name == name {
				cs = append(cs, "nonvalue")
			}
			if id, ok := x.Value.(*ast.Ident); ok && id.Name == name {
				cs = append(cs, "internal") // an element of a container of the cache
			}
		}
		return true
	})
	return cs
}

// class of expression e used at position pos inside c.f
func (c ctx) classAt(e ast.Expr, pos token.Pos) string {
	switch x := e.(type) {
	case *ast.ParenExpr:
		return c.classAt(x.X, pos)
	case *ast.BasicLit:
		return "nonvalue"
	case *ast.CallExpr:
		if isCloneCall(x) {
			return "clone"
		}
		if s, ok := x.Fun.(*ast.SelectorExpr); ok {
			if id, ok := s.X.(*ast.Ident); ok && id.Name == "lru" {
				return "nonvalue"
			}
		}
		if id, ok := x.Fun.(*ast.Ident); ok && len(x.Args) == 1 && (id.Name == "Value" || id.Name == valueNodeType) {
			return c.classAt(x.Args[0], pos) // conversion
		}
		if ts := c.callees(x); len(ts) > 0 {
			var cs []string
			for _, t := range ts {
				cs = append(cs, c.summary(t))
			}
			return join(cs)
		}
		if s, ok := x.Fun.(*ast.SelectorExpr); ok && (s.Sel.Name == "Get" || s.Sel.Name == "Peek") {
			return "delegate"
		}
		return "none"
	case *ast.CompositeLit:
		if t, ok := x.Type.(*ast.Ident); !ok || t.Name != valueNodeType {
			return "none"
		}
		var data ast.Expr
		for i, el := range x.Elts {
			if kv, ok := el.(*ast.KeyValueExpr); ok {
				if k, ok := kv.Key.(*ast.Ident); ok && k.Name == dataField {
					data = kv.Value
				}
			} else if i == 0 {
				data = el
			}
		}
		if data == nil {
			return "tombstone"
		}
		if id, ok := data.(*ast.Ident); ok && id.Name == "nil" {
			return "tombstone"
		}
		if u, ok := data.(*ast.UnaryExpr); ok && u.Op == token.AND {
			if cl, ok := u.X.(*ast.CompositeLit); ok && len(cl.Elts) == 0 {
				return "tombstone" // a constant placeholder such as &EmptyValue{}
			}
		}
		return c.classAt(data, pos)
	case *ast.UnaryExpr:
		if x.Op == token.AND {
			if cl, ok := x.X.(*ast.CompositeLit); ok && len(cl.Elts) == 0 {
				return "tombstone" // a fresh empty placeholder such as &EmptyValue{}: no client value
			}
		}
		return "none"
	case *ast.TypeAssertExpr:
		if x.Type != nil && isValueType(src(x.Type)) {
			return "internal" // taken out of an interface{} container: an LRU
		}
		return "nonvalue"
	case *ast.IndexExpr:
		return "internal"
	case *ast.SelectorExpr:
		if x.Sel.Name == dataField {
			return c.classAt(x.X, pos)
		}
		return "nonvalue" // valueNode.data is the only field of the package that holds a client value
	case *ast.Ident:
		switch x.Name {
		case "nil", "true", "false":
			return "nonvalue"
		}
		if c.f == nil {
			return "none"
		}
		if x.Name == c.f.recvVar {
			return "nonvalue"
		}
		cls := ""
		for i, p := range c.f.params {
			if p.name == x.Name {
				if !isValueType(p.typ) {
					return "nonvalue"
				}
				cls = c.paramClass(c.f, i)
			}
		}
		if cls == "" {
			if _, ok := pkgConsts[x.Name]; ok {
				return "nonvalue"
			}
			key := "loc:" + c.f.name + ":" + x.Name
			if c.busy[key] {
				return "none" // defined in terms of itself
			}
			c.busy[key] = true
			defs := c.localDefs(x.Name)
			delete(c.busy, key)
			if len(defs) == 0 {
				return "none"
			}
			cls = join(defs)
		}
		// refinement: the last `<x>.data = E` written before the use decides what the node carries
		var last *ast.AssignStmt
		var lastRhs ast.Expr
		ast.Inspect(c.f.decl.Body, func(n ast.Node) bool {
			as, ok := n.(*ast.AssignStmt)
			if !ok || as.Pos() >= pos {
				return true
			}
			for i, l := range as.Lhs {
				if sel, ok := l.(*ast.SelectorExpr); ok && sel.Sel.Name == dataField && i < len(as.Rhs) {
					if id, ok := sel.X.(*ast.Ident); ok && id.Name == x.Name && (last == nil || as.Pos() > last.Pos()) {
						last, lastRhs = as, as.Rhs[i]
					}
				}
			}
			return true
		})
		if last != nil {
			if isCloneCall(lastRhs) {
				return "clone"
			}
			return c.classAt(lastRhs, last.Pos())
		}
		return cls
	}
	return "none"
}

// the local variable a stored / returned expression is made of, if any: x, x.data, valueNode{data: x}
func baseVar(e ast.Expr) string {
	switch x := e.(type) {
	case *ast.ParenExpr:
		return baseVar(x.X)
	case *ast.Ident:
		return x.Name
	case *ast.SelectorExpr:
		if x.Sel.Name == dataField {
			return baseVar(x.X)
		}
	case *ast.CompositeLit:
		for i, el := range x.Elts {
			if kv, ok := el.(*ast.KeyValueExpr); ok {
				if k, ok := kv.Key.(*ast.Ident); ok && k.Name == dataField {
					return baseVar(kv.Value)
				}
			} else if i == 0 {
				return baseVar(el)
			}
		}
	}
	return ""
}

func isStoreCall(x *ast.CallExpr) bool {
	s, ok := x.Fun.(*ast.SelectorExpr)
	if !ok || len(x.Args) != 2 {
		return false
	}
	switch s.Sel.Name {
	case "Add", "ContainsOrAdd", "PeekOrAdd":
		return true
	}
	return false
}

// ------------------------------------------------------------------------------------------------------ constants

func evalInt(e ast.Expr, locals map[string]ast.Expr, depth int) (int, bool) {
	if depth > 8 {
		return 0, false
	}
	switch x := e.(type) {
	case *ast.BasicLit:
		v, err := strconv.Atoi(strings.ReplaceAll(x.Value, "_", ""))
		return v, err == nil
	case *ast.BinaryExpr:
		a, ok1 := evalInt(x.X, locals, depth+1)
		b, ok2 := evalInt(x.Y, locals, depth+1)
		if ok1 && ok2 {
			switch x.Op {
			case token.MUL:
				return a * b, true
			case token.ADD:
				return a + b, true
			case token.SUB:
				return a - b, true
			case token.SHL:
				return a << uint(b), true
			}
		}
	case *ast.ParenExpr:
		return evalInt(x.X, locals, depth+1)
	case *ast.CallExpr: // int(x)
		if id, ok := x.Fun.(*ast.Ident); ok && len(x.Args) == 1 && (id.Name == "int" || id.Name == "int64") {
			return evalInt(x.Args[0], locals, depth+1)
		}
	case *ast.Ident:
		if d, ok := locals[x.Name]; ok {
			return evalInt(d, locals, depth+1)
		}
		if d, ok := pkgConsts[x.Name]; ok {
			return evalInt(d, nil, depth+1)
		}
	}
	return 0, false
}

// single-definition locals of a function (name -> defining expression); multiply assigned names are dropped
func singleDefs(fd *ast.FuncDecl) map[string]ast.Expr {
	defs := map[string]ast.Expr{}
	count := map[string]int{}
	ast.Inspect(fd.Body, func(n ast.Node) bool {
		switch x := n.(type) {
		case *ast.AssignStmt:
			for i, l := range x.Lhs {
				if id, ok := l.(*ast.Ident); ok && id.Name != "_" {
					if len(x.Rhs) == len(x.Lhs) {
						defs[id.Name] = x.Rhs[i]
						count[id.Name]++
					} else if i == 0 && len(x.Rhs) == 1 {
						defs[id.Name] = x.Rhs[0]
						count[id.Name]++
					} else if id.Name != "err" && id.Name != "ok" {
						count[id.Name] += 2
					}
				}
			}
		case *ast.ValueSpec:
			for i, id := range x.Names {
				if i < len(x.Values) {
					defs[id.Name] = x.Values[i]
					count[id.Name]++
				}
			}
		}
		return true
	})
	for k, n := range count {
		if n != 1 {
			delete(defs, k)
		}
	}
	return defs
}

func lruNewArg(e ast.Expr) (ast.Expr, bool) {
	c, ok := e.(*ast.CallExpr)
	if !ok || len(c.Args) != 1 {
		return nil, false
	}
	s, ok := c.Fun.(*ast.SelectorExpr)
	if !ok || s.Sel.Name != "New" {
		return nil, false
	}
	if id, ok := s.X.(*ast.Ident); !ok || id.Name != "lru" {
		return nil, false
	}
	return c.Args[0], true
}

// the cached-value struct of the package and its client-value field, found by STRUCTURE (a struct type with a field of
// type Value), not by name: unexported names may change
var (
	valueNodeType = "valueNode"
	dataField     = "data"
)

// build constraints: the harness is built with the `verif` tag, so a file that excludes it is not part of the package
func excludedByTags(af *ast.File) bool {
	for _, cg := range af.Comments {
		if cg.Pos() > af.Package {
			break
		}
		for _, c := range cg.List {
			t := strings.TrimSpace(strings.TrimPrefix(c.Text, "//"))
			if strings.HasPrefix(t, "go:build ") {
				expr := strings.TrimSpace(strings.TrimPrefix(t, "go:build "))
				if expr == "!verif" {
					return true
				}
			}
		}
	}
	return false
}

func main() {
	repo := os.Getenv("VERIF_REPO")
	if repo == "" {
		repo = "/repo"
	}
	if len(os.Args) < 2 {
		fmt.Fprintln(os.Stderr, "usage: scfacts <output.lean>")
		os.Exit(2)
	}
	dir := filepath.Join(repo, "core", "statecache")
	files, _ := filepath.Glob(filepath.Join(dir, "*.go"))
	sort.Strings(files)
	var order []*fnInfo
	for _, f := range files {
		if strings.HasSuffix(f, "_test.go") {
			continue
		}
		af, err := parser.ParseFile(fset, f, nil, parser.ParseComments)
		if err != nil {
			fmt.Fprintln(os.Stderr, "parse error:", err)
			os.Exit(1)
		}
		if excludedByTags(af) {
			continue
		}
		for _, d := range af.Decls { // the cached-value struct: the struct type with a field of type Value
			if gd, ok := d.(*ast.GenDecl); ok && gd.Tok == token.TYPE {
				for _, sp := range gd.Specs {
					ts := sp.(*ast.TypeSpec)
					if st, ok := ts.Type.(*ast.StructType); ok {
						for _, fl := range st.Fields.List {
							if id, ok := fl.Type.(*ast.Ident); ok && id.Name == "Value" && len(fl.Names) == 1 {
								valueNodeType, dataField = ts.Name.Name, fl.Names[0].Name
							}
						}
					}
				}
			}
		}
		for _, d := range af.Decls {
			switch x := d.(type) {
			case *ast.GenDecl:
				if x.Tok == token.CONST || x.Tok == token.VAR {
					for _, sp := range x.Specs {
						vs := sp.(*ast.ValueSpec)
						for i, id := range vs.Names {
							if i < len(vs.Values) {
								pkgConsts[id.Name] = vs.Values[i]
							}
						}
					}
				}
			case *ast.FuncDecl:
				if x.Body == nil {
					continue
				}
				fi := &fnInfo{bare: x.Name.Name, decl: x, exported: ast.IsExported(x.Name.Name)}
				fi.name = fi.bare
				if x.Recv != nil && len(x.Recv.List) > 0 {
					t := x.Recv.List[0].Type
					if st, ok := t.(*ast.StarExpr); ok {
						t = st.X
					}
					if id, ok := t.(*ast.Ident); ok {
						fi.recvType = id.Name
						fi.name = id.Name + "." + fi.bare
					}
					if len(x.Recv.List[0].Names) > 0 {
						fi.recvVar = x.Recv.List[0].Names[0].Name
					}
				}
				for _, fl := range x.Type.Params.List {
					t := src(fl.Type)
					if len(fl.Names) == 0 {
						fi.params = append(fi.params, param{"_", t})
					}
					for _, n := range fl.Names {
						fi.params = append(fi.params, param{n.Name, t})
					}
				}
				funcs[fi.name] = fi
				byBare[fi.bare] = append(byBare[fi.bare], fi)
				order = append(order, fi)
			}
		}
	}

	// ---- constants
	consts := map[string]int{}
	ctor := ""
	var perKey []int
	perKeyOK := true
	for _, fi := range order {
		defs := singleDefs(fi.decl)
		ast.Inspect(fi.decl.Body, func(n ast.Node) bool {
			cl, ok := n.(*ast.CompositeLit)
			if !ok {
				return true
			}
			if t, ok := cl.Type.(*ast.Ident); !ok || t.Name != "StateCache" {
				return true
			}
			ctor = fi.name
			for _, el := range cl.Elts {
				kv, ok := el.(*ast.KeyValueExpr)
				if !ok {
					continue
				}
				k, _ := kv.Key.(*ast.Ident)
				if k == nil {
					continue
				}
				val := kv.Value
				if id, ok := val.(*ast.Ident); ok {
					if d, ok := defs[id.Name]; ok {
						val = d
					}
				}
				switch k.Name {
				case "maxHisDepth":
					if v, ok := evalInt(val, defs, 0); ok {
						consts["maxHisDepth"] = v
					}
				case "cache", "hashCache":
					if a, ok := lruNewArg(val); ok {
						if v, ok := evalInt(a, defs, 0); ok {
							if k.Name == "cache" {
								consts["capKeys"] = v
							} else {
								consts["capLinks"] = v
							}
						}
					}
				}
			}
			return true
		})
	}
	for _, fi := range order {
		if fi.name == ctor {
			continue
		}
		defs := singleDefs(fi.decl)
		ast.Inspect(fi.decl.Body, func(n ast.Node) bool {
			if e, ok := n.(ast.Expr); ok {
				if a, ok := lruNewArg(e); ok {
					if v, ok := evalInt(a, defs, 0); ok {
						perKey = append(perKey, v)
					} else {
						perKeyOK = false
					}
				}
			}
			return true
		})
	}
	if perKeyOK && len(perKey) > 0 {
		same := true
		for _, v := range perKey {
			same = same && v == perKey[0]
		}
		if same {
			consts["capPerKey"] = perKey[0]
		}
	}

	// ---- reachability from the API entry points through package helpers
	reach := map[string]map[string]bool{}
	for _, r := range apiRoots {
		seen := map[string]bool{}
		var visit func(f *fnInfo)
		visit = func(f *fnInfo) {
			if f == nil || seen[f.name] {
				return
			}
			seen[f.name] = true
			c := ctx{f, 0, map[string]bool{}}
			ast.Inspect(f.decl.Body, func(n ast.Node) bool {
				if call, ok := n.(*ast.CallExpr); ok {
					for _, t := range c.callees(call) {
						visit(t)
					}
				}
				return true
			})
		}
		visit(funcs[r])
		reach[r] = seen
	}
	rootsOf := func(fn string) []string {
		var out []string
		for _, r := range apiRoots {
			if reach[r][fn] {
				out = append(out, r)
			}
		}
		return out
	}

	// ---- sites
	var sites []site
	for _, fi := range order {
		if fi.bare == "Clone" || fi.bare == "CopyFrom" {
			continue
		}
		c := ctx{fi, 0, map[string]bool{}}
		stored := map[string]bool{}
		var fs []site
		ast.Inspect(fi.decl.Body, func(n ast.Node) bool {
			switch x := n.(type) {
			case *ast.AssignStmt:
				for i, l := range x.Lhs {
					if _, ok := l.(*ast.IndexExpr); !ok || i >= len(x.Rhs) {
						continue
					}
					cls := c.classAt(x.Rhs[i], x.Pos())
					if b := baseVar(x.Rhs[i]); b != "" && cls != "nonvalue" {
						stored[b] = true
					}
					fs = append(fs, site{fi.name, "store", src(x), cls, fset.Position(x.Pos()).Line, nil})
				}
			case *ast.CallExpr:
				if isStoreCall(x) {
					cls := c.classAt(x.Args[1], x.Pos())
					if b := baseVar(x.Args[1]); b != "" && cls != "nonvalue" {
						stored[b] = true
					}
					fs = append(fs, site{fi.name, "store", src(x), cls, fset.Position(x.Pos()).Line, nil})
				}
			}
			return true
		})
		returnsValue := fi.decl.Type.Results != nil && len(fi.decl.Type.Results.List) > 0 &&
			src(fi.decl.Type.Results.List[0].Type) == "Value"
		// plain functions (Cacheable, ...) are not cache accessors unless an API entry point calls them
		if returnsValue && (fi.recvType != "" || len(rootsOf(fi.name)) > 0) {
			ast.Inspect(fi.decl.Body, func(n ast.Node) bool {
				if _, ok := n.(*ast.FuncLit); ok {
					return false
				}
				r, ok := n.(*ast.ReturnStmt)
				if !ok {
					return true
				}
				cls := "none"
				if len(r.Results) > 0 {
					if id, ok := r.Results[0].(*ast.Ident); ok && id.Name == "nil" {
						return true // miss
					}
					cls = c.classAt(r.Results[0], r.Pos())
					if b := baseVar(r.Results[0]); b != "" && stored[b] {
						cls = "none" // the object kept in the cache is handed out as well
					}
				}
				fs = append(fs, site{fi.name, "return", src(r), cls, fset.Position(r.Pos()).Line, nil})
				return true
			})
		}
		for i := range fs {
			fs[i].roots = rootsOf(fi.name)
		}
		sites = append(sites, fs...)
	}
	sort.SliceStable(sites, func(i, j int) bool {
		if sites[i].fn != sites[j].fn {
			return sites[i].fn < sites[j].fn
		}
		return sites[i].line < sites[j].line
	})

	var sb strings.Builder
	sb.WriteString("/-! GENERATED by go/extract/scfacts from core/statecache/*.go of the tree under test — do not edit. -/\n")
	sb.WriteString("namespace Verif.Gen.StateCacheFacts\n\n")
	for _, k := range []string{"capPerKey", "maxHisDepth", "capKeys", "capLinks"} {
		fmt.Fprintf(&sb, "def %s : Nat := %d\n", k, consts[k])
	}
	sb.WriteString("\nstructure Site where\n  fn : String\n  kind : String\n  cls : String\n  expr : String\n  roots : List String\n  deriving DecidableEq, Repr\n\n")
	sb.WriteString("/-- every statement that stores into a map / LRU and every `return` of a cached value, with the provenance class of\n    the value and the API entry points that reach the statement through package helpers -/\ndef sites : List Site := [\n")
	for i, s := range sites {
		sep := ","
		if i == len(sites)-1 {
			sep = ""
		}
		var rs []string
		for _, r := range s.roots {
			rs = append(rs, strconv.Quote(r))
		}
		fmt.Fprintf(&sb, "  ⟨%s, %s, %s, %s, [%s]⟩%s\n", strconv.Quote(s.fn), strconv.Quote(s.kind), strconv.Quote(s.class), strconv.Quote(s.expr), strings.Join(rs, ", "), sep)
	}
	sb.WriteString("]\n\nend Verif.Gen.StateCacheFacts\n")
	if err := os.MkdirAll(filepath.Dir(os.Args[1]), 0o755); err != nil {
		panic(err)
	}
	if err := os.WriteFile(os.Args[1], []byte(sb.String()), 0o644); err != nil {
		panic(err)
	}
}
