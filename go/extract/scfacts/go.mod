module verifextract/scfacts

go 1.21
