package main

// Flow analysis of the locks held at every statement of a method body. The body is walked statement by statement
// with the set of held locks: Lock/RLock adds, Unlock/RUnlock removes, `defer Unlock` keeps the lock until every
// return. Branches (if / switch / select) are analysed separately and joined; loops must leave the held set as they
// found it. Irregular use is reported as an `unknown` entry (a genuine obligation failure): different held sets at a
// join, a return (or the end of the body) with a lock held and no deferred unlock, a lock re-acquired while held, an
// unlock of a lock that is not held, goto. Function literals started by `go` begin with an empty held set;
// immediately invoked and deferred closures, and closures handed to callees, inherit the held set.

import (
	"fmt"
	"go/ast"
	"go/token"
)

type heldLock struct {
	path, mode string
	deferred   bool // released by a deferred unlock: held until every return
}

type lockState struct {
	held     []heldLock
	secs     int  // critical sections of the primary mutex entered on this path
	acquired bool // the method's first lock has been taken on this path
	dead     bool // the path has left the function (return, panic, break, continue)
}

func (s *lockState) clone() *lockState {
	c := *s
	c.held = append([]heldLock(nil), s.held...)
	return &c
}

func (s *lockState) find(path string) int {
	for i, h := range s.held {
		if h.path == path {
			return i
		}
	}
	return -1
}

func sameHeld(a, b *lockState) bool {
	if len(a.held) != len(b.held) {
		return false
	}
	for _, h := range a.held {
		i := b.find(h.path)
		if i < 0 || b.held[i].mode != h.mode || b.held[i].deferred != h.deferred {
			return false
		}
	}
	return true
}

type flowFrame struct {
	kind  string // loop | switch | closure
	entry *lockState
	exits []*lockState // break states (loop, switch) / return states (closure)
}

type flowState struct {
	st        *lockState
	goro      int
	loopDepth int
	frames    []*flowFrame
	exits     []*lockState // function-level return states
	firstLock string       // the first lock the method takes (its summary lock)
	firstMode string
	acqModes  map[string]bool // modes in which the primary mutex is acquired by the own body
	irregular bool
	derived   map[string]bool       // locals assigned, while a lock was held, from an expression that mentions the receiver
	releasers map[string]lockHelper // locals holding the function returned by a releaser helper (r := recv.rlock())
}

// phase: 0 = before the method's first lock, 1 = while it is held, 2 = after it was released (own goroutine only)
func (w *walker) phase() int {
	if w.st == nil || w.goro != 0 || !w.st.acquired {
		return 0
	}
	if w.st.find(w.firstLock) >= 0 {
		return 1
	}
	return 2
}

func (w *walker) isPrimaryPath(path string) bool {
	if w.tf.si.primary != "" {
		return path == w.tf.si.primary
	}
	return w.primary != "" && path == w.primary
}

// ctx: the lock context of an access made now
func (w *walker) ctx() wctx {
	c := wctx{mode: "none", goro: w.goro, loop: w.loopDepth > 0}
	for _, h := range w.st.held {
		if w.isPrimaryPath(h.path) {
			c.mode = h.mode
		} else {
			c.sub = h.path
		}
	}
	c.before = w.st.secs == 0 && c.mode == "none"
	return c
}

func (w *walker) irregularAt(what string, n ast.Node) {
	w.irregular = true
	w.unknown("<"+what+">", w.ctx(), n)
}

func (w *walker) frame(kind string) *flowFrame {
	for i := len(w.frames) - 1; i >= 0; i-- {
		if w.frames[i].kind == kind {
			return w.frames[i]
		}
		if kind == "break" && (w.frames[i].kind == "loop" || w.frames[i].kind == "switch") {
			return w.frames[i]
		}
		if w.frames[i].kind == "closure" {
			if kind == "closure" {
				return w.frames[i]
			}
			return nil // break / continue do not cross a function literal
		}
	}
	return nil
}

func (w *walker) join(at ast.Node, states ...*lockState) *lockState {
	var live []*lockState
	for _, s := range states {
		if s != nil && !s.dead {
			live = append(live, s)
		}
	}
	if len(live) == 0 {
		d := &lockState{dead: true}
		if len(states) > 0 && states[0] != nil {
			d.secs, d.acquired = states[0].secs, states[0].acquired
		}
		return d
	}
	out := live[0].clone()
	for _, s := range live[1:] {
		if !sameHeld(out, s) {
			saved := w.st
			w.st = out
			w.irregularAt("different locks held on the paths that join here", at)
			w.st = saved
		}
		if s.secs > out.secs {
			out.secs = s.secs
		}
		out.acquired = out.acquired || s.acquired
	}
	return out
}

// flowFunction analyses the method's body and fills in the summary fields.
func (w *walker) flowFunction() {
	m := w.m
	w.st = &lockState{}
	w.acqModes = map[string]bool{}
	w.flowStmts(m.decl.Body.List)
	if !w.st.dead {
		w.exitCheck(m.decl.Body, "the end of the body")
		w.exits = append(w.exits, w.st.clone())
	}
	for _, e := range w.exits {
		if e.secs > m.ownRegions {
			m.ownRegions = e.secs
		}
	}
	// summary: the first lock the method takes
	switch {
	case w.irregular:
		m.lock, m.mutex = "unknown", w.firstLock
	case w.firstLock == "":
		m.lock = "none"
	default:
		m.lock, m.mutex = w.firstMode, w.firstLock
		if w.isPrimaryPath(w.firstLock) {
			if m.ownRegions > 1 || (w.acqModes["read"] && w.acqModes["write"]) {
				m.lock = "partialBody" // several critical sections in the own body
			}
		}
	}
	// accesses of the own body before the first lock / after its release
	held := true
	count := func(ph int) int {
		n := 0
		for _, a := range m.direct {
			if a.goro == 0 && a.phase == ph && a.kind != "unknown" {
				n++
			}
		}
		for _, c := range m.calls {
			if c.goro == 0 && c.phase == ph {
				n++
			}
		}
		return n
	}
	if w.firstLock != "" {
		m.pre, m.post = count(0), count(2)
		held = m.post == 0
		for _, a := range m.direct {
			if a.goro == 0 && a.phase == 1 {
				m.region++
			}
		}
	}
	// `deferred`: the lock is kept to the end - released by defer, or explicitly with nothing touching the
	// receiver afterwards
	m.deferred = w.firstLock != "" && !w.irregular && held
}

func (w *walker) exitCheck(at ast.Node, where string) {
	for _, h := range w.st.held {
		if !h.deferred {
			w.irregularAt(fmt.Sprintf("%s reached while holding %s (%s) without a deferred unlock", where, h.path, h.mode), at)
		}
	}
}

func (w *walker) flowStmts(list []ast.Stmt) {
	for _, s := range list {
		if w.st.dead {
			return // unreachable
		}
		w.flowStmt(s)
	}
}

func (w *walker) lockOp(path, op string, at ast.Node) {
	st := w.st
	i := st.find(path)
	switch op {
	case "Lock", "RLock":
		if i >= 0 {
			if w.isPrimaryPath(path) {
				w.m.reentrant = true
			}
			w.irregularAt(op+" of "+path+" while it is already held", at)
			return
		}
		if w.firstLock == "" && w.goro == 0 {
			w.firstLock, w.firstMode = path, lockMode(op)
		}
		primary := w.isPrimary(path)
		if path == w.firstLock && w.goro == 0 {
			st.acquired = true
		}
		st.held = append(st.held, heldLock{path: path, mode: lockMode(op)})
		if primary {
			if w.goro == 0 {
				w.acqModes[lockMode(op)] = true
			}
			st.secs++
			if w.loopDepth > 0 {
				st.secs++
			}
		}
	case "Unlock", "RUnlock":
		if i < 0 {
			w.irregularAt(op+" of "+path+" which is not held here", at)
			return
		}
		if unlockOf(map[string]string{"read": "RLock", "write": "Lock"}[st.held[i].mode]) != op {
			w.irregularAt(op+" of "+path+" which is held in "+st.held[i].mode+" mode", at)
			return
		}
		if st.held[i].deferred {
			w.irregularAt(op+" of "+path+" whose unlock is already deferred", at)
			return
		}
		st.held = append(st.held[:i:i], st.held[i+1:]...)
	}
}

func (w *walker) deferUnlock(path, op string, at ast.Node) {
	st := w.st
	i := st.find(path)
	if op == "Lock" || op == "RLock" {
		w.irregularAt("deferred "+op+" of "+path, at)
		return
	}
	if i < 0 {
		w.irregularAt("deferred "+op+" of "+path+" which is not held here", at)
		return
	}
	if unlockOf(map[string]string{"read": "RLock", "write": "Lock"}[st.held[i].mode]) != op {
		w.irregularAt("deferred "+op+" of "+path+" which is held in "+st.held[i].mode+" mode", at)
		return
	}
	if st.held[i].deferred {
		w.irregularAt("second deferred "+op+" of "+path, at)
		return
	}
	st.held[i].deferred = true
}

func isPanicCall(e ast.Expr) bool {
	ce, ok := e.(*ast.CallExpr)
	if !ok {
		return false
	}
	id, ok := ce.Fun.(*ast.Ident)
	return ok && id.Name == "panic"
}

// unlockedPaths: the locks a function literal releases at its own top level
func (w *walker) unlockedPaths(body []ast.Stmt) map[string]bool {
	out := map[string]bool{}
	for _, s := range body {
		if es, ok := s.(*ast.ExprStmt); ok {
			if p, op, ok := w.lockCall(es.X); ok && (op == "Unlock" || op == "RUnlock") {
				out[p] = true
			}
		}
	}
	return out
}

// flowClosure analyses a function literal that runs under the locks held where it is written (handed to a callee,
// or immediately invoked: then its effect on the held set is kept).
func (w *walker) flowClosure(body []ast.Stmt, invokedHere bool) {
	saved := w.st
	fr := &flowFrame{kind: "closure", entry: saved.clone()}
	w.frames = append(w.frames, fr)
	w.st = saved.clone()
	w.flowStmts(body)
	end := w.st
	w.frames = w.frames[:len(w.frames)-1]
	all := append([]*lockState{end}, fr.exits...)
	w.st = saved
	res := w.join(&ast.BlockStmt{Lbrace: body0Pos(body, saved), List: body}, all...)
	if invokedHere {
		if res.dead {
			res = saved.clone()
		}
		w.st = res
		return
	}
	if !res.dead && !sameHeld(res, saved) {
		w.irregularAt("a function literal changes the set of held locks", &ast.BlockStmt{List: body})
	}
	saved.secs = maxInt(saved.secs, res.secs)
}

func body0Pos(body []ast.Stmt, _ *lockState) token.Pos {
	if len(body) > 0 {
		return body[0].Pos()
	}
	return token.NoPos
}

func maxInt(a, b int) int {
	if a > b {
		return a
	}
	return b
}

func (w *walker) flowStmt(s ast.Stmt) {
	switch x := s.(type) {
	case nil:
	case *ast.ExprStmt:
		if path, op, ok := w.lockCall(x.X); ok {
			w.lockOp(path, op, s)
			return
		}
		if h, ok := w.releaserCall(x.X); ok { // the returned releaser is dropped: the lock stays held
			w.lockOp(h.path, h.op, s)
			return
		}
		if ce, ok := x.X.(*ast.CallExpr); ok && len(ce.Args) == 0 {
			if id, ok := ce.Fun.(*ast.Ident); ok {
				if h, ok := w.releasers[id.Name]; ok { // release()
					w.lockOp(h.path, unlockOf(h.op), s)
					return
				}
			}
		}
		w.walkExpr(x.X, w.ctx())
		if isPanicCall(x.X) {
			w.st.dead = true
		}
	case *ast.DeferStmt:
		if inner, ok := x.Call.Fun.(*ast.CallExpr); ok && len(x.Call.Args) == 0 {
			if h, ok := w.releaserCall(inner); ok { // defer recv.rlock()()
				w.lockOp(h.path, h.op, s)
				w.deferUnlock(h.path, unlockOf(h.op), s)
				return
			}
		}
		if id, ok := x.Call.Fun.(*ast.Ident); ok && len(x.Call.Args) == 0 {
			if h, ok := w.releasers[id.Name]; ok { // defer release()
				w.deferUnlock(h.path, unlockOf(h.op), s)
				return
			}
		}
		if path, op, _, ok := stmtLock(w, s); ok {
			w.deferUnlock(path, op, s)
			return
		}
		if fl, ok := x.Call.Fun.(*ast.FuncLit); ok {
			for _, a := range x.Call.Args {
				w.walkExpr(a, w.ctx())
			}
			// a deferred closure runs at function exit: then exactly the locks with a deferred unlock registered
			// before it, and the locks it releases itself, are held
			rel := w.unlockedPaths(fl.Body.List)
			saved := w.st
			tmp := &lockState{secs: saved.secs, acquired: saved.acquired}
			for _, h := range saved.held {
				if h.deferred || rel[h.path] {
					h.deferred = h.deferred && !rel[h.path]
					tmp.held = append(tmp.held, h)
				}
			}
			for p := range rel {
				if saved.find(p) < 0 {
					w.irregularAt("deferred function releases "+p+" which is not held here", s)
				}
			}
			fr := &flowFrame{kind: "closure", entry: tmp.clone()}
			w.frames = append(w.frames, fr)
			w.st = tmp
			w.flowStmts(fl.Body.List)
			w.frames = w.frames[:len(w.frames)-1]
			for p := range rel {
				if i := saved.find(p); i >= 0 && tmp.find(p) < 0 {
					if saved.held[i].deferred {
						saved.st0irregular(w, "second deferred unlock of "+p, s)
					}
					saved.held[i].deferred = true
				}
			}
			w.st = saved
			return
		}
		w.walkExpr(x.Call, w.ctx())
	case *ast.AssignStmt:
		if len(x.Lhs) == 1 && len(x.Rhs) == 1 {
			if id, ok := x.Lhs[0].(*ast.Ident); ok {
				if h, ok := w.releaserCall(x.Rhs[0]); ok { // release := recv.rlock()
					w.lockOp(h.path, h.op, s)
					if w.releasers == nil {
						w.releasers = map[string]lockHelper{}
					}
					w.releasers[id.Name] = h
					return
				}
			}
		}
		c := w.ctx()
		for _, r := range x.Rhs {
			w.walkExpr(r, c)
		}
		if w.goro == 0 && len(w.st.held) > 0 {
			// what is computed from the receiver's state under a lock may point into that state
			for i, l := range x.Lhs {
				id, ok := l.(*ast.Ident)
				if !ok || id.Name == "_" {
					continue
				}
				r := x.Rhs[0]
				if len(x.Lhs) == len(x.Rhs) {
					r = x.Rhs[i]
				}
				if w.mentionsRecvOrAlias(r) && !isFreshValue(r) {
					if w.derived == nil {
						w.derived = map[string]bool{}
					}
					w.derived[id.Name] = true
				}
			}
		}
		c = w.ctx()
		for i, l := range x.Lhs {
			var r ast.Expr
			if len(x.Lhs) == len(x.Rhs) {
				r = x.Rhs[i]
			}
			w.walkLHS(l, c, r, x)
		}
	case *ast.IncDecStmt:
		w.walkLHS(x.X, w.ctx(), nil, x)
	case *ast.GoStmt:
		w.goCount++
		n := w.goCount
		gi := goroutineInfo{ord: n, line: w.p.line(x)}
		if fl, ok := x.Call.Fun.(*ast.FuncLit); ok {
			for _, a := range x.Call.Args {
				w.walkExpr(a, w.ctx())
			}
			gi.captured, gi.usesRecv = w.captured(fl)
			// the goroutine starts with NO lock held and may outlive the body
			saved, savedGoro, savedFrames, savedLoop := w.st, w.goro, w.frames, w.loopDepth
			w.st, w.goro, w.frames, w.loopDepth = &lockState{}, n, nil, 0
			fr := &flowFrame{kind: "closure", entry: w.st.clone()}
			w.frames = []*flowFrame{fr}
			w.flowStmts(fl.Body.List)
			if !w.st.dead {
				w.exitCheck(fl, "the end of the goroutine")
			}
			w.st, w.goro, w.frames, w.loopDepth = saved, savedGoro, savedFrames, savedLoop
		} else {
			saved, savedGoro := w.st, w.goro
			w.st, w.goro = &lockState{}, n
			w.walkExpr(x.Call, w.ctx())
			w.st, w.goro = saved, savedGoro
			gi.usesRecv = w.mentionsRecvIdent(x.Call)
		}
		w.m.goros = append(w.m.goros, gi)
	case *ast.ReturnStmt:
		rc := w.ctx()
		rc.inRet = true
		for _, r := range x.Results {
			w.walkExpr(r, rc)
			if ue, ok := r.(*ast.UnaryExpr); ok && ue.Op == token.AND {
				if cl, ok := ue.X.(*ast.CompositeLit); ok {
					if id, ok := cl.Type.(*ast.Ident); ok && id.Name == w.m.recvType {
						w.literal(cl)
					}
				}
			}
		}
		if fr := w.frame("closure"); fr != nil {
			fr.exits = append(fr.exits, w.st.clone())
			if w.goro != 0 && len(w.frames) > 0 && w.frames[0] == fr {
				w.exitCheck(x, "a return of the goroutine")
			}
		} else {
			w.exitCheck(x, "a return")
			w.exits = append(w.exits, w.st.clone())
		}
		w.st.dead = true
	case *ast.BlockStmt:
		w.flowStmts(x.List)
	case *ast.IfStmt:
		w.flowStmt(x.Init)
		w.walkExpr(x.Cond, w.ctx())
		base := w.st
		w.st = base.clone()
		w.flowStmts(x.Body.List)
		thenSt := w.st
		w.st = base.clone()
		if x.Else != nil {
			w.flowStmt(x.Else)
		}
		elseSt := w.st
		w.st = w.join(x, thenSt, elseSt)
	case *ast.SwitchStmt:
		w.flowStmt(x.Init)
		w.walkExpr(x.Tag, w.ctx())
		w.flowClauses(x, x.Body.List, false)
	case *ast.TypeSwitchStmt:
		w.flowStmt(x.Init)
		w.flowStmt(x.Assign)
		w.flowClauses(x, x.Body.List, false)
	case *ast.SelectStmt:
		w.flowClauses(x, x.Body.List, true)
	case *ast.ForStmt:
		w.flowStmt(x.Init)
		w.flowLoop(x, func() {
			w.walkExpr(x.Cond, w.ctx())
		}, x.Body.List, x.Post)
	case *ast.RangeStmt:
		w.derivedUse(x.X, x)
		w.walkExpr(x.X, w.ctx())
		w.flowLoop(x, func() {}, x.Body.List, nil)
	case *ast.LabeledStmt:
		w.flowStmt(x.Stmt)
	case *ast.BranchStmt:
		switch x.Tok {
		case token.BREAK:
			if fr := w.frame("break"); fr != nil && x.Label == nil {
				fr.exits = append(fr.exits, w.st.clone())
			} else {
				w.irregularAt("labelled break / break outside a loop", x)
			}
			w.st.dead = true
		case token.CONTINUE:
			if fr := w.frame("loop"); fr != nil && x.Label == nil {
				if !sameHeld(w.st, fr.entry) {
					w.irregularAt("continue with a different set of held locks than at the loop head", x)
				}
			} else {
				w.irregularAt("labelled continue", x)
			}
			w.st.dead = true
		case token.FALLTHROUGH:
			// handled approximately: the next clause is analysed from the switch head anyway
		default:
			w.irregularAt("goto", x)
		}
	case *ast.SendStmt:
		w.walkExpr(x.Chan, w.ctx())
		w.walkExpr(x.Value, w.ctx())
	case *ast.DeclStmt:
		if gd, ok := x.Decl.(*ast.GenDecl); ok {
			for _, sp := range gd.Specs {
				if vs, ok := sp.(*ast.ValueSpec); ok {
					for _, v := range vs.Values {
						w.walkExpr(v, w.ctx())
					}
				}
			}
		}
	case *ast.EmptyStmt:
	default:
		w.unknown(fmt.Sprintf("<statement %T>", s), w.ctx(), s)
	}
}

func (s *lockState) st0irregular(w *walker, what string, at ast.Node) { w.irregularAt(what, at) }

func (w *walker) mentionsRecvIdent(n ast.Node) bool {
	found := false
	ast.Inspect(n, func(x ast.Node) bool {
		if id, ok := x.(*ast.Ident); ok && id.Name == w.recv {
			found = true
		}
		return !found
	})
	return found
}

// flowClauses: switch / type switch / select - every clause starts from the state at the head; the states at the
// clause ends (and at `break`s) are joined
func (w *walker) flowClauses(at ast.Node, clauses []ast.Stmt, isSelect bool) {
	base := w.st
	fr := &flowFrame{kind: "switch", entry: base.clone()}
	w.frames = append(w.frames, fr)
	var ends []*lockState
	hasDefault := false
	for _, cl := range clauses {
		w.st = base.clone()
		switch c := cl.(type) {
		case *ast.CaseClause:
			if c.List == nil {
				hasDefault = true
			}
			for _, e := range c.List {
				w.walkExpr(e, w.ctx())
			}
			w.flowStmts(c.Body)
		case *ast.CommClause:
			if c.Comm == nil {
				hasDefault = true
			}
			w.flowStmt(c.Comm)
			w.flowStmts(c.Body)
		}
		ends = append(ends, w.st)
	}
	w.frames = w.frames[:len(w.frames)-1]
	if !hasDefault && !isSelect {
		ends = append(ends, base.clone()) // no case matches
	}
	if len(clauses) == 0 {
		ends = append(ends, base.clone())
	}
	ends = append(ends, fr.exits...)
	w.st = w.join(at, ends...)
}

// flowLoop: the body must leave the held set as it found it (also at break / continue)
func (w *walker) flowLoop(at ast.Node, cond func(), body []ast.Stmt, post ast.Stmt) {
	entry := w.st.clone()
	fr := &flowFrame{kind: "loop", entry: entry.clone()}
	w.frames = append(w.frames, fr)
	w.loopDepth++
	cond()
	w.st = entry.clone()
	w.flowStmts(body)
	if !w.st.dead {
		w.flowStmt(post)
		if !sameHeld(w.st, entry) {
			w.irregularAt("the loop body changes the set of held locks", at)
		}
	}
	end := w.st
	w.loopDepth--
	w.frames = w.frames[:len(w.frames)-1]
	for _, b := range fr.exits {
		if !sameHeld(b, entry) {
			saved := w.st
			w.st = b
			w.irregularAt("break with a different set of held locks than at the loop head", at)
			w.st = saved
		}
		end.secs = maxInt(end.secs, b.secs)
	}
	out := entry
	out.secs = maxInt(entry.secs, end.secs)
	out.acquired = entry.acquired || end.acquired
	w.st = out
}

func (w *walker) mentionsRecvOrAlias(n ast.Node) bool {
	found := false
	ast.Inspect(n, func(x ast.Node) bool {
		if id, ok := x.(*ast.Ident); ok {
			if id.Name == w.recv || w.derived[id.Name] {
				found = true
			}
			if _, isAlias := w.alias[id.Name]; isAlias {
				found = true
			}
		}
		return !found
	})
	return found
}

// isFreshValue: len(..), cap(..), make(..), comparisons: the result cannot point into the receiver's state
func isFreshValue(e ast.Expr) bool {
	switch x := e.(type) {
	case *ast.CallExpr:
		if id, ok := x.Fun.(*ast.Ident); ok {
			switch id.Name {
			case "len", "cap", "make", "new":
				return true
			}
		}
	case *ast.BinaryExpr:
		switch x.Op {
		case token.EQL, token.NEQ, token.LSS, token.GTR, token.LEQ, token.GEQ, token.LAND, token.LOR:
			return true
		}
	case *ast.BasicLit:
		return true
	}
	return false
}

// derivedUse: a local computed from the receiver's state under the lock is looked INTO (field, method, index,
// dereference, range) after the lock was released: an access to receiver state without the lock, which a syntactic
// pass cannot attribute to a field
func (w *walker) derivedUse(e ast.Expr, at ast.Node) bool {
	id, ok := e.(*ast.Ident)
	if !ok || !w.derived[id.Name] || w.goro != 0 || w.phase() != 2 {
		return false
	}
	w.unknown("<"+id.Name+", computed from the receiver under the lock, is used after the lock was released>", w.ctx(), at)
	return true
}

// releaserCall: e is `recv.h()` for a helper h that acquires a receiver mutex and returns the function releasing it
func (w *walker) releaserCall(e ast.Expr) (lockHelper, bool) {
	ce, ok := e.(*ast.CallExpr)
	if !ok || len(ce.Args) != 0 {
		return lockHelper{}, false
	}
	se, ok := ce.Fun.(*ast.SelectorExpr)
	if !ok {
		return lockHelper{}, false
	}
	id, ok := se.X.(*ast.Ident)
	if !ok || id.Name != w.recv {
		return lockHelper{}, false
	}
	h, ok := w.tf.lockHelpers[se.Sel.Name]
	return h, ok && h.kind == "releaser"
}
