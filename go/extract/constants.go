package main

// Constants: the numeric constants the Lean models take as parameters, read from the source.

import (
	"fmt"
	"go/ast"
	"go/token"
	"strconv"
	"strings"
)

type constEnv struct {
	p      *pkgSrc
	consts map[string]ast.Expr // package-level const / var name -> value expression
	local  map[string]ast.Expr
}

func newConstEnv(p *pkgSrc) *constEnv {
	ce := &constEnv{p: p, consts: map[string]ast.Expr{}, local: map[string]ast.Expr{}}
	for _, fn := range p.names {
		for _, d := range p.files[fn].Decls {
			gd, ok := d.(*ast.GenDecl)
			if !ok || (gd.Tok != token.CONST && gd.Tok != token.VAR) {
				continue
			}
			for _, sp := range gd.Specs {
				vs := sp.(*ast.ValueSpec)
				for i, n := range vs.Names {
					if i < len(vs.Values) {
						ce.consts[n.Name] = vs.Values[i]
					}
				}
			}
		}
	}
	return ce
}

func (ce *constEnv) eval(e ast.Expr, depth int) (int64, bool) {
	if depth > 8 || e == nil {
		return 0, false
	}
	switch x := e.(type) {
	case *ast.BasicLit:
		switch x.Kind {
		case token.INT:
			v, err := strconv.ParseInt(strings.ReplaceAll(x.Value, "_", ""), 0, 64)
			return v, err == nil
		case token.CHAR:
			r, _, _, err := strconv.UnquoteChar(x.Value[1:len(x.Value)-1], '\'')
			return int64(r), err == nil
		}
	case *ast.ParenExpr:
		return ce.eval(x.X, depth+1)
	case *ast.Ident:
		if v, ok := ce.local[x.Name]; ok {
			return ce.eval(v, depth+1)
		}
		if v, ok := ce.consts[x.Name]; ok {
			return ce.eval(v, depth+1)
		}
	case *ast.BinaryExpr:
		a, ok1 := ce.eval(x.X, depth+1)
		b, ok2 := ce.eval(x.Y, depth+1)
		if !ok1 || !ok2 {
			return 0, false
		}
		switch x.Op {
		case token.ADD:
			return a + b, true
		case token.SUB:
			return a - b, true
		case token.MUL:
			return a * b, true
		case token.QUO:
			if b != 0 {
				return a / b, true
			}
		case token.SHL:
			return a << uint(b), true
		case token.OR:
			return a | b, true
		}
	case *ast.CallExpr: // conversion like byte(':') or int64(5)
		if len(x.Args) == 1 {
			if id, ok := x.Fun.(*ast.Ident); ok {
				switch id.Name {
				case "byte", "int", "int64", "uint64", "uint8", "int32", "uint32", "rune":
					return ce.eval(x.Args[0], depth+1)
				}
			}
		}
	}
	return 0, false
}

func genConstants(util, logp, scp, wmpt, cur *pkgSrc) string {
	var sb strings.Builder
	var unknowns []string
	sb.WriteString(genHeader)
	sb.WriteString("namespace Verif.Gen.Constants\n\n")
	emit := func(lean, comment string, v int64, ok bool) {
		if !ok || v < 0 {
			unknowns = append(unknowns, lean)
			v = 0
			comment += " -- NOT FOUND in the source (listed in `unknowns`)"
		}
		fmt.Fprintf(&sb, "/-- %s -/\ndef %s : Nat := %d\n\n", comment, lean, v)
	}
	named := func(env *constEnv, goName, lean, where string) {
		e, ok := env.consts[goName]
		var v int64
		if ok {
			v, ok = env.eval(e, 0)
		}
		emit(lean, where+" "+goName, v, ok)
	}
	ue := newConstEnv(util)
	named(ue, "MPTMaxAllowableNodeSize", "mptMaxAllowableNodeSize", "core/util")
	named(ue, "Separator", "separator", "core/util")
	named(ue, "NodeTypeValueNode", "nodeTypeValueNode", "core/util")
	named(ue, "NodeTypeLeafNode", "nodeTypeLeafNode", "core/util")
	named(ue, "NodeTypeFullNode", "nodeTypeFullNode", "core/util")
	named(ue, "NodeTypeExtensionNode", "nodeTypeExtensionNode", "core/util")
	named(ue, "BatchSize", "batchSize", "core/util")
	// PathElements = []byte("0123456789abcdef")
	pe, peOK := "", false
	if e, ok := ue.consts["PathElements"]; ok {
		if c, ok := e.(*ast.CallExpr); ok && len(c.Args) == 1 {
			if bl, ok := c.Args[0].(*ast.BasicLit); ok && bl.Kind == token.STRING {
				if s, err := strconv.Unquote(bl.Value); err == nil {
					pe, peOK = s, true
				}
			}
		}
	}
	if !peOK {
		unknowns = append(unknowns, "pathElements")
	}
	fmt.Fprintf(&sb, "/-- core/util PathElements -/\ndef pathElements : String := %s\n\n", leanStr(pe))

	named(newConstEnv(logp), "BufferSize", "bufferSize", "core/logging")

	// statecache: maxHisDepth and the lru.New sizes, by the variable the new cache is assigned to
	se := newConstEnv(scp)
	type lruSite struct {
		where string
		v     int64
		ok    bool
	}
	var lrus []lruSite
	var mhd int64
	mhdOK := false
	for _, fn := range scp.names {
		for _, d := range scp.files[fn].Decls {
			fd, ok := d.(*ast.FuncDecl)
			if !ok || fd.Body == nil {
				continue
			}
			_, rt := recvOf(fd)
			fname := fd.Name.Name
			if rt != "" {
				fname = rt + "." + fname
			}
			se.local = map[string]ast.Expr{}
			ast.Inspect(fd.Body, func(n ast.Node) bool {
				as, ok := n.(*ast.AssignStmt)
				if !ok {
					return true
				}
				if len(as.Lhs) == 1 && len(as.Rhs) == 1 {
					if id, ok := as.Lhs[0].(*ast.Ident); ok {
						if _, isLit := as.Rhs[0].(*ast.BasicLit); isLit || as.Tok == token.DEFINE {
							se.local[id.Name] = as.Rhs[0]
						}
						if id.Name == "maxHisDepth" {
							mhd, mhdOK = se.eval(as.Rhs[0], 0)
						}
					}
				}
				if len(as.Rhs) == 1 {
					if c, ok := as.Rhs[0].(*ast.CallExpr); ok && scp.text(c.Fun) == "lru.New" && len(c.Args) == 1 {
						v, ok := se.eval(c.Args[0], 0)
						lrus = append(lrus, lruSite{fname + ":" + scp.text(as.Lhs[0]), v, ok})
					}
				}
				return true
			})
		}
	}
	emit("maxHisDepth", "core/statecache NewStateCache maxHisDepth", mhd, mhdOK)
	pick := func(suffix, lean, comment string) {
		var v int64
		ok, n := true, 0
		for _, l := range lrus {
			if strings.HasSuffix(l.where, ":"+suffix) {
				if n > 0 && l.v != v {
					ok = false // several sites with different sizes
				}
				v, ok = l.v, ok && l.ok
				n++
			}
		}
		emit(lean, comment, v, ok && n >= 1)
	}
	pick("cache", "lruKeys", "core/statecache: lru.New size of StateCache.cache (number of keys)")
	pick("hCache", "lruHashes", "core/statecache: lru.New size of StateCache.hashCache (number of block links)")
	pick("bvsi", "lruPerKey", "core/statecache: lru.New size of the per-key block-value cache created in commit")
	var ls []string
	for _, l := range lrus {
		if !l.ok {
			unknowns = append(unknowns, "lruSizes:"+l.where)
		}
		ls = append(ls, fmt.Sprintf("(%s, %d)", leanStr(l.where), l.v))
	}
	fmt.Fprintf(&sb, "/-- every lru.New(n) in core/statecache: (function:assigned variable, n) -/\ndef lruSizes : List (String × Nat) := [%s]\n\n", strings.Join(ls, ", "))

	we := newConstEnv(wmpt)
	named(we, "keyLength", "keyLength", "core/util/wmpt")
	named(we, "hashWithWeightLength", "hashWithWeightLength", "core/util/wmpt")
	named(we, "branchNodeLength", "branchNodeLength", "core/util/wmpt")
	// len(keys) > N in path.go
	var ths []int64
	for _, fn := range wmpt.names { // every file of the package: the constant does not depend on the file name
		f := wmpt.files[fn]
		ast.Inspect(f, func(n ast.Node) bool {
			be, ok := n.(*ast.BinaryExpr)
			if !ok || be.Op != token.GTR {
				return true
			}
			if wmpt.text(be.X) == "len(keys)" {
				if v, ok := we.eval(be.Y, 0); ok {
					ths = append(ths, v)
				} else {
					ths = append(ths, -1)
				}
			}
			return true
		})
	}
	okTh := len(ths) > 0
	for _, t := range ths {
		if t != ths[0] || t < 0 {
			okTh = false
		}
	}
	var th int64
	if okTh {
		th = ths[0]
	}
	emit("pathParallelThreshold", "core/util/wmpt: the N of `len(keys) > N`", th, okTh)

	named(newConstEnv(cur), "ZCNExponent", "zcnExponent", "core/currency")

	// PruneBelowVersion: the function-local `const maxPruneNodes` (dead keys collected before a delete batch is
	// written) and the N of the flush test `len(keys) >= N` (must be the same name)
	var mpn int64
	mpnOK := false
	for _, fn := range util.names {
		for _, d := range util.files[fn].Decls {
			fd, ok := d.(*ast.FuncDecl)
			if !ok || fd.Name.Name != "PruneBelowVersion" || fd.Body == nil {
				continue
			}
			ast.Inspect(fd.Body, func(n ast.Node) bool {
				gd, ok := n.(*ast.GenDecl)
				if !ok || gd.Tok != token.CONST {
					return true
				}
				for _, sp := range gd.Specs {
					vs := sp.(*ast.ValueSpec)
					for i, nm := range vs.Names {
						if nm.Name == "maxPruneNodes" && i < len(vs.Values) {
							mpn, mpnOK = ue.eval(vs.Values[i], 0)
						}
					}
				}
				return true
			})
		}
	}
	emit("maxPruneNodes", "core/util PruneBelowVersion maxPruneNodes", mpn, mpnOK)

	fmt.Fprintf(&sb, "/-- constants the extractor could not find or evaluate; obligations require this to be empty -/\ndef unknowns : List String := %s\n\n", leanStrList(unknowns))
	sb.WriteString("end Verif.Gen.Constants\n")
	return sb.String()
}
