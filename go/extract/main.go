// Command extract is the fact extractor of the verification framework (DESIGN.md §3.2, T2).
//
//	go run . -repo /repo -out ../../lean/Verif/Gen
//
// It reads the Go source of the working tree of 0chain/common with go/parser only (purely syntactic: no type
// checking, because core/util does not type-check without cgo) and regenerates the Lean tables
//
//	LockFacts.lean    lock discipline of every method of the concurrent types (C08, C16, C20)
//	CloneFacts.lean   store / return sites of core/statecache and whether they go through Clone() (C07)
//	AppendFacts.lean  every append( in merkle_patricia_trie.go and mpt_node.go, classified by its first argument (C03)
//	Constants.lean    the numeric constants the models take as parameters
//
// Whatever the extractor cannot classify is emitted as an explicit `unknown` entry, so that the Lean obligation
// over the table fails rather than silently passing. Schemas: notes/extractor.md.
package main

import (
	"flag"
	"fmt"
	"go/ast"
	"go/parser"
	"go/token"
	"os"
	"path/filepath"
	"sort"
	"strings"
)

// pkgSrc is one parsed package directory (non-test files only, build constraints ignored).
type pkgSrc struct {
	dir   string // relative to the repo root, e.g. core/util
	fset  *token.FileSet
	files map[string]*ast.File // base name -> file
	src   map[string][]byte
	names []string // sorted base names
}

func parseDir(repo, rel string) (*pkgSrc, error) {
	p := &pkgSrc{dir: rel, fset: token.NewFileSet(), files: map[string]*ast.File{}, src: map[string][]byte{}}
	ents, err := os.ReadDir(filepath.Join(repo, rel))
	if err != nil {
		return nil, err
	}
	for _, e := range ents {
		n := e.Name()
		if e.IsDir() || !strings.HasSuffix(n, ".go") || strings.HasSuffix(n, "_test.go") {
			continue
		}
		full := filepath.Join(repo, rel, n)
		b, err := os.ReadFile(full)
		if err != nil {
			return nil, err
		}
		f, err := parser.ParseFile(p.fset, filepath.Join(rel, n), b, parser.ParseComments)
		if err != nil {
			return nil, fmt.Errorf("%s: %v", full, err)
		}
		if excludedByVerifTag(f) {
			continue // the harness is built with -tags verif: a `//go:build !verif` file is not part of the package
		}
		p.files[n] = f
		p.src[n] = b
		p.names = append(p.names, n)
	}
	sort.Strings(p.names)
	return p, nil
}

// text returns the source text of a node with white space collapsed.
func excludedByVerifTag(f *ast.File) bool {
	for _, cg := range f.Comments {
		if cg.Pos() > f.Package {
			break
		}
		for _, c := range cg.List {
			t := strings.TrimSpace(strings.TrimPrefix(c.Text, "//"))
			if strings.HasPrefix(t, "go:build ") && strings.TrimSpace(strings.TrimPrefix(t, "go:build ")) == "!verif" {
				return true
			}
		}
	}
	return false
}

func (p *pkgSrc) text(n ast.Node) string {
	if n == nil {
		return ""
	}
	pos, end := p.fset.Position(n.Pos()), p.fset.Position(n.End())
	b := p.src[filepath.Base(pos.Filename)]
	if b == nil || pos.Offset < 0 || end.Offset > len(b) || pos.Offset > end.Offset {
		return "?"
	}
	return strings.Join(strings.Fields(string(b[pos.Offset:end.Offset])), " ")
}

func (p *pkgSrc) line(n ast.Node) int { return p.fset.Position(n.Pos()).Line }

func (p *pkgSrc) base(n ast.Node) string { return filepath.Base(p.fset.Position(n.Pos()).Filename) }

func main() {
	repo := flag.String("repo", "/repo", "working tree of 0chain/common")
	out := flag.String("out", "", "output directory (lean/Verif/Gen)")
	flag.Parse()
	if *out == "" {
		fmt.Fprintln(os.Stderr, "-out required")
		os.Exit(2)
	}
	if err := os.MkdirAll(*out, 0o755); err != nil {
		fatal(err)
	}
	util, err := parseDir(*repo, "core/util")
	if err != nil {
		fatal(err)
	}
	logp, err := parseDir(*repo, "core/logging")
	if err != nil {
		fatal(err)
	}
	scp, err := parseDir(*repo, "core/statecache")
	if err != nil {
		fatal(err)
	}
	wmpt, err := parseDir(*repo, "core/util/wmpt")
	if err != nil {
		fatal(err)
	}
	cur, err := parseDir(*repo, "core/currency")
	if err != nil {
		fatal(err)
	}

	write := func(name, body string) {
		if err := os.WriteFile(filepath.Join(*out, name), []byte(body), 0o644); err != nil {
			fatal(err)
		}
	}
	write("LockFacts.lean", genLockFacts(util, logp, scp))
	write("CloneFacts.lean", genCloneFacts(scp))
	write("AppendFacts.lean", genAppendFacts(util))
	write("Constants.lean", genConstants(util, logp, scp, wmpt, cur))
	fmt.Println("extract: wrote LockFacts.lean CloneFacts.lean AppendFacts.lean Constants.lean to", *out)
}

func fatal(err error) {
	fmt.Fprintln(os.Stderr, "extract:", err)
	os.Exit(1)
}

// ---- Lean output helpers ---------------------------------------------------------------------------------

func leanStr(s string) string {
	var sb strings.Builder
	sb.WriteByte('"')
	for _, r := range s {
		switch r {
		case '"':
			sb.WriteString("\\\"")
		case '\\':
			sb.WriteString("\\\\")
		case '\n':
			sb.WriteString("\\n")
		case '\t':
			sb.WriteString("\\t")
		default:
			if r < 32 || r > 126 {
				sb.WriteString(fmt.Sprintf("\\u{%x}", r))
			} else {
				sb.WriteRune(r)
			}
		}
	}
	sb.WriteByte('"')
	return sb.String()
}

func leanBool(b bool) string {
	if b {
		return "true"
	}
	return "false"
}

func leanStrList(xs []string) string {
	q := make([]string, len(xs))
	for i, x := range xs {
		q[i] = leanStr(x)
	}
	return "[" + strings.Join(q, ", ") + "]"
}

// leanList renders items one per line with the given indentation.
func leanList(items []string, indent string) string {
	if len(items) == 0 {
		return "[]"
	}
	return "[\n" + indent + "  " + strings.Join(items, ",\n"+indent+"  ") + "\n" + indent + "]"
}

const genHeader = "-- GENERATED by go/extract from the Go source of the working tree. Do not edit: bin/check regenerates this file\n" +
	"-- before every Lean build (checks/*.json `generate`). Schema: notes/extractor.md.\n"
