// Package grocksdb is a pure-Go, in-memory stand-in for github.com/linxGnu/grocksdb, exposing exactly the
// API surface that /repo/core/util/mpt_pnodedb.go uses. It is part of the trusted base of the /verif
// machinery (see DESIGN.md §5): RocksDB is modelled as an ordered key/value store with column families whose
// Put, Delete and Write(batch) are each atomic and durable in call order.
//
// Extras for the harness (not in the real API):
//   - a registry keyed by directory name, so "re-opening" a directory returns the surviving state;
//   - a write budget: after Budget individual durable writes (Put/Delete/PutCF/Write(batch) each count 1) every
//     further write fails with ErrCrashed and has no effect (crash injection at any prefix of the write stream);
//   - a write log of the durable operations applied.
package grocksdb

import (
	"errors"
	"sort"
	"sync"
)

var ErrCrashed = errors.New("grocksdbfake: crashed (write budget exhausted)")

// ErrInjected is returned by the one write that FakeFailNext makes fail.
var ErrInjected = errors.New("grocksdbfake: injected write failure")

type CompressionType int

const (
	NoCompression  CompressionType = 0
	LZ4Compression CompressionType = 4
)

// ---------------------------------------------------------------------------------------------------------
// storage registry

type store struct {
	mu     sync.Mutex
	cfs    map[string]map[string][]byte // column family -> key -> value
	budget int64                        // <0: unlimited
	writes int64                        // number of durable write operations applied
	log    []WriteRecord
	logOn  bool

	stalled  bool          // writes block until FakeRelease
	stallCh  chan struct{} // closed by FakeRelease
	waiting  int           // writers currently blocked by the stall
	failNext bool          // the next write fails with ErrInjected and has no effect
}

// WriteRecord describes one durable (atomic) write operation.
type WriteRecord struct {
	Kind string // "put", "delete", "putcf", "batch"
	Ops  []BatchOp
}

type BatchOp struct {
	CF     string
	Delete bool
	Key    []byte
	Value  []byte
}

var (
	regMu    sync.Mutex
	registry = map[string]*store{}
)

func getStore(dir string) *store {
	regMu.Lock()
	defer regMu.Unlock()
	s, ok := registry[dir]
	if !ok {
		s = &store{cfs: map[string]map[string][]byte{}, budget: -1}
		registry[dir] = s
	}
	return s
}

// FakeReset forgets the directory entirely.
func FakeReset(dir string) {
	regMu.Lock()
	defer regMu.Unlock()
	delete(registry, dir)
}

// FakeSetBudget sets how many more durable writes succeed on dir (<0 = unlimited).
func FakeSetBudget(dir string, n int64) {
	s := getStore(dir)
	s.mu.Lock()
	s.budget = n
	s.mu.Unlock()
}

// FakeWrites returns the number of durable writes applied so far on dir.
func FakeWrites(dir string) int64 {
	s := getStore(dir)
	s.mu.Lock()
	defer s.mu.Unlock()
	return s.writes
}

// FakeLog switches the write log on/off and returns (and clears) what was logged so far.
func FakeLog(dir string, on bool) []WriteRecord {
	s := getStore(dir)
	s.mu.Lock()
	defer s.mu.Unlock()
	l := s.log
	s.log = nil
	s.logOn = on
	return l
}

// FakeSnapshot returns a deep copy of one column family ("default" or "dead_nodes").
func FakeSnapshot(dir, cf string) map[string][]byte {
	s := getStore(dir)
	s.mu.Lock()
	defer s.mu.Unlock()
	out := map[string][]byte{}
	for k, v := range s.cfs[cf] {
		out[k] = append([]byte(nil), v...)
	}
	return out
}

// FakeClone copies the whole state of directory src to dst (budget unlimited on dst).
func FakeClone(src, dst string) {
	a := getStore(src)
	a.mu.Lock()
	cfs := map[string]map[string][]byte{}
	for cf, m := range a.cfs {
		mm := map[string][]byte{}
		for k, v := range m {
			mm[k] = append([]byte(nil), v...)
		}
		cfs[cf] = mm
	}
	a.mu.Unlock()
	regMu.Lock()
	registry[dst] = &store{cfs: cfs, budget: -1}
	regMu.Unlock()
}

// FakeRawDelete removes a key from the default column family without counting as a write (fault injection).
func FakeRawDelete(dir string, key []byte) {
	s := getStore(dir)
	s.mu.Lock()
	delete(s.cfs["default"], string(key))
	s.mu.Unlock()
}

// FakeRawPut stores a key in the default column family without counting as a write.
func FakeRawPut(dir string, key, value []byte) {
	s := getStore(dir)
	s.mu.Lock()
	s.cf("default")[string(key)] = append([]byte(nil), value...)
	s.mu.Unlock()
}

// FakeRawPutCF stores a key in the named column family ("default" or "dead_nodes") without counting as a write
// (used to plant damaged / foreign records).
func FakeRawPutCF(dir, cf string, key, value []byte) {
	s := getStore(dir)
	s.mu.Lock()
	s.cf(cf)[string(key)] = append([]byte(nil), value...)
	s.mu.Unlock()
}

func (s *store) cf(name string) map[string][]byte {
	m, ok := s.cfs[name]
	if !ok {
		m = map[string][]byte{}
		s.cfs[name] = m
	}
	return m
}

// FakeStall makes every write on dir block (on = true) until FakeRelease(dir); reads are not affected.
func FakeStall(dir string, on bool) {
	s := getStore(dir)
	s.mu.Lock()
	defer s.mu.Unlock()
	if on && !s.stalled {
		s.stalled = true
		s.stallCh = make(chan struct{})
	}
	if !on && s.stalled {
		s.stalled = false
		close(s.stallCh)
	}
}

// FakeRelease ends a stall: blocked writes proceed in the order the scheduler wakes them.
func FakeRelease(dir string) { FakeStall(dir, false) }

// FakeStalledWriters returns how many writes are currently blocked by a stall.
func FakeStalledWriters(dir string) int {
	s := getStore(dir)
	s.mu.Lock()
	defer s.mu.Unlock()
	return s.waiting
}

// FakeFailNext makes the next write on dir fail with ErrInjected (no effect on the store, not counted).
func FakeFailNext(dir string) {
	s := getStore(dir)
	s.mu.Lock()
	s.failNext = true
	s.mu.Unlock()
}

// apply one atomic write; caller does not hold s.mu
func (s *store) apply(kind string, ops []BatchOp) error {
	s.mu.Lock()
	defer s.mu.Unlock()
	for s.stalled {
		ch := s.stallCh
		s.waiting++
		s.mu.Unlock()
		<-ch
		s.mu.Lock()
		s.waiting--
	}
	if s.failNext {
		s.failNext = false
		return ErrInjected
	}
	if s.budget == 0 {
		return ErrCrashed
	}
	if s.budget > 0 {
		s.budget--
	}
	for _, op := range ops {
		m := s.cf(op.CF)
		if op.Delete {
			delete(m, string(op.Key))
		} else {
			m[string(op.Key)] = append([]byte(nil), op.Value...)
		}
	}
	s.writes++
	if s.logOn {
		cp := make([]BatchOp, len(ops))
		for i, op := range ops {
			cp[i] = BatchOp{CF: op.CF, Delete: op.Delete, Key: append([]byte(nil), op.Key...), Value: append([]byte(nil), op.Value...)}
		}
		s.log = append(s.log, WriteRecord{Kind: kind, Ops: cp})
	}
	return nil
}

// ---------------------------------------------------------------------------------------------------------
// options (all setters are no-ops)

type Options struct{}

func NewDefaultOptions() *Options                              { return &Options{} }
func (o *Options) SetCreateIfMissing(bool)                     {}
func (o *Options) SetCompression(CompressionType)              {}
func (o *Options) SetCreateIfMissingColumnFamilies(bool)       {}
func (o *Options) OptimizeUniversalStyleCompaction(uint64)     {}
func (o *Options) SetAllowMmapReads(bool)                      {}
func (o *Options) SetPrefixExtractor(SliceTransform)           {}
func (o *Options) SetPlainTableFactory(uint32, int, float64, uint) {
}
func (o *Options) OptimizeForPointLookup(uint64)               {}
func (o *Options) SetMaxBackgroundJobs(int)                    {}
func (o *Options) SetMaxWriteBufferNumber(int)                 {}
func (o *Options) SetWriteBufferSize(uint64)                   {}
func (o *Options) SetMinWriteBufferNumberToMerge(int)          {}
func (o *Options) IncreaseParallelism(int)                     {}
func (o *Options) SetDbLogDir(string)                          {}
func (o *Options) EnableStatistics()                           {}
func (o *Options) SetDeleteObsoleteFilesPeriodMicros(uint64)   {}
func (o *Options) SetKeepLogFileNum(uint)                      {}
func (o *Options) SetBlockBasedTableFactory(*BlockBasedTableOptions) {
}
func (o *Options) Destroy() {}

type SliceTransform interface{}

func NewFixedPrefixTransform(int) SliceTransform { return struct{}{} }

type Cache struct{}

func NewLRUCache(uint64) *Cache { return &Cache{} }

type BlockBasedTableOptions struct{}

func NewDefaultBlockBasedTableOptions() *BlockBasedTableOptions { return &BlockBasedTableOptions{} }
func (b *BlockBasedTableOptions) SetBlockCache(*Cache)          {}

type ReadOptions struct{}

func NewDefaultReadOptions() *ReadOptions { return &ReadOptions{} }
func (r *ReadOptions) SetFillCache(bool)  {}
func (r *ReadOptions) Destroy()           {}

type WriteOptions struct{}

func NewDefaultWriteOptions() *WriteOptions { return &WriteOptions{} }
func (w *WriteOptions) SetSync(bool)        {}
func (w *WriteOptions) DisableWAL(bool)     {}
func (w *WriteOptions) Destroy()            {}

type TransactionOptions struct{}

func NewDefaultTransactionOptions() *TransactionOptions { return &TransactionOptions{} }

type FlushOptions struct{}

func NewDefaultFlushOptions() *FlushOptions { return &FlushOptions{} }

// ---------------------------------------------------------------------------------------------------------
// DB

type ColumnFamilyHandle struct{ name string }

func (h *ColumnFamilyHandle) Destroy() {}

type DB struct {
	s   *store
	dir string
}

func OpenDbColumnFamilies(_ *Options, name string, cfNames []string, _ []*Options) (*DB, []*ColumnFamilyHandle, error) {
	s := getStore(name)
	s.mu.Lock()
	for _, cf := range cfNames {
		s.cf(cf)
	}
	s.mu.Unlock()
	hs := make([]*ColumnFamilyHandle, len(cfNames))
	for i, cf := range cfNames {
		hs[i] = &ColumnFamilyHandle{name: cf}
	}
	return &DB{s: s, dir: name}, hs, nil
}

type Slice struct{ data []byte }

func (s *Slice) Data() []byte {
	if s == nil {
		return nil
	}
	return s.data
}
func (s *Slice) Free()        {}
func (s *Slice) Size() int    { return len(s.data) }
func (s *Slice) Exists() bool { return s.data != nil }

func (db *DB) Get(_ *ReadOptions, key []byte) (*Slice, error) {
	db.s.mu.Lock()
	defer db.s.mu.Unlock()
	v, ok := db.s.cf("default")[string(key)]
	if !ok {
		return &Slice{}, nil
	}
	return &Slice{data: append([]byte(nil), v...)}, nil
}

func (db *DB) Put(_ *WriteOptions, key, value []byte) error {
	return db.s.apply("put", []BatchOp{{CF: "default", Key: key, Value: value}})
}

func (db *DB) PutCF(_ *WriteOptions, h *ColumnFamilyHandle, key, value []byte) error {
	return db.s.apply("putcf", []BatchOp{{CF: h.name, Key: key, Value: value}})
}

func (db *DB) Delete(_ *WriteOptions, key []byte) error {
	return db.s.apply("delete", []BatchOp{{CF: "default", Delete: true, Key: key}})
}

func (db *DB) Write(_ *WriteOptions, wb *WriteBatch) error {
	return db.s.apply("batch", wb.ops)
}

func (db *DB) Flush(*FlushOptions) error { return nil }
func (db *DB) Close()                    {}

func (db *DB) GetPropertyCF(_ string, h *ColumnFamilyHandle) string {
	db.s.mu.Lock()
	defer db.s.mu.Unlock()
	n := len(db.s.cf(h.name))
	// decimal without importing strconv/fmt noise
	if n == 0 {
		return "0"
	}
	var b []byte
	for n > 0 {
		b = append([]byte{byte('0' + n%10)}, b...)
		n /= 10
	}
	return string(b)
}

type WriteBatch struct{ ops []BatchOp }

func NewWriteBatch() *WriteBatch { return &WriteBatch{} }
func (wb *WriteBatch) Put(key, value []byte) {
	wb.ops = append(wb.ops, BatchOp{CF: "default", Key: append([]byte(nil), key...), Value: append([]byte(nil), value...)})
}
func (wb *WriteBatch) Delete(key []byte) {
	wb.ops = append(wb.ops, BatchOp{CF: "default", Delete: true, Key: append([]byte(nil), key...)})
}
func (wb *WriteBatch) DeleteCF(h *ColumnFamilyHandle, key []byte) {
	wb.ops = append(wb.ops, BatchOp{CF: h.name, Delete: true, Key: append([]byte(nil), key...)})
}
func (wb *WriteBatch) PutCF(h *ColumnFamilyHandle, key, value []byte) {
	wb.ops = append(wb.ops, BatchOp{CF: h.name, Key: append([]byte(nil), key...), Value: append([]byte(nil), value...)})
}
func (wb *WriteBatch) Count() int { return len(wb.ops) }
func (wb *WriteBatch) Clear()     { wb.ops = nil }
func (wb *WriteBatch) Destroy()   {}

// Iterator over a snapshot taken at creation time, keys in byte order.
type Iterator struct {
	keys []string
	vals [][]byte
	pos  int
}

func (db *DB) newIter(cf string) *Iterator {
	db.s.mu.Lock()
	defer db.s.mu.Unlock()
	m := db.s.cf(cf)
	it := &Iterator{}
	for k := range m {
		it.keys = append(it.keys, k)
	}
	sort.Strings(it.keys)
	for _, k := range it.keys {
		it.vals = append(it.vals, append([]byte(nil), m[k]...))
	}
	it.pos = len(it.keys)
	return it
}

func (db *DB) NewIterator(*ReadOptions) *Iterator { return db.newIter("default") }
func (db *DB) NewIteratorCF(_ *ReadOptions, h *ColumnFamilyHandle) *Iterator {
	return db.newIter(h.name)
}
func (it *Iterator) SeekToFirst() { it.pos = 0 }
func (it *Iterator) Valid() bool  { return it.pos >= 0 && it.pos < len(it.keys) }
func (it *Iterator) Next()        { it.pos++ }
func (it *Iterator) Key() *Slice  { return &Slice{data: []byte(it.keys[it.pos])} }
func (it *Iterator) Value() *Slice {
	return &Slice{data: append([]byte(nil), it.vals[it.pos]...)}
}
func (it *Iterator) Close()     {}
func (it *Iterator) Err() error { return nil }
