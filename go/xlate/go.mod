module verifxlate

go 1.21
