package main

// Self-test of the translator: every supported construct has a Go snippet under testdata/ok_*.go whose translation
// is compared with a reviewed golden file (testdata/ok_*.golden; `go test -update` rewrites them), and every construct
// outside the subset has a snippet testdata/bad_*.go that must be REJECTED with the message named in its first line
// (`// want: <regexp>`). A change of the translator that alters what it emits, or that starts accepting something it
// cannot translate faithfully, fails here. Run by `bin/check C18` (generate step) and by `go test ./...`.

import (
	"flag"
	"os"
	"os/exec"
	"path/filepath"
	"regexp"
	"strings"
	"testing"
)

var update = flag.Bool("update", false, "rewrite the golden files")

func TestGolden(t *testing.T) {
	files, _ := filepath.Glob("testdata/ok_*.go")
	if len(files) < 6 {
		t.Fatalf("only %d ok_*.go snippets found", len(files))
	}
	for _, f := range files {
		text, _, _, err := translateSource(f)
		if err != nil {
			t.Errorf("%s: %v", f, err)
			continue
		}
		if len(lastFailed) > 0 {
			t.Errorf("%s: not translated: %v", f, lastFailed)
			continue
		}
		golden := strings.TrimSuffix(f, ".go") + ".golden"
		if *update {
			if err := os.WriteFile(golden, []byte(text), 0o644); err != nil {
				t.Fatal(err)
			}
			continue
		}
		want, err := os.ReadFile(golden)
		if err != nil {
			t.Errorf("%s: %v (run go test -update and review)", f, err)
			continue
		}
		if string(want) != text {
			t.Errorf("%s: translation differs from %s\n--- got ---\n%s", f, golden, firstDiff(string(want), text))
		}
	}
}

func firstDiff(want, got string) string {
	w, g := strings.Split(want, "\n"), strings.Split(got, "\n")
	for i := 0; i < len(w) && i < len(g); i++ {
		if w[i] != g[i] {
			return "line " + itoa(i+1) + ":\n  want: " + w[i] + "\n  got:  " + g[i]
		}
	}
	return "length differs: want " + itoa(len(w)) + " lines, got " + itoa(len(g))
}

func itoa(i int) string {
	s := ""
	if i == 0 {
		return "0"
	}
	for ; i > 0; i /= 10 {
		s = string(rune('0'+i%10)) + s
	}
	return s
}

func TestRejects(t *testing.T) {
	files, _ := filepath.Glob("testdata/bad_*.go")
	if len(files) < 10 {
		t.Fatalf("only %d bad_*.go snippets found", len(files))
	}
	for _, f := range files {
		src, _ := os.ReadFile(f)
		first := strings.SplitN(string(src), "\n", 2)[0]
		if !strings.HasPrefix(first, "// want: ") {
			t.Errorf("%s: first line must be `// want: <regexp>`", f)
			continue
		}
		re := regexp.MustCompile(strings.TrimPrefix(first, "// want: "))
		_, _, _, err := translateSource(f)
		msg := ""
		if err != nil {
			msg = err.Error()
		} else {
			for _, m := range lastFailed { // a function outside the subset is recorded, the rest of the file is translated
				msg += m + "\n"
			}
		}
		switch {
		case msg == "":
			t.Errorf("%s: accepted, but it is outside the subset (want rejection matching %q)", f, re)
		case !re.MatchString(msg):
			t.Errorf("%s: rejected with %q, want a message matching %q", f, msg, re)
		case !strings.Contains(msg, filepath.Base(f)+":"):
			t.Errorf("%s: rejection %q does not carry file:line", f, msg)
		}
	}
}

func TestGoldenCompiles(t *testing.T) {
	if os.Getenv("XLATE_LEAN") != "1" {
		t.Skip("set XLATE_LEAN=1 to compile the golden files with Lean")
	}
	leanDir, _ := filepath.Abs("../../lean")
	files, _ := filepath.Glob("testdata/ok_*.golden")
	tmp := t.TempDir()
	pre := exec.Command("lake", "build", "Verif.Model.GoSem", "Verif.Model.F64", "Verif.Model.Dec") // what a generated file imports
	pre.Dir = leanDir
	if out, err := pre.CombinedOutput(); err != nil {
		t.Fatalf("lake build of the model modules failed: %v\n%s", err, out)
	}
	for _, g := range files {
		text, err := os.ReadFile(g)
		if err != nil {
			t.Fatal(err)
		}
		if chk, err := os.ReadFile(strings.TrimSuffix(g, ".golden") + ".check"); err == nil {
			text = append(append(text, '\n'), chk...)
		}
		f := filepath.Join(tmp, strings.TrimSuffix(filepath.Base(g), ".golden")+".lean")
		if err := os.WriteFile(f, text, 0o644); err != nil {
			t.Fatal(err)
		}
		cmd := exec.Command("lake", "env", "lean", f)
		cmd.Dir = leanDir
		if out, err := cmd.CombinedOutput(); err != nil || strings.Contains(string(out), "error") {
			t.Errorf("%s does not check in Lean: %v\n%s", g, err, out)
		}
	}
}

// TestLayoutIndependent: the same package as one file and split into three files (other declaration order, codec
// methods written differently and through a helper) gives byte-identical Lean; the codec methods are recognised by
// content and are not translated
func TestLayoutIndependent(t *testing.T) {
	one, _ := filepath.Glob("testdata/layout1/*.go")
	three, _ := filepath.Glob("testdata/layout2/*.go")
	a, _, _, err := translateSource(one...)
	if err != nil || len(lastFailed) > 0 {
		t.Fatalf("layout1: %v %v", err, lastFailed)
	}
	b, _, _, err := translateSource(three...)
	if err != nil || len(lastFailed) > 0 {
		t.Fatalf("layout2: %v %v", err, lastFailed)
	}
	if a != b {
		t.Errorf("the generated Lean depends on the file layout:\n%s", firstDiff(a, b))
	}
	if !strings.Contains(a, `("MarshalMsg", ["AppendUint64", "Require", "Uint64Size"])`) || strings.Contains(a, "def Coin_MarshalMsg") {
		t.Errorf("codec methods not handled by content:\n%s", a)
	}
}
