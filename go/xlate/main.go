// Command xlate translates core/currency/currency.go into Lean 4 definitions (tie T1 of DESIGN.md §3.1).
//
//	xlate -repo /repo -out ../../lean/Verif/Gen/Currency.lean
//
// One Lean function per Go function, over `BitVec 64` with Go's wrapping semantics, returning
// `Res ErrKind α = ok a | err e | panic` (lean/Verif/Model/GoSem.lean). The theorems of
// lean/Verif/Props/C18.lean are about the emitted definitions, so they are re-checked against what the Go source
// says at the time of the check. The accepted subset is exactly what currency.go needs; ANYTHING ELSE MAKES THE
// TRANSLATOR FAIL (exit 1, message with file:line) — it never guesses.
//
// Accepted subset
//
//	declarations  `type Coin uint64`; `var ErrX = errors.New("…")`; `var g decimal.Decimal` set by one assignment in
//	              init(); consts (evaluated by go/types); functions and value-receiver methods without loops
//	types         uint64/Coin, int64 (both BitVec 64), float64 (model F64), error, decimal.Decimal (model Dec),
//	              int/int32 results of Decimal.Sign/Exponent (Lean Int)
//	statements    x := e, x = e, v, err := f(..), f, _ := d.Float64(), err = ErrX, if c {..} [else {..}] (no init),
//	              return e.., naked return with named results, return f(..) (tail call of a translated function)
//	expressions   + - * on integers (wrapping), / % on uint64 (explicit `.panic` when the divisor is zero),
//	              * on float64 (F64.mul), comparisons (unsigned, signed via slt/sle, IEEE via F64.lt/le/eq),
//	              && || ! with Go's short-circuit order, conversions Coin(x) uint64(x) int64(x) float64(u) Coin(f),
//	              constants, math.IsInf, decimal.New/NewFromInt/NewFromFloat, Decimal.Sign/Exponent/Shift/
//	              GreaterThan/IntPart/Float64
//
// External behaviour that is a parameter of the generated code, not translated:
//
//	decimal.NewFromFloat(x)  becomes an extra argument `nff : Dec` of the enclosing function (the decimal the library
//	                         returns; specified in Props/C18 as the shortest round-trip decimal) preceded by an
//	                         explicit `.panic` when x is NaN or ±Inf (the library panics there).
//
// Error results: a Go function may return a value together with a non-nil error; `Res` cannot express that, so
// the translator tracks which variables are known to be zero and FAILS if a return statement could carry a non-nil
// error with a value not known to be zero. `err != nil` tests are resolved statically per path (the error
// variable is either the nil of a successful call or the error of a failed one).
package main

import (
	"flag"
	"fmt"
	"go/ast"
	"go/constant"
	"go/importer"
	"go/parser"
	"go/token"
	"go/types"
	"math"
	"math/big"
	"os"
	"path/filepath"
	"sort"
	"strings"
)

const decimalPath = "github.com/shopspring/decimal"
const msgpPath = "github.com/tinylib/msgp/msgp"
const msgpPath0 = "github.com/0chain/msgp/msgp"

type kind int

const (
	kNone kind = iota
	kU64
	kI64
	kF64
	kBool
	kInt
	kDec
	kErr
)

func (k kind) String() string {
	return [...]string{"?", "uint64", "int64", "float64", "bool", "int", "decimal.Decimal", "error"}[k]
}

func (k kind) leanType() string {
	switch k {
	case kU64:
		return "U64"
	case kI64:
		return "I64"
	case kF64:
		return "F64"
	case kBool:
		return "Bool"
	case kInt:
		return "Int"
	case kDec:
		return "Dec"
	}
	panic("no lean type for kind " + k.String())
}

func zeroLit(k kind) string {
	switch k {
	case kU64, kI64:
		return "0#64"
	case kF64:
		return "(F64.mk 0x0000000000000000#64)"
	case kInt:
		return "(0 : Int)"
	}
	panic("no zero literal for kind " + k.String())
}

type param struct {
	name     string
	k        kind
	leanType string
}

type fsig struct {
	goName   string // "MultCoin", "Coin.Int64"
	leanName string // "MultCoin", "Coin_Int64"
	decl     *ast.FuncDecl
	params   []param // receiver first
	results  []param // non-error results
	hasErr   bool
	errName  string // name of the error result when results are named
	named    bool
	oracle   []param // extra parameters standing for external library results
	// function-typed parameters are handled by SPECIALISATION: a function that has some is a template (never emitted);
	// every call site must pass named top-level functions, and one copy per distinct argument list is translated
	template bool
	isFunc   []bool           // per Go parameter (receiver excluded): is it function-typed
	fparams  []string         // names of the function-typed parameters, in order
	bind     map[string]*fsig // in a specialised copy: function parameter -> the function it stands for
	deps     map[string]bool
	body     string
}

type binding struct {
	lean string
	k    kind
	zero bool // statically known to hold the zero value
}

type errAbs struct {
	nonnil bool
	lean   string // term of type ErrKind when nonnil
}

type env struct {
	vars map[string]binding
	errs map[string]errAbs
}

func newEnv() *env { return &env{vars: map[string]binding{}, errs: map[string]errAbs{}} }

func (e *env) clone() *env {
	n := newEnv()
	for k, v := range e.vars {
		n.vars[k] = v
	}
	for k, v := range e.errs {
		n.errs[k] = v
	}
	return n
}

type xl struct {
	fset     *token.FileSet
	info     *types.Info
	srcs     map[string]string // file name -> source text
	funcs    map[string]*fsig
	order    []string // declaration order of functions
	errNames []string
	errMsgs  map[string]string
	errSet   map[string]bool
	globals  map[string]kind   // package-level variables with a translated initial value
	globalV  map[string]string // their Lean terms
	gorder   []string
	typeDefs []string // "abbrev Coin := U64"
	typeKind map[string]kind
	skipped  map[string]string
	failed   map[string]string // functions that are outside the subset: name -> reason (file:line: …)
}

// xlateError is how the translator gives up: translateSource turns it into an error, main into exit status 1
type xlateError struct{ msg string }

func (x *xl) fail(pos token.Pos, f string, a ...interface{}) {
	panic(xlateError{fmt.Sprintf("%s: unsupported (outside the translated subset): %s", x.fset.Position(pos), fmt.Sprintf(f, a...))})
}

var leanReserved = map[string]bool{"at": true, "from": true, "end": true, "fun": true, "open": true, "in": true, "do": true, "then": true,
	"show": true, "have": true, "let": true, "if": true, "else": true, "match": true, "with": true, "def": true, "theorem": true, "by": true,
	"where": true, "instance": true, "structure": true, "class": true, "namespace": true, "section": true, "variable": true, "import": true,
	"deriving": true, "Type": true, "Prop": true, "Sort": true, "mut": true, "return": true, "for": true, "try": true, "catch": true, "finally": true,
	"macro": true, "syntax": true, "notation": true, "infix": true, "prefix": true, "postfix": true, "set_option": true, "universe": true, "example": true,
	"abbrev": true, "inductive": true, "mutual": true, "private": true, "protected": true, "partial": true, "unsafe": true, "noncomputable": true,
	"using": true, "extends": true, "calc": true, "nomatch": true, "nofun": true, "attribute": true, "export": true, "local": true, "scoped": true,
	"e": false}

func leanIdent(s string) string {
	if s == "_" {
		return "_"
	}
	if leanReserved[s] {
		return s + "_"
	}
	return s
}

func (x *xl) kindOfType(t types.Type) kind {
	if t == nil {
		return kNone
	}
	if n, ok := t.(*types.Named); ok && n.Obj().Pkg() == nil && n.Obj().Name() == "error" {
		return kErr
	}
	b, ok := t.Underlying().(*types.Basic)
	if !ok {
		return kNone
	}
	switch b.Kind() {
	case types.Uint64:
		return kU64
	case types.Int64:
		return kI64
	case types.Float64:
		return kF64
	case types.Bool, types.UntypedBool:
		return kBool
	case types.Int, types.Int32:
		return kInt
	}
	return kNone
}

// declared type expression -> (kind, lean type name)
func (x *xl) typeExpr(e ast.Expr) (kind, string) {
	switch t := e.(type) {
	case *ast.Ident:
		switch t.Name {
		case "uint64":
			return kU64, "U64"
		case "int64":
			return kI64, "I64"
		case "float64":
			return kF64, "F64"
		case "error":
			return kErr, ""
		case "bool":
			return kBool, "Bool"
		}
		if k, ok := x.typeKind[t.Name]; ok {
			return k, t.Name
		}
	case *ast.SelectorExpr:
		if x.isPkg(t.X, decimalPath) && t.Sel.Name == "Decimal" {
			return kDec, "Dec"
		}
	}
	x.fail(e.Pos(), "type %s", x.text(e))
	return kNone, ""
}

func (x *xl) text(n ast.Node) string {
	p, e := x.fset.Position(n.Pos()), x.fset.Position(n.End())
	return x.srcs[p.Filename][p.Offset:e.Offset]
}

func (x *xl) isPkg(e ast.Expr, path string) bool {
	id, ok := e.(*ast.Ident)
	if !ok {
		return false
	}
	pn, ok := x.info.Uses[id].(*types.PkgName)
	return ok && pn.Imported().Path() == path
}

// ------------------------------------------------------------------------------------------------ expressions

type exprRes struct {
	t      string
	k      kind
	guards []string // Lean propositions; if one holds (checked in order) the Go code panics here
	zero   bool
}

type ft struct {
	x     *xl
	sig   *fsig
	fresh int
}

func unparen(e ast.Expr) ast.Expr {
	for {
		p, ok := e.(*ast.ParenExpr)
		if !ok {
			return e
		}
		e = p.X
	}
}

func (f *ft) constant(e ast.Expr, v constant.Value, k kind) exprRes {
	x := f.x
	switch k {
	case kU64, kI64, kInt:
		iv := constant.ToInt(v)
		if iv.Kind() != constant.Int {
			x.fail(e.Pos(), "constant %s is not an integer", v)
		}
		bi, _ := new(big.Int).SetString(iv.ExactString(), 10)
		switch k {
		case kU64:
			if bi.Sign() < 0 || bi.BitLen() > 64 {
				x.fail(e.Pos(), "constant %s out of uint64 range", v)
			}
			return exprRes{t: bi.String() + "#64", k: k, zero: bi.Sign() == 0}
		case kI64:
			if !bi.IsInt64() {
				x.fail(e.Pos(), "constant %s out of int64 range", v)
			}
			if bi.Sign() < 0 {
				return exprRes{t: "(BitVec.ofInt 64 (" + bi.String() + "))", k: k}
			}
			return exprRes{t: bi.String() + "#64", k: k, zero: bi.Sign() == 0}
		default:
			return exprRes{t: "(" + bi.String() + " : Int)", k: k, zero: bi.Sign() == 0}
		}
	case kF64:
		fv, _ := constant.Float64Val(constant.ToFloat(v))
		// Go converts the exact constant to the nearest float64; emit its bit pattern (exact by construction)
		return exprRes{t: fmt.Sprintf("(F64.mk 0x%016X#64 /- %s -/)", math.Float64bits(fv), strings.TrimSpace(fmt.Sprintf("%g", fv))), k: k, zero: math.Float64bits(fv) == 0}
	case kBool:
		if constant.BoolVal(v) {
			return exprRes{t: "true", k: k}
		}
		return exprRes{t: "false", k: k}
	}
	x.fail(e.Pos(), "constant %s of unknown type", v)
	return exprRes{}
}

func (f *ft) expr(e ast.Expr, en *env, want kind) exprRes {
	x := f.x
	if tv, ok := x.info.Types[e]; ok && tv.Value != nil {
		k := x.kindOfType(tv.Type)
		if k == kNone || k == kBool && want != kNone && want != kBool {
			k = want
		}
		if k == kNone {
			x.fail(e.Pos(), "constant %s whose type cannot be determined", x.text(e))
		}
		return f.constant(e, tv.Value, k)
	}
	switch v := e.(type) {
	case *ast.BasicLit: // only reached for nodes synthesised by the translator (x++ → x + 1)
		if want != kNone {
			return f.constant(e, constant.MakeFromLiteral(v.Value, v.Kind, 0), want)
		}
	case *ast.ParenExpr:
		return f.expr(v.X, en, want)
	case *ast.Ident:
		if b, ok := en.vars[v.Name]; ok {
			return exprRes{t: b.lean, k: b.k, zero: b.zero}
		}
		if k, ok := x.globals[v.Name]; ok {
			return exprRes{t: leanIdent(v.Name), k: k}
		}
		x.fail(v.Pos(), "identifier %s", v.Name)
	case *ast.BinaryExpr:
		switch v.Op {
		case token.ADD, token.SUB, token.MUL, token.QUO, token.REM:
			l, r := f.operands(v, en, want)
			res := exprRes{k: l.k, guards: append(append([]string{}, l.guards...), r.guards...)}
			op := v.Op.String()
			switch l.k {
			case kU64, kI64:
				if v.Op == token.QUO || v.Op == token.REM {
					if l.k != kU64 {
						x.fail(v.Pos(), "signed division %s", x.text(v))
					}
					if tv, ok := x.info.Types[v.Y]; !(ok && tv.Value != nil) { // a constant divisor is checked non-zero by the Go compiler
						res.guards = append(res.guards, r.t+" = 0#64")
					}
				}
				res.t = "(" + l.t + " " + op + " " + r.t + ")"
			case kF64:
				if v.Op != token.MUL {
					x.fail(v.Pos(), "float operation %s (only * is modelled)", x.text(v))
				}
				res.t = "(F64.mul " + l.t + " " + r.t + ")"
			default:
				x.fail(v.Pos(), "arithmetic on %s: %s", l.k, x.text(v))
			}
			return res
		}
		switch v.Op {
		case token.LAND, token.LOR, token.EQL, token.NEQ, token.LSS, token.LEQ, token.GTR, token.GEQ:
			x.fail(v.Pos(), "boolean expression used as a value: %s", x.text(v))
		}
		x.fail(v.OpPos, "operator %s in %s (only + - * / %% and comparisons are translated)", v.Op, x.text(v))
	case *ast.CallExpr:
		return f.call(v, en)
	}
	x.fail(e.Pos(), "expression %s", x.text(e))
	return exprRes{}
}

// operands translates both sides of a binary expression; an untyped constant side takes the kind of the other side
func (f *ft) operands(v *ast.BinaryExpr, en *env, want kind) (exprRes, exprRes) {
	x := f.x
	isConst := func(e ast.Expr) bool { tv, ok := x.info.Types[e]; return ok && tv.Value != nil }
	var l, r exprRes
	switch {
	case isConst(v.X) && !isConst(v.Y):
		r = f.expr(v.Y, en, want)
		l = f.expr(v.X, en, r.k)
	default:
		l = f.expr(v.X, en, want)
		r = f.expr(v.Y, en, l.k)
	}
	if l.k != r.k {
		x.fail(v.Pos(), "operands of different types (%s, %s) in %s", l.k, r.k, x.text(v))
	}
	return l, r
}

func (f *ft) call(c *ast.CallExpr, en *env) exprRes {
	x := f.x
	// conversion T(x)
	if tv, ok := x.info.Types[c.Fun]; ok && tv.IsType() && len(c.Args) == 1 {
		to := x.kindOfType(tv.Type)
		a := f.expr(c.Args[0], en, to)
		switch {
		case (a.k == kU64 || a.k == kI64) && (to == kU64 || to == kI64):
			return exprRes{t: a.t, k: to, guards: a.guards, zero: a.zero} // same 64 bits, other view
		case a.k == kU64 && to == kF64:
			return exprRes{t: "(F64.ofUInt64 " + a.t + ")", k: kF64, guards: a.guards}
		case a.k == kF64 && to == kU64:
			return exprRes{t: "(F64.toUInt64 " + a.t + ")", k: kU64, guards: a.guards}
		}
		x.fail(c.Pos(), "conversion %s (from %s)", x.text(c), a.k)
	}
	// call of a translated helper WITHOUT error result (single value): its result is bound before the expression
	if callee, cc := f.calleeOf(c); callee != nil {
		if callee.hasErr || len(callee.results) != 1 {
			x.fail(c.Pos(), "call %s in expression position (a function with an error or several results)", x.text(c))
		}
		gs, term := f.callTerm(callee, cc, en)
		f.fresh++
		name := fmt.Sprintf("h_%d", f.fresh)
		gs = append(gs, rawPrelude+"Res.andThen ("+term+") fun "+name+" =>")
		return exprRes{t: name, k: callee.results[0].k, guards: gs}
	}
	sel, ok := c.Fun.(*ast.SelectorExpr)
	if !ok {
		x.fail(c.Pos(), "call %s in expression position (only conversions, math.IsInf, the decimal functions of the subset; calls of translated functions only as `v, err := f(..)` and `return f(..)`)", x.text(c))
	}
	if x.isPkg(sel.X, decimalPath) {
		switch sel.Sel.Name {
		case "NewFromFloat":
			if len(c.Args) == 1 {
				a := f.expr(c.Args[0], en, kF64)
				if a.k != kF64 {
					break
				}
				name := fmt.Sprintf("nff%d", len(f.sig.oracle)+1)
				f.sig.oracle = append(f.sig.oracle, param{name: name, k: kDec, leanType: "Dec"})
				g := append(append([]string{}, a.guards...), "F64.isNaN "+a.t+" = true ∨ F64.isInf "+a.t+" (0 : Int) = true")
				return exprRes{t: name, k: kDec, guards: g}
			}
		case "New":
			if len(c.Args) == 2 {
				a := f.expr(c.Args[0], en, kI64)
				b := f.expr(c.Args[1], en, kInt)
				if a.k == kI64 && b.k == kInt {
					return exprRes{t: "(Dec.new " + a.t + " " + b.t + ")", k: kDec, guards: append(append([]string{}, a.guards...), b.guards...)}
				}
			}
		case "NewFromInt":
			if len(c.Args) == 1 {
				a := f.expr(c.Args[0], en, kI64)
				if a.k == kI64 {
					return exprRes{t: "(Dec.newFromInt " + a.t + ")", k: kDec, guards: a.guards}
				}
			}
		}
		x.fail(c.Pos(), "decimal function %s", x.text(c))
	}
	if x.isPkg(sel.X, "math") {
		x.fail(c.Pos(), "math function %s as a value", x.text(c))
	}
	if x.isPkg(sel.X, bitsPath) && len(c.Args) == 1 {
		a := f.expr(c.Args[0], en, kU64)
		if a.k == kU64 {
			switch sel.Sel.Name {
			case "Len64":
				return exprRes{t: "(len64 " + a.t + ")", k: kInt, guards: a.guards}
			case "LeadingZeros64":
				return exprRes{t: "((64 : Int) - len64 " + a.t + ")", k: kInt, guards: a.guards}
			}
		}
		x.fail(c.Pos(), "bits function %s", x.text(c))
	}
	// method of a decimal value
	recv := f.expr(sel.X, en, kNone)
	if recv.k == kDec {
		switch sel.Sel.Name {
		case "Sign":
			if len(c.Args) == 0 {
				return exprRes{t: "(Dec.sign " + recv.t + ")", k: kInt, guards: recv.guards}
			}
		case "Exponent":
			if len(c.Args) == 0 {
				return exprRes{t: "(Dec.exponent " + recv.t + ")", k: kInt, guards: recv.guards}
			}
		case "IntPart":
			if len(c.Args) == 0 {
				return exprRes{t: "(Dec.intPart " + recv.t + ")", k: kI64, guards: recv.guards}
			}
		case "Cmp":
			if len(c.Args) == 1 {
				a := f.expr(c.Args[0], en, kDec)
				if a.k == kDec {
					return exprRes{t: "(Dec.cmp " + recv.t + " " + a.t + ")", k: kInt, guards: append(append([]string{}, recv.guards...), a.guards...)}
				}
			}
		case "Shift":
			if len(c.Args) == 1 {
				a := f.expr(c.Args[0], en, kInt)
				if a.k == kInt {
					return exprRes{t: "(Dec.shift " + recv.t + " " + a.t + ")", k: kDec, guards: append(append([]string{}, recv.guards...), a.guards...)}
				}
			}
		}
	}
	x.fail(c.Pos(), "call %s", x.text(c))
	return exprRes{}
}

// prop translates a boolean Go expression without short-circuit-protected panics into a decidable Lean proposition
func (f *ft) prop(e ast.Expr, en *env) (string, []string) {
	x := f.x
	e = unparen(e)
	switch v := e.(type) {
	case *ast.UnaryExpr:
		if v.Op == token.NOT {
			p, g := f.prop(v.X, en)
			return "¬ (" + p + ")", g
		}
	case *ast.BinaryExpr:
		switch v.Op {
		case token.LAND, token.LOR:
			p, g1 := f.prop(v.X, en)
			q, g2 := f.prop(v.Y, en)
			if len(g2) > 0 {
				x.fail(v.Pos(), "internal: short-circuit operand with a panic site reached prop()")
			}
			op := " ∧ "
			if v.Op == token.LOR {
				op = " ∨ "
			}
			return "(" + p + op + q + ")", g1
		case token.EQL, token.NEQ, token.LSS, token.LEQ, token.GTR, token.GEQ:
			l, r := f.operands(v, en, kNone)
			g := append(append([]string{}, l.guards...), r.guards...)
			a, b := l.t, r.t
			switch l.k {
			case kU64, kInt:
				return a + " " + map[token.Token]string{token.EQL: "=", token.NEQ: "≠", token.LSS: "<", token.LEQ: "≤", token.GTR: ">", token.GEQ: "≥"}[v.Op] + " " + b, g
			case kI64:
				switch v.Op {
				case token.EQL:
					return a + " = " + b, g
				case token.NEQ:
					return a + " ≠ " + b, g
				case token.LSS:
					return "BitVec.slt " + a + " " + b + " = true", g
				case token.LEQ:
					return "BitVec.sle " + a + " " + b + " = true", g
				case token.GTR:
					return "BitVec.slt " + b + " " + a + " = true", g
				case token.GEQ:
					return "BitVec.sle " + b + " " + a + " = true", g
				}
			case kF64: // IEEE: every comparison with a NaN is false except !=
				switch v.Op {
				case token.EQL:
					return "F64.eq " + a + " " + b + " = true", g
				case token.NEQ:
					return "F64.eq " + a + " " + b + " = false", g
				case token.LSS:
					return "F64.lt " + a + " " + b + " = true", g
				case token.LEQ:
					return "F64.le " + a + " " + b + " = true", g
				case token.GTR:
					return "F64.lt " + b + " " + a + " = true", g
				case token.GEQ:
					return "F64.le " + b + " " + a + " = true", g
				}
			}
			x.fail(v.Pos(), "comparison of %s values: %s", l.k, x.text(v))
		}
	case *ast.CallExpr:
		if sel, ok := v.Fun.(*ast.SelectorExpr); ok {
			if x.isPkg(sel.X, "math") && sel.Sel.Name == "IsNaN" && len(v.Args) == 1 {
				a := f.expr(v.Args[0], en, kF64)
				if a.k == kF64 {
					return "F64.isNaN " + a.t + " = true", a.guards
				}
			}
			if x.isPkg(sel.X, "math") && sel.Sel.Name == "IsInf" && len(v.Args) == 2 {
				a := f.expr(v.Args[0], en, kF64)
				s := f.expr(v.Args[1], en, kInt)
				if a.k == kF64 && s.k == kInt {
					return "F64.isInf " + a.t + " " + s.t + " = true", append(append([]string{}, a.guards...), s.guards...)
				}
			}
			if !x.isPkg(sel.X, "math") && !x.isPkg(sel.X, decimalPath) && !x.isPkg(sel.X, bitsPath) && len(v.Args) == 1 {
				if rel, ok := map[string]string{"GreaterThan": "", "LessThan": "< 0", "GreaterThanOrEqual": "≥ 0", "LessThanOrEqual": "≤ 0", "Equal": "= 0"}[sel.Sel.Name]; ok {
					r := f.expr(sel.X, en, kNone)
					a := f.expr(v.Args[0], en, kDec)
					if r.k == kDec && a.k == kDec {
						g := append(append([]string{}, r.guards...), a.guards...)
						if rel == "" {
							return "Dec.greaterThan " + r.t + " " + a.t + " = true", g
						}
						return "(Dec.cmp " + r.t + " " + a.t + ") " + rel, g
					}
				}
			}
			if !x.isPkg(sel.X, "math") && !x.isPkg(sel.X, decimalPath) && !x.isPkg(sel.X, bitsPath) && len(v.Args) == 0 && sel.Sel.Name == "IsNegative" {
				r := f.expr(sel.X, en, kNone)
				if r.k == kDec {
					return "(Dec.sign " + r.t + ") < 0", r.guards
				}
			}
		}
	}
	x.fail(e.Pos(), "condition %s", x.text(e))
	return "", nil
}

// mayPanic: does evaluating e contain a panic site (non-constant divisor, panicking library call)?
func (f *ft) mayPanic(e ast.Expr) bool {
	found := false
	ast.Inspect(e, func(n ast.Node) bool {
		switch v := n.(type) {
		case *ast.BinaryExpr:
			if v.Op == token.QUO || v.Op == token.REM {
				if tv, ok := f.x.info.Types[v.Y]; !(ok && tv.Value != nil) {
					found = true
				}
			}
		case *ast.CallExpr:
			if sel, ok := v.Fun.(*ast.SelectorExpr); ok && f.x.isPkg(sel.X, decimalPath) && sel.Sel.Name == "NewFromFloat" {
				found = true
			}
			if callee, _ := f.calleeOf(v); callee != nil {
				found = true
			}
		}
		return true
	})
	return found
}

func pad(n int) string { return strings.Repeat(" ", n) }

// rawPrelude marks an entry of exprRes.guards that is a complete prefix line instead of a panic condition
const rawPrelude = "\x00"

const bitsPath = "math/bits"

func guardLines(gs []string, ind int) string {
	s := ""
	for _, g := range gs {
		if strings.HasPrefix(g, rawPrelude) { // a binding of a helper-call result: `Res.andThen (f a) fun h =>`
			s += pad(ind) + g[len(rawPrelude):] + "\n"
			continue
		}
		s += pad(ind) + "if " + g + " then .panic else\n"
	}
	return s
}

// cond emits code that evaluates the Go condition e (left to right, short-circuit) and continues with kT or kF
func (f *ft) cond(e ast.Expr, en *env, ind int, kT, kF func(int) string) string {
	x := f.x
	e = unparen(e)
	switch v := e.(type) {
	case *ast.UnaryExpr:
		if v.Op == token.NOT {
			return f.cond(v.X, en, ind, kF, kT)
		}
	case *ast.BinaryExpr:
		switch v.Op {
		case token.LAND:
			if f.mayPanic(v.Y) || f.isErrTest(v.X, en) || f.isErrTest(v.Y, en) {
				return f.cond(v.X, en, ind, func(i int) string { return f.cond(v.Y, en, i, kT, kF) }, kF)
			}
		case token.LOR:
			if f.mayPanic(v.Y) || f.isErrTest(v.X, en) || f.isErrTest(v.Y, en) {
				return f.cond(v.X, en, ind, kT, func(i int) string { return f.cond(v.Y, en, i, kT, kF) })
			}
		case token.EQL, token.NEQ:
			if f.isErrTest(v, en) {
				var id *ast.Ident
				if isNil(v.Y) {
					id, _ = unparen(v.X).(*ast.Ident)
				} else {
					id, _ = unparen(v.Y).(*ast.Ident)
				}
				abs := en.errs[id.Name]
				if abs.nonnil == (v.Op == token.NEQ) { // statically decided on this path
					return kT(ind)
				}
				return kF(ind)
			}
		}
	}
	p, gs := f.prop(e, en)
	_ = x
	return guardLines(gs, ind) + pad(ind) + "if " + p + " then\n" + kT(ind+2) + pad(ind) + "else\n" + kF(ind+2)
}

func isNil(e ast.Expr) bool {
	id, ok := unparen(e).(*ast.Ident)
	return ok && id.Name == "nil"
}

// isErrTest: e is `err == nil` / `err != nil` (either order) for a tracked error variable
func (f *ft) isErrTest(e ast.Expr, en *env) bool {
	v, ok := unparen(e).(*ast.BinaryExpr)
	if !ok || (v.Op != token.EQL && v.Op != token.NEQ) {
		return false
	}
	other := v.X
	if isNil(v.X) {
		other = v.Y
	} else if !isNil(v.Y) {
		return false
	}
	id, ok := unparen(other).(*ast.Ident)
	if !ok {
		return false
	}
	_, ok = en.errs[id.Name]
	return ok
}

func (f *ft) errExpr(e ast.Expr, en *env) errAbs {
	id, ok := unparen(e).(*ast.Ident)
	if ok {
		if id.Name == "nil" {
			return errAbs{}
		}
		if a, ok := en.errs[id.Name]; ok {
			return a
		}
		if f.x.errSet[id.Name] {
			return errAbs{nonnil: true, lean: "ErrKind." + id.Name}
		}
	}
	f.x.fail(e.Pos(), "error expression %s (only nil, a package-level Err variable or a tracked error variable)", f.x.text(e))
	return errAbs{}
}

// ------------------------------------------------------------------------------------------------ statements

func (f *ft) calleeOf(e ast.Expr) (*fsig, *ast.CallExpr) {
	c, ok := unparen(e).(*ast.CallExpr)
	if !ok {
		return nil, nil
	}
	switch fn := c.Fun.(type) {
	case *ast.Ident:
		if b, ok := f.sig.bind[fn.Name]; ok { // a function parameter of a specialised copy
			if _, isVar := f.x.info.Uses[fn].(*types.Var); isVar {
				return b, c
			}
		}
		if s, ok := f.x.funcs[fn.Name]; ok {
			if _, isFunc := f.x.info.Uses[fn].(*types.Func); isFunc {
				if s.template {
					return f.specialise(s, c), c
				}
				return s, c
			}
		}
	case *ast.SelectorExpr: // method of a translated type: c.Int64()
		if selInfo, ok := f.x.info.Uses[fn.Sel].(*types.Func); ok && selInfo.Pkg() != nil && selInfo.Pkg().Name() == "currency" {
			if recv := selInfo.Type().(*types.Signature).Recv(); recv != nil {
				if n, ok := recv.Type().(*types.Named); ok {
					if s, ok := f.x.funcs[n.Obj().Name()+"."+fn.Sel.Name]; ok {
						return s, c
					}
				}
			}
		}
	}
	return nil, nil
}

// callTerm returns guards and the application term of a translated callee
// specialise returns the copy of the template t for the functions passed at call site c (created on first use)
func (f *ft) specialise(t *fsig, c *ast.CallExpr) *fsig {
	x := f.x
	if len(c.Args) != len(t.isFunc) {
		x.fail(c.Pos(), "argument count in %s", x.text(c))
	}
	name := t.goName
	bind := map[string]*fsig{}
	k := 0
	for i, a := range c.Args {
		if !t.isFunc[i] {
			continue
		}
		var target *fsig
		if id, ok := unparen(a).(*ast.Ident); ok {
			if b, ok := f.sig.bind[id.Name]; ok {
				target = b
			} else if s, ok := x.funcs[id.Name]; ok && !s.template {
				if _, isFunc := x.info.Uses[id].(*types.Func); isFunc {
					target = s
				}
			}
		}
		if target == nil {
			x.fail(a.Pos(), "function argument %s (only a named top-level function can be passed; the callee is specialised for it)", x.text(a))
		}
		bind[t.fparams[k]] = target
		name += "_" + target.leanName
		k++
	}
	if s, ok := x.funcs[name]; ok {
		return s
	}
	cp := *t
	cp.goName, cp.leanName = name, name
	cp.template = false
	cp.bind = bind
	cp.deps = map[string]bool{}
	cp.oracle = nil
	cp.body = ""
	x.funcs[name] = &cp
	x.order = append(x.order, name)
	return &cp
}

func (f *ft) callTerm(callee *fsig, c *ast.CallExpr, en *env) ([]string, string) {
	x := f.x
	if len(callee.oracle) > 0 {
		x.fail(c.Pos(), "call of %s, which depends on an external library result", callee.goName)
	}
	var args []ast.Expr
	if sel, ok := c.Fun.(*ast.SelectorExpr); ok {
		args = append(args, sel.X)
	}
	for i, a := range c.Args {
		if i < len(callee.isFunc) && callee.isFunc[i] && callee.bind != nil {
			continue // a function argument: the callee is the copy specialised for it
		}
		args = append(args, a)
	}
	if len(args) != len(callee.params) {
		x.fail(c.Pos(), "argument count in %s", x.text(c))
	}
	var gs []string
	t := callee.leanName
	for i, a := range args {
		r := f.expr(a, en, callee.params[i].k)
		if r.k != callee.params[i].k {
			x.fail(a.Pos(), "argument %s has type %s, want %s", x.text(a), r.k, callee.params[i].k)
		}
		gs = append(gs, r.guards...)
		t += " " + r.t
	}
	f.sig.deps[callee.goName] = true
	return gs, t
}

func closeParen(s string) string { return strings.TrimRight(s, "\n") + ")\n" }

func (f *ft) stmts(list []ast.Stmt, en *env, ind int) string {
	x := f.x
	if len(list) == 0 {
		x.fail(f.sig.decl.Body.Rbrace, "control reaches the end of %s without a return statement", f.sig.goName)
	}
	s, rest := list[0], list[1:]
	switch v := s.(type) {
	case *ast.ReturnStmt:
		return f.ret(v, en, ind)
	case *ast.IfStmt:
		if v.Init != nil { // `if init; cond {..}`: init first; what it declares must not hide an outer variable
			if _, isAssign := v.Init.(*ast.AssignStmt); !isAssign {
				x.fail(v.Pos(), "if statement with an init clause that is not an assignment")
			}
			f.noShadow([]ast.Stmt{v.Init}, en)
			if a := v.Init.(*ast.AssignStmt); a.Tok == token.DEFINE {
				for _, l := range a.Lhs { // the new names go out of scope after the if: they must not be used later
					if id, ok := l.(*ast.Ident); ok && id.Name != "_" {
						for _, st := range rest {
							ast.Inspect(st, func(n ast.Node) bool {
								if u, ok := n.(*ast.Ident); ok && u.Name == id.Name {
									x.fail(v.Pos(), "name %s declared in an if-init clause is used again after the if statement", id.Name)
								}
								return true
							})
						}
					}
				}
			}
			cp := *v
			cp.Init = nil
			return f.stmts(append([]ast.Stmt{v.Init, &cp}, rest...), en, ind)
		}
		var elseB []ast.Stmt
		switch e := v.Else.(type) {
		case nil:
		case *ast.BlockStmt:
			elseB = e.List
		case *ast.IfStmt:
			elseB = []ast.Stmt{e}
		default:
			x.fail(v.Else.Pos(), "else branch")
		}
		f.noShadow(v.Body.List, en)
		f.noShadow(elseB, en)
		kT := func(i int) string {
			return f.stmts(append(append([]ast.Stmt{}, v.Body.List...), rest...), en.clone(), i)
		}
		kF := func(i int) string { return f.stmts(append(append([]ast.Stmt{}, elseB...), rest...), en.clone(), i) }
		return f.cond(v.Cond, en, ind, kT, kF)
	case *ast.IncDecStmt: // x++ is x = x + 1
		op := token.ADD
		if v.Tok == token.DEC {
			op = token.SUB
		}
		as := &ast.AssignStmt{Lhs: []ast.Expr{v.X}, TokPos: v.TokPos, Tok: token.ASSIGN,
			Rhs: []ast.Expr{&ast.BinaryExpr{X: v.X, OpPos: v.TokPos, Op: op, Y: &ast.BasicLit{ValuePos: v.TokPos, Kind: token.INT, Value: "1"}}}}
		return f.stmts(append([]ast.Stmt{as}, rest...), en, ind)
	case *ast.DeclStmt: // var x T / var x T = e / var x = e
		gd, ok := v.Decl.(*ast.GenDecl)
		if !ok || gd.Tok != token.VAR {
			x.fail(v.Pos(), "local declaration %s", x.text(v))
		}
		out := ""
		for _, sp := range gd.Specs {
			vs := sp.(*ast.ValueSpec)
			if len(vs.Values) != 0 && len(vs.Values) != len(vs.Names) {
				x.fail(vs.Pos(), "declaration %s", x.text(vs))
			}
			for i, nm := range vs.Names {
				if len(vs.Values) == 0 {
					k, _ := x.typeExpr(vs.Type)
					if k == kErr {
						en.errs[nm.Name] = errAbs{}
						delete(en.vars, nm.Name)
						continue
					}
					if k != kU64 && k != kI64 && k != kF64 {
						x.fail(vs.Pos(), "local variable of type %s", k)
					}
					en.vars[nm.Name] = binding{lean: zeroLit(k), k: k, zero: true}
					delete(en.errs, nm.Name)
					continue
				}
				want := kNone
				if vs.Type != nil {
					want, _ = x.typeExpr(vs.Type)
				}
				r := f.expr(vs.Values[i], en, want)
				if r.k == kBool || r.k == kErr || r.k == kNone || (want != kNone && want != r.k) {
					x.fail(vs.Pos(), "declaration %s", x.text(vs))
				}
				out += guardLines(r.guards, ind) + pad(ind) + "let " + leanIdent(nm.Name) + " := " + r.t + "\n"
				en.vars[nm.Name] = binding{lean: leanIdent(nm.Name), k: r.k, zero: r.zero}
				delete(en.errs, nm.Name)
			}
		}
		return out + f.stmts(rest, en, ind)
	case *ast.SwitchStmt: // switch { case c: .. } and switch x { case v: .. } are if-chains (no fallthrough)
		if v.Init != nil {
			x.fail(v.Pos(), "switch statement with an init clause")
		}
		var clauses []*ast.CaseClause
		var def *ast.CaseClause
		for _, st := range v.Body.List {
			cc := st.(*ast.CaseClause)
			for _, b := range cc.Body {
				if br, ok := b.(*ast.BranchStmt); ok {
					x.fail(br.Pos(), "%s in a switch", br.Tok)
				}
			}
			f.noShadow(cc.Body, en)
			if cc.List == nil {
				def = cc
			} else {
				clauses = append(clauses, cc)
			}
		}
		var chain func(i int, ind int) string
		chain = func(i int, ind int) string {
			if i == len(clauses) {
				var body []ast.Stmt
				if def != nil {
					body = def.Body
				}
				return f.stmts(append(append([]ast.Stmt{}, body...), rest...), en.clone(), ind)
			}
			cc := clauses[i]
			var c ast.Expr
			for _, e := range cc.List {
				var one ast.Expr = e
				if v.Tag != nil {
					one = &ast.BinaryExpr{X: v.Tag, OpPos: e.Pos(), Op: token.EQL, Y: e}
				}
				if c == nil {
					c = one
				} else {
					c = &ast.BinaryExpr{X: c, OpPos: e.Pos(), Op: token.LOR, Y: one}
				}
			}
			kT := func(j int) string {
				return f.stmts(append(append([]ast.Stmt{}, cc.Body...), rest...), en.clone(), j)
			}
			return f.cond(c, en, ind, kT, func(j int) string { return chain(i+1, j) })
		}
		return chain(0, ind)
	case *ast.AssignStmt:
		if op, ok := map[token.Token]token.Token{token.ADD_ASSIGN: token.ADD, token.SUB_ASSIGN: token.SUB, token.MUL_ASSIGN: token.MUL,
			token.QUO_ASSIGN: token.QUO, token.REM_ASSIGN: token.REM}[v.Tok]; ok && len(v.Lhs) == 1 && len(v.Rhs) == 1 { // x op= e is x = x op e
			as := &ast.AssignStmt{Lhs: v.Lhs, TokPos: v.TokPos, Tok: token.ASSIGN,
				Rhs: []ast.Expr{&ast.BinaryExpr{X: v.Lhs[0], OpPos: v.TokPos, Op: op, Y: &ast.ParenExpr{X: v.Rhs[0]}}}}
			return f.stmts(append([]ast.Stmt{as}, rest...), en, ind)
		}
		if v.Tok != token.DEFINE && v.Tok != token.ASSIGN {
			x.fail(v.Pos(), "assignment operator %s", v.Tok)
		}
		names := make([]string, len(v.Lhs))
		for i, l := range v.Lhs {
			id, ok := l.(*ast.Ident)
			if !ok {
				x.fail(l.Pos(), "assignment target %s", x.text(l))
			}
			names[i] = id.Name
		}
		if len(v.Rhs) != 1 {
			x.fail(v.Pos(), "parallel assignment")
		}
		rhs := v.Rhs[0]
		// call of a translated function (with an error result, or with several results)
		if callee, c := f.calleeOf(rhs); callee != nil && (callee.hasErr || len(callee.results) > 1) {
			return f.callStmt(names, callee, c, en, ind, rest)
		}
		// hi, lo := bits.Mul64(a, b); sum, carry := bits.Add64(a, b, c); diff, borrow := bits.Sub64(a, b, c)
		if c, ok := unparen(rhs).(*ast.CallExpr); ok && len(names) == 2 {
			if sel, ok := c.Fun.(*ast.SelectorExpr); ok && x.isPkg(sel.X, bitsPath) {
				fn := map[string][2]string{"Mul64": {"mul64Hi", "mul64Lo"}, "Add64": {"add64Sum", "add64Carry"}, "Sub64": {"sub64Diff", "sub64Borrow"}}[sel.Sel.Name]
				nargs := map[string]int{"Mul64": 2, "Add64": 3, "Sub64": 3}[sel.Sel.Name]
				if fn[0] == "" || len(c.Args) != nargs {
					x.fail(c.Pos(), "bits function %s", x.text(c))
				}
				var gs []string
				args := ""
				for _, a := range c.Args {
					r := f.expr(a, en, kU64)
					if r.k != kU64 {
						x.fail(a.Pos(), "argument %s of %s", x.text(a), sel.Sel.Name)
					}
					gs = append(gs, r.guards...)
					args += " " + r.t
				}
				out := guardLines(gs, ind)
				for i := 0; i < 2; i++ {
					if names[i] != "_" {
						if _, isErr := en.errs[names[i]]; isErr {
							x.fail(v.Pos(), "assignment of a number to the error variable %s", names[i])
						}
						out += pad(ind) + "let " + leanIdent(names[i]) + " := (" + fn[i] + args + ")\n"
					}
				}
				for i := 0; i < 2; i++ {
					if names[i] != "_" {
						en.vars[names[i]] = binding{lean: leanIdent(names[i]), k: kU64}
					}
				}
				return out + f.stmts(rest, en, ind)
			}
		}
		// f, _ := <decimal>.Float64()
		if c, ok := unparen(rhs).(*ast.CallExpr); ok && len(names) == 2 {
			if sel, ok := c.Fun.(*ast.SelectorExpr); ok && sel.Sel.Name == "Float64" && len(c.Args) == 0 && !x.isPkg(sel.X, decimalPath) && !x.isPkg(sel.X, "math") {
				r := f.expr(sel.X, en, kNone)
				if r.k == kDec {
					if names[1] != "_" {
						x.fail(v.Pos(), "the exactness flag of Decimal.Float64 is not modelled")
					}
					out := guardLines(r.guards, ind)
					if names[0] != "_" {
						out += pad(ind) + "let " + leanIdent(names[0]) + " := (Dec.float64 " + r.t + ")\n"
						en.vars[names[0]] = binding{lean: leanIdent(names[0]), k: kF64}
					}
					return out + f.stmts(rest, en, ind)
				}
			}
		}
		if len(names) != 1 {
			x.fail(v.Pos(), "multi-value assignment %s", x.text(v))
		}
		name := names[0]
		// error variable
		if _, isErr := en.errs[name]; isErr || x.errSet[identName(rhs)] || (isNil(rhs) && isErr) {
			en.errs[name] = f.errExpr(rhs, en)
			return f.stmts(rest, en, ind)
		}
		want := kNone
		if b, ok := en.vars[name]; ok {
			want = b.k
		}
		r := f.expr(rhs, en, want)
		if b, ok := en.vars[name]; ok && v.Tok == token.ASSIGN && b.k != r.k {
			x.fail(v.Pos(), "assignment of %s to a variable of type %s", r.k, b.k)
		}
		if _, ok := en.vars[name]; !ok && v.Tok == token.ASSIGN {
			x.fail(v.Pos(), "assignment to %s, which is not a local variable", name)
		}
		if r.k == kBool || r.k == kErr || r.k == kNone {
			x.fail(v.Pos(), "variable of type %s", r.k)
		}
		out := guardLines(r.guards, ind)
		if name != "_" {
			out += pad(ind) + "let " + leanIdent(name) + " := " + r.t + "\n"
			en.vars[name] = binding{lean: leanIdent(name), k: r.k, zero: r.zero}
		}
		return out + f.stmts(rest, en, ind)
	}
	x.fail(s.Pos(), "statement %s", strings.SplitN(x.text(s), "\n", 2)[0])
	return ""
}

func identName(e ast.Expr) string {
	if id, ok := unparen(e).(*ast.Ident); ok {
		return id.Name
	}
	return ""
}

// noShadow refuses `:=` inside a nested block for a name that is visible outside (the translation flattens blocks)
func (f *ft) noShadow(list []ast.Stmt, en *env) {
	for _, s := range list {
		ast.Inspect(s, func(n ast.Node) bool {
			if d, ok := n.(*ast.DeclStmt); ok {
				if gd, ok := d.Decl.(*ast.GenDecl); ok {
					for _, sp := range gd.Specs {
						if vs, ok := sp.(*ast.ValueSpec); ok {
							for _, nm := range vs.Names {
								_, v := en.vars[nm.Name]
								_, e := en.errs[nm.Name]
								if v || e {
									f.x.fail(d.Pos(), "`var` in a nested block re-declares %s", nm.Name)
								}
							}
						}
					}
				}
			}
			if a, ok := n.(*ast.AssignStmt); ok && a.Tok == token.DEFINE {
				for _, l := range a.Lhs {
					if id, ok := l.(*ast.Ident); ok && id.Name != "_" {
						_, v := en.vars[id.Name]
						_, e := en.errs[id.Name]
						if v || e {
							f.x.fail(a.Pos(), "`:=` in a nested block re-declares %s", id.Name)
						}
					}
				}
			}
			return true
		})
	}
}

func (f *ft) callStmt(names []string, callee *fsig, c *ast.CallExpr, en *env, ind int, rest []ast.Stmt) string {
	x := f.x
	n := len(callee.results)
	want := n
	if callee.hasErr {
		want++
	}
	if len(names) != want {
		x.fail(c.Pos(), "%s returns %d values", callee.goName, want)
	}
	gs, term := f.callTerm(callee, c, en)
	out := guardLines(gs, ind)
	// Res.elim (call) (fun value => ..) (fun error => ..) .panic — the three ways the call can end
	out += pad(ind) + "Res.elim (" + term + ")\n"
	f.fresh++
	ev := fmt.Sprintf("e_%d", f.fresh)
	pv := fmt.Sprintf("p_%d", f.fresh)
	enO := en.clone()
	okBinder := pv
	lets := ""
	if n == 1 {
		okBinder = leanIdent(names[0])
	}
	for i := 0; i < n; i++ {
		if names[i] != "_" {
			if _, isErr := enO.errs[names[i]]; isErr {
				x.fail(c.Pos(), "assignment of a value to the error variable %s", names[i])
			}
			enO.vars[names[i]] = binding{lean: leanIdent(names[i]), k: callee.results[i].k}
			if n > 1 {
				proj := pv + strings.Repeat(".2", i)
				if i < n-1 {
					proj += ".1"
				}
				lets += pad(ind+4) + "let " + leanIdent(names[i]) + " := " + proj + "\n"
			}
		}
	}
	if callee.hasErr && names[n] != "_" {
		enO.errs[names[n]] = errAbs{}
		delete(enO.vars, names[n])
	}
	out += pad(ind+2) + "(fun " + okBinder + " =>\n" + lets + closeParen(f.stmts(rest, enO, ind+4))
	if callee.hasErr {
		// failed call: values are the zero value (the callee is translated under the same discipline), error non-nil
		enE := en.clone()
		for i := 0; i < n; i++ {
			if names[i] != "_" {
				enE.vars[names[i]] = binding{lean: zeroLit(callee.results[i].k), k: callee.results[i].k, zero: true}
				delete(enE.errs, names[i])
			}
		}
		if names[n] != "_" {
			enE.errs[names[n]] = errAbs{nonnil: true, lean: ev}
			delete(enE.vars, names[n])
		}
		out += pad(ind+2) + "(fun " + ev + " =>\n" + closeParen(f.stmts(rest, enE, ind+4))
	} else {
		out += pad(ind+2) + "(fun " + ev + " => .err " + ev + ")\n" // a function without error result never takes this arm
	}
	out += pad(ind+2) + ".panic\n"
	return out
}

func (f *ft) ret(s *ast.ReturnStmt, en *env, ind int) string {
	x := f.x
	sig := f.sig
	n := len(sig.results)
	total := n
	if sig.hasErr {
		total++
	}
	var vals []exprRes
	var abs errAbs
	switch {
	case len(s.Results) == 0:
		if !sig.named {
			x.fail(s.Pos(), "naked return in a function without named results")
		}
		for _, r := range sig.results {
			b := en.vars[r.name]
			vals = append(vals, exprRes{t: b.lean, k: b.k, zero: b.zero})
		}
		if sig.hasErr {
			abs = en.errs[sig.errName]
		}
	case len(s.Results) == 1 && func() bool { c, _ := f.calleeOf(s.Results[0]); return c != nil }():
		callee, c := f.calleeOf(s.Results[0])
		if callee.hasErr != sig.hasErr || len(callee.results) != n {
			x.fail(s.Pos(), "return of a call with a different result list")
		}
		for i := range callee.results {
			if callee.results[i].k != sig.results[i].k {
				x.fail(s.Pos(), "return of a call with a different result list")
			}
		}
		gs, term := f.callTerm(callee, c, en)
		return guardLines(gs, ind) + pad(ind) + term + "\n"
	default:
		if len(s.Results) != total {
			x.fail(s.Pos(), "return with %d values, want %d", len(s.Results), total)
		}
		for i := 0; i < n; i++ {
			r := f.expr(s.Results[i], en, sig.results[i].k)
			if r.k != sig.results[i].k {
				x.fail(s.Results[i].Pos(), "returned %s where %s is declared", r.k, sig.results[i].k)
			}
			vals = append(vals, r)
		}
		if sig.hasErr {
			abs = f.errExpr(s.Results[n], en)
		}
	}
	var gs []string
	var ts []string
	for _, v := range vals {
		gs = append(gs, v.guards...)
		ts = append(ts, v.t)
	}
	if sig.hasErr && abs.nonnil {
		for i, v := range vals {
			if !v.zero {
				x.fail(s.Pos(), "%s may return a non-zero %s together with a non-nil error; Res cannot represent that", sig.goName, sig.results[i].k)
			}
		}
		return guardLines(gs, ind) + pad(ind) + ".err " + abs.lean + "\n"
	}
	t := ts[0]
	if len(ts) > 1 {
		t = "(" + strings.Join(ts, ", ") + ")"
	}
	return guardLines(gs, ind) + pad(ind) + ".ok " + t + "\n"
}

// ------------------------------------------------------------------------------------------------ declarations

func (x *xl) signature(d *ast.FuncDecl) *fsig {
	s := &fsig{decl: d, deps: map[string]bool{}}
	s.goName, s.leanName = d.Name.Name, d.Name.Name
	if d.Type.TypeParams != nil {
		x.fail(d.Pos(), "generic function")
	}
	addParams := func(fl *ast.FieldList, dst *[]param) {
		if fl == nil {
			return
		}
		for _, fld := range fl.List {
			if len(fld.Names) == 0 {
				x.fail(fld.Pos(), "unnamed parameter")
			}
			if _, isFn := fld.Type.(*ast.FuncType); isFn && fl == d.Type.Params {
				for _, nm := range fld.Names {
					s.template = true
					s.isFunc = append(s.isFunc, true)
					s.fparams = append(s.fparams, nm.Name)
				}
				continue
			}
			k, lt := x.typeExpr(fld.Type)
			if k == kErr || k == kBool {
				x.fail(fld.Pos(), "parameter of type %s", k)
			}
			for _, nm := range fld.Names {
				if fl == d.Type.Params {
					s.isFunc = append(s.isFunc, false)
				}
				*dst = append(*dst, param{name: nm.Name, k: k, leanType: lt})
			}
		}
	}
	if d.Recv != nil {
		if len(d.Recv.List) != 1 || len(d.Recv.List[0].Names) != 1 {
			x.fail(d.Pos(), "receiver")
		}
		tid, ok := d.Recv.List[0].Type.(*ast.Ident)
		if !ok {
			x.fail(d.Pos(), "pointer receiver")
		}
		s.goName = tid.Name + "." + d.Name.Name
		s.leanName = tid.Name + "_" + d.Name.Name
		addParams(d.Recv, &s.params)
	}
	addParams(d.Type.Params, &s.params)
	if d.Type.Results == nil || len(d.Type.Results.List) == 0 {
		x.fail(d.Pos(), "function without results")
	}
	for _, fld := range d.Type.Results.List {
		k, lt := x.typeExpr(fld.Type)
		cnt := len(fld.Names)
		if cnt == 0 {
			cnt = 1
		} else {
			s.named = true
		}
		for i := 0; i < cnt; i++ {
			nm := ""
			if len(fld.Names) > 0 {
				nm = fld.Names[i].Name
			}
			if k == kErr {
				if s.hasErr {
					x.fail(fld.Pos(), "two error results")
				}
				s.hasErr, s.errName = true, nm
			} else {
				if s.hasErr {
					x.fail(fld.Pos(), "error result is not last")
				}
				if k == kBool || k == kDec {
					x.fail(fld.Pos(), "result of type %s", k)
				}
				s.results = append(s.results, param{name: nm, k: k, leanType: lt})
			}
		}
	}
	if len(s.results) == 0 {
		x.fail(d.Pos(), "function with only an error result")
	}
	return s
}

func (x *xl) translate(s *fsig) {
	f := &ft{x: x, sig: s}
	en := newEnv()
	for _, p := range s.params {
		en.vars[p.name] = binding{lean: leanIdent(p.name), k: p.k}
	}
	if s.named {
		for _, r := range s.results {
			en.vars[r.name] = binding{lean: zeroLit(r.k), k: r.k, zero: true}
		}
		if s.hasErr {
			en.errs[s.errName] = errAbs{}
		}
	}
	if s.decl.Body == nil {
		x.fail(s.decl.Pos(), "function without body")
	}
	ast.Inspect(s.decl.Body, func(n ast.Node) bool {
		switch n.(type) {
		case *ast.ForStmt, *ast.RangeStmt, *ast.GoStmt, *ast.DeferStmt, *ast.TypeSwitchStmt, *ast.SelectStmt, *ast.FuncLit, *ast.LabeledStmt:
			x.fail(n.Pos(), "%T", n)
		}
		return true
	})
	s.body = f.stmts(s.decl.Body.List, en, 2)
}

func (x *xl) emitFunc(s *fsig) string {
	var b strings.Builder
	pos := x.fset.Position(s.decl.Pos())
	hp, he := x.fset.Position(s.decl.Pos()), x.fset.Position(s.decl.Body.Lbrace)
	hdr := x.srcs[hp.Filename][hp.Offset:he.Offset]
	_ = pos // no file:line in the output: the generated text must not depend on the file layout
	fmt.Fprintf(&b, "/-- `%s` -/\n", strings.TrimSpace(hdr))
	fmt.Fprintf(&b, "def %s", s.leanName)
	for _, p := range s.params {
		fmt.Fprintf(&b, " (%s : %s)", leanIdent(p.name), p.leanType)
	}
	for _, p := range s.oracle {
		fmt.Fprintf(&b, " (%s : %s)", p.name, p.leanType)
	}
	var rts []string
	for _, r := range s.results {
		rts = append(rts, r.leanType)
	}
	rt := rts[0]
	if len(rts) > 1 {
		rt = "(" + strings.Join(rts, " × ") + ")"
	}
	fmt.Fprintf(&b, " : Res ErrKind %s :=\n%s", rt, s.body)
	return b.String()
}

var codecMethods = []string{"MarshalMsg", "UnmarshalMsg", "Msgsize", "EncodeMsg", "DecodeMsg"}

func fileFuncs(files []*ast.File) map[string]*ast.FuncDecl {
	decls := map[string]*ast.FuncDecl{} // functions and methods by bare name
	for _, f := range files {
		for _, d := range f.Decls {
			if fd, ok := d.(*ast.FuncDecl); ok && fd.Body != nil {
				decls[fd.Name.Name] = fd
			}
		}
	}
	return decls
}

// reachFrom collects the functions of the package reachable from name (seen) and the msgp members they mention (out)
func reachFrom(decls map[string]*ast.FuncDecl, name string, seen map[string]bool, out map[string]bool) {
	fd, ok := decls[name]
	if !ok || seen[name] {
		return
	}
	seen[name] = true
	ast.Inspect(fd.Body, func(n ast.Node) bool {
		switch v := n.(type) {
		case *ast.SelectorExpr:
			if id, ok := v.X.(*ast.Ident); ok && id.Name == "msgp" {
				out[v.Sel.Name] = true
			} else {
				reachFrom(decls, v.Sel.Name, seen, out) // a method of the package (z.Msgsize())
			}
		case *ast.CallExpr:
			if id, ok := v.Fun.(*ast.Ident); ok {
				reachFrom(decls, id.Name, seen, out)
			}
		}
		return true
	})
}

// codecFunctions: the msgp codec methods that exist and the unexported helpers reachable from them (by content, not
// by file name); these are not translated
func codecFunctions(files []*ast.File) map[string]bool {
	decls := fileFuncs(files)
	res := map[string]bool{}
	for _, m := range codecMethods {
		if fd, ok := decls[m]; ok && fd.Recv != nil {
			seen := map[string]bool{}
			reachFrom(decls, m, seen, map[string]bool{})
			for n := range seen {
				if n == m || !ast.IsExported(n) || fileFuncsIsCodec(n) {
					res[n] = true
				}
			}
		}
	}
	return res
}

func fileFuncsIsCodec(n string) bool {
	for _, m := range codecMethods {
		if n == m {
			return true
		}
	}
	return false
}

// codecShape: for each codec method (MarshalMsg, UnmarshalMsg, Msgsize) the SET of msgp members reachable from it
// through functions and methods of the package (sorted) — independent of how the code is laid out
func codecShape(files []*ast.File) string {
	decls := fileFuncs(files)
	var sb strings.Builder
	sb.WriteString("/-- the msgp members reachable from each codec method of Coin (through helpers of the package), sorted -/\ndef codecPrimitives : List (String × List String) := [")
	for i, m := range []string{"MarshalMsg", "UnmarshalMsg", "Msgsize"} {
		out := map[string]bool{}
		reachFrom(decls, m, map[string]bool{}, out)
		var names []string
		for n := range out {
			names = append(names, fmt.Sprintf("%q", n))
		}
		sort.Strings(names)
		if i > 0 {
			sb.WriteString(", ")
		}
		fmt.Fprintf(&sb, "(%q, [%s])", m, strings.Join(names, ", "))
	}
	sb.WriteString("]\n\n")
	return sb.String()
}

type fakeImporter struct{ def types.Importer }

func (f fakeImporter) Import(p string) (*types.Package, error) {
	if p == msgpPath || p == msgpPath0 { // the codec methods are not translated; only their msgp members are listed
		pk := types.NewPackage(p, "msgp")
		pk.MarkComplete()
		return pk, nil
	}
	if p == decimalPath { // only its names are used (syntactically); no need to type-check the library
		pk := types.NewPackage(p, "decimal")
		pk.MarkComplete()
		return pk, nil
	}
	return f.def.Import(p)
}

func main() {
	repo := flag.String("repo", "", "root of the 0chain/common tree (default $VERIF_REPO or /repo)")
	out := flag.String("out", "", "Lean file to write")
	flag.Parse()
	if *repo == "" {
		*repo = os.Getenv("VERIF_REPO")
	}
	if *repo == "" {
		*repo = "/repo"
	}
	if *out == "" {
		fmt.Fprintln(os.Stderr, "xlate: -out required")
		os.Exit(2)
	}
	// every non-test Go file of the package, whatever its name: the result does not depend on the file layout
	all, _ := filepath.Glob(filepath.Join(*repo, "core", "currency", "*.go"))
	var paths []string
	for _, p := range all {
		if !strings.HasSuffix(p, "_test.go") {
			paths = append(paths, p)
		}
	}
	text, nf, ne, err := translateSource(paths...)
	if err != nil {
		fmt.Fprintln(os.Stderr, "xlate:", err)
		os.Exit(1)
	}
	if err := os.MkdirAll(filepath.Dir(*out), 0o755); err != nil {
		fmt.Fprintln(os.Stderr, "xlate:", err)
		os.Exit(1)
	}
	if err := os.WriteFile(*out, []byte(text), 0o644); err != nil {
		fmt.Fprintln(os.Stderr, "xlate:", err)
		os.Exit(1)
	}
	fmt.Printf("xlate: %d functions, %d error values -> %s\n", nf, ne, *out)
}

// sharedImporter caches the type-checked standard-library packages across translations (tests)
var sharedFset = token.NewFileSet()
var sharedImporter = importer.ForCompiler(sharedFset, "source", nil)

// translateSource translates the package made of the given Go files. The msgp codec methods of Coin (MarshalMsg,
// UnmarshalMsg, Msgsize, …) and the helpers only they use are recognised by CONTENT and are not translated; for them
// the reachable msgp primitives are listed (`codecPrimitives`).
// lastFailed: the functions of the last translation that are outside the subset (name -> reason)
var lastFailed map[string]string

func translateSource(paths ...string) (text string, nfuncs, nerrs int, err error) {
	defer func() {
		if r := recover(); r != nil {
			if xe, ok := r.(xlateError); ok {
				err = fmt.Errorf("%s", xe.msg)
				return
			}
			panic(r)
		}
	}()
	sort.Strings(paths)
	x := &xl{fset: sharedFset, srcs: map[string]string{}, funcs: map[string]*fsig{}, errMsgs: map[string]string{}, errSet: map[string]bool{},
		globals: map[string]kind{}, globalV: map[string]string{}, typeKind: map[string]kind{}, skipped: map[string]string{}, failed: map[string]string{}}
	var files []*ast.File
	for _, path := range paths {
		srcB, rerr := os.ReadFile(path)
		if rerr != nil {
			return "", 0, 0, rerr
		}
		x.srcs[path] = string(srcB)
		file, perr := parser.ParseFile(x.fset, path, srcB, parser.ParseComments)
		if perr != nil {
			return "", 0, 0, perr
		}
		files = append(files, file)
	}
	x.info = &types.Info{Types: map[ast.Expr]types.TypeAndValue{}, Defs: map[*ast.Ident]types.Object{}, Uses: map[*ast.Ident]types.Object{}}
	var typeErrs []string
	conf := types.Config{Importer: fakeImporter{sharedImporter}, Error: func(err error) {
		// the decimal and msgp libraries are not type-checked, so their members are "undefined" (and what is computed
		// from them has no type); every other type error is fatal
		if !strings.Contains(err.Error(), "undefined: decimal.") && !strings.Contains(err.Error(), "undefined: msgp.") {
			typeErrs = append(typeErrs, err.Error())
		}
	}}
	conf.Check("currency", x.fset, files, x.info)
	if len(typeErrs) > 0 {
		return "", 0, 0, fmt.Errorf("package does not type-check:\n  %s", strings.Join(typeErrs, "\n  "))
	}
	codec := codecFunctions(files)
	var decls []ast.Decl
	for _, f := range files {
		decls = append(decls, f.Decls...)
	}

	var initDecl *ast.FuncDecl
	var globalDecl = map[string]kind{}
	for _, d := range decls {
		switch v := d.(type) {
		case *ast.GenDecl:
			switch v.Tok {
			case token.IMPORT, token.CONST:
			case token.TYPE:
				for _, sp := range v.Specs {
					ts := sp.(*ast.TypeSpec)
					id, ok := ts.Type.(*ast.Ident)
					if !ok || id.Name != "uint64" || ts.TypeParams != nil || ts.Assign != token.NoPos {
						x.fail(ts.Pos(), "type declaration %s", x.text(ts))
					}
					x.typeKind[ts.Name.Name] = kU64
					x.typeDefs = append(x.typeDefs, fmt.Sprintf("/-- `type %s` -/\nabbrev %s := U64", x.text(ts), ts.Name.Name))
				}
			case token.VAR:
				for _, sp := range v.Specs {
					vs := sp.(*ast.ValueSpec)
					if len(vs.Values) == 0 && len(vs.Names) == 1 && vs.Type != nil {
						k, _ := x.typeExpr(vs.Type)
						if k != kDec {
							x.fail(vs.Pos(), "package variable of type %s", k)
						}
						globalDecl[vs.Names[0].Name] = k
						continue
					}
					if len(vs.Names) == 1 && len(vs.Values) == 1 {
						if c, ok := vs.Values[0].(*ast.CallExpr); ok && len(c.Args) == 1 {
							if sel, ok := c.Fun.(*ast.SelectorExpr); ok && x.isPkg(sel.X, "errors") && sel.Sel.Name == "New" {
								if tv, ok := x.info.Types[c.Args[0]]; ok && tv.Value != nil && tv.Value.Kind() == constant.String {
									n := vs.Names[0].Name
									x.errNames = append(x.errNames, n)
									x.errSet[n] = true
									x.errMsgs[n] = constant.StringVal(tv.Value)
									continue
								}
							}
						}
					}
					x.fail(vs.Pos(), "package variable %s", x.text(vs))
				}
			}
		case *ast.FuncDecl:
			if v.Name.Name == "init" && v.Recv == nil {
				if initDecl != nil {
					x.fail(v.Pos(), "second init() function")
				}
				initDecl = v
				continue
			}
			if codec[v.Name.Name] { // msgp codec method or a helper only it uses: see codecPrimitives
				continue
			}
			func() {
				defer func() {
					if r := recover(); r != nil {
						xe, ok := r.(xlateError)
						if !ok {
							panic(r)
						}
						x.failed[v.Name.Name] = xe.msg // no hook can be emitted: the signature itself is outside the subset
					}
				}()
				s := x.signature(v)
				x.funcs[s.goName] = s
				x.order = append(x.order, s.goName)
			}()
		}
	}
	// init(): one assignment per package variable
	if initDecl != nil {
		f := &ft{x: x, sig: &fsig{goName: "init", decl: initDecl, deps: map[string]bool{}}}
		for _, st := range initDecl.Body.List {
			a, ok := st.(*ast.AssignStmt)
			if !ok || a.Tok != token.ASSIGN || len(a.Lhs) != 1 || len(a.Rhs) != 1 {
				x.fail(st.Pos(), "statement in init()")
			}
			id, ok := a.Lhs[0].(*ast.Ident)
			k, declared := globalDecl[identName(a.Lhs[0])]
			if !ok || !declared {
				x.fail(st.Pos(), "statement in init()")
			}
			if _, dup := x.globals[id.Name]; dup {
				x.fail(st.Pos(), "second assignment to %s", id.Name)
			}
			r := f.expr(a.Rhs[0], newEnv(), k)
			if r.k != k || len(r.guards) > 0 {
				x.fail(st.Pos(), "initial value of %s", id.Name)
			}
			x.globals[id.Name] = k
			x.globalV[id.Name] = r.t
			x.gorder = append(x.gorder, id.Name)
		}
	}
	for n := range globalDecl {
		if _, ok := x.globals[n]; !ok {
			x.fail(files[0].Pos(), "package variable %s is never initialised in init()", n)
		}
	}
	// every function is translated on its own: one that is outside the subset is recorded in `untranslated` (and
	// reported on stderr as WARNING) instead of aborting the file, so the other definitions, the model driver and
	// the fallback comparison against the hand-written specification remain available
	sort.Strings(x.order) // by name: the result does not depend on the order or the files of the declarations
	sort.Strings(x.errNames)
	sort.Strings(x.typeDefs)
	sort.Strings(x.gorder)
	for i := 0; i < len(x.order); i++ { // specialised copies are appended to x.order while translating
		n := x.order[i]
		if x.funcs[n].template {
			continue
		}
		func() {
			defer func() {
				if r := recover(); r != nil {
					xe, ok := r.(xlateError)
					if !ok {
						panic(r)
					}
					x.failed[n] = xe.msg
				}
			}()
			x.translate(x.funcs[n])
		}()
	}
	{ // templates are never emitted themselves
		var keep []string
		for _, n := range x.order {
			if !x.funcs[n].template {
				keep = append(keep, n)
			}
		}
		x.order = keep
	}
	for changed := true; changed; { // a caller of an untranslated function is untranslated as well
		changed = false
		for _, n := range x.order {
			if _, bad := x.failed[n]; bad {
				continue
			}
			for d := range x.funcs[n].deps {
				if _, bad := x.failed[d]; bad {
					x.failed[n] = fmt.Sprintf("%s: calls %s, which is not translated", x.fset.Position(x.funcs[n].decl.Pos()), d)
					changed = true
					break
				}
			}
		}
	}
	// package variables may only be assigned in init()
	for _, n := range x.order {
		if _, bad := x.failed[n]; bad {
			continue
		}
		ast.Inspect(x.funcs[n].decl.Body, func(nd ast.Node) bool {
			if a, ok := nd.(*ast.AssignStmt); ok {
				for _, l := range a.Lhs {
					if _, g := x.globals[identName(l)]; g {
						if _, isVar := x.info.Uses[l.(*ast.Ident)].(*types.Var); isVar && x.info.Uses[l.(*ast.Ident)].Parent() == x.info.Uses[l.(*ast.Ident)].Pkg().Scope() {
							x.fail(a.Pos(), "assignment to package variable %s outside init()", identName(l))
						}
					}
				}
			}
			return true
		})
	}

	// emit, callees first
	var b strings.Builder
	b.WriteString("/- GENERATED by go/xlate from the non-test Go files of core/currency — DO NOT EDIT.\n   Regenerated by bin/check before every Lean build; see go/xlate/main.go for the translated subset.\n   Declarations are emitted by name (callees first), without file names or line numbers: the text does not depend on\n   how the package is split into files. -/\n")
	b.WriteString("import Verif.Model.GoSem\nimport Verif.Model.F64\nimport Verif.Model.Dec\nset_option linter.unusedVariables false\nnamespace Verif.Gen.Currency\nopen Verif.GoSem Verif.F64 Verif.Dec\n\n")
	if len(x.errNames) == 0 { // no error values: an empty type (cannot derive the instances for it)
		b.WriteString("/-- the package-level error values `var ErrX = errors.New(..)`: none -/\ninductive ErrKind : Type\n\ninstance : DecidableEq ErrKind := fun a => nomatch a\ninstance : Repr ErrKind := ⟨fun a _ => nomatch a⟩\n\ndef ErrKind.msg : ErrKind → String := fun a => nomatch a\n\n")
	} else {
		b.WriteString("/-- the package-level error values `var ErrX = errors.New(..)` -/\ninductive ErrKind where\n")
		for _, n := range x.errNames {
			fmt.Fprintf(&b, "  | %s\n", n)
		}
		b.WriteString("  deriving DecidableEq, Repr\n\n/-- the message of each error value -/\ndef ErrKind.msg : ErrKind → String\n")
		for _, n := range x.errNames {
			fmt.Fprintf(&b, "  | .%s => %q\n", n, x.errMsgs[n])
		}
		b.WriteString("\n")
	}
	for _, t := range x.typeDefs {
		b.WriteString(t + "\n\n")
	}
	for _, g := range x.gorder {
		fmt.Fprintf(&b, "/-- package variable set in init() -/\ndef %s : %s := %s\n\n", leanIdent(g), x.globals[g].leanType(), x.globalV[g])
	}
	done := map[string]int{}
	var emitted []string
	var visit func(n string)
	visit = func(n string) {
		switch done[n] {
		case 2:
			return
		case 1:
			x.fail(x.funcs[n].decl.Pos(), "recursive function %s", n)
		}
		done[n] = 1
		var deps []string
		for d := range x.funcs[n].deps {
			deps = append(deps, d)
		}
		sort.Strings(deps)
		for _, d := range deps {
			visit(d)
		}
		done[n] = 2
		b.WriteString(x.emitFunc(x.funcs[n]) + "\n")
		emitted = append(emitted, x.funcs[n].leanName)
	}
	for _, n := range x.order {
		if _, bad := x.failed[n]; !bad {
			visit(n)
		}
	}
	// hooks for the model driver: `some (f args)` for a translated function, `none` for an untranslated one, so the
	// driver builds either way and falls back to the hand-written specification
	var exported []string
	for _, n := range x.order {
		s := x.funcs[n]
		if ast.IsExported(s.decl.Name.Name) {
			exported = append(exported, s.leanName)
		}
		fmt.Fprintf(&b, "def run_%s", s.leanName)
		args := ""
		for _, p := range s.params {
			fmt.Fprintf(&b, " (%s : %s)", leanIdent(p.name), p.leanType)
			args += " " + leanIdent(p.name)
		}
		var rts []string
		for _, r := range s.results {
			rts = append(rts, r.leanType)
		}
		rt := rts[0]
		if len(rts) > 1 {
			rt = "(" + strings.Join(rts, " × ") + ")"
		}
		if _, bad := x.failed[n]; bad {
			// keep the arity the driver expects: one extra argument per decimal.NewFromFloat call in the body
			k := 0
			ast.Inspect(s.decl.Body, func(nd ast.Node) bool {
				if c, ok := nd.(*ast.CallExpr); ok {
					if sel, ok := c.Fun.(*ast.SelectorExpr); ok && sel.Sel.Name == "NewFromFloat" && x.isPkg(sel.X, decimalPath) {
						k++
						fmt.Fprintf(&b, " (nff%d : Dec)", k)
					}
				}
				return true
			})
			fmt.Fprintf(&b, " : Option (Res ErrKind %s) := none\n", rt)
		} else if len(s.oracle) > 0 {
			for _, p := range s.oracle {
				fmt.Fprintf(&b, " (%s : %s)", p.name, p.leanType)
				args += " " + p.name
			}
			fmt.Fprintf(&b, " : Option (Res ErrKind %s) := some (%s%s)\n", rt, s.leanName, args)
		} else {
			fmt.Fprintf(&b, " : Option (Res ErrKind %s) := some (%s%s)\n", rt, s.leanName, args)
		}
	}
	// the bridge tactics unfold unexported helpers and package variables without knowing their names
	{
		var hs []string
		for _, g := range x.gorder {
			hs = append(hs, leanIdent(g))
		}
		for _, n := range x.order {
			if _, bad := x.failed[n]; !bad && !ast.IsExported(x.funcs[n].decl.Name.Name) {
				hs = append(hs, x.funcs[n].leanName)
			}
		}
		fmt.Fprintf(&b, "\n/-- unfolds the unexported helper functions and package variables of currency.go -/\nmacro \"go_unfold_helpers\" : tactic => `(tactic| try simp only [%s])\n", strings.Join(append(hs, "Res.andThen"), ", "))
	}
	b.WriteString("\n/-- functions that could NOT be translated (name, reason); pinned to `[]` by `Props/C18.all_translated` -/\ndef untranslated : List (String × String) := [")
	{
		first := true
		var bad []string
		for n := range x.failed {
			bad = append(bad, n)
		}
		sort.Strings(bad)
		for _, n := range bad {
			if !first {
				b.WriteString(", ")
			}
			first = false
			nm := n
			if s, ok := x.funcs[n]; ok {
				nm = s.leanName
			}
			fmt.Fprintf(&b, "(%q, %q)", nm, x.failed[n])
			fmt.Fprintf(os.Stderr, "WARNING: xlate: %s not translated: %s\n", n, x.failed[n])
		}
	}
	b.WriteString("]\n\n/-- the exported functions of currency.go (pinned by `Props/C18.exported_functions`: a new exported function\n    needs a specification and a bridge theorem) -/\ndef exportedFunctions : List String := [")
	sort.Strings(exported)
	for i, n := range exported {
		if i > 0 {
			b.WriteString(", ")
		}
		fmt.Fprintf(&b, "%q", n)
	}
	b.WriteString("]\n\n")
	var sk []string
	for n := range x.skipped {
		sk = append(sk, n)
	}
	sort.Strings(sk)
	for _, n := range sk {
		fmt.Fprintf(&b, "-- SKIPPED %s: %s\n", n, x.skipped[n])
	}
	// currency_gen.go (msgp codec, generated code): not translated — hand-modelled in Verif/Model/Msgp.lean; here only
	// its shape is extracted (which msgp functions each method uses, in source order) and pinned by a theorem
	if len(codec) > 0 {
		b.WriteString(codecShape(files))
	}
	sort.Strings(emitted)
	b.WriteString("/-- every function of currency.go that was translated (exported ones and local helpers) -/\ndef generatedFunctions : List String := [")
	for i, n := range emitted {
		if i > 0 {
			b.WriteString(", ")
		}
		fmt.Fprintf(&b, "%q", n)
	}
	b.WriteString("]\n\nend Verif.Gen.Currency\n")
	lastFailed = x.failed
	return b.String(), len(emitted), len(x.errNames), nil
}
