// want: in expression position
package currency

import "errors"

var ErrX = errors.New("x")

type Coin uint64

func One(c Coin) (Coin, error) {
	return c, nil
}

func Two(c Coin) (Coin, error) {
	if c > 3 {
		return c + helper(c), nil
	}
	return c, nil
}

func helper(c Coin) Coin {
	return c
}
