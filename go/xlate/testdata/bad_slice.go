// want: type \[\]Coin
package currency

import "errors"

var ErrX = errors.New("x")

type Coin uint64

func First(cs []Coin) Coin {
	return cs[0]
}
