package currency

import (
	"errors"

	"github.com/tinylib/msgp/msgp"
)

var ErrBig = errors.New("too big")
var ErrNeg = errors.New("negative")

type Coin uint64

func Half(c Coin) (Coin, error) {
	if c > 1000 {
		return 0, ErrBig
	}
	return c / 2, nil
}

func HalfOf(a int64) (Coin, error) {
	if a < 0 {
		return 0, ErrNeg
	}
	return Half(Coin(a))
}

func (z Coin) MarshalMsg(b []byte) (o []byte, err error) {
	o = msgp.Require(b, z.Msgsize())
	o = msgp.AppendUint64(o, uint64(z))
	return
}

func (z Coin) Msgsize() (s int) {
	s = msgp.Uint64Size
	return
}
