// want: error expression
package currency

import "errors"

var ErrX = errors.New("x")

type Coin uint64

func E(a Coin) (Coin, error) {
	return 0, errors.New("dynamic")
}
