// want: boolean expression used as a value
package currency

import "errors"

var ErrX = errors.New("x")

type Coin uint64

func B(c Coin) Coin {
	ok := c > 1
	if ok {
		return 1
	}
	return 0
}
