// want: operator >> in c >> 1
package currency

import "errors"

var ErrX = errors.New("x")

type Coin uint64

func Half(c Coin) Coin {
	return c >> 1
}
