// want: assignment operator
package currency

import "errors"

var ErrX = errors.New("x")

type Coin uint64

func O(a Coin) Coin {
	a += 1
	return a
}
