// want: together with a non-nil error
package currency

import "errors"

var ErrX = errors.New("x")

type Coin uint64

func Both(c Coin) (Coin, error) {
	if c > 1 {
		return c, ErrX
	}
	return c, nil
}
