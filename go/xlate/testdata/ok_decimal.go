package currency

import (
	"errors"
	"math"

	"github.com/shopspring/decimal"
)

var ErrNeg = errors.New("negative")
var ErrBig = errors.New("too big")

var limit decimal.Decimal

func init() {
	limit = decimal.NewFromInt(math.MaxInt64)
}

type Coin uint64

// the library result is an extra argument; the library's panic on NaN/Inf is explicit
func Parse(c float64) (Coin, error) {
	d := decimal.NewFromFloat(c)
	if d.Sign() == -1 {
		return 0, ErrNeg
	}
	if d.Exponent() < -3 {
		return 0, ErrBig
	}
	e := d.Shift(3)
	if e.GreaterThan(limit) {
		return 0, ErrBig
	}
	return Coin(e.IntPart()), nil
}

func (c Coin) Format() (float64, error) {
	f, _ := decimal.New(int64(c), -3).Float64()
	return f, nil
}
