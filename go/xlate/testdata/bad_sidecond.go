// want: internal: short-circuit operand|boolean expression used as a value|condition
package currency

import "errors"

var ErrX = errors.New("x")

type Coin uint64

func C(a, b Coin) Coin {
	t := a
	if (a > 1) == (b > 1) {
		return t
	}
	return b
}
