// want: re-declares
package currency

import "errors"

var ErrX = errors.New("x")

type Coin uint64

func Sh(c Coin) Coin {
	t := c
	if c > 1 {
		t := c + 1
		return t
	}
	return t
}
