// want: ForStmt
package currency

import "errors"

var ErrX = errors.New("x")

type Coin uint64

func Sum(n Coin) Coin {
	var t Coin
	for i := Coin(0); i < n; i++ {
		t += i
	}
	return t
}
