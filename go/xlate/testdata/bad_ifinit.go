// want: init clause
package currency

import "errors"

var ErrX = errors.New("x")

type Coin uint64

func I(c Coin) Coin {
	if d := c + 1; d > 2 {
		return d
	}
	return c
}
