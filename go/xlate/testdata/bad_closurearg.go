// want: only a named top-level function can be passed
package currency

import "errors"

var ErrX = errors.New("x")

type Coin uint64

func (c Coin) Next() Coin {
	return c + 1
}

func twice(c Coin, op func(Coin) Coin) Coin {
	return op(op(c))
}

func Use(c Coin) Coin {
	return twice(c, Coin.Next)
}
