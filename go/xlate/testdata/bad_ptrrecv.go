// want: pointer receiver
package currency

import "errors"

var ErrX = errors.New("x")

type Coin uint64

func (c *Coin) Set(v Coin) Coin {
	return v
}
