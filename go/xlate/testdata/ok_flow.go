package currency

import "errors"

var ErrNeg = errors.New("negative")
var ErrBig = errors.New("too big")

type Coin uint64

func ToCoin(a int64) (Coin, error) {
	if a < 0 {
		return 0, ErrNeg
	}
	return Coin(a), nil
}

func (c Coin) Half() (Coin, error) {
	if c > 1000 {
		return 0, ErrBig
	}
	return c / 2, nil
}

// v, err := f(..) followed by the usual error test; a tail call
func Chain(c Coin, a int64) (Coin, error) {
	b, err := ToCoin(a)
	if err != nil {
		return 0, err
	}
	return (c + b).Half()
}

// method call as a statement, blank targets, err == nil form
func Methods(c Coin, a int64) (Coin, error) {
	_, err := ToCoin(a)
	if err == nil {
		h, err2 := c.Half()
		if err2 != nil {
			return 0, err2
		}
		return h, nil
	}
	return 0, err
}

// named results, assignment to the error result, naked returns, else-if chain
func Named(c Coin, a int64) (x, y Coin, err error) {
	d, err := ToCoin(a)
	if err != nil {
		return
	}
	if d == 0 {
		err = ErrBig
		return
	} else if d == 1 {
		x = c
	} else {
		x = c / d
		y = c % d
	}
	return
}

// reassignment of a local and of a parameter
func Reassign(c Coin) Coin {
	t := c + 1
	t = t * 2
	c = t - c
	return c
}
