package currency

type Coin uint64

// unsigned comparisons
func Unsigned(a, b Coin) Coin {
	if a < b {
		return 1
	}
	if a <= b {
		return 2
	}
	if a > b {
		return 3
	}
	if a >= b {
		return 4
	}
	if a == b {
		return 5
	}
	if a != b {
		return 6
	}
	return 7
}

// signed comparisons of int64 use BitVec.slt / BitVec.sle
func Signed(a, b int64) Coin {
	if a < b {
		return 1
	}
	if a <= b {
		return 2
	}
	if a > b {
		return 3
	}
	if a >= b {
		return 4
	}
	if a == b {
		return 5
	}
	if a != b {
		return 6
	}
	if a < -5 {
		return 8
	}
	return 7
}

// boolean connectives without panic sites become one proposition
func Logic(a, b Coin) Coin {
	if a < b && b < 10 || !(a == 3) {
		return 1
	}
	if !(a < b || a > 7) {
		return 2
	}
	return 0
}
