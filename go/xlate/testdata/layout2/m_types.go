package currency

import "errors"

type Coin uint64

var ErrNeg = errors.New("negative")
var ErrBig = errors.New("too big")
